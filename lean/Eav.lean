import Eav.Model
import Eav.Props.GenTie
import Eav.Lemmas.Str
import Eav.Props.C11
import Eav.Props.C07
import Eav.Props.C14
