import Eav.Model
import Eav.Props.GenTie
