/-!
# Basic definitions shared by the model of libeav

Bytes are plain `Nat` (the driver converts from `UInt8`).  A C call `f(start, end)` on a
NUL-terminated buffer is modelled as `f (s after : List Nat)`: `s` are the bytes of
`[start,end)`, `after` the bytes from `*end` up to and including the terminating NUL.
A read past the last byte of `after` is `Fault.oob`.
-/
namespace Eav

/-- Ways in which the modelled C code can leave defined behaviour. -/
inductive Fault
  | oob        -- read outside `[first byte, terminator]`
  | uninit     -- read of a field `eav_init` did not set
  | abort      -- `abort()` reached
  | assert     -- `assert()` failed
  | badfree    -- `free` of a block that is not live
  | nullcb     -- call through a NULL callback
  | overflow   -- write past a fixed-size buffer
  deriving Repr, DecidableEq, Inhabited

def Fault.toString : Fault → String
  | .oob => "oob" | .uninit => "uninit" | .abort => "abort" | .assert => "assert"
  | .badfree => "badfree" | .nullcb => "nullcb" | .overflow => "overflow"

instance instDecEqExcept {ε α : Type} [DecidableEq ε] [DecidableEq α] : DecidableEq (Except ε α) := fun a b =>
  match a, b with
  | .ok x, .ok y => if h : x = y then isTrue (by rw [h]) else isFalse (fun e => h (by cases e; rfl))
  | .error x, .error y => if h : x = y then isTrue (by rw [h]) else isFalse (fun e => h (by cases e; rfl))
  | .ok _, .error _ => isFalse (fun e => by cases e)
  | .error _, .ok _ => isFalse (fun e => by cases e)

/-! ### `<ctype.h>` in the "C" locale, guarded by `isascii` as in `include/eav/private.h` -/

def isDigit (c : Nat) : Bool := decide (48 ≤ c) && decide (c ≤ 57)
def isUpper (c : Nat) : Bool := decide (65 ≤ c) && decide (c ≤ 90)
def isLower (c : Nat) : Bool := decide (97 ≤ c) && decide (c ≤ 122)
def isAlpha (c : Nat) : Bool := isUpper c || isLower c
def isAlnum (c : Nat) : Bool := isDigit c || isAlpha c
/-- `ISCNTRL`: `isascii(c) && iscntrl(c)` -/
def isCntrl (c : Nat) : Bool := decide (c < 32) || c == 127
/-- the `strspn` set "0123456789abcdefABCDEF" -/
def isHex (c : Nat) : Bool :=
  isDigit c || (decide (65 ≤ c) && decide (c ≤ 70)) || (decide (97 ≤ c) && decide (c ≤ 102))
/-- `tolower` in the "C" locale -/
def toLower (c : Nat) : Nat := if isUpper c then c + 32 else c

def lowerAll (s : List Nat) : List Nat := s.map toLower

/-- every byte is a non-NUL octet -/
def NulFree (s : List Nat) : Prop := ∀ c ∈ s, c ≠ 0
def IsBytes (s : List Nat) : Prop := ∀ c ∈ s, c < 256

def nulFreeB (s : List Nat) : Bool := s.all (· != 0)

/-- `cp[1]`-style read: first byte of `cs`, else first byte of `after`, else out of bounds. -/
def peek (cs after : List Nat) : Except Fault Nat :=
  match cs with
  | c :: _ => .ok c
  | [] => match after with
    | a :: _ => .ok a
    | [] => .error .oob

/-- `strncasecmp(a, b, n) == 0` on NUL-terminated strings given as NUL-free lists WITHOUT
their terminator (the terminator is implied at the end of each list). -/
def strncaseeq : List Nat → List Nat → Nat → Bool
  | _, _, 0 => true
  | [], [], _ + 1 => true            -- both at NUL
  | [], _ :: _, _ + 1 => false
  | _ :: _, [], _ + 1 => false
  | a :: as, b :: bs, n + 1 => toLower a == toLower b && strncaseeq as bs n

/-- split at the first `.` : `strchr(cp, '.')` -/
def splitDots : List Nat → List (List Nat)
  | [] => [[]]
  | c :: cs =>
    if c == 46 then [] :: splitDots cs
    else match splitDots cs with
      | l :: ls => (c :: l) :: ls
      | [] => [[c]]   -- unreachable: `splitDots` never returns `[]`

def hexDigit (n : Nat) : Char :=
  if n < 10 then Char.ofNat (48 + n) else Char.ofNat (87 + n)

end Eav
