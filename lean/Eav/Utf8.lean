import Eav.Basic
/-!
# `src/utf8_decode.c` — the "very strict" UTF-8 decoder

`decodeNext` is `utf8_decode_next` on the remaining input `[the_index, the_length)`: the
character and the input after it, `fin` (UTF8_END) or `err` (UTF8_ERROR; the callers stop at
the first error, so the cursor after an error is not modelled).
The bit tests of the C code are written arithmetically
(`(c & 0xE0) == 0xC0` is `192 ≤ c < 224`, `c & 0x1F` is `c % 32`, `(a << 6) | b` is `64 a + b`
for `b < 64`, a missing byte — `get` returning UTF8_END — is not a continuation byte);
the correspondence check runs every 1–3 byte sequence and a cover of the 4-byte ones
through both.
-/
namespace Eav

inductive Dec
  | fin                                  -- UTF8_END
  | err                                  -- UTF8_ERROR
  | ch (cp : Nat) (rest : List Nat)      -- a character and the input after it
  deriving Repr, DecidableEq

/-- `(c & 0xC0) == 0x80` -/
def isCont (c : Nat) : Bool := decide (128 ≤ c) && decide (c < 192)

def decodeNext : List Nat → Dec
  | [] => .fin
  | c :: cs =>
    if c < 128 then .ch c cs
    else if c < 192 then .err
    else if c < 224 then
      match cs with
      | c1 :: r =>
        if isCont c1 then
          let v := (c % 32) * 64 + c1 % 64
          if v ≥ 128 then .ch v r else .err
        else .err
      | [] => .err
    else if c < 240 then
      match cs with
      | c1 :: c2 :: r =>
        if isCont c1 && isCont c2 then
          let v := (c % 16) * 4096 + (c1 % 64) * 64 + c2 % 64
          if v ≥ 2048 ∧ (v < 55296 ∨ v > 57343) then .ch v r else .err
        else .err
      | _ => .err
    else if c < 248 then
      match cs with
      | c1 :: c2 :: c3 :: r =>
        if isCont c1 && isCont c2 && isCont c3 then
          let v := (c % 8) * 262144 + (c1 % 64) * 4096 + (c2 % 64) * 64 + c3 % 64
          if v ≥ 65536 ∧ v ≤ 1114111 then .ch v r else .err
        else .err
      | _ => .err
    else .err

theorem decodeNext_length {l : List Nat} {cp : Nat} {r : List Nat}
    (h : decodeNext l = .ch cp r) : r.length < l.length := by
  unfold decodeNext at h
  split at h
  · cases h
  · simp only at h
    repeat' split at h
    all_goals first
      | (cases h; done)
      | (cases h; simp only [List.length_cons]; omega)

end Eav
