import Eav.Basic
import Eav.Codes
/-!
# `src/is_ascii_domain.c` (Postfix `valid_hostname`, end-pointer variant)
-/
namespace Eav

/-- `ISALNUM(ch)`, or `ISALNUM(ch) || ch == '_'` under `LABELS_ALLOW_UNDERSCORE` -/
def labelChar (us : Bool) (c : Nat) : Bool := isAlnum c || (us && c == 95)

/-- after the loop: empty last label, then the numeric-host test -/
def domFin (ll : Nat) (nn : Bool) : Int :=
  if ll == 0 then -(E.DOMAIN_MISPLACED_DELIMITER : Int)
  else if nn then 0 else -(E.DOMAIN_NUMERIC : Int)

/-- the `for` loop; `ll` = `label_length`, `nn` = `non_numeric` -/
def domLoop (us : Bool) : List Nat → List Nat → Nat → Bool → Except Fault Int
  | [], _, ll, nn => .ok (domFin ll nn)
  | c :: cs, after, ll, nn =>
    if c == 0 then .ok (domFin ll nn)
    else if labelChar us c then
      if ll + 1 > Lim.VALID_LABEL_LEN then .ok (-(E.DOMAIN_LABEL_TOO_LONG : Int))
      else domLoop us cs after (ll + 1) (nn || !isDigit c)
    else if c == 46 then
      if ll == 0 then .ok (-(E.DOMAIN_MISPLACED_DELIMITER : Int)) else domLoop us cs after 0 nn
    else if c == 45 then
      if ll + 1 == 1 then .ok (-(E.DOMAIN_MISPLACED_HYPHEN : Int))     -- short-circuit: cp[1] not read
      else do
        let nx ← peek cs after                                          -- cp[1]; may be *end
        if nx == 0 || nx == 46 then .ok (-(E.DOMAIN_MISPLACED_HYPHEN : Int))
        else domLoop us cs after (ll + 1) true
    else .ok (-(E.DOMAIN_INVALID_CHAR : Int))

def isAsciiDomain (us : Bool) (s after : List Nat) : Except Fault Int :=
  if s.length == 0 then .ok (-(E.DOMAIN_EMPTY : Int))
  else if s.length ≥ Lim.VALID_HOSTNAME_LEN
      || (s.length == Lim.VALID_HOSTNAME_LEN - 1 && s.getLast? != some 46) then
    .ok (-(E.DOMAIN_TOO_LONG : Int))
  else if s.length ≥ 2 && s.getLast? == some 46 then
    domLoop us s.dropLast (46 :: after) 0 false     -- `end--`: `*end` is now the root dot
  else domLoop us s after 0 false

end Eav
