import Eav.Basic
import Eav.Codes
import Eav.Utf8
/-!
# The four local-part scanners: `src/is_{822,5321,5322,6531}_local.c`

One model function per C function, same order of tests, same return codes.
`prev` is the byte at `cp[-1]` (`none` at `cp == start`; the C code never reads `cp[-1]`
there because `cp == start ||` short-circuits); `cs` is the input after the current byte, so
`cp + 1 == end` is `cs = []` and `cp[1]` is `cs.head`.
-/
namespace Eav

/-- the `case` list "specials & SPACE" shared by all four scanners -/
def specials : List Nat := [40, 41, 60, 62, 64, 44, 59, 58, 92, 91, 93, 32]
/-- the additional `case` list under `RFC6531_FOLLOW_RFC20` -/
def rfc20set : List Nat := [35, 94, 96, 126, 123, 125, 124]
/-- `'"'`, LF, CR, HT, SP: the neighbours that license an unescaped blank (RFC 5322 scanner) -/
def wsq : List Nat := [34, 10, 13, 9, 32]
def blanks : List Nat := [10, 13, 9, 32]

/-- value returned after the loop -/
def locFin (quote : Bool) : Int := if quote then -(E.LPART_UNQUOTED : Int) else 0

/-- the `if (!quote)` branch without the control-character test; common to all scanners.
`none` = error code returned, `some q` = continue with `quote = q`. -/
def unquotedStep (extra : List Nat) (prev : Option Nat) (c : Nat) (cs : List Nat) : Except Int Bool :=
  if c == 34 then
    if prev == none || prev == some 46 then .ok true else .error (-(E.LPART_MISPLACED_QUOTE : Int))
  else if c == 46 then
    if prev == none || cs.isEmpty then .error (-(E.LPART_MISPLACED_DOT : Int))
    else if cs.head? == some 46 then .error (-(E.LPART_TOO_MANY_DOTS : Int))
    else .ok false
  else if specials.contains c || extra.contains c then .error (-(E.LPART_SPECIAL : Int))
  else .ok false

/-- closing quote: a quoted-string is a whole word -/
def closeOk (cs : List Nat) : Bool := cs.isEmpty || cs.head? == some 46

/-! ### RFC 5321 -/

def loc5321Loop : Option Nat → Bool → Bool → List Nat → Int
  | _, quote, _, [] => locFin quote
  | prev, quote, qpair, c :: cs =>
    if c == 0 then locFin quote
    else if c > 127 then -(E.LPART_NOT_ASCII : Int)
    else if isCntrl c then -(E.LPART_CTRL_CHAR : Int)
    else if !quote then
      match unquotedStep [] prev c cs with
      | .error e => e
      | .ok q => loc5321Loop (some c) q qpair cs
    else if qpair then loc5321Loop (some c) quote false cs
    else if c == 34 then
      if closeOk cs then loc5321Loop (some c) false qpair cs else -(E.LPART_MISPLACED_QUOTE : Int)
    else if c == 92 then loc5321Loop (some c) quote true cs
    else loc5321Loop (some c) quote qpair cs

def is5321Local (s : List Nat) : Int :=
  if s.isEmpty then -(E.LPART_EMPTY : Int) else loc5321Loop none false false s

/-! ### RFC 822 — `endByte` is `*end`, which the folding test may read when `cp + 2 == end` -/

def loc822Loop (endByte : Nat) : Option Nat → Bool → Bool → List Nat → Int
  | _, quote, _, [] => locFin quote
  | prev, quote, qpair, c :: cs =>
    if c == 0 then locFin quote
    else if c > 127 then -(E.LPART_NOT_ASCII : Int)
    else if !quote then
      if !qpair && isCntrl c then -(E.LPART_CTRL_CHAR : Int)
      else match unquotedStep [] prev c cs with
        | .error e => e
        | .ok q => loc822Loop endByte (some c) q qpair cs
    else if qpair then loc822Loop endByte (some c) quote false cs
    else if c == 34 then
      if closeOk cs then loc822Loop endByte (some c) false qpair cs else -(E.LPART_MISPLACED_QUOTE : Int)
    else if c == 92 then loc822Loop endByte (some c) quote true cs
    else if c == 13 then
      -- `(cp + 2) <= end && cp[1] == '\n' && (cp[2] == '\t' || cp[2] == ' ')`, then `cp += 2`
      match cs with
      | [] => -(E.LPART_INVALID_FOLDING : Int)
      | [c1] =>
        if c1 == 10 && (endByte == 9 || endByte == 32) then locFin quote   -- cp runs past `end`
        else -(E.LPART_INVALID_FOLDING : Int)
      | c1 :: c2 :: rest =>
        if c1 == 10 && (c2 == 9 || c2 == 32) then loc822Loop endByte (some c2) quote qpair rest
        else -(E.LPART_INVALID_FOLDING : Int)
    else loc822Loop endByte (some c) quote qpair cs

def is822Local (s : List Nat) (endByte : Nat) : Int :=
  if s.isEmpty then -(E.LPART_EMPTY : Int) else loc822Loop endByte none false false s

/-! ### RFC 5322 -/

def loc5322Loop : Option Nat → Bool → Bool → List Nat → Int
  | _, quote, _, [] => locFin quote
  | prev, quote, qpair, c :: cs =>
    if c == 0 then locFin quote
    else if c > 127 then -(E.LPART_NOT_ASCII : Int)
    else if !quote then
      if !qpair && isCntrl c then -(E.LPART_CTRL_CHAR : Int)
      else match unquotedStep [] prev c cs with
        | .error e => e
        | .ok q => loc5322Loop (some c) q qpair cs
    else if qpair then loc5322Loop (some c) quote false cs
    else if c == 34 then
      if closeOk cs then loc5322Loop (some c) false qpair cs else -(E.LPART_MISPLACED_QUOTE : Int)
    else if c == 92 then loc5322Loop (some c) quote true cs
    else if blanks.contains c then
      -- `switch (cp[-1])`: inside a quote `cp > start`, so `prev` is a byte
      if (match prev with | some p => wsq.contains p | none => false) then loc5322Loop (some c) quote qpair cs
      else match cs with
        | [] => loc5322Loop (some c) quote qpair cs         -- `cp >= end - 1`
        | n :: _ => if wsq.contains n then loc5322Loop (some c) quote qpair cs
                    else -(E.LPART_UNQUOTED_FWS : Int)
    else loc5322Loop (some c) quote qpair cs

def is5322Local (s : List Nat) : Int :=
  if s.isEmpty then -(E.LPART_EMPTY : Int) else loc5322Loop none false false s

/-! ### RFC 6531 — decoder driven; `prev` is `start[prev]`, the first byte of the previous
character; `rest` is the input after the current character. -/

structure LBuild where
  rfc20 : Bool := false
  rfc5322 : Bool := false
  deriving Repr, DecidableEq

def loc6531Loop (b : LBuild) (prev : Option Nat) (quote qpair : Bool) (inp : List Nat) : Int :=
  match h : decodeNext inp with
  | .fin => locFin quote
  | .err => -(E.LPART_INVALID_UTF8 : Int)
  | .ch c rest =>
    let first := inp.head?           -- `start[pos]`
    if c > 127 then
      if qpair then -(E.LPART_NOT_ASCII : Int) else loc6531Loop b first quote qpair rest
    else if !b.rfc5322 && isCntrl c then -(E.LPART_CTRL_CHAR : Int)
    else if !quote then
      if b.rfc5322 && !qpair && isCntrl c then -(E.LPART_CTRL_CHAR : Int)
      else match unquotedStep (if b.rfc20 then rfc20set else []) prev c rest with
        | .error e => e
        | .ok q => loc6531Loop b first q qpair rest
    else if qpair then loc6531Loop b first quote false rest
    else if c == 34 then
      if closeOk rest then loc6531Loop b first false qpair rest else -(E.LPART_MISPLACED_QUOTE : Int)
    else if c == 92 then loc6531Loop b first quote true rest
    else if b.rfc5322 && blanks.contains c then
      if (match prev with | some p => wsq.contains p | none => false) then loc6531Loop b first quote qpair rest
      else match rest.head? with
        | none => loc6531Loop b first quote qpair rest
        | some n =>
          if n > 127 || wsq.contains n then loc6531Loop b first quote qpair rest
          else -(E.LPART_UNQUOTED_FWS : Int)
    else loc6531Loop b first quote qpair rest
termination_by inp.length
decreasing_by all_goals exact decodeNext_length h

def is6531Local (b : LBuild) (s : List Nat) : Int :=
  if s.isEmpty then -(E.LPART_EMPTY : Int) else loc6531Loop b none false false s

/-! ### `is_6531_local` as written: the dot tests look at the PREVIOUS character

`src/is_6531_local.c` tests "the previous character is a dot" (`start[prev] == '.'`) where the other three scanners
test "the next byte is a dot" (`cp[1] == '.'`), and it does so before the misplaced-dot test.  `loc6531LoopC` mirrors
that order; `Lemmas/Local6531C.lean` proves it equal, return codes included, to `loc6531Loop` above, which shares
`unquotedStep` with the other scanners and is the form the theorems use.  The driver runs the C-shaped form. -/

def unquotedStep6 (extra : List Nat) (prev : Option Nat) (c : Nat) (cs : List Nat) : Except Int Bool :=
  if c == 34 then
    if prev == none || prev == some 46 then .ok true else .error (-(E.LPART_MISPLACED_QUOTE : Int))
  else if c == 46 then
    -- `pos >= 1 && start[prev] == '.'`, then `pos == 0 || start + pos + 1 == end`
    if prev == some 46 then .error (-(E.LPART_TOO_MANY_DOTS : Int))
    else if prev == none || cs.isEmpty then .error (-(E.LPART_MISPLACED_DOT : Int))
    else .ok false
  else if specials.contains c || extra.contains c then .error (-(E.LPART_SPECIAL : Int))
  else .ok false

def loc6531LoopC (b : LBuild) (prev : Option Nat) (quote qpair : Bool) (inp : List Nat) : Int :=
  match h : decodeNext inp with
  | .fin => locFin quote
  | .err => -(E.LPART_INVALID_UTF8 : Int)
  | .ch c rest =>
    let first := inp.head?           -- `start[pos]`
    if c > 127 then
      if qpair then -(E.LPART_NOT_ASCII : Int) else loc6531LoopC b first quote qpair rest
    else if !b.rfc5322 && isCntrl c then -(E.LPART_CTRL_CHAR : Int)
    else if !quote then
      if b.rfc5322 && !qpair && isCntrl c then -(E.LPART_CTRL_CHAR : Int)
      else match unquotedStep6 (if b.rfc20 then rfc20set else []) prev c rest with
        | .error e => e
        | .ok q => loc6531LoopC b first q qpair rest
    else if qpair then loc6531LoopC b first quote false rest
    else if c == 34 then
      if closeOk rest then loc6531LoopC b first false qpair rest else -(E.LPART_MISPLACED_QUOTE : Int)
    else if c == 92 then loc6531LoopC b first quote true rest
    else if b.rfc5322 && blanks.contains c then
      if (match prev with | some p => wsq.contains p | none => false) then loc6531LoopC b first quote qpair rest
      else match rest.head? with
        | none => loc6531LoopC b first quote qpair rest
        | some n =>
          if n > 127 || wsq.contains n then loc6531LoopC b first quote qpair rest
          else -(E.LPART_UNQUOTED_FWS : Int)
    else loc6531LoopC b first quote qpair rest
termination_by inp.length
decreasing_by all_goals exact decodeNext_length h

def is6531LocalC (b : LBuild) (s : List Nat) : Int :=
  if s.isEmpty then -(E.LPART_EMPTY : Int) else loc6531LoopC b none false false s

end Eav
