import Eav.Basic
import Eav.Codes
/-!
# `src/is_special_domain.c` and `src/is_tld.c`

Both are modelled under the contract of all their call sites: `end` is the position of the
terminating NUL (`end == start + strlen(start)`), so `strchr`, which ignores `end`, stops where
`end` is.  `s` is the NUL-free domain; pointers are suffixes of `s`.
-/
namespace Eav

/-- `strchr(cp, '.')`: `none` = NULL, `some r` = the suffix starting AFTER the dot (`ch + 1`) -/
def afterDot : List Nat → Option (List Nat)
  | [] => none
  | c :: cs => if c == 46 then some cs else afterDot cs

/-- the bytes of `[cp, strchr(cp,'.'))`, or up to the end when there is no dot -/
def upToDot : List Nat → List Nat
  | [] => []
  | c :: cs => if c == 46 then [] else c :: upToDot cs

/-- `for (cp = start; (ch = strchr (cp, '.')) != 0; cp = ch + 1, count++);` -/
def countDots : List Nat → Nat
  | [] => 0
  | c :: cs => if c == 46 then countDots cs + 1 else countDots cs

/-- `while (count >= 2) { ch = strchr (cp, '.'); cp = ch + 1; count--; }`
(a missing dot would be a NULL dereference: `none`) -/
def skipLabels : Nat → List Nat → Option (List Nat)
  | count + 1, cp => if count + 1 ≥ 2 then (afterDot cp).bind (skipLabels count) else some cp
  | 0, cp => some cp

def reservedTable : List (List Nat × Nat) :=
  [([116, 101, 115, 116], 5), ([101, 120, 97, 109, 112, 108, 101], 8), ([105, 110, 118, 97, 108, 105, 100], 8),
   ([108, 111, 99, 97, 108, 104, 111, 115, 116], 10), ([111, 110, 105, 111, 110], 6)]
def exampleTable : List (List Nat × Nat) :=
  [([99, 111, 109], 4), ([110, 101, 116], 4), ([111, 114, 103], 4)]
def exampleLabel : List Nat := [101, 120, 97, 109, 112, 108, 101]

/-- `CHECK(a, d)`: `strncasecmp (d, a[i].domain, a[i].length) == 0` for some row -/
def checkTable (tbl : List (List Nat × Nat)) (d : List Nat) : Bool :=
  tbl.any (fun r => strncaseeq d r.1 r.2)

def lenFilter (len : Nat) : Bool := len < 4 || len > 9 || len == 6 || len == 8

/-- `memcpy (label, cp, len); label[len] = 0` into `char label[LABEL_SIZE]` -/
def copyLabel (cp : List Nat) (len : Nat) : Except Fault (List Nat) :=
  if len + 1 > Lim.LABEL_SIZE then .error .overflow else .ok (cp.take len)

/-- the `if (len == 7) { … }` block: is the pair (second-to-last, last) `example.{com,net,org}`?
`cp` points at the second-to-last label, `rest` behind its dot. -/
def exampleHit (cp rest : List Nat) : Except Fault Bool :=
  if (upToDot cp).length == 7 then
    match copyLabel cp 7 with
    | .error e => .error e
    | .ok label =>
      if strncaseeq exampleLabel label 8 then
        if (upToDot rest).length == 3 then
          match copyLabel rest 3 with
          | .error e => .error e
          | .ok l3 => .ok (checkTable exampleTable l3)
        else .ok false
      else .ok false
  else .ok false

/-- "check only the last label" -/
def lastLabelHit (rest : List Nat) : Except Fault Bool :=
  if lenFilter (upToDot rest).length then .ok false
  else match copyLabel rest (upToDot rest).length with
    | .error e => .error e
    | .ok l => .ok (checkTable reservedTable l)

def isSpecialDomain (s : List Nat) : Except Fault Bool :=
  if countDots s == 0 then
    if lenFilter s.length then .ok false else .ok (checkTable reservedTable s)
  else
    -- `if (end[-1] == '.') --count;`   (count ≥ 1, so `s` is not empty)
    match skipLabels (if s.getLast? == some 46 then countDots s - 1 else countDots s) s with
    | none => .error .oob
    | some cp =>
      match afterDot cp with                  -- `ch = strchr (cp, '.')`, `len = ch - cp`
      | none => .error .oob
      | some rest =>
        match exampleHit cp rest with
        | .error e => .error e
        | .ok true => .ok true
        | .ok false => lastLabelHit rest

end Eav
