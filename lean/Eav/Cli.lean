import Eav.Basic
import Eav.Utf8
/-!
# `bin/main.c` / `bin/main.h`: the `eav` tool

`getline` semantics: a line ends after each LF; the last line may lack one.  The buffer is used as a
C string afterwards, so a NUL inside a line truncates it.
-/
namespace Eav

/-- split a file into `getline` records (each with its terminating LF, if it has one) -/
def getlinesAux : List Nat → List Nat → List (List Nat)
  | acc, [] => if acc.isEmpty then [] else [acc.reverse]
  | acc, c :: cs => if c == 10 then (c :: acc).reverse :: getlinesAux [] cs else getlinesAux (c :: acc) cs

def getlines (file : List Nat) : List (List Nat) := getlinesAux [] file

/-- C-string view: the bytes before the first NUL -/
def cstr : List Nat → List Nat
  | [] => []
  | c :: cs => if c == 0 then [] else c :: cstr cs

/-- what `parse_file` hands to `eav_is_email` for one `getline` record; `none` for a comment line -/
def trimLine (rec : List Nat) : Option (List Nat) :=
  -- `read >= 2 && memcmp (line + read - 2, "\r\n", 2) == 0` → cut there; else `line[read-1] == '\n'` → cut there
  let n := rec.length
  let line :=
    if n ≥ 2 && rec.drop (n - 2) == [13, 10] then rec.take (n - 2)
    else if n ≥ 1 && rec.getLast? == some 10 then rec.take (n - 1)
    else rec
  let line := cstr line
  if line.head? == some 35 then none
  else
    let cp := if line.head? == some 32 then line.drop 1 else line
    -- `len > 0 && (cp[len - 1] == ' ' || cp[len - 1] == '\t')`
    if cp.getLast? == some 32 || cp.getLast? == some 9 then some cp.dropLast else some cp

/-- the addresses validated, in input order -/
def cliLines (file : List Nat) : List (List Nat) := (getlines file).filterMap trimLine

def hex2 (b : Nat) : List Nat := [48, 120, (hexDigit (b / 16 % 16)).toNat, (hexDigit (b % 16)).toNat]   -- "0x%02x"

/-- `fput_sanitized_utf8`: control characters and everything from the first ill-formed sequence on
are written as `0xHH`, every other character is copied unchanged -/
def sanitize (text : List Nat) : List Nat :=
  match h : decodeNext text with
  | .fin => []
  | .err => text.flatMap hex2
  | .ch c rest =>
    (if c < 32 || c == 127 then hex2 c else text.take (text.length - rest.length)) ++ sanitize rest
termination_by text.length
decreasing_by exact decodeNext_length h

end Eav
