/-!
# Error codes, TLD classes, bit masks and limits as the model uses them.

These are literal numbers so that `omega`/`decide` see through them; the tie to the
headers is `Eav/Props/GenTie.lean`, which proves that the values extracted from
`include/eav.h`, `include/eav/auto_tld.h` and `include/eav/private.h` on this run
(`Eav/Gen/Enums.lean`) are exactly these.
-/
namespace Eav.E
abbrev NO_ERROR : Nat := 0
abbrev INVALID_RFC : Nat := 1
abbrev IDN_ERROR : Nat := 2
abbrev EMAIL_EMPTY : Nat := 3
abbrev LPART_EMPTY : Nat := 4
abbrev LPART_TOO_LONG : Nat := 5
abbrev LPART_NOT_ASCII : Nat := 6
abbrev LPART_SPECIAL : Nat := 7
abbrev LPART_CTRL_CHAR : Nat := 8
abbrev LPART_MISPLACED_QUOTE : Nat := 9
abbrev LPART_UNQUOTED : Nat := 10
abbrev LPART_TOO_MANY_DOTS : Nat := 11
abbrev LPART_MISPLACED_DOT : Nat := 12
abbrev LPART_UNQUOTED_FWS : Nat := 13
abbrev LPART_INVALID_FOLDING : Nat := 14
abbrev LPART_INVALID_UTF8 : Nat := 15
abbrev DOMAIN_EMPTY : Nat := 16
abbrev DOMAIN_LABEL_TOO_LONG : Nat := 17
abbrev DOMAIN_MISPLACED_HYPHEN : Nat := 18
abbrev DOMAIN_MISPLACED_DELIMITER : Nat := 19
abbrev DOMAIN_INVALID_CHAR : Nat := 20
abbrev DOMAIN_TOO_LONG : Nat := 21
abbrev DOMAIN_NUMERIC : Nat := 22
abbrev DOMAIN_NOT_FQDN : Nat := 23
abbrev IPADDR_INVALID : Nat := 24
abbrev IPADDR_BRACKET_UNPAIR : Nat := 25
abbrev TLD_INVALID : Nat := 26
abbrev TLD_NOT_ASSIGNED : Nat := 27
abbrev TLD_COUNTRY_CODE : Nat := 28
abbrev TLD_GENERIC : Nat := 29
abbrev TLD_GENERIC_RESTRICTED : Nat := 30
abbrev TLD_INFRASTRUCTURE : Nat := 31
abbrev TLD_SPONSORED : Nat := 32
abbrev TLD_TEST : Nat := 33
abbrev TLD_SPECIAL : Nat := 34
abbrev TLD_RETIRED : Nat := 35
abbrev MAX : Nat := 36

/-- the names in enum order, used to check `Gen.Enums` and `errors[]` -/
def names : List String := ["EEAV_NO_ERROR", "EEAV_INVALID_RFC", "EEAV_IDN_ERROR", "EEAV_EMAIL_EMPTY",
  "EEAV_LPART_EMPTY", "EEAV_LPART_TOO_LONG", "EEAV_LPART_NOT_ASCII", "EEAV_LPART_SPECIAL",
  "EEAV_LPART_CTRL_CHAR", "EEAV_LPART_MISPLACED_QUOTE", "EEAV_LPART_UNQUOTED", "EEAV_LPART_TOO_MANY_DOTS",
  "EEAV_LPART_MISPLACED_DOT", "EEAV_LPART_UNQUOTED_FWS", "EEAV_LPART_INVALID_FOLDING",
  "EEAV_LPART_INVALID_UTF8", "EEAV_DOMAIN_EMPTY", "EEAV_DOMAIN_LABEL_TOO_LONG",
  "EEAV_DOMAIN_MISPLACED_HYPHEN", "EEAV_DOMAIN_MISPLACED_DELIMITER", "EEAV_DOMAIN_INVALID_CHAR",
  "EEAV_DOMAIN_TOO_LONG", "EEAV_DOMAIN_NUMERIC", "EEAV_DOMAIN_NOT_FQDN", "EEAV_IPADDR_INVALID",
  "EEAV_IPADDR_BRACKET_UNPAIR", "EEAV_TLD_INVALID", "EEAV_TLD_NOT_ASSIGNED", "EEAV_TLD_COUNTRY_CODE",
  "EEAV_TLD_GENERIC", "EEAV_TLD_GENERIC_RESTRICTED", "EEAV_TLD_INFRASTRUCTURE", "EEAV_TLD_SPONSORED",
  "EEAV_TLD_TEST", "EEAV_TLD_SPECIAL", "EEAV_TLD_RETIRED", "EEAV_MAX"]
end Eav.E

namespace Eav.T
/-! `TLD_TYPE_*` of `include/eav/auto_tld.h` -/
abbrev NOT_ASSIGNED : Nat := 1
abbrev COUNTRY_CODE : Nat := 2
abbrev GENERIC : Nat := 3
abbrev GENERIC_RESTRICTED : Nat := 4
abbrev INFRASTRUCTURE : Nat := 5
abbrev SPONSORED : Nat := 6
abbrev TEST : Nat := 7
abbrev SPECIAL : Nat := 8
abbrev RETIRED : Nat := 9
def names : List String := ["TLD_TYPE_UNUSED", "TLD_TYPE_NOT_ASSIGNED", "TLD_TYPE_COUNTRY_CODE",
  "TLD_TYPE_GENERIC", "TLD_TYPE_GENERIC_RESTRICTED", "TLD_TYPE_INFRASTRUCTURE", "TLD_TYPE_SPONSORED",
  "TLD_TYPE_TEST", "TLD_TYPE_SPECIAL", "TLD_TYPE_RETIRED", "TLD_TYPE_MAX"]
end Eav.T

namespace Eav.Lim
abbrev VALID_HOSTNAME_LEN : Nat := 255
abbrev VALID_LABEL_LEN : Nat := 63
abbrev VALID_LPART_LEN : Nat := 64
abbrev LABEL_SIZE : Nat := 64
abbrev DOMAIN_SIZE : Nat := 1024
end Eav.Lim
