import Eav.Cost
import Eav.Email
/-!
# Work counters for the whole of `is_*_email`

`Eav/Cost.lean` counts the bytes examined by the functions that scan inside a scan.  Here the counters are
composed along the path `is_*_email` takes: the `strrchr` for the last `@`, the host-name loop (twin
`domLoopT` of `domLoop`: one tick per iteration, one more for the look-ahead behind a hyphen), the reserved-name
test, the `strrchr` for the last dot, the table scan, and for an address literal the `strrchr` for `]`, the
tag comparison, the `strchr` for `:` and the address parser.  The local part is scanned only when it is at
most 64 octets long, whatever the length of the address: its cost is bounded by a constant and entered as
`localCostMax` per call (the four scanners are single-pass loops with at most one look-behind / look-ahead per
step).  The cost of the IDN conversion itself belongs to the IDN library and is not counted; what the library
does with the converter's output is counted in terms of the length of that output.
-/
namespace Eav

/-- the `for` loop of `is_ascii_domain` with ticks -/
def domLoopT (us : Bool) : List Nat → List Nat → Nat → Bool → Except Fault Int × Nat
  | [], _, ll, nn => (.ok (domFin ll nn), 1)
  | c :: cs, after, ll, nn =>
    if c == 0 then (.ok (domFin ll nn), 1)
    else if labelChar us c then
      if ll + 1 > Lim.VALID_LABEL_LEN then (.ok (-(E.DOMAIN_LABEL_TOO_LONG : Int)), 1)
      else let r := domLoopT us cs after (ll + 1) (nn || !isDigit c); (r.1, r.2 + 1)
    else if c == 46 then
      if ll == 0 then (.ok (-(E.DOMAIN_MISPLACED_DELIMITER : Int)), 1)
      else let r := domLoopT us cs after 0 nn; (r.1, r.2 + 1)
    else if c == 45 then
      if ll + 1 == 1 then (.ok (-(E.DOMAIN_MISPLACED_HYPHEN : Int)), 1)
      else match peek cs after with
        | .error e => (.error e, 2)
        | .ok nx =>
          if nx == 0 || nx == 46 then (.ok (-(E.DOMAIN_MISPLACED_HYPHEN : Int)), 2)
          else let r := domLoopT us cs after (ll + 1) true; (r.1, r.2 + 2)
    else (.ok (-(E.DOMAIN_INVALID_CHAR : Int)), 1)

/-- `is_ascii_domain` with ticks (two more for the length tests and the look at the last byte) -/
def isAsciiDomainT (us : Bool) (s after : List Nat) : Except Fault Int × Nat :=
  if s.length == 0 then (.ok (-(E.DOMAIN_EMPTY : Int)), 1)
  else if s.length ≥ Lim.VALID_HOSTNAME_LEN
      || (s.length == Lim.VALID_HOSTNAME_LEN - 1 && s.getLast? != some 46) then
    (.ok (-(E.DOMAIN_TOO_LONG : Int)), 2)
  else if s.length ≥ 2 && s.getLast? == some 46 then
    let r := domLoopT us s.dropLast (46 :: after) 0 false; (r.1, r.2 + 2)
  else let r := domLoopT us s after 0 false; (r.1, r.2 + 2)

/-- the local part is scanned only when it has at most 64 octets: a constant per call -/
def localCostMax : Nat := 4 * Lim.VALID_LPART_LEN + 8

/-- `check_tld()`: reserved-name test, `strrchr` for the last dot, table scan -/
def checkTldTicks (d : List Nat) (tld : Bool) : Nat :=
  if !tld then 1
  else match isSpecialDomain d with
    | .ok false =>
      specialTicks d + (d.length + 1) +
        (match splitLast 46 d with
         | none => 0
         | some (_, last) => tldTicks Gen.tldTable last)
    | _ => specialTicks d

/-- `check_ip()`: length test, `strrchr` for `]`, tag comparison, `strchr` for `:`, the parser -/
def checkIpTicks (d : List Nat) : Nat :=
  if d.length ≤ 8 then 1
  else match splitLast 93 d with
    | none => d.length + 2
    | some (pre, post) =>
      if !post.isEmpty then d.length + 2
      else
        let inner := pre.drop 1
        (d.length + 2) + 5 +
          (if strncaseeq (d.drop 1) tagIPv6 5 then (isIpv6T (inner.drop 5) [93, 0]).2
           else (inner.length + 3) +
             (if inner.contains 58 then (isIpv6T inner [93, 0]).2 else (isIpv4T inner [93, 0]).2))

/-- the host-name branch: for mode 6531 the work is done on the converter's output -/
def hostTicks (b : Build) (conv : List Nat → Conv) (m : Mode) (d : List Nat) (tld : Bool) : Nat :=
  match m with
  | .m6531 =>
    let c := conv d
    if d.isEmpty || c.rc != 0 then 1
    else match c.out with
      | none => 1
      | some a =>
        (a.length + 1) +                                  -- `strlen` of the converted name
        (isAsciiDomainT b.underscore a [0]).2 +
          (if isAsciiDomain b.underscore a [0] == .ok 0 then checkTldTicks a tld else 0)
  | _ =>
    (isAsciiDomainT b.underscore d [0]).2 +
      (if isAsciiDomain b.underscore d [0] == .ok 0 then checkTldTicks d tld else 0)

/-- bytes examined by one `is_*_email` call, along the path the model takes -/
def emailTicks (b : Build) (conv : List Nat → Conv) (m : Mode) (email : List Nat) (tld : Bool) : Nat :=
  if email.isEmpty then 1
  else (email.length + 1) +                               -- `strrchr (email, '@')`
    (match splitLast 64 email with
     | none => 0
     | some (l, d) =>
       if d.isEmpty then 0
       else if l.length > Lim.VALID_LPART_LEN then 0
       else localCostMax +
         (if localOf b m l != 0 then 0
          else if d.head? != some 91 then hostTicks b conv m d tld
          else checkIpTicks d))

/-- length of what the converter hands back for `d` (0 when it hands back nothing) -/
def convLen (conv : List Nat → Conv) (d : List Nat) : Nat :=
  match (conv d).out with
  | some a => a.length
  | none => 0

end Eav
