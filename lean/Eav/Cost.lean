import Eav.Ip
import Eav.Special
import Eav.Tld
/-!
# Work counters ("ticks") for the functions that scan inside a scan

Every modelled loop is a structural recursion that consumes at least one byte per iteration and does a bounded amount of work in it, so
the single-pass loops (`is_ascii_domain`, the four local-part scanners, the UTF-8 decoder) are linear by construction.  The functions
below are the ones where a library scan (`strspn`, `strchr`, `strncasecmp`, a nested call) sits INSIDE such a loop; each gets a twin that
returns the model's result together with the number of bytes examined.  `Props/C06Cost.lean` proves that the first component is the model
function itself and that the second is bounded by a linear function of the input length.
-/
namespace Eav

/-- bytes `strspn (start, "0.")` examines (the byte that stops it included) -/
def zeroDotSpan : List Nat → Nat
  | [] => 0
  | c :: cs => if c == 48 || c == 46 then zeroDotSpan cs + 1 else 1

/-- `is_ipv4` loop with ticks: one per iteration, plus the bytes `strspn` examines -/
def ipv4LoopT (whole : List Nat) : List Nat → Bool → Nat → Nat → Except Fault Bool × Nat
  | [], _, _, bc => (.ok (bc == 4), 1)
  | c :: cs, inByte, bv, bc =>
    if c == 0 then (.ok (bc == 4), 1)
    else if isDigit c then
      let bc' := if inByte then bc else bc + 1
      let bv' := (if inByte then bv else 0) * 10 + (c - 48)
      if bv' > 255 then (.ok false, 1)
      else let r := ipv4LoopT whole cs true bv' bc'; (r.1, r.2 + 1)
    else if c == 46 then
      if !inByte || cs.isEmpty || cs.head? == some 0 then (.ok false, 1)
      else if bc == 1 && bv == 0 then
        match byteAfterZeroDots whole with
        | .error e => (.error e, 1 + zeroDotSpan whole)
        | .ok b =>
          if b != 0 then (.ok false, 1 + zeroDotSpan whole)
          else let r := ipv4LoopT whole cs false bv bc; (r.1, r.2 + 1 + zeroDotSpan whole)
      else let r := ipv4LoopT whole cs false bv bc; (r.1, r.2 + 1)
    else (.ok false, 1)

def isIpv4T (s after : List Nat) : Except Fault Bool × Nat := ipv4LoopT (s ++ after) s false 0 0

/-- bytes `strspn (cp, hex digits)` examines: the run and the byte that ends it (everything, when it runs off the modelled memory) -/
def hexSpanCost (l : List Nat) : Nat :=
  match spanHex l with
  | some n => n + 1
  | none => l.length

/-- `is_ipv6` loop with ticks: one per iteration, the bytes each `strspn` examines, and the ticks of the `is_ipv4` call on a dotted tail -/
def ipv6LoopT : List Nat → List Nat → Nat → Nat → List Nat → Nat → Except Fault Bool × Nat
  | [], _, field, nullField, run, _ => (.ok (ipv6Fin field nullField run.length), 1)
  | c :: cs, after, field, nullField, run, skip =>
    if skip > 0 then let r := ipv6LoopT cs after field nullField run (skip - 1); (r.1, r.2 + 1)
    else if c == 0 then (.ok (ipv6Fin field nullField run.length), 1)
    else if c == 46 then
      if field < 2 || field > 6 then (.ok false, 1)
      else if nullField == 0 && field != 6 then (.ok false, 1)
      else let r := ipv4LoopT (run ++ c :: cs ++ after) (run ++ c :: cs) false 0 0; (r.1, r.2 + 1)
    else if c == 58 then
      match (if field == 0 && run.length == 0 then (peek cs after).map isAlnum else .ok false) with
      | .error e => (.error e, 1)
      | .ok true => (.ok false, 1)
      | .ok false =>
        let field' := field + 1
        if field' > 7 then (.ok false, 1)
        else match peek cs after with
          | .error e => (.error e, 1)
          | .ok n =>
            if n == 58 then
              if nullField > 0 then (.ok false, 1) else let r := ipv6LoopT cs after field' field' [] 0; (r.1, r.2 + 1)
            else let r := ipv6LoopT cs after field' nullField [] 0; (r.1, r.2 + 1)
    else
      match spanHex (c :: cs ++ after) with
      | none => (.error .oob, 1 + hexSpanCost (c :: cs ++ after))
      | some n =>
        if n > 4 then (.ok false, 1 + hexSpanCost (c :: cs ++ after))
        else if n == 0 then (.ok false, 1 + hexSpanCost (c :: cs ++ after))
        else let r := ipv6LoopT cs after field nullField ((c :: cs ++ after).take n) (n - 1); (r.1, r.2 + 1 + hexSpanCost (c :: cs ++ after))

def isIpv6T (s after : List Nat) : Except Fault Bool × Nat := ipv6LoopT s after 0 0 [] 0

/-! ### `is_tld`, `is_special_domain`: how many bytes the library scans examine, computed along the model's own path -/

/-- positions `strncasecmp (a, b, n)` examines -/
def cmpTicks : List Nat → List Nat → Nat → Nat
  | _, _, 0 => 0
  | [], [], _ + 1 => 1
  | [], _ :: _, _ + 1 => 1
  | _ :: _, [], _ + 1 => 1
  | a :: as, b :: bs, n + 1 => if toLower a == toLower b then cmpTicks as bs n + 1 else 1

/-- the table scan of `is_tld`: the comparisons made until the first hit -/
def tldTicks : List (List Nat × Nat × Nat) → List Nat → Nat
  | [], _ => 0
  | (name, len, _) :: rows, s => if strncaseeq name s len then cmpTicks name s len else cmpTicks name s len + tldTicks rows s

/-- Σ `length` over the table: what a complete miss costs at most -/
def tableWeight : List (List Nat × Nat × Nat) → Nat
  | [] => 0
  | (_, len, _) :: rows => len + tableWeight rows

/-- `is_special_domain`: bytes examined by the label-count loop, the skip loop, the `strchr`s, the two copies and the table compares,
following the path the model takes (`countDots`, `skipLabels`, `afterDot`, `upToDot` are the model's own functions) -/
def specialTicks (s : List Nat) : Nat :=
  (s.length + 1) +
  (if countDots s == 0 then 50
   else
     match skipLabels (if s.getLast? == some 46 then countDots s - 1 else countDots s) s with
     | none => s.length
     | some cp =>
       (s.length - cp.length) +
       (match afterDot cp with
        | none => cp.length + 1
        | some rest =>
          (cp.length - rest.length) +
          (if (upToDot cp).length == 7 then 7 + 8 + ((upToDot rest).length + 1) + 3 + 12 else 0) +
          ((upToDot rest).length + 1) + 9 + 50))

end Eav
