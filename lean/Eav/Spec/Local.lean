import Eav.Basic
/-!
# Specification of local parts (properties C02, C03, C12, C17)

Written from the property text and RFC 822 / 5321 / 5322 / 6531, not from the code:
`local-part = word *("." word)`, `word = atom / quoted-string`.

For mode 6531 the grammar is read over *characters*: the input is first decoded as strict UTF-8
and every non-ASCII character is represented by a symbol `≥ 128` (`Spec.collapse`).
-/
namespace Eav.Spec

inductive LMode | m822 | m5321 | m5322 | m6531
  deriving DecidableEq, Repr

/-- RFC 822 `specials` (the same set in RFC 5322) -/
def special (b : Nat) : Bool := [40, 41, 60, 62, 64, 44, 59, 58, 92, 34, 46, 91, 93].contains b
/-- printable ASCII other than space and the specials -/
def atextAscii (b : Nat) : Bool := decide (33 ≤ b) && decide (b ≤ 126) && !special b
/-- atom characters of a mode; in 6531 a non-ASCII character is one more atom character -/
def atext (m : LMode) (b : Nat) : Bool := atextAscii b || (m == .m6531 && decide (128 ≤ b))

/-- the pieces of quoted content -/
inductive QItem
  | ch (b : Nat)        -- qtext
  | pair (b : Nat)      -- quoted-pair  "\" b
  | fold (w : Nat)      -- CRLF followed by SP / HT (RFC 822 folding)
  deriving DecidableEq, Repr

def QItem.bytes : QItem → List Nat
  | .ch b => [b]
  | .pair b => [92, b]
  | .fold w => [13, 10, w]

def ascii (b : Nat) : Bool := decide (1 ≤ b) && decide (b ≤ 127)
def printable (b : Nat) : Bool := decide (32 ≤ b) && decide (b ≤ 126)

/-- which pieces a mode admits inside a quoted string -/
def okItem : LMode → QItem → Bool
  | .m822, .ch b => ascii b && b != 34 && b != 92 && b != 13
  | .m822, .pair b => ascii b
  | .m822, .fold w => w == 32 || w == 9
  | .m5321, .ch b => printable b && b != 34 && b != 92
  | .m5321, .pair b => printable b
  | .m5321, .fold _ => false
  | .m5322, .ch b => ascii b && b != 34 && b != 92
  | .m5322, .pair b => ascii b
  | .m5322, .fold _ => false
  | .m6531, .ch b => (printable b && b != 34 && b != 92) || decide (128 ≤ b)
  | .m6531, .pair b => printable b
  | .m6531, .fold _ => false

def flat (items : List QItem) : List Nat := items.flatMap QItem.bytes

/-- DQUOTE, LF, CR, HT, SP -/
def wsq (b : Nat) : Bool := b == 34 || b == 10 || b == 13 || b == 9 || b == 32
def blank (b : Nat) : Bool := b == 10 || b == 13 || b == 9 || b == 32

/-- first raw byte of the rest of the quoted string (the closing DQUOTE when nothing is left) -/
def nextRaw : List QItem → Nat
  | [] => 34
  | .ch b :: _ => b
  | .pair _ :: _ => 92
  | .fold _ :: _ => 13

/-- RFC 5322 reading of the property: an unescaped SP/HT/CR/LF is admitted only next to a DQUOTE or
another such byte, "next to" meaning the raw neighbouring byte of the local part.
`prev` is the raw byte before the rest of the items. -/
def wsOk (prev : Nat) : List QItem → Bool
  | [] => true
  | .ch b :: rest => (!blank b || wsq prev || wsq (nextRaw rest)) && wsOk b rest
  | .pair b :: rest => wsOk b rest
  | .fold w :: rest => wsOk w rest

def IsQuoted (m : LMode) (w : List Nat) : Prop :=
  ∃ items : List QItem, (∀ it ∈ items, okItem m it = true) ∧ w = 34 :: flat items ++ [34] ∧
    (m = .m5322 → wsOk 34 items = true)

def IsAtom (m : LMode) (w : List Nat) : Prop := w ≠ [] ∧ ∀ b ∈ w, atext m b = true
def IsWord (m : LMode) (w : List Nat) : Prop := IsAtom m w ∨ IsQuoted m w

def join : List (List Nat) → List Nat
  | [] => []
  | [w] => w
  | w :: w' :: ws => w ++ 46 :: join (w' :: ws)

/-- `word *("." word)` -/
def IsLocal (m : LMode) (s : List Nat) : Prop :=
  ∃ ws : List (List Nat), ws ≠ [] ∧ (∀ w ∈ ws, IsWord m w) ∧ s = join ws

/-! ### Executable recogniser of the same language (proved equal to `IsLocal` in `Lemmas/LocalGrammar`) -/

inductive St
  | wordStart | inAtom | afterQuote
  | inQuote (prev : Nat)      -- inside a quoted string; `prev` = raw previous byte
  | inPair                    -- after a backslash
  | fold1                     -- after CR, expecting LF     (822)
  | fold2                     -- after CR LF, expecting SP / HT  (822)
  deriving DecidableEq, Repr

/-- the RFC 5322 blank rule at an unescaped byte `b` of quoted content: refused when `b` is a blank and
neither raw neighbour is a DQUOTE or a blank -/
def blocked (m : LMode) (prev b : Nat) (next : Option Nat) : Bool :=
  m == .m5322 && blank b && !wsq prev && !(match next with | some n => wsq n | none => false)

/-- one step; `next` is the following byte, if any (needed by the 5322 blank rule only) -/
def stepSt (m : LMode) : St → Nat → Option Nat → Option St
  | .wordStart, b, _ => if b == 34 then some (.inQuote 34) else if atext m b then some .inAtom else none
  | .inAtom, b, _ => if b == 46 then some .wordStart else if atext m b then some .inAtom else none
  | .afterQuote, b, _ => if b == 46 then some .wordStart else none
  | .inQuote prev, b, next =>
    if b == 34 then some .afterQuote
    else if b == 92 then some .inPair
    else if m == .m822 && b == 13 then some .fold1
    else if okItem m (.ch b) then
      if blocked m prev b next then none else some (.inQuote b)
    else none
  | .inPair, b, _ => if okItem m (.pair b) then some (.inQuote b) else none
  | .fold1, b, _ => if m == .m822 && b == 10 then some .fold2 else none
  | .fold2, b, _ => if m == .m822 && (b == 32 || b == 9) then some (.inQuote b) else none

def runFrom (m : LMode) : St → List Nat → Bool
  | st, [] => st == .inAtom || st == .afterQuote
  | st, b :: bs =>
    match stepSt m st b bs.head? with
    | some st' => runFrom m st' bs
    | none => false

def specLocal (m : LMode) (s : List Nat) : Bool := runFrom m .wordStart s

end Eav.Spec
