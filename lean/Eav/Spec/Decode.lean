import Eav.Spec.Utf8
import Eav.Spec.Local
/-!
Executable strict UTF-8 reader written from the specification side (through the encoder):
a character is accepted iff re-encoding the scalar value it denotes gives back exactly the bytes read.
-/
namespace Eav.Spec

/-- number of bytes announced by a lead byte -/
def seqLen (c : Nat) : Nat :=
  if c < 0x80 then 1 else if 0xC0 ≤ c ∧ c < 0xE0 then 2 else if 0xE0 ≤ c ∧ c < 0xF0 then 3
  else if 0xF0 ≤ c ∧ c < 0xF8 then 4 else 0

def payload (bs : List Nat) : Nat :=
  match bs with
  | [a] => a
  | [a, b] => (a % 32) * 64 + b % 64
  | [a, b, c] => (a % 16) * 4096 + (b % 64) * 64 + c % 64
  | [a, b, c, d] => (a % 8) * 262144 + (b % 64) * 4096 + (c % 64) * 64 + d % 64
  | _ => 0

/-- decode the whole string, `none` unless it is well-formed UTF-8 -/
def decodeAllFuel : Nat → List Nat → Option (List Nat)
  | _, [] => some []
  | 0, _ :: _ => none
  | fuel + 1, c :: cs =>
    let n := seqLen c
    if n == 0 then none else
    let bs := (c :: cs).take n
    let cp := payload bs
    if bs.length == n && validScalar cp && utf8Enc cp == bs then
      (decodeAllFuel fuel ((c :: cs).drop n)).map (cp :: ·)
    else none

def decodeAll (s : List Nat) : Option (List Nat) := decodeAllFuel s.length s

/-- the local-part specification of a mode applied to raw bytes -/
def specLocalBytes (m : LMode) (s : List Nat) : Bool :=
  match m with
  | .m6531 => match decodeAll s with
    | some cps => specLocal .m6531 (collapse cps)
    | none => false
  | m => s.all (· < 128) && specLocal m s

end Eav.Spec
