import Eav.Basic
/-!
# Specification of host names (property C04): LDH labels, 63 / 253, not all-numeric
-/
namespace Eav.Spec

def letDig (us : Bool) (c : Nat) : Bool := isAlnum c || (us && c == 95)

/-- a label: 1–63 letters, digits and interior hyphens -/
def okLabel (us : Bool) (l : List Nat) : Bool :=
  decide (1 ≤ l.length) && decide (l.length ≤ 63) && l.all (fun c => letDig us c || c == 45)
    && l.head? != some 45 && l.getLast? != some 45

def joinDots : List (List Nat) → List Nat
  | [] => []
  | [l] => l
  | l :: l' :: ls => l ++ 46 :: joinDots (l' :: ls)

def allNumeric (s : List Nat) : Bool := s.all (fun c => isDigit c || c == 46)

/-- one or more labels separated by single dots, optionally one root dot, at most 253 characters
without the root dot, not made solely of digits and dots -/
def HostOk (us : Bool) (s : List Nat) : Prop :=
  ∃ (labels : List (List Nat)) (root : List Nat), labels ≠ [] ∧ (root = [] ∨ root = [46]) ∧
    (∀ l ∈ labels, okLabel us l = true) ∧ s = joinDots labels ++ root ∧
    (joinDots labels).length ≤ 253 ∧ allNumeric s = false

/-- executable form -/
def hostNoRoot (us : Bool) (s : List Nat) : Bool :=
  decide (s.length ≤ 253) && (splitDots s).all (okLabel us) && !allNumeric s

def specHost (us : Bool) (s : List Nat) : Bool :=
  if s.length ≥ 2 && s.getLast? == some 46 then hostNoRoot us s.dropLast else hostNoRoot us s

end Eav.Spec
