import Eav.Basic
/-!
# Specification of address literals (property C05)

Upper bound (what may be accepted at most): `[` addr `]` with addr four decimal octets `0..255`
separated by single dots, or an RFC 4291 textual IPv6 address, the latter optionally introduced by
the tag `IPv6:` (any letter case).  Lower bound (what must be accepted): dotted quads of 1–3 digit
octets with non-zero first octet, and `IPv6:`-tagged RFC 5321 §4.1.3 literals whose dotted-quad
tail, if any, has a non-zero first octet.
-/
namespace Eav.Spec

/-- split at every `c` -/
def splitOn (c : Nat) : List Nat → List (List Nat)
  | [] => [[]]
  | x :: xs =>
    if x == c then [] :: splitOn c xs
    else match splitOn c xs with
      | l :: ls => (x :: l) :: ls
      | [] => [[x]]

def decVal : List Nat → Nat
  | l => l.foldl (fun acc d => acc * 10 + (d - 48)) 0

/-- decimal octet: one or more digits, value at most 255 -/
def decOctet (w : List Nat) : Bool := !w.isEmpty && w.all isDigit && decide (decVal w ≤ 255)
/-- decimal octet of the RFC 5321 `Snum` form: 1–3 digits -/
def snum (w : List Nat) : Bool := decOctet w && decide (w.length ≤ 3)

/-- four decimal octets separated by single dots -/
def v4 (a : List Nat) : Bool :=
  let os := splitOn 46 a
  os.length == 4 && os.all decOctet
/-- … of 1–3 digits each -/
def v4Snum (a : List Nat) : Bool :=
  let os := splitOn 46 a
  os.length == 4 && os.all snum
def firstOctetNonZero (a : List Nat) : Bool :=
  match splitOn 46 a with
  | o :: _ => decVal o != 0
  | [] => false

/-- 1–4 hexadecimal digits -/
def h16 (g : List Nat) : Bool := decide (1 ≤ g.length) && decide (g.length ≤ 4) && g.all isHex

/-- index of the first `::` -/
def findDC : List Nat → Option (List Nat × List Nat)
  | [] => none
  | [_] => none
  | x :: y :: rest =>
    if x == 58 && y == 58 then some ([], rest)
    else (findDC (y :: rest)).map fun (l, r) => (x :: l, r)

/-- a colon-separated run of groups, the last of which may be a dotted quad;
returns the number of 16-bit groups it stands for, `none` if malformed; `[]` stands for no groups -/
def groupsCount (v4ok : List Nat → Bool) (allowTail : Bool) (s : List Nat) : Option Nat :=
  if s.isEmpty then some 0 else
  let fs := splitOn 58 s
  let body := fs.dropLast
  match fs.getLast? with
  | none => none
  | some last =>
    if !body.all h16 then none
    else if h16 last then some fs.length
    else if allowTail && v4ok last then some (body.length + 2)
    else none

/-- RFC 4291 §2.2 textual form (upper bound): forms 1–3 -/
def v6_4291 (a : List Nat) : Bool :=
  match findDC a with
  | none => groupsCount v4 true a == some 8
  | some (l, r) =>
    match groupsCount v4 false l, groupsCount v4 true r with
    | some nl, some nr => decide (nl + nr ≤ 7)
    | _, _ => false

/-- RFC 5321 §4.1.3 (lower bound): IPv6-full, IPv6-comp (≤ 6 groups), IPv6v4-full, IPv6v4-comp (≤ 4 groups);
the dotted-quad tail has octets of 1–3 digits and a non-zero first octet -/
def v6_5321 (a : List Nat) : Bool :=
  let tailOk := fun (t : List Nat) => v4Snum t && firstOctetNonZero t
  match findDC a with
  | none => groupsCount tailOk true a == some 8
  | some (l, r) =>
    match groupsCount tailOk false l, groupsCount tailOk true r with
    | some nl, some nr => decide (nl + nr ≤ 6)     -- a dotted-quad tail counts as two groups
    | _, _ => false

/-! ### The same two grammars as inductive definitions (what the theorems of `Props/C05.lean` are stated against) -/

/-- `n ≥ 1` groups of 1–4 hexadecimal digits separated by single colons -/
inductive IsGroups : Nat → List Nat → Prop
  | one {g : List Nat} : h16 g = true → IsGroups 1 g
  | cons {g s : List Nat} {n : Nat} : h16 g = true → IsGroups n s → IsGroups (n + 1) (g ++ 58 :: s)

/-- … where the last two groups may be written as a dotted quad satisfying `q` -/
inductive IsTail (q : List Nat → Bool) : Nat → List Nat → Prop
  | one {g : List Nat} : h16 g = true → IsTail q 1 g
  | quad {t : List Nat} : q t = true → IsTail q 2 t
  | cons {g s : List Nat} {n : Nat} : h16 g = true → IsTail q n s → IsTail q (n + 1) (g ++ 58 :: s)

/-- textual IPv6 address: eight groups, or `l :: r` with at most `maxg` groups written out -/
def IsV6 (q : List Nat → Bool) (maxg : Nat) (a : List Nat) : Prop :=
  IsTail q 8 a ∨
  ∃ l r nl nr, a = l ++ 58 :: 58 :: r ∧ (l = [] ∧ nl = 0 ∨ IsGroups nl l) ∧ (r = [] ∧ nr = 0 ∨ IsTail q nr r) ∧ nl + nr ≤ maxg

/-- the dotted-quad tail the lower bound promises to accept -/
def quad5321 (t : List Nat) : Bool := v4Snum t && firstOctetNonZero t

/-- RFC 4291 §2.2 (upper bound) -/
def IsV6_4291 (a : List Nat) : Prop := IsV6 v4 7 a
/-- RFC 5321 §4.1.3 (lower bound) -/
def IsV6_5321 (a : List Nat) : Prop := IsV6 quad5321 6 a

def tagLower : List Nat := [105, 112, 118, 54, 58]   -- "ipv6:"
def tagRfc : List Nat := [73, 80, 118, 54, 58]       -- "IPv6:"

/-- upper bound for a whole bracketed domain -/
def literalUpper (d : List Nat) : Bool :=
  match d with
  | 91 :: rest =>
    if rest.getLast? != some 93 then false else
    let inner := rest.dropLast
    v4 inner || v6_4291 inner || (lowerAll (inner.take 5) == tagLower && v6_4291 (inner.drop 5))
  | _ => false

/-- family of an accepted literal: `true` = IPv4 -/
def literalIsV4 (d : List Nat) : Bool :=
  match d with
  | 91 :: rest => v4 rest.dropLast
  | _ => false

/-- lower bound for a whole bracketed domain -/
def literalLower (d : List Nat) : Bool :=
  match d with
  | 91 :: rest =>
    if rest.getLast? != some 93 then false else
    let inner := rest.dropLast
    (v4Snum inner && firstOctetNonZero inner) || (inner.take 5 == tagRfc && v6_5321 (inner.drop 5))
  | _ => false

end Eav.Spec
