import Eav.Basic
/-!
# Specification of well-formed UTF-8 (RFC 3629): the encoding of a list of Unicode scalar values
-/
namespace Eav.Spec

def validScalar (cp : Nat) : Bool := decide (cp ≤ 0x10FFFF) && !(decide (0xD800 ≤ cp) && decide (cp ≤ 0xDFFF))

/-- the shortest-form encoder -/
def utf8Enc (cp : Nat) : List Nat :=
  if cp < 0x80 then [cp]
  else if cp < 0x800 then [0xC0 + cp / 64, 0x80 + cp % 64]
  else if cp < 0x10000 then [0xE0 + cp / 4096, 0x80 + cp / 64 % 64, 0x80 + cp % 64]
  else [0xF0 + cp / 262144, 0x80 + cp / 4096 % 64, 0x80 + cp / 64 % 64, 0x80 + cp % 64]

/-- `s` is the UTF-8 encoding of the scalar values `cps` -/
def IsUtf8Of (cps : List Nat) (s : List Nat) : Prop :=
  (∀ cp ∈ cps, validScalar cp = true) ∧ s = cps.flatMap utf8Enc

def IsUtf8 (s : List Nat) : Prop := ∃ cps, IsUtf8Of cps s

/-- a non-ASCII character is one symbol `≥ 128` of the local-part grammar -/
def collapse (cps : List Nat) : List Nat := cps.map fun cp => if cp ≥ 128 then 128 else cp

end Eav.Spec
