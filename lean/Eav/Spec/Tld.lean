import Eav.Basic
import Eav.Codes
import Eav.Gen.Csv
/-!
# Specification of reserved domains (C09), of the TLD class (C07, C11) and of the policy (C08)
-/
namespace Eav.Spec

def str (s : String) : List Nat := s.toUTF8.toList.map UInt8.toNat

def reservedTlds : List (List Nat) :=
  [[116, 101, 115, 116],                                  -- test
   [101, 120, 97, 109, 112, 108, 101],                    -- example
   [105, 110, 118, 97, 108, 105, 100],                    -- invalid
   [108, 111, 99, 97, 108, 104, 111, 115, 116],           -- localhost
   [111, 110, 105, 111, 110]]                             -- onion
def exampleSlds : List (List Nat) := [[99, 111, 109], [110, 101, 116], [111, 114, 103]]   -- com net org
def exampleLabel : List Nat := [101, 120, 97, 109, 112, 108, 101]

/-- RFC 2606 / 6761 / 7686: the last label is reserved, or the last two labels are example.{com,net,org};
compared case-insensitively on whole labels -/
def reserved (d : List Nat) : Bool :=
  let ls := (splitDots (lowerAll d)).reverse
  match ls with
  | last :: rest =>
    reservedTlds.contains last ||
      (match rest with
       | second :: _ => second == exampleLabel && exampleSlds.contains last
       | [] => false)
  | [] => false

/-! ### The class a row of `data/punycode.csv` stands for, as `util/gentld.pl` documents it -/

def typeNames : List (List Nat × Nat) :=
  [([103, 101, 110, 101, 114, 105, 99], T.GENERIC),                                                   -- generic
   ([99, 111, 117, 110, 116, 114, 121, 45, 99, 111, 100, 101], T.COUNTRY_CODE),                       -- country-code
   ([103, 101, 110, 101, 114, 105, 99, 45, 114, 101, 115, 116, 114, 105, 99, 116, 101, 100], T.GENERIC_RESTRICTED),
   ([105, 110, 102, 114, 97, 115, 116, 114, 117, 99, 116, 117, 114, 101], T.INFRASTRUCTURE),
   ([116, 101, 115, 116], T.TEST),
   ([115, 112, 111, 110, 115, 111, 114, 101, 100], T.SPONSORED)]

def notAssigned : List Nat := [110, 111, 116, 32, 97, 115, 115, 105, 103, 110, 101, 100]   -- "not assigned"
def retired : List Nat := [114, 101, 116, 105, 114, 101, 100]                               -- "retired"

/-- `m/^prefix/i` -/
def startsWithCI (pre s : List Nat) : Bool := lowerAll (s.take pre.length) == pre

/-- class of a CSV row (domain, type, manager…): `Not assigned` → not-assigned, `Retired` → retired,
otherwise the row's IANA type; `none` for an unknown type (the generator dies) -/
def classOfRow (row : List Nat × List Nat × List Nat) : Option Nat :=
  match typeNames.lookup row.2.1 with
  | none => none
  | some t =>
    if startsWithCI notAssigned row.2.2 then some T.NOT_ASSIGNED
    else if startsWithCI retired row.2.2 then some T.RETIRED
    else some t

/-- the row `gentld.pl` emits for a CSV row: `{ "name", length + 1, TYPE }` -/
def genRow (row : List Nat × List Nat × List Nat) : Option (List Nat × Nat × Nat) :=
  (classOfRow row).map fun t => (row.1, row.1.length + 1, t)

/-- class of a label according to the shipped CSV: the first row whose domain equals the
lower-cased label -/
def csvClass (csv : List (List Nat × List Nat × List Nat)) (label : List Nat) : Option Nat :=
  match csv.find? (fun r => r.1 == lowerAll label) with
  | some r => classOfRow r
  | none => none

/-- bit of `allow_tld` that governs a class (`EAV_TLD_*` = `1 << (class + 1)`) -/
def bitOfClass (c : Nat) : Nat := 2 ^ (c + 1)

end Eav.Spec
