import Eav.Email
/-!
# The high-level API: `eav_init`, `eav_setup`, `eav_is_email`, `eav_errstr`, `eav_free`
(`partial/<idn>/eav.c`, `src/eav.c`)

`EavT` is `eav_t`; pointer-valued fields are `Option`s (`none` = NULL).  The heap ledger counts
live `eav_result_t` blocks, and for the idnkit back end live `idn_resconf_t` contexts.
Reading the object before `eav_init` is `Fault.uninit` (`State.obj = none`).
-/
namespace Eav

inductive Backend | idn2 | idn | idnkit
  deriving Repr, DecidableEq

/-- what `eav_errstr` returns -/
inductive Msg
  | table (i : Nat)        -- `errors[i]`
  | idn (rc : Int)         -- the IDN library's message for `rc`
  | null                   -- NULL (errcode = EEAV_IDN_ERROR with idnmsg = NULL)
  deriving Repr, DecidableEq

structure EavT where
  rfc : Int := 3
  allowTld : Nat := 0
  tldCheck : Bool := true
  utf8 : Bool := false
  errcode : Nat := 0
  idnmsg : Option Int := none          -- `some rc` = the library's string for rc
  initialized : Bool := false
  utf8Cb : Bool := false               -- `is_6531_email` or NULL
  asciiCb : Option Mode := none
  result : Option Result := none
  deriving Repr, DecidableEq

structure State where
  obj : Option EavT := none            -- `none`: memory not yet initialised by `eav_init`
  liveResults : Nat := 0               -- `eav_result_t` blocks allocated and not freed
  freedResults : Nat := 0
  resconfLive : Nat := 0               -- idnkit: contexts created and not destroyed
  resconfCreated : Nat := 0
  resconfDestroyed : Nat := 0
  deriving Repr, DecidableEq

/-- default `allow_tld` of `eav_init` -/
def defaultMask : Nat := 8 ||| 16 ||| 32 ||| 64 ||| 128 ||| 512

def eavInit (st : State) : State :=
  { st with obj := some { rfc := 3, allowTld := defaultMask, tldCheck := true, utf8 := false, errcode := 0,
                          idnmsg := none, initialized := false, utf8Cb := false, asciiCb := none, result := none } }

/-- the three ASCII arms of `eav_setup`: install the callback, then
`if (eav->initialized) { eav->initialized = false; [idnkit: idn_resconf_destroy (eav->idn)] }`, `utf8 = false` -/
def setupAscii (be : Backend) (st : State) (e : EavT) (m : Mode) : Except Fault (State × Int) :=
  if e.initialized && be == .idnkit then
    if st.resconfLive == 0 then .error .badfree
    else .ok ({ st with resconfLive := st.resconfLive - 1, resconfDestroyed := st.resconfDestroyed + 1,
                        obj := some { e with asciiCb := some m, initialized := false, utf8 := false } }, 0)
  else .ok ({ st with obj := some { e with asciiCb := some m, initialized := false, utf8 := false } }, 0)

/-- the `EAV_RFC_6531` arm: `utf8 = true; utf8_cb = is_6531_email; return init_idn (eav)`
(idnkit: `init_idn` creates the context unless the object is already `initialized`) -/
def setup6531 (be : Backend) (st : State) (e : EavT) : Except Fault (State × Int) :=
  if e.initialized then .ok ({ st with obj := some { e with utf8 := true, utf8Cb := true } }, 0)
  else if be == .idnkit then
    .ok ({ st with resconfLive := st.resconfLive + 1, resconfCreated := st.resconfCreated + 1,
                   obj := some { e with utf8 := true, utf8Cb := true, initialized := true } }, 0)
  else .ok ({ st with obj := some { e with utf8 := true, utf8Cb := true, initialized := true } }, 0)

/-- `eav_setup`; returns the state and the return code -/
def eavSetup (be : Backend) (st : State) : Except Fault (State × Int) :=
  match st.obj with
  | none => .error .uninit
  | some e =>
    if e.rfc == 0 then setupAscii be st e .m822
    else if e.rfc == 1 then setupAscii be st e .m5321
    else if e.rfc == 2 then setupAscii be st e .m5322
    else if e.rfc == 3 then setup6531 be st e
    else .ok ({ st with obj := some { e with errcode := E.INVALID_RFC } }, (E.INVALID_RFC : Int))

/-- `eav_setup` during which the creation of the idnkit resolver context fails with `r` (`idn_resconf_initialize` / `idn_resconf_create`
inside `init_idn`).  Only the 6531 arm of an idnkit object that is not yet `initialized` reaches that call; there `init_idn` stores the
library's message and returns the IDN error BEFORE the object is switched to UTF-8, so the mode confirmed earlier stays in force.  Everywhere
else nothing is created and the call is an ordinary `eav_setup`. -/
def eavSetupFail (be : Backend) (st : State) (r : Int) : Except Fault (State × Int) :=
  match st.obj with
  | none => .error .uninit
  | some e =>
    if be == .idnkit && e.rfc == 3 && !e.initialized then
      .ok ({ st with obj := some { e with idnmsg := some r } }, -(E.IDN_ERROR : Int))
    else eavSetup be st

/-- the `switch (eav->result->rc)` of `eav_is_email`: TLD class → (errcode, allow_tld bit) -/
def policyArm (rc : Int) : Option (Nat × Nat) :=
  if rc == 1 then some (E.TLD_NOT_ASSIGNED, 4)
  else if rc == 2 then some (E.TLD_COUNTRY_CODE, 8)
  else if rc == 3 then some (E.TLD_GENERIC, 16)
  else if rc == 4 then some (E.TLD_GENERIC_RESTRICTED, 32)
  else if rc == 5 then some (E.TLD_INFRASTRUCTURE, 64)
  else if rc == 6 then some (E.TLD_SPONSORED, 128)
  else if rc == 7 then some (E.TLD_TEST, 256)
  else if rc == 8 then some (E.TLD_SPECIAL, 512)
  else if rc == 9 then some (E.TLD_RETIRED, 1024)
  else none

/-- everything of `eav_is_email` after the callback returned `r`: (return value, errcode, idnmsg) -/
def verdictOf (allowTld : Nat) (r : Result) : Except Fault (Int × Nat × Option Int) :=
  if r.rc == 0 then .ok (1, 0, none)
  else if r.rc < 0 then
    let ec := (-r.rc).toNat
    .ok (0, ec, if ec == E.IDN_ERROR then some r.idnRc else none)
  else match policyArm r.rc with
    | none => .error .abort
    | some (ec, bit) => if allowTld &&& bit != 0 then .ok (1, 0, none) else .ok (0, ec, none)

/-- the callback `eav_is_email` calls: `utf8_cb` when `utf8` is set, `ascii_cb` otherwise (NULL is a fault) -/
def selectedMode (e : EavT) : Except Fault Mode :=
  if e.utf8 then (if e.utf8Cb then .ok .m6531 else .error .nullcb)
  else match e.asciiCb with
    | some m => .ok m
    | none => .error .nullcb

/-- `eav_is_email`; returns the state and the return value.
`eav_result_free (eav->result)` first (a record that is not live would be a double free), then the callback,
then the policy; the new record replaces the old one. -/
def eavIsEmail (b : Build) (conv : List Nat → Conv) (st : State) (email : List Nat) : Except Fault (State × Int) :=
  match st.obj with
  | none => .error .uninit
  | some e =>
    if e.result.isSome && st.liveResults == 0 then .error .badfree
    else match selectedMode e with
      | .error f => .error f
      | .ok mode =>
        match isEmail b conv mode email e.tldCheck with
        | .error f => .error f
        | .ok r =>
          match verdictOf e.allowTld r with
          | .error f => .error f
          | .ok (ret, ec, msg) =>
            .ok ({ st with liveResults := (if e.result.isSome then st.liveResults - 1 else st.liveResults) + 1,
                           freedResults := st.freedResults + (if e.result.isSome then 1 else 0),
                           obj := some { e with result := some r, errcode := ec, idnmsg := msg } }, ret)

def eavErrstr (st : State) : Except Fault Msg :=
  match st.obj with
  | none => .error .uninit
  | some e =>
    if e.errcode == E.IDN_ERROR then
      match e.idnmsg with | some rc => .ok (.idn rc) | none => .ok .null
    else if e.errcode < E.MAX then .ok (.table e.errcode) else .error .oob

def eavFree (be : Backend) (st : State) : Except Fault State :=
  match st.obj with
  | none => .error .uninit
  | some e =>
    -- eav_result_free (eav->result); eav->result = NULL
    if e.result.isSome && st.liveResults == 0 then .error .badfree
    -- idnkit: `if (eav != NULL && eav->initialized) idn_resconf_destroy (eav->idn);`
    else if be == .idnkit && e.initialized then
      if st.resconfLive == 0 then .error .badfree
      else .ok { st with liveResults := (if e.result.isSome then st.liveResults - 1 else st.liveResults),
                         freedResults := st.freedResults + (if e.result.isSome then 1 else 0),
                         resconfLive := st.resconfLive - 1, resconfDestroyed := st.resconfDestroyed + 1,
                         obj := some { e with result := none } }
    else .ok { st with liveResults := (if e.result.isSome then st.liveResults - 1 else st.liveResults),
                       freedResults := st.freedResults + (if e.result.isSome then 1 else 0),
                       obj := some { e with result := none } }

/-- the operations a caller can perform on one `eav_t` -/
inductive Op
  | init
  | setRfc (v : Int)
  | setTld (b : Bool)
  | setMask (k : Nat)
  | setup
  | setupFail (r : Int)                   -- `eav_setup` while the back end cannot create its context (idnkit), failing with `r`
  | isEmail (a : List Nat) (c : Conv)     -- `c`: what the IDN library answers if it is asked during this call
  | errstr
  | free
  deriving Repr, DecidableEq

/-- what an operation lets the caller observe -/
inductive Out
  | unit
  | rc (v : Int)
  | verdict (ret : Int) (errcode : Nat) (msg : Msg) (r : Result)
  | msg (m : Msg)
  deriving Repr, DecidableEq

def step (be : Backend) (b : Build) (st : State) : Op → Except Fault (State × Out)
  | .init => .ok (eavInit st, .unit)
  | .setRfc v => match st.obj with
    | none => .error .uninit
    | some e => .ok ({ st with obj := some { e with rfc := v } }, .unit)
  | .setTld t => match st.obj with
    | none => .error .uninit
    | some e => .ok ({ st with obj := some { e with tldCheck := t } }, .unit)
  | .setMask k => match st.obj with
    | none => .error .uninit
    | some e => .ok ({ st with obj := some { e with allowTld := k } }, .unit)
  | .setup => match eavSetup be st with
    | .error f => .error f
    | .ok (s, rc) => .ok (s, .rc rc)
  | .setupFail r => match eavSetupFail be st r with
    | .error f => .error f
    | .ok (s, rc) => .ok (s, .rc rc)
  | .isEmail a c =>
    match eavIsEmail b (fun _ => c) st a with
    | .error f => .error f
    | .ok (s, ret) =>
      match eavErrstr s with
      | .error f => .error f
      | .ok m =>
        match s.obj with
        | some e => (match e.result with
          | some r => .ok (s, .verdict ret e.errcode m r)
          | none => .error .oob)
        | none => .error .uninit
  | .errstr => match eavErrstr st with
    | .error f => .error f
    | .ok m => .ok (st, .msg m)
  | .free => match eavFree be st with
    | .error f => .error f
    | .ok s => .ok (s, .unit)

/-- run a history from the blank state, collecting the observations -/
def run (be : Backend) (b : Build) : State → List Op → Except Fault (State × List Out)
  | st, [] => .ok (st, [])
  | st, op :: ops =>
    match step be b st op with
    | .error f => .error f
    | .ok (s, o) =>
      match run be b s ops with
      | .error f => .error f
      | .ok (s', os) => .ok (s', o :: os)

end Eav
