import Eav.Email
/-!
# The high-level API: `eav_init`, `eav_setup`, `eav_is_email`, `eav_errstr`, `eav_free`
(`partial/<idn>/eav.c`, `src/eav.c`)

`EavT` is `eav_t`; pointer-valued fields are `Option`s (`none` = NULL).  The heap ledger counts
live `eav_result_t` blocks, and for the idnkit back end live `idn_resconf_t` contexts.
Reading the object before `eav_init` is `Fault.uninit` (`State.obj = none`).
-/
namespace Eav

inductive Backend | idn2 | idn | idnkit
  deriving Repr, DecidableEq

/-- what `eav_errstr` returns -/
inductive Msg
  | table (i : Nat)        -- `errors[i]`
  | idn (rc : Int)         -- the IDN library's message for `rc`
  | null                   -- NULL (errcode = EEAV_IDN_ERROR with idnmsg = NULL)
  deriving Repr, DecidableEq

structure EavT where
  rfc : Int := 3
  allowTld : Nat := 0
  tldCheck : Bool := true
  utf8 : Bool := false
  errcode : Nat := 0
  idnmsg : Option Int := none          -- `some rc` = the library's string for rc
  initialized : Bool := false
  utf8Cb : Bool := false               -- `is_6531_email` or NULL
  asciiCb : Option Mode := none
  result : Option Result := none
  deriving Repr, DecidableEq

structure State where
  obj : Option EavT := none            -- `none`: memory not yet initialised by `eav_init`
  liveResults : Nat := 0               -- `eav_result_t` blocks allocated and not freed
  freedResults : Nat := 0
  resconfLive : Nat := 0               -- idnkit: contexts created and not destroyed
  resconfCreated : Nat := 0
  resconfDestroyed : Nat := 0
  deriving Repr, DecidableEq

/-- default `allow_tld` of `eav_init` -/
def defaultMask : Nat := 8 ||| 16 ||| 32 ||| 64 ||| 128 ||| 512

def eavInit (st : State) : State :=
  { st with obj := some { rfc := 3, allowTld := defaultMask, tldCheck := true, utf8 := false, errcode := 0,
                          idnmsg := none, initialized := false, utf8Cb := false, asciiCb := none, result := none } }

/-- `eav_setup`; returns the state and the return code -/
def eavSetup (be : Backend) (st : State) : Except Fault (State × Int) :=
  match st.obj with
  | none => .error .uninit
  | some e =>
    let ascii (m : Mode) : Except Fault (State × Int) :=
      -- `if (eav->initialized) { eav->initialized = false; [idnkit: idn_resconf_destroy] }`
      let st' := if e.initialized && be == .idnkit then
                   { st with resconfLive := st.resconfLive - 1, resconfDestroyed := st.resconfDestroyed + 1 } else st
      if e.initialized && be == .idnkit && st.resconfLive == 0 then .error .badfree else
      .ok ({ st' with obj := some { e with asciiCb := some m, initialized := false, utf8 := false } }, 0)
    if e.rfc == 0 then ascii .m822
    else if e.rfc == 1 then ascii .m5321
    else if e.rfc == 2 then ascii .m5322
    else if e.rfc == 3 then
      -- utf8 = true; utf8_cb = is_6531_email; init_idn
      let e' := { e with utf8 := true, utf8Cb := true }
      if e.initialized then .ok ({ st with obj := some e' }, 0)
      else
        let st' := if be == .idnkit then
                     { st with resconfLive := st.resconfLive + 1, resconfCreated := st.resconfCreated + 1 } else st
        .ok ({ st' with obj := some { e' with initialized := true } }, 0)
    else .ok ({ st with obj := some { e with errcode := E.INVALID_RFC } }, (E.INVALID_RFC : Int))

/-- the `switch (eav->result->rc)` of `eav_is_email`: TLD class → (errcode, allow_tld bit) -/
def policyArm (rc : Int) : Option (Nat × Nat) :=
  if rc == 1 then some (E.TLD_NOT_ASSIGNED, 4)
  else if rc == 2 then some (E.TLD_COUNTRY_CODE, 8)
  else if rc == 3 then some (E.TLD_GENERIC, 16)
  else if rc == 4 then some (E.TLD_GENERIC_RESTRICTED, 32)
  else if rc == 5 then some (E.TLD_INFRASTRUCTURE, 64)
  else if rc == 6 then some (E.TLD_SPONSORED, 128)
  else if rc == 7 then some (E.TLD_TEST, 256)
  else if rc == 8 then some (E.TLD_SPECIAL, 512)
  else if rc == 9 then some (E.TLD_RETIRED, 1024)
  else none

/-- everything of `eav_is_email` after the callback returned `r`: (return value, errcode, idnmsg) -/
def verdictOf (allowTld : Nat) (r : Result) : Except Fault (Int × Nat × Option Int) :=
  if r.rc == 0 then .ok (1, 0, none)
  else if r.rc < 0 then
    let ec := (-r.rc).toNat
    .ok (0, ec, if ec == E.IDN_ERROR then some r.idnRc else none)
  else match policyArm r.rc with
    | none => .error .abort
    | some (ec, bit) => if allowTld &&& bit != 0 then .ok (1, 0, none) else .ok (0, ec, none)

/-- `eav_is_email`; returns the state and the return value -/
def eavIsEmail (b : Build) (conv : List Nat → Conv) (st : State) (email : List Nat) : Except Fault (State × Int) :=
  match st.obj with
  | none => .error .uninit
  | some e => do
    -- eav_result_free (eav->result)
    let st1 := match e.result with
      | some _ => { st with liveResults := st.liveResults - 1, freedResults := st.freedResults + 1 }
      | none => st
    if e.result.isSome && st.liveResults == 0 then .error .badfree
    let mode ← (if e.utf8 then (if e.utf8Cb then pure Mode.m6531 else .error .nullcb)
                else match e.asciiCb with | some m => pure m | none => .error .nullcb)
    let r ← isEmail b conv mode email e.tldCheck
    let st2 := { st1 with liveResults := st1.liveResults + 1 }
    let (ret, ec, msg) ← verdictOf e.allowTld r
    return ({ st2 with obj := some { e with result := some r, errcode := ec, idnmsg := msg } }, ret)

def eavErrstr (st : State) : Except Fault Msg :=
  match st.obj with
  | none => .error .uninit
  | some e =>
    if e.errcode == E.IDN_ERROR then
      match e.idnmsg with | some rc => .ok (.idn rc) | none => .ok .null
    else if e.errcode < E.MAX then .ok (.table e.errcode) else .error .oob

def eavFree (be : Backend) (st : State) : Except Fault State :=
  match st.obj with
  | none => .error .uninit
  | some e =>
    if e.result.isSome && st.liveResults == 0 then .error .badfree else
    let st1 := match e.result with
      | some _ => { st with liveResults := st.liveResults - 1, freedResults := st.freedResults + 1 }
      | none => st
    -- idnkit: `if (eav != NULL && eav->initialized) idn_resconf_destroy (eav->idn);`
    if be == .idnkit && e.initialized then
      if st.resconfLive == 0 then .error .badfree
      else .ok { st1 with obj := some { e with result := none },
                          resconfLive := st1.resconfLive - 1, resconfDestroyed := st1.resconfDestroyed + 1 }
    else .ok { st1 with obj := some { e with result := none } }

/-- the operations a caller can perform on one `eav_t` -/
inductive Op
  | init
  | setRfc (v : Int)
  | setTld (b : Bool)
  | setMask (k : Nat)
  | setup
  | isEmail (a : List Nat) (c : Conv)     -- `c`: what the IDN library answers if it is asked during this call
  | errstr
  | free
  deriving Repr, DecidableEq

/-- what an operation lets the caller observe -/
inductive Out
  | unit
  | rc (v : Int)
  | verdict (ret : Int) (errcode : Nat) (msg : Msg) (r : Result)
  | msg (m : Msg)
  deriving Repr, DecidableEq

def step (be : Backend) (b : Build) (st : State) : Op → Except Fault (State × Out)
  | .init => .ok (eavInit st, .unit)
  | .setRfc v => match st.obj with
    | none => .error .uninit
    | some e => .ok ({ st with obj := some { e with rfc := v } }, .unit)
  | .setTld t => match st.obj with
    | none => .error .uninit
    | some e => .ok ({ st with obj := some { e with tldCheck := t } }, .unit)
  | .setMask k => match st.obj with
    | none => .error .uninit
    | some e => .ok ({ st with obj := some { e with allowTld := k } }, .unit)
  | .setup => do let (s, rc) ← eavSetup be st; return (s, .rc rc)
  | .isEmail a c => do
    let (s, ret) ← eavIsEmail b (fun _ => c) st a
    let m ← eavErrstr s
    match s.obj with
    | some e => match e.result with
      | some r => return (s, .verdict ret e.errcode m r)
      | none => .error .oob
    | none => .error .uninit
  | .errstr => do let m ← eavErrstr st; return (st, .msg m)
  | .free => do let s ← eavFree be st; return (s, .unit)

/-- run a history from the blank state, collecting the observations -/
def run (be : Backend) (b : Build) : State → List Op → Except Fault (State × List Out)
  | st, [] => .ok (st, [])
  | st, op :: ops => do
    let (s, o) ← step be b st op
    let (s', os) ← run be b s ops
    return (s', o :: os)

end Eav
