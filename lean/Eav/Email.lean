import Eav.Basic
import Eav.Codes
import Eav.Local
import Eav.Domain
import Eav.Ip
import Eav.Special
import Eav.Tld
/-!
# `is_{822,5321,5322}_email` (src/), `is_6531_email` + `is_utf8_domain` (partial/<idn>/),
and the macros of `include/eav/private_email.h`

`email` is the NUL-free address (`length == strlen`), stored NUL-terminated.
The IDN conversion is a parameter: `conv D` is what `idn2_to_ascii_8z` (resp. `idna_to_ascii_lz`,
`idn_res_encodename`) returns for the domain `D`.
-/
namespace Eav

structure Build where
  rfc20 : Bool := false
  rfc5322 : Bool := false
  underscore : Bool := false
  extra : Bool := false
  deriving Repr, DecidableEq

def Build.l (b : Build) : LBuild := { rfc20 := b.rfc20, rfc5322 := b.rfc5322 }

inductive Mode | m822 | m5321 | m5322 | m6531
  deriving Repr, DecidableEq

/-- result of an IDN conversion: return code (0 = success) and the output buffer, if any -/
structure Conv where
  rc : Int
  out : Option (List Nat)
  deriving Repr, DecidableEq

/-- `eav_result_t` (with the `EAV_EXTRA` members; they stay `none` in a build without it) -/
structure Result where
  rc : Int := 0
  idnRc : Int := 0
  isIpv4 : Bool := false
  isIpv6 : Bool := false
  isDomain : Bool := false
  lpart : Option (List Nat) := none
  domain : Option (List Nat) := none
  deriving Repr, DecidableEq

/-- `strrchr(s, c)`: bytes before the last `c` and bytes after it -/
def splitLast (c : Nat) : List Nat → Option (List Nat × List Nat)
  | [] => none
  | x :: xs =>
    match splitLast c xs with
    | some (l, r) => some (x :: l, r)
    | none => if x == c then some ([], xs) else none

/-- the local-part scanner of a mode, called as `is_X_local (email, ch)` with `*ch == '@'` -/
def localOf (b : Build) : Mode → List Nat → Int
  | .m822, l => is822Local l 64
  | .m5321, l => is5321Local l
  | .m5322, l => is5322Local l
  | .m6531, l => is6531Local b.l l

/-- `check_tld()` on the ASCII domain `d` (terminated by NUL) -/
def checkTld (d : List Nat) (tld : Bool) : Except Fault Int := do
  if !tld then return 0
  if (← isSpecialDomain d) then return (T.SPECIAL : Int)
  match splitLast 46 d with
  | none => return -(E.DOMAIN_NOT_FQDN : Int)
  | some (_, last) => return isTld last

def tagIPv6 : List Nat := [73, 80, 118, 54, 58]   -- "IPv6:"

/-- `check_ip()`: `d` is the domain part starting with `[`.  Returns (rc, is_ipv4, is_ipv6, literal). -/
def checkIp (d : List Nat) : Except Fault (Int × Bool × Bool × List Nat) := do
  if d.length ≤ 8 then return (-(E.IPADDR_INVALID : Int), false, false, [])
  match splitLast 93 d with
  | none => return (-(E.IPADDR_BRACKET_UNPAIR : Int), false, false, [])
  | some (pre, post) =>
    if !post.isEmpty then return (-(E.IPADDR_INVALID : Int), false, false, [])
    let inner := pre.drop 1                       -- `[brs + 1, bre)`
    if strncaseeq (d.drop 1) tagIPv6 5 then
      if (← isIpv6 (inner.drop 5) [93, 0]) then return (0, false, true, inner)
      else return (-(E.IPADDR_INVALID : Int), false, false, [])
    else if inner.contains 58 then
      if (← isIpv6 inner [93, 0]) then return (0, false, true, inner)
      else return (-(E.IPADDR_INVALID : Int), false, false, [])
    else
      if (← isIpv4 inner [93, 0]) then return (0, true, false, inner)
      else return (-(E.IPADDR_INVALID : Int), false, false, [])

/-- `is_utf8_domain` (libidn2 / libidn back ends).  Returns (rc, idn_rc).
Allocation ledger: the output buffer is freed iff it is not NULL — see `Api.lean`. -/
def isUtf8Domain (b : Build) (conv : List Nat → Conv) (d : List Nat) (tld : Bool) : Except Fault (Int × Int) := do
  if d.isEmpty then return (-(E.DOMAIN_EMPTY : Int), 0)
  let c := conv d
  if c.rc != 0 then return (-(E.IDN_ERROR : Int), c.rc)
  match c.out with
  | none => .error .oob                  -- success without a buffer: `strlen (NULL)`
  | some a =>
    let rc ← isAsciiDomain b.underscore a [0]
    if rc != 0 then return (rc, c.rc)
    return (← checkTld a tld, c.rc)

def isEmail (b : Build) (conv : List Nat → Conv) (m : Mode) (email : List Nat) (tld : Bool) : Except Fault Result := do
  -- basic_email_check
  if email.isEmpty then return { rc := -(E.EMAIL_EMPTY : Int) }
  match splitLast 64 email with
  | none => return { rc := -(E.DOMAIN_EMPTY : Int) }
  | some (l, d) =>
    if d.isEmpty then return { rc := -(E.DOMAIN_EMPTY : Int) }
    if l.length > Lim.VALID_LPART_LEN then return { rc := -(E.LPART_TOO_LONG : Int) }
    let lrc := localOf b m l
    if lrc != 0 then return { rc := lrc }
    if d.head? != some 91 then
      match m with
      | .m6531 =>
        let (rc, irc) ← isUtf8Domain b conv d tld
        if rc ≥ 0 then
          return { rc := rc, idnRc := irc, isDomain := true,
                   lpart := if b.extra then some l else none, domain := if b.extra then some d else none }
        else return { rc := rc, idnRc := irc }
      | _ =>
        let rc ← isAsciiDomain b.underscore d [0]
        if rc == 0 then
          let t ← checkTld d tld
          return { rc := t, isDomain := true,
                   lpart := if b.extra then some l else none, domain := if b.extra then some d else none }
        else return { rc := rc }
    else
      let (rc, v4, v6, lit) ← checkIp d
      if rc == 0 then
        return { rc := 0, isIpv4 := v4, isIpv6 := v6,
                 lpart := if b.extra then some l else none, domain := if b.extra then some lit else none }
      else return { rc := rc }

end Eav
