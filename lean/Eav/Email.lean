import Eav.Basic
import Eav.Codes
import Eav.Local
import Eav.Domain
import Eav.Ip
import Eav.Special
import Eav.Tld
/-!
# `is_{822,5321,5322}_email` (src/), `is_6531_email` + `is_utf8_domain` (partial/<idn>/),
and the macros of `include/eav/private_email.h`

`email` is the NUL-free address (`length == strlen`), stored NUL-terminated.
The IDN conversion is a parameter: `conv D` is what `idn2_to_ascii_8z` (resp. `idna_to_ascii_lz`,
`idn_res_encodename`) returns for the domain `D`.
-/
namespace Eav

structure Build where
  rfc20 : Bool := false
  rfc5322 : Bool := false
  underscore : Bool := false
  extra : Bool := false
  deriving Repr, DecidableEq

def Build.l (b : Build) : LBuild := { rfc20 := b.rfc20, rfc5322 := b.rfc5322 }

inductive Mode | m822 | m5321 | m5322 | m6531
  deriving Repr, DecidableEq

/-- result of an IDN conversion: return code (0 = success) and the output buffer, if any -/
structure Conv where
  rc : Int
  out : Option (List Nat)
  deriving Repr, DecidableEq

/-- `eav_result_t` (with the `EAV_EXTRA` members; they stay `none` in a build without it) -/
structure Result where
  rc : Int := 0
  idnRc : Int := 0
  isIpv4 : Bool := false
  isIpv6 : Bool := false
  isDomain : Bool := false
  lpart : Option (List Nat) := none
  domain : Option (List Nat) := none
  deriving Repr, DecidableEq

/-- `strrchr(s, c)`: bytes before the last `c` and bytes after it -/
def splitLast (c : Nat) : List Nat → Option (List Nat × List Nat)
  | [] => none
  | x :: xs =>
    match splitLast c xs with
    | some (l, r) => some (x :: l, r)
    | none => if x == c then some ([], xs) else none

/-- the local-part scanner of a mode, called as `is_X_local (email, ch)` with `*ch == '@'` -/
def localOf (b : Build) : Mode → List Nat → Int
  | .m822, l => is822Local l 64
  | .m5321, l => is5321Local l
  | .m5322, l => is5322Local l
  | .m6531, l => is6531Local b.l l

/-- `check_tld()` on the ASCII domain `d` (terminated by NUL) -/
def checkTld (d : List Nat) (tld : Bool) : Except Fault Int :=
  if !tld then .ok 0
  else match isSpecialDomain d with
    | .error e => .error e
    | .ok true => .ok (T.SPECIAL : Int)
    | .ok false =>
      match splitLast 46 d with
      | none => .ok (-(E.DOMAIN_NOT_FQDN : Int))
      | some (_, last) => .ok (isTld last)

def tagIPv6 : List Nat := [73, 80, 118, 54, 58]   -- "IPv6:"

/-- outcome of the address test of `check_ip()` -/
def ipVerdict (ok : Except Fault Bool) (v4 v6 : Bool) (inner : List Nat) : Except Fault (Int × Bool × Bool × List Nat) :=
  match ok with
  | .error e => .error e
  | .ok true => .ok (0, v4, v6, inner)
  | .ok false => .ok (-(E.IPADDR_INVALID : Int), false, false, [])

/-- `check_ip()`: `d` is the domain part starting with `[`.  Returns (rc, is_ipv4, is_ipv6, literal). -/
def checkIp (d : List Nat) : Except Fault (Int × Bool × Bool × List Nat) :=
  if d.length ≤ 8 then .ok (-(E.IPADDR_INVALID : Int), false, false, [])
  else match splitLast 93 d with
    | none => .ok (-(E.IPADDR_BRACKET_UNPAIR : Int), false, false, [])
    | some (pre, post) =>
      if !post.isEmpty then .ok (-(E.IPADDR_INVALID : Int), false, false, [])
      else
        let inner := pre.drop 1                       -- `[brs + 1, bre)`
        if strncaseeq (d.drop 1) tagIPv6 5 then ipVerdict (isIpv6 (inner.drop 5) [93, 0]) false true inner
        else if inner.contains 58 then ipVerdict (isIpv6 inner [93, 0]) false true inner
        else ipVerdict (isIpv4 inner [93, 0]) true false inner

/-- `is_utf8_domain` (libidn2 / libidn back ends).  Returns (rc, idn_rc).
Allocation ledger: the output buffer is freed iff it is not NULL — see `Api.lean`. -/
def isUtf8Domain (b : Build) (conv : List Nat → Conv) (d : List Nat) (tld : Bool) : Except Fault (Int × Int) :=
  if d.isEmpty then .ok (-(E.DOMAIN_EMPTY : Int), 0)
  else
    let c := conv d
    if c.rc != 0 then .ok (-(E.IDN_ERROR : Int), c.rc)
    else match c.out with
      | none => .error .oob                  -- success without a buffer: `strlen (NULL)`
      | some a =>
        match isAsciiDomain b.underscore a [0] with
        | .error e => .error e
        | .ok rc =>
          if rc != 0 then .ok (rc, c.rc)
          else match checkTld a tld with
            | .error e => .error e
            | .ok t => .ok (t, c.rc)

/-- the record for an accepted address (`EAV_EXTRA` strings only in such a build) -/
def okResult (b : Build) (rc irc : Int) (v4 v6 dom : Bool) (l d : List Nat) : Result :=
  { rc := rc, idnRc := irc, isIpv4 := v4, isIpv6 := v6, isDomain := dom,
    lpart := if b.extra then some l else none, domain := if b.extra then some d else none }

/-- the non-bracketed domain branch of `is_*_email` -/
def hostPart (b : Build) (conv : List Nat → Conv) (m : Mode) (l d : List Nat) (tld : Bool) : Except Fault Result :=
  match m with
  | .m6531 =>
    match isUtf8Domain b conv d tld with
    | .error e => .error e
    | .ok (rc, irc) => if rc ≥ 0 then .ok (okResult b rc irc false false true l d) else .ok { rc := rc, idnRc := irc }
  | _ =>
    match isAsciiDomain b.underscore d [0] with
    | .error e => .error e
    | .ok rc =>
      if rc == 0 then
        match checkTld d tld with
        | .error e => .error e
        | .ok t => .ok (okResult b t 0 false false true l d)
      else .ok { rc := rc }

/-- the address-literal branch -/
def literalPart (b : Build) (l d : List Nat) : Except Fault Result :=
  match checkIp d with
  | .error e => .error e
  | .ok (rc, v4, v6, lit) => if rc == 0 then .ok (okResult b 0 0 v4 v6 false l lit) else .ok { rc := rc }

def isEmail (b : Build) (conv : List Nat → Conv) (m : Mode) (email : List Nat) (tld : Bool) : Except Fault Result :=
  -- basic_email_check
  if email.isEmpty then .ok { rc := -(E.EMAIL_EMPTY : Int) }
  else match splitLast 64 email with
    | none => .ok { rc := -(E.DOMAIN_EMPTY : Int) }
    | some (l, d) =>
      if d.isEmpty then .ok { rc := -(E.DOMAIN_EMPTY : Int) }
      else if l.length > Lim.VALID_LPART_LEN then .ok { rc := -(E.LPART_TOO_LONG : Int) }
      else if localOf b m l != 0 then .ok { rc := localOf b m l }
      else if d.head? != some 91 then hostPart b conv m l d tld
      else literalPart b l d

end Eav
