import Eav.Api
import Eav.Cli
/-!
# `bin/main.c`: `main` and `parse_file` — what the `eav` tool writes

`main` is `eav_init; eav_setup; parse_file (argv[argc-1]) … parse_file (argv[1]); eav_free` — the files are
processed from the LAST argument to the first (`while (argc-- >= 2) parse_file (argv[argc], &eav)`), with one
`eav_t` for all of them.  `parse_file` reads `getline` records, trims them (`Eav/Cli.lean`), asks
`eav_is_email` and prints

```
PASS: <sanitised line>\n                         or
FAIL: <sanitised line>\n      <eav_errstr>\n
```

on stdout, then `<file>: pass = P fail = F` on stderr.  A file that cannot be opened is reported on stderr and
skipped.  `printf ("%s", NULL)` is a fault (`Fault.nullcb`).
-/
namespace Eav

/-- the texts behind a `Msg`: `errors[i]` of `src/eav.c` and the IDN library's `strerror` -/
structure Texts where
  errors : Nat → List Nat
  strerr : Int → List Nat

def msgText (t : Texts) : Msg → Except Fault (List Nat)
  | .table i => .ok (t.errors i)
  | .idn rc => .ok (t.strerr rc)
  | .null => .error .nullcb

def sPASS : List Nat := [80, 65, 83, 83, 58, 32]
def sFAIL : List Nat := [70, 65, 73, 76, 58, 32]
def sIndent : List Nat := [32, 32, 32, 32, 32, 32]

/-- what one validated line adds to stdout, given the value `eav_is_email` returned and what `eav_errstr`
says afterwards -/
def lineBlock (t : Texts) (line : List Nat) (ret : Int) (msg : Msg) : Except Fault (List Nat) :=
  if ret != 0 then .ok (sPASS ++ sanitize line ++ [10])
  else match msgText t msg with
    | .error f => .error f
    | .ok m => .ok (sFAIL ++ sanitize line ++ [10] ++ sIndent ++ m ++ [10])

/-- result of running the tool's loop over some lines -/
structure CliOut where
  stdout : List Nat := []
  passed : Nat := 0
  failed : Nat := 0
  deriving Repr, DecidableEq

/-- the `while (getline …)` loop of `parse_file` over the trimmed, non-comment lines.
`convOf a` is what the IDN library answers while `a` is validated. -/
def parseLines (be : Backend) (b : Build) (convOf : List Nat → Conv) (t : Texts) :
    State → List (List Nat) → CliOut → Except Fault (State × CliOut)
  | st, [], o => .ok (st, o)
  | st, a :: rest, o =>
    match step be b st (.isEmail a (convOf a)) with
    | .error f => .error f
    | .ok (st', .verdict ret _ msg _) =>
      (match lineBlock t a ret msg with
       | .error f => .error f
       | .ok blk =>
         parseLines be b convOf t st' rest
           { stdout := o.stdout ++ blk,
             passed := o.passed + (if ret != 0 then 1 else 0),
             failed := o.failed + (if ret != 0 then 0 else 1) })
    | .ok _ => .error .abort        -- unreachable: `.isEmail` always yields a verdict

/-- one `parse_file`: `none` = `fopen` failed (message on stderr, nothing on stdout) -/
def parseFile (be : Backend) (b : Build) (convOf : List Nat → Conv) (t : Texts) (st : State) :
    Option (List Nat) → Except Fault (State × CliOut)
  | none => .ok (st, {})
  | some file => parseLines be b convOf t st (cliLines file) {}

/-- the files, already in processing order; per-file outputs are collected in that order -/
def parseFiles (be : Backend) (b : Build) (convOf : List Nat → Conv) (t : Texts) :
    State → List (Option (List Nat)) → Except Fault (State × List CliOut)
  | st, [] => .ok (st, [])
  | st, f :: fs =>
    match parseFile be b convOf t st f with
    | .error e => .error e
    | .ok (st', o) =>
      match parseFiles be b convOf t st' fs with
      | .error e => .error e
      | .ok (st'', os) => .ok (st'', o :: os)

/-- what the process leaves behind -/
structure CliRun where
  exit : Int
  files : List CliOut          -- in processing order (last argument first)
  final : State
  deriving Repr, DecidableEq

/-- `main (argc, argv)` with `argv[1..] = args` (contents of the named files, `none` = unreadable).
No argument: usage, exit 1.  (`-h`/`--help` as first argument is a usage request too; here `args` are
files.) -/
def cliMain (be : Backend) (b : Build) (convOf : List Nat → Conv) (t : Texts) (args : List (Option (List Nat))) :
    Except Fault CliRun :=
  if args.isEmpty then .ok { exit := 1, files := [], final := {} }
  else
    let st := eavInit {}
    match eavSetup be st with
    | .error f => .error f
    | .ok (st, rc) =>
      if rc != 0 then .ok { exit := 2, files := [], final := st }
      else match parseFiles be b convOf t st args.reverse with
        | .error f => .error f
        | .ok (st, outs) =>
          match eavFree be st with
          | .error f => .error f
          | .ok st => .ok { exit := 0, files := outs, final := st }

/-- everything written to stdout -/
def CliRun.stdout (r : CliRun) : List Nat := (r.files.map (·.stdout)).flatten

end Eav
