import Eav.CliMain
import Eav.Props.C06
import Eav.Props.C20
/-!
# C20 at the level of `main`: what the `eav` tool prints is, line by line, the library's own decision

`Eav/CliMain.lean` models `main` and `parse_file` on top of the API model (`Eav/Api.lean`): one `eav_t`,
initialised and set up once, used for every line of every file.  Here it is proved that this history is
unobservable:

* `cliMain_ok` — for every list of files (arbitrary bytes, unreadable files included) and every IDN library
  honouring its contract the tool returns normally with exit code 0: no NULL message is printed, no
  `abort ()`, no read of an uninitialised field, no free of a dead block; and every allocation has been
  released when it returns (`Released`);
* `cliMain_files` — the output for each file equals `specFile`: for every `getline` record that is not a
  comment, in input order, exactly one block `PASS: <echo>` or `FAIL: <echo>` + message, where the verdict and
  the message are those of `C13.outcomeOf` — the decision of the library for that line alone under the
  default settings (mode 6531, TLD checking on, default `allow_tld`) — whatever lines and files came before;
* `specLines_blocks` — the blocks are in one-to-one correspondence with the validated lines, and the two
  counters add up to their number; `trimLine_none_iff` — a record is dropped iff it is a comment line.
-/
namespace Eav.Props.C20
open Eav

/-- what `eav_errstr` answers for an object with this `errcode` / `idnmsg` -/
def msgOf (ec : Nat) (im : Option Int) : Msg :=
  if ec == E.IDN_ERROR then (match im with | some rc => .idn rc | none => .null) else .table ec

/-- the tool's object while it reads files: mode 6531 selected, default settings -/
def ToolObj (e : EavT) : Prop :=
  C01.modeOfObj e = some .m6531 ∧ e.tldCheck = true ∧ e.allowTld = defaultMask

/-- **specification of one output block**: the decision of the library for this line alone (a function of the
line and of the IDN library's answer for it), rendered -/
def specBlock (b : Build) (t : Texts) (convOf : List Nat → Conv) (a : List Nat) : Except Fault (List Nat × Bool) :=
  match C13.outcomeOf b (convOf a) .m6531 true defaultMask a with
  | .error f => .error f
  | .ok (ret, ec, im, _) =>
    match lineBlock t a ret (msgOf ec im) with
    | .error f => .error f
    | .ok blk => .ok (blk, ret != 0)

def specLines (b : Build) (t : Texts) (convOf : List Nat → Conv) : List (List Nat) → CliOut → Except Fault CliOut
  | [], o => .ok o
  | a :: rest, o =>
    match specBlock b t convOf a with
    | .error f => .error f
    | .ok (blk, pass) =>
      specLines b t convOf rest
        { stdout := o.stdout ++ blk, passed := o.passed + (if pass then 1 else 0), failed := o.failed + (if pass then 0 else 1) }

def specFile (b : Build) (t : Texts) (convOf : List Nat → Conv) : Option (List Nat) → Except Fault CliOut
  | none => .ok {}
  | some file => specLines b t convOf (cliLines file) {}

/-- the files one after the other, each on its own -/
def specFiles (b : Build) (t : Texts) (convOf : List Nat → Conv) : List (Option (List Nat)) → Except Fault (List CliOut)
  | [] => .ok []
  | f :: fs =>
    match specFile b t convOf f with
    | .error e => .error e
    | .ok o =>
      match specFiles b t convOf fs with
      | .error e => .error e
      | .ok os => .ok (o :: os)

/-! ### one call -/

/-- an IDN error code is always accompanied by the library's message -/
theorem verdictOf_idnmsg (mask : Nat) (r : Result) (ret : Int) (ec : Nat) (im : Option Int)
    (h : verdictOf mask r = .ok (ret, ec, im)) : ec = E.IDN_ERROR → im.isSome = true := by
  unfold verdictOf at h
  split at h
  · cases h; intro h2; exact absurd h2 (by decide)
  · split at h
    · cases h
      intro h2
      simp [h2]
    · split at h
      · cases h
      · rename_i ec' bit harm
        have hne : ec' ≠ E.IDN_ERROR := by
          unfold policyArm at harm
          repeat' split at harm
          all_goals first | (cases harm; decide) | (cases harm)
        split at h <;> cases h
        · intro h2; exact absurd h2 (by decide)
        · intro h2; exact absurd h2 hne

/-- one `eav_is_email` + `eav_errstr` on the tool's object: the observation is `outcomeOf` for the address, the
object keeps its settings, the ledger invariant is kept -/
theorem step_isEmail_spec (be : Backend) (b : Build) (c : Conv) (hc : c.rc = 0 → c.out.isSome = true)
    (st : State) (e : EavT) (m : Mode) (a : List Nat)
    (hinv : C13.Inv be st) (hobj : st.obj = some e) (hm : C01.modeOfObj e = some m) :
    ∃ ret ec im r st', C13.outcomeOf b c m e.tldCheck e.allowTld a = .ok (ret, ec, im, r) ∧
      step be b st (.isEmail a c) = .ok (st', .verdict ret ec (msgOf ec im) r) ∧
      st'.obj = some { e with result := some r, errcode := ec, idnmsg := im } ∧ C13.Inv be st' ∧
      msgOf ec im ≠ .null := by
  have hout := C13.isEmail_outcome be b c st e m a hinv hobj hm
  obtain ⟨⟨st1, o⟩, hstep⟩ := C06.step_isEmail_ok be b c hc st e m a hinv hobj hm
  cases ho : C13.outcomeOf b c m e.tldCheck e.allowTld a with
  | error f =>
    rw [ho] at hout
    simp only at hout
    simp [step, hout] at hstep
  | ok v =>
    obtain ⟨ret, ec, im, r⟩ := v
    rw [ho] at hout
    simp only at hout
    obtain ⟨st', he, hobj', _, _, _, hinv'⟩ := hout
    have hidn : ec = E.IDN_ERROR → im.isSome = true := by
      unfold C13.outcomeOf at ho
      split at ho
      · cases ho
      · rename_i r' hr'
        split at ho
        · cases ho
        · rename_i ret' ec' im' hv
          cases ho
          exact verdictOf_idnmsg _ _ _ _ _ hv
    have hnn : msgOf ec im ≠ .null := by
      unfold msgOf
      split
      · rename_i h
        have := hidn (by simpa using h)
        cases im with
        | none => simp at this
        | some rc => simp
      · simp
    refine ⟨ret, ec, im, r, st', rfl, ?_, hobj', hinv', hnn⟩
    simp only [step, he] at hstep ⊢
    unfold eavErrstr at hstep ⊢
    simp only [hobj'] at hstep ⊢
    unfold msgOf
    by_cases h1 : (ec == E.IDN_ERROR) = true
    · simp only [h1, if_true]
      cases im with
      | none => rfl
      | some rc => rfl
    · simp only [h1, Bool.false_eq_true, if_false] at hstep ⊢
      by_cases h2 : ec < E.MAX
      · simp only [h2, if_true]
      · simp [h2] at hstep

/-! ### the loop -/

/-- the settings survive a validation -/
theorem toolObj_keep {e : EavT} (h : ToolObj e) (r : Result) (ec : Nat) (im : Option Int) :
    ToolObj { e with result := some r, errcode := ec, idnmsg := im } := by
  obtain ⟨h1, h2, h3⟩ := h
  refine ⟨?_, h2, h3⟩
  unfold C01.modeOfObj selectedMode at h1 ⊢
  exact h1

/-- **the loop of `parse_file` prints `specLines`** — from any state of the tool's object (whatever was
validated before), for any lines -/
theorem parseLines_spec (be : Backend) (b : Build) (convOf : List Nat → Conv) (hc : C06.ConvContract convOf) (t : Texts) :
    ∀ (lines : List (List Nat)) (st : State) (e : EavT) (o : CliOut),
      C13.Inv be st → st.obj = some e → ToolObj e →
      ∃ st' e' o', parseLines be b convOf t st lines o = .ok (st', o') ∧ specLines b t convOf lines o = .ok o' ∧
        C13.Inv be st' ∧ st'.obj = some e' ∧ ToolObj e' ∧ e'.initialized = e.initialized := by
  intro lines
  induction lines with
  | nil => intro st e o hinv hobj ht; exact ⟨st, e, o, rfl, rfl, hinv, hobj, ht, rfl⟩
  | cons a rest ih =>
    intro st e o hinv hobj ht
    obtain ⟨ret, ec, im, r, st1, hout, hstep, hobj1, hinv1, hnn⟩ :=
      step_isEmail_spec be b (convOf a) (hc a) st e .m6531 a hinv hobj ht.1
    rw [ht.2.1, ht.2.2] at hout
    have hblk : ∃ blk, lineBlock t a ret (msgOf ec im) = .ok blk := by
      unfold lineBlock
      split
      · exact ⟨_, rfl⟩
      · cases hm : msgOf ec im with
        | null => exact absurd hm hnn
        | table i => exact ⟨_, rfl⟩
        | idn rc => exact ⟨_, rfl⟩
    obtain ⟨blk, hblk⟩ := hblk
    obtain ⟨st', e', o', h1, h2, h3, h4, h5, h6⟩ :=
      ih st1 _ { stdout := o.stdout ++ blk, passed := o.passed + (if ret != 0 then 1 else 0),
                 failed := o.failed + (if ret != 0 then 0 else 1) } hinv1 hobj1 (toolObj_keep ht r ec im)
    refine ⟨st', e', o', ?_, ?_, h3, h4, h5, h6⟩
    · simp only [parseLines, hstep, hblk]
      exact h1
    · simp only [specLines, specBlock, hout, hblk]
      cases hr : (ret != 0) <;> simp only [hr] at h2 ⊢ <;> exact h2

/-- the blocks are in one-to-one correspondence with the lines: the output is extended by exactly one block per
line, each the `specBlock` of its own line, and the counters grow by the number of lines -/
theorem specLines_blocks (b : Build) (t : Texts) (convOf : List Nat → Conv) :
    ∀ (lines : List (List Nat)) (o o' : CliOut), specLines b t convOf lines o = .ok o' →
      ∃ blks : List (List Nat × Bool), blks.length = lines.length ∧
        (∀ i (h : i < lines.length) (h' : i < blks.length), specBlock b t convOf lines[i] = .ok blks[i]) ∧
        o'.stdout = o.stdout ++ (blks.map (·.1)).flatten ∧
        o'.passed = o.passed + (blks.filter (·.2)).length ∧
        o'.failed = o.failed + (blks.filter (fun x => !x.2)).length ∧
        o'.passed + o'.failed = o.passed + o.failed + lines.length := by
  intro lines
  induction lines with
  | nil =>
    intro o o' h
    cases h
    refine ⟨[], rfl, ?_, by simp, by simp, by simp, by simp⟩
    intro i h
    cases h
  | cons a rest ih =>
    intro o o' h
    simp only [specLines] at h
    cases hb : specBlock b t convOf a with
    | error f => simp [hb] at h
    | ok v =>
      obtain ⟨blk, pass⟩ := v
      simp only [hb] at h
      obtain ⟨blks, hl, hall, hs, hp, hf, hsum⟩ := ih _ _ h
      refine ⟨(blk, pass) :: blks, by simp [hl], ?_, ?_, ?_, ?_, ?_⟩
      · intro i hi hi'
        cases i with
        | zero => simpa using hb
        | succ j => simpa using hall j (by simpa using hi) (by simpa using hi')
      · simp [hs, List.append_assoc]
      · cases pass <;> simp [hp] <;> omega
      · cases pass <;> simp [hf] <;> omega
      · simp only [List.length_cons]
        cases pass <;> simp at hsum ⊢ <;> omega

/-! ### files and `main` -/

theorem parseFiles_spec (be : Backend) (b : Build) (convOf : List Nat → Conv) (hc : C06.ConvContract convOf) (t : Texts) :
    ∀ (files : List (Option (List Nat))) (st : State) (e : EavT),
      C13.Inv be st → st.obj = some e → ToolObj e →
      ∃ st' e' outs, parseFiles be b convOf t st files = .ok (st', outs) ∧
        specFiles b t convOf files = .ok outs ∧
        C13.Inv be st' ∧ st'.obj = some e' ∧ ToolObj e' ∧ e'.initialized = e.initialized := by
  intro files
  induction files with
  | nil => intro st e hinv hobj ht; exact ⟨st, e, [], rfl, rfl, hinv, hobj, ht, rfl⟩
  | cons f fs ih =>
    intro st e hinv hobj ht
    have h1 : ∃ st1 e1 o, parseFile be b convOf t st f = .ok (st1, o) ∧ specFile b t convOf f = .ok o ∧
        C13.Inv be st1 ∧ st1.obj = some e1 ∧ ToolObj e1 ∧ e1.initialized = e.initialized := by
      cases f with
      | none => exact ⟨st, e, {}, rfl, rfl, hinv, hobj, ht, rfl⟩
      | some file => exact parseLines_spec be b convOf hc t (cliLines file) st e {} hinv hobj ht
    obtain ⟨st1, e1, o, hp, hs, hinv1, hobj1, ht1, hi1⟩ := h1
    obtain ⟨st2, e2, outs, hp2, hs2, hinv2, hobj2, ht2, hi2⟩ := ih st1 e1 hinv1 hobj1 ht1
    refine ⟨st2, e2, o :: outs, ?_, ?_, hinv2, hobj2, ht2, hi2.trans hi1⟩
    · simp only [parseFiles, hp, hp2]
    · simp only [specFiles, hs, hs2]

/-- `eav_init; eav_setup` gives the tool's object, in every back end -/
theorem tool_setup (be : Backend) :
    ∃ st e, eavSetup be (eavInit {}) = .ok (st, 0) ∧ C13.Inv be st ∧ st.obj = some e ∧ ToolObj e := by
  cases be
  all_goals
    refine ⟨_, _, rfl, ?_, rfl, ?_⟩
    · exact (C13.inv_setup _ _ _ 0 (C13.inv_init _ {} ⟨rfl, rfl⟩) rfl).1
    · refine ⟨by decide, rfl, rfl⟩

/-- **the tool, whole**: for every argument list (each file arbitrary bytes or unreadable) and every IDN library
honouring its contract, `main` returns normally; with at least one argument the exit code is 0, every allocation
has been released, and the output for each file — processed from the last argument to the first — is `specFile`
of that file alone -/
theorem cliMain_files (be : Backend) (b : Build) (convOf : List Nat → Conv) (hc : C06.ConvContract convOf) (t : Texts)
    (args : List (Option (List Nat))) (hargs : args ≠ []) :
    ∃ run, cliMain be b convOf t args = .ok run ∧ run.exit = 0 ∧ C13.Released run.final ∧
      specFiles b t convOf args.reverse = .ok run.files := by
  obtain ⟨st, e, hsetup, hinv, hobj, ht⟩ := tool_setup be
  obtain ⟨st', e', outs, hp, hs, hinv', hobj', _, _⟩ := parseFiles_spec be b convOf hc t args.reverse st e hinv hobj ht
  obtain ⟨st'', hfree, hrel⟩ := C13.free_releases be st' e' hinv' hobj'
  refine ⟨{ exit := 0, files := outs, final := st'' }, ?_, rfl, hrel.1, hs⟩
  unfold cliMain
  have : args.isEmpty = false := by cases args <;> simp_all
  simp only [this, Bool.false_eq_true, if_false, hsetup, hp, hfree]
  rfl

/-- no fault on any input: corollary for the reader who only wants "terminates normally" -/
theorem cliMain_ok (be : Backend) (b : Build) (convOf : List Nat → Conv) (hc : C06.ConvContract convOf) (t : Texts)
    (args : List (Option (List Nat))) : C06.IsOk (cliMain be b convOf t args) := by
  by_cases h : args = []
  · subst h; exact ⟨_, rfl⟩
  · obtain ⟨run, hr, _⟩ := cliMain_files be b convOf hc t args h
    exact ⟨run, hr⟩

/-! ### which records are dropped -/

/-- the record without its line terminator, as a C string -/
def recText (rec : List Nat) : List Nat :=
  let n := rec.length
  cstr (if n ≥ 2 && rec.drop (n - 2) == [13, 10] then rec.take (n - 2)
        else if n ≥ 1 && rec.getLast? == some 10 then rec.take (n - 1) else rec)

/-- `trimLine` on the text of the record -/
def trimText (line : List Nat) : Option (List Nat) :=
  if line.head? == some 35 then none
  else
    let cp := if line.head? == some 32 then line.drop 1 else line
    if cp.getLast? == some 32 || cp.getLast? == some 9 then some cp.dropLast else some cp

theorem trimLine_eq (rec : List Nat) : trimLine rec = trimText (recText rec) := rfl

/-- a record yields no verdict iff its text starts with `#` -/
theorem trimLine_none_iff (rec : List Nat) : trimLine rec = none ↔ (recText rec).head? = some 35 := by
  rw [trimLine_eq]
  unfold trimText
  by_cases h : (recText rec).head? = some 35
  · simp [h]
  · simp only [beq_iff_eq, h, if_false, iff_false]
    split <;> split <;> simp

/-- the number of verdicts of a file = the number of its `getline` records that are not comments -/
theorem verdict_count (b : Build) (t : Texts) (convOf : List Nat → Conv) (file : List Nat) (o : CliOut)
    (h : specFile b t convOf (some file) = .ok o) :
    o.passed + o.failed = ((getlines file).filter (fun r => (recText r).head? != some 35)).length := by
  obtain ⟨blks, _, _, _, _, _, hsum⟩ := specLines_blocks b t convOf (cliLines file) {} o h
  rw [hsum]
  show 0 + 0 + (cliLines file).length = _
  unfold cliLines
  generalize getlines file = recs
  induction recs with
  | nil => rfl
  | cons r rs ih =>
    simp only [List.filterMap_cons, List.filter_cons]
    cases htr : trimLine r with
    | none =>
      have := (trimLine_none_iff r).1 htr
      simp [this] at ih ⊢
      exact ih
    | some x =>
      have : (recText r).head? ≠ some 35 := fun h => by rw [(trimLine_none_iff r).2 h] at htr; cases htr
      simp [this] at ih ⊢
      exact ih

/-! ### the statements are not vacuous -/

private def demoTexts : Texts := { errors := fun i => [48 + i], strerr := fun _ => [63] }
private def demoConv : List Nat → Conv := fun _ => ⟨0, some [98, 46, 99, 111, 109]⟩   -- "b.com"

example : C06.ConvContract demoConv := fun _ _ => rfl

/-- the theorem at a concrete argument list (`# c\na@b.com\n\n`, an unreadable file, a file without final
newline): its only premises are the converter's contract and a non-empty argument list.  (The 6531 scanner is
defined by well-founded recursion and does not evaluate inside the kernel; the concrete outputs of the model for
such files are compared with the real tool in the correspondence stream `cli-main`.) -/
example := cliMain_files .idn2 {} demoConv (fun _ _ => rfl) demoTexts
  [some [35, 32, 99, 10, 97, 64, 98, 46, 99, 111, 109, 10, 10], none, some [97, 64, 98, 46, 99, 111, 109]] (by simp)

/-- a comment record and a non-comment record -/
example : trimLine [35, 32, 99, 10] = none ∧ (recText [35, 32, 99, 10]).head? = some 35 := by decide
example : trimLine [32, 35, 10] = some [35] := by decide

end Eav.Props.C20
