import Eav.Model
import Eav.Props.Tie.Globals
/-!
# C14 — concurrent validation equals sequential validation

What a proof can carry: the library's state is the caller-owned `eav_t` (here `State`) and constant
tables.  `Gen.mutableGlobals` lists every object with static storage that lives in a writable section
of the object files compiled from the tree on this run; `GenTie.no_mutable_globals` shows there is none,
so the component of the semantics shared between threads is empty (`Shared`), and a step of thread `i`
is a function of thread `i`'s own state only.  Then every interleaving gives each thread exactly the
observations of its own sequential run.  (Data races in the compiled code are a runtime fact: the
ThreadSanitizer half of the check covers them.)
-/
namespace Eav.Props.C14
open Eav

/-- memory shared between threads and written by the library: one field per mutable global — none -/
structure Shared where
  deriving DecidableEq

theorem shared_is_empty : Gen.mutableGlobals = [] := GenTie.no_mutable_globals

/-- the system: the shared memory and one private `eav_t` state per thread -/
structure Sys where
  shared : Shared := {}
  threads : List State

/-- a scheduled step: thread `i` performs `op` on its own object (a fault ends that thread's run) -/
def stepSys (be : Backend) (b : Build) (sys : Sys) (i : Nat) (op : Op) : Sys × Option Out :=
  match sys.threads[i]? with
  | none => (sys, none)
  | some st =>
    match step be b st op with
    | .ok (st', o) => ({ sys with threads := sys.threads.set i st' }, some o)
    | .error _ => (sys, none)

/-- run a schedule (a list of (thread, operation)), collecting (thread, observation) -/
def runSched (be : Backend) (b : Build) : Sys → List (Nat × Op) → List (Nat × Option Out)
  | _, [] => []
  | sys, (i, op) :: rest =>
    let (sys', o) := stepSys be b sys i op
    (i, o) :: runSched be b sys' rest

/-- thread `i` alone, performing its own operations in order -/
def runAlone (be : Backend) (b : Build) : State → List Op → List (Option Out)
  | _, [] => []
  | st, op :: rest =>
    match step be b st op with
    | .ok (st', o) => some o :: runAlone be b st' rest
    | .error _ => none :: runAlone be b st rest

theorem stepSys_other (be : Backend) (b : Build) (sys : Sys) (i j : Nat) (op : Op) (h : i ≠ j) :
    (stepSys be b sys j op).1.threads[i]? = sys.threads[i]? := by
  unfold stepSys
  split
  · rfl
  · split
    · simp [List.getElem?_set, h.symm]
    · rfl

theorem stepSys_self (be : Backend) (b : Build) (sys : Sys) (i : Nat) (op : Op) (st : State)
    (hst : sys.threads[i]? = some st) :
    (stepSys be b sys i op) =
      (match step be b st op with
       | .ok (st', o) => ({ sys with threads := sys.threads.set i st' }, some o)
       | .error _ => (sys, none)) := by
  unfold stepSys; rw [hst]

/-- **schedule independence**: whatever the interleaving, the observations of thread `i` are those of
its own sequential run on the operations the schedule gives it -/
theorem sched_indep (be : Backend) (b : Build) (σ : List (Nat × Op)) :
    ∀ (sys : Sys) (i : Nat) (st : State), sys.threads[i]? = some st →
      ((runSched be b sys σ).filter (·.1 == i)).map (·.2) =
        runAlone be b st ((σ.filter (·.1 == i)).map (·.2)) := by
  induction σ with
  | nil => intros; rfl
  | cons hd rest ih =>
    intro sys i st hst
    obtain ⟨j, op⟩ := hd
    by_cases hj : j = i
    · subst hj
      simp only [runSched, List.filter_cons, beq_self_eq_true, if_true, List.map_cons, runAlone]
      rw [stepSys_self be b sys j op st hst]
      cases hstep : step be b st op with
      | error e =>
        simp only
        rw [ih sys j st hst]
      | ok p =>
        obtain ⟨st', o⟩ := p
        simp only
        have hlen : j < sys.threads.length := by
          rcases List.getElem?_eq_some_iff.mp hst with ⟨h, _⟩; exact h
        rw [ih { sys with threads := sys.threads.set j st' } j st' (by simp [hlen])]
    · have hne : (j == i) = false := by simpa using hj
      simp only [runSched, List.filter_cons, hne, Bool.false_eq_true, if_false]
      have := stepSys_other be b sys i j op (fun h => hj h.symm)
      exact ih _ i st (by rw [this]; exact hst)

/-- non-vacuity: two threads, interleaved, both observe what they observe alone -/
def exEmail : Op := .isEmail [97, 64, 98, 46, 99, 111, 109] ⟨0, some [98, 46, 99, 111, 109]⟩
example :
    ((runSched .idn2 {} { threads := [{}, {}] }
        [(0, .init), (1, .init), (1, .setRfc 1), (0, .setup), (1, .setup), (0, exEmail), (1, .isEmail [120] ⟨0, none⟩)]).filter
          (·.1 == 0)).map (·.2) = runAlone .idn2 {} {} [.init, .setup, exEmail] := by
  decide +kernel

end Eav.Props.C14
