import Eav.Model
import Eav.Props.C13
import Eav.Props.C16
import Eav.Props.C15
/-!
# C06 — what a proof can carry of "memory safety, no abort, no leak, termination"

In the model every read the C code performs outside `[start, end)` is explicit: `cp[1]`, `cp[2]`, `*cp` after
`cp++`, `strspn` / `strchr` that ignore `end` all read `s ++ after` and a read past the last byte of `after` is
`Fault.oob`; copies into `label[64]` are `Fault.overflow` when they do not fit; a NULL callback is `Fault.nullcb`;
`abort ()` is `Fault.abort`; freeing a block that is not live is `Fault.badfree`; the object before `eav_init` is
`Fault.uninit`.  The theorems below say that none of these is reachable for NUL-terminated input and legal use.
Termination: every loop of the model is a structural recursion on the input (or a well-founded one on its
length), accepted by Lean without `partial`, so each loop runs at most `length` iterations.
What the compiled C really does is observed by the sanitizer / valgrind half of the check.
-/
namespace Eav.Props.C06
open Eav

def IsOk {α : Type} (x : Except Fault α) : Prop := ∃ v, x = .ok v

/-! ### the per-part validators read nothing past the terminator -/

theorem domLoop_ok (us : Bool) (cs : List Nat) : ∀ (after : List Nat) (ll : Nat) (nn : Bool),
    after ≠ [] → IsOk (domLoop us cs after ll nn) := by
  induction cs with
  | nil => intro after ll nn _; exact ⟨_, rfl⟩
  | cons c cs ih =>
    intro after ll nn hne
    unfold domLoop
    repeat' split
    all_goals first
      | exact ⟨_, rfl⟩
      | exact ih _ _ _ hne
      | skip
    all_goals
      have hp : ∃ v, peek cs after = .ok v := by
        cases cs with
        | cons d ds => exact ⟨d, rfl⟩
        | nil =>
          cases after with
          | nil => exact absurd rfl hne
          | cons a as => exact ⟨a, rfl⟩
      obtain ⟨v, hv⟩ := hp
      simp only [hv, bind, Except.bind]
      split
      · exact ⟨_, rfl⟩
      · exact ih _ _ _ hne

/-- `is_ascii_domain` on `[start,end)` followed by at least one more byte (the terminator) -/
theorem isAsciiDomain_ok (us : Bool) (s after : List Nat) (h : after ≠ []) : IsOk (isAsciiDomain us s after) := by
  unfold isAsciiDomain
  repeat' split
  all_goals first
    | exact ⟨_, rfl⟩
    | exact domLoop_ok _ _ _ _ _ h
    | exact domLoop_ok _ _ _ _ _ (by simp)

theorem byteAfterZeroDots_ok : ∀ (whole : List Nat), 0 ∈ whole → IsOk (byteAfterZeroDots whole)
  | [], h => by simp at h
  | c :: cs, h => by
    unfold byteAfterZeroDots
    split
    · rename_i hc
      have : c ≠ 0 := by
        intro e; subst e; simp at hc
      exact byteAfterZeroDots_ok cs (by simpa [this.symm] using h)
    · exact ⟨_, rfl⟩

theorem ipv4Loop_ok (whole : List Nat) (hw : 0 ∈ whole) : ∀ (cs : List Nat) (ib : Bool) (bv bc : Nat),
    IsOk (ipv4Loop whole cs ib bv bc) := by
  intro cs
  induction cs with
  | nil => intro ib bv bc; exact ⟨_, rfl⟩
  | cons c cs ih =>
    intro ib bv bc
    unfold ipv4Loop
    repeat' split
    all_goals first
      | exact ⟨_, rfl⟩
      | exact ih _ _ _
      | skip
    all_goals
      obtain ⟨v, hv⟩ := byteAfterZeroDots_ok whole hw
      simp only [hv, bind, Except.bind]
      split
      · exact ⟨_, rfl⟩
      · exact ih _ _ _

/-- `is_ipv4 (start, end)` inside a NUL-terminated string -/
theorem isIpv4_ok (s after : List Nat) (h : 0 ∈ after) : IsOk (isIpv4 s after) :=
  ipv4Loop_ok _ (by simp [h]) _ _ _ _

theorem spanHex_some : ∀ (l : List Nat), 0 ∈ l → ∃ n, spanHex l = some n
  | [], h => by simp at h
  | c :: cs, h => by
    unfold spanHex
    split
    · rename_i hc
      have : c ≠ 0 := by intro e; subst e; simp [isHex, isDigit] at hc
      obtain ⟨n, hn⟩ := spanHex_some cs (by simpa [this.symm] using h)
      exact ⟨n + 1, by simp [hn]⟩
    · exact ⟨0, rfl⟩

theorem peek_ok (cs after : List Nat) (h : after ≠ []) : ∃ v, peek cs after = .ok v := by
  cases cs with
  | cons d ds => exact ⟨d, rfl⟩
  | nil =>
    cases after with
    | nil => exact absurd rfl h
    | cons a as => exact ⟨a, rfl⟩

theorem ipv6Loop_ok : ∀ (cs after : List Nat) (field nf : Nat) (run : List Nat) (skip : Nat),
    0 ∈ after → IsOk (ipv6Loop cs after field nf run skip) := by
  intro cs
  induction cs with
  | nil => intro after field nf run skip _; exact ⟨_, rfl⟩
  | cons c cs ih =>
    intro after field nf run skip h0
    have hne : after ≠ [] := by intro e; subst e; simp at h0
    unfold ipv6Loop
    split
    · exact ih _ _ _ _ _ h0
    · split
      · exact ⟨_, rfl⟩
      · split
        · repeat' split
          all_goals first
            | exact ⟨_, rfl⟩
            | exact ipv4Loop_ok _ (by simp [h0]) _ _ _ _
        · split
          · -- ':'
            obtain ⟨v, hv⟩ := peek_ok cs after hne
            have h1 : ∃ bb, (if (field == 0 && run.length == 0) = true then Except.map isAlnum (peek cs after) else Except.ok false) = (Except.ok bb : Except Fault Bool) := by
              split
              · exact ⟨isAlnum v, by simp [hv, Except.map]⟩
              · exact ⟨false, rfl⟩
            obtain ⟨bb, hbb⟩ := h1
            rw [hbb]
            cases bb with
            | true => exact ⟨_, rfl⟩
            | false =>
              simp only
              split
              · exact ⟨_, rfl⟩
              · rw [hv]
                simp only
                repeat' split
                all_goals first
                  | exact ⟨_, rfl⟩
                  | exact ih _ _ _ _ _ h0
          · obtain ⟨n, hn⟩ := spanHex_some (c :: cs ++ after) (by simp [h0])
            rw [hn]
            simp only
            repeat' split
            all_goals first
              | exact ⟨_, rfl⟩
              | exact ih _ _ _ _ _ h0

/-- `is_ipv6 (start, end)` inside a NUL-terminated string -/
theorem isIpv6_ok (s after : List Nat) (h : 0 ∈ after) : IsOk (isIpv6 s after) := ipv6Loop_ok _ _ _ _ _ _ h

theorem ipVerdict_ok {x : Except Fault Bool} (h : IsOk x) (a b : Bool) (inner : List Nat) : IsOk (ipVerdict x a b inner) := by
  obtain ⟨v, rfl⟩ := h
  cases v <;> exact ⟨_, rfl⟩

/-- `check_ip ()` -/
theorem checkIp_ok (d : List Nat) : IsOk (checkIp d) := by
  unfold checkIp
  split
  · exact ⟨_, rfl⟩
  · split
    · exact ⟨_, rfl⟩
    · split
      · exact ⟨_, rfl⟩
      · simp only
        split
        · exact ipVerdict_ok (isIpv6_ok _ [93, 0] (by decide)) _ _ _
        · split
          · exact ipVerdict_ok (isIpv6_ok _ [93, 0] (by decide)) _ _ _
          · exact ipVerdict_ok (isIpv4_ok _ [93, 0] (by decide)) _ _ _

/-! ### `is_special_domain`: the label walk never runs off the string, the copies stay inside `label[64]` -/

theorem countDots_afterDot (s : List Nat) (h : 1 ≤ countDots s) : ∃ r, afterDot s = some r ∧ countDots r = countDots s - 1 := by
  induction s with
  | nil => simp [countDots] at h
  | cons c cs ih =>
    by_cases hc : (c == 46) = true
    · exact ⟨cs, by simp [afterDot, hc], by simp [countDots, hc]⟩
    · have hc' : (c == 46) = false := by simpa using hc
      simp only [countDots, hc', Bool.false_eq_true, if_false] at h ⊢
      obtain ⟨r, h1, h2⟩ := ih h
      exact ⟨r, by simp [afterDot, hc', h1], h2⟩

theorem skipLabels_ok : ∀ (n : Nat) (cp : List Nat), n ≤ countDots cp → 1 ≤ countDots cp →
    ∃ cp', skipLabels n cp = some cp' ∧ 1 ≤ countDots cp'
  | 0, cp, _, h1 => ⟨cp, rfl, h1⟩
  | n + 1, cp, hn, h1 => by
    simp only [skipLabels]
    split
    · rename_i hge
      obtain ⟨r, hr, hc⟩ := countDots_afterDot cp h1
      rw [hr]
      simp only [Option.bind_some]
      exact skipLabels_ok n r (by omega) (by omega)
    · exact ⟨cp, rfl, h1⟩

theorem copyLabel_ok (cp : List Nat) (len : Nat) (h : len ≤ 63) : IsOk (copyLabel cp len) := by
  unfold copyLabel
  have : ¬ (len + 1 > Lim.LABEL_SIZE) := by simp only [Lim.LABEL_SIZE]; omega
  simp only [this, if_false]; exact ⟨_, rfl⟩

theorem lenFilter_small (n : Nat) (h : lenFilter n = false) : n ≤ 9 := by
  simp [lenFilter] at h; omega

/-- **`is_special_domain` never faults**, whatever the (NUL-terminated) domain: labels of any number and length,
empty labels, root dot included -/
theorem isSpecialDomain_ok (s : List Nat) : IsOk (isSpecialDomain s) := by
  unfold isSpecialDomain
  split
  · split <;> exact ⟨_, rfl⟩
  · rename_i hc
    have hc1 : 1 ≤ countDots s := by
      have : countDots s ≠ 0 := by simpa using hc
      omega
    obtain ⟨cp, hcp, hcd⟩ := skipLabels_ok (if s.getLast? == some 46 then countDots s - 1 else countDots s) s
      (by split <;> omega) hc1
    rw [hcp]
    simp only
    obtain ⟨rest, hrest, _⟩ := countDots_afterDot cp hcd
    rw [hrest]
    simp only
    have hex : IsOk (exampleHit cp rest) := by
      unfold exampleHit
      split
      · obtain ⟨l, hl⟩ := copyLabel_ok cp 7 (by omega)
        rw [hl]
        simp only
        split
        · split
          · obtain ⟨l3, hl3⟩ := copyLabel_ok rest 3 (by omega)
            rw [hl3]; exact ⟨_, rfl⟩
          · exact ⟨_, rfl⟩
        · exact ⟨_, rfl⟩
      · exact ⟨_, rfl⟩
    obtain ⟨v, hv⟩ := hex
    rw [hv]
    cases v with
    | true => exact ⟨_, rfl⟩
    | false =>
      simp only
      unfold lastLabelHit
      split
      · exact ⟨_, rfl⟩
      · rename_i hf
        have hf' : lenFilter (upToDot rest).length = false := by simpa using hf
        obtain ⟨l, hl⟩ := copyLabel_ok rest (upToDot rest).length (by have := lenFilter_small _ hf'; omega)
        rw [hl]; exact ⟨_, rfl⟩

theorem checkTld_ok (d : List Nat) (tld : Bool) : IsOk (checkTld d tld) := by
  unfold checkTld
  split
  · exact ⟨_, rfl⟩
  · obtain ⟨v, hv⟩ := isSpecialDomain_ok d
    rw [hv]
    cases v with
    | true => exact ⟨_, rfl⟩
    | false => simp only; split <;> exact ⟨_, rfl⟩

/-! ### the whole validation -/

/-- what is assumed of the IDN library: when it reports success it has produced an output string -/
def ConvContract (conv : List Nat → Conv) : Prop := ∀ d, (conv d).rc = 0 → (conv d).out.isSome = true

theorem isUtf8Domain_ok (b : Build) (conv : List Nat → Conv) (hc : ConvContract conv) (d : List Nat) (tld : Bool) :
    IsOk (isUtf8Domain b conv d tld) := by
  unfold isUtf8Domain
  split
  · exact ⟨_, rfl⟩
  · simp only
    split
    · exact ⟨_, rfl⟩
    · rename_i hrc
      have hz : (conv d).rc = 0 := by simpa using hrc
      have := hc d hz
      split
      · rename_i hout; rw [hout] at this; cases this
      · rename_i a _
        obtain ⟨rc, hr⟩ := isAsciiDomain_ok b.underscore a [0] (by simp)
        rw [hr]
        simp only
        split
        · exact ⟨_, rfl⟩
        · obtain ⟨t, ht⟩ := checkTld_ok a tld
          rw [ht]; exact ⟨_, rfl⟩

/-- **`is_*_email` never faults**: for every byte string, mode, build, `tld_check` and every answer of an IDN
library honouring its contract, the call returns a result record -/
theorem isEmail_ok (b : Build) (conv : List Nat → Conv) (hc : ConvContract conv) (m : Mode) (s : List Nat) (tld : Bool) :
    IsOk (isEmail b conv m s tld) := by
  unfold isEmail
  repeat' split
  all_goals first
    | exact ⟨_, rfl⟩
    | skip
  · -- host name
    unfold hostPart
    split
    · obtain ⟨p, hp⟩ := isUtf8Domain_ok b conv hc _ tld
      rw [hp]
      obtain ⟨rc, irc⟩ := p
      simp only
      split <;> exact ⟨_, rfl⟩
    · obtain ⟨rc, hr⟩ := isAsciiDomain_ok b.underscore _ [0] (by simp)
      rw [hr]
      simp only
      split
      · obtain ⟨t, ht⟩ := checkTld_ok _ tld
        rw [ht]; exact ⟨_, rfl⟩
      · exact ⟨_, rfl⟩
  · -- literal
    unfold literalPart
    obtain ⟨p, hp⟩ := checkIp_ok _
    rw [hp]
    obtain ⟨rc, v4, v6, lit⟩ := p
    simp only
    split <;> exact ⟨_, rfl⟩

/-- **the high-level call never faults and never aborts**: on an object satisfying the ledger invariant (every
state reachable from `eav_init`, `C13.run_inv`) with a confirmed mode, `eav_is_email` followed by `eav_errstr`
returns normally — no uninitialised field, no NULL callback, no `abort ()`, no free of a dead block -/
theorem step_isEmail_ok (be : Backend) (b : Build) (c : Conv) (hc : c.rc = 0 → c.out.isSome = true) (st : State) (e : EavT) (m : Mode) (a : List Nat)
    (hinv : C13.Inv be st) (hobj : st.obj = some e) (hm : C01.modeOfObj e = some m) :
    IsOk (step be b st (.isEmail a c)) := by
  have hout := C13.isEmail_outcome be b c st e m a hinv hobj hm
  obtain ⟨r, hr⟩ := isEmail_ok b (fun _ => c) (fun _ => hc) m a e.tldCheck
  have hv : IsOk (verdictOf e.allowTld r) := by
    have hnab := C16.no_abort b (fun _ => c) m a e.tldCheck e.allowTld r hr
    cases hvv : verdictOf e.allowTld r with
    | ok v => exact ⟨v, rfl⟩
    | error f =>
      exfalso
      unfold verdictOf at hvv
      repeat' split at hvv
      all_goals first | (cases hvv; done) | skip
      all_goals
        rename_i harm
        have : verdictOf e.allowTld r = .error .abort := by
          unfold verdictOf
          simp_all
        exact hnab this
  obtain ⟨⟨ret, ec, msg⟩, hvv⟩ := hv
  simp only [C13.outcomeOf, hr, hvv] at hout
  obtain ⟨st', h1, h2, _, _, _, _⟩ := hout
  have hlt : ec < E.MAX := C15.errcode_lt_max e.allowTld r ret ec msg hvv
    (by have := C15.rc_lower b (fun _ => c) m a e.tldCheck r hr; omega) (C16.rc_shape b (fun _ => c) m a e.tldCheck r hr).1
  have herr : IsOk (eavErrstr st') := by
    unfold eavErrstr
    simp only [h2]
    split
    · split <;> exact ⟨_, rfl⟩
    · first | exact ⟨_, rfl⟩ | (rw [if_pos hlt]; exact ⟨_, rfl⟩)
  obtain ⟨mm, hmm⟩ := herr
  simp only [step, h1, hmm, h2]
  exact ⟨_, rfl⟩

/-! ### the claims are not vacuous: the model does fault when the contract is broken, and the contracts are satisfiable -/

/-- without a terminator behind the string the hyphen look-ahead of `is_ascii_domain` runs off the buffer -/
example : isAsciiDomain false [97, 45] [] = .error .oob := by decide
/-- … and the `strspn` of `is_ipv4` too (`0.0` with nothing behind it) -/
example : isIpv4 [48, 46, 48] [] = .error .oob := by decide
/-- a converter that reports success without handing out a buffer makes `is_utf8_domain` call `strlen (NULL)` -/
example : isUtf8Domain {} (fun _ => ⟨0, none⟩) [97] false = .error .oob := by decide
/-- the two kinds of converter the library meets satisfy the contract -/
example : ConvContract (fun x => ⟨0, some (lowerAll x)⟩) := fun _ _ => rfl
example : ConvContract (fun _ => ⟨-304, none⟩) := by
  intro d h; simp at h

end Eav.Props.C06
