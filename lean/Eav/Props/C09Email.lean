import Eav.Props.C09Api
import Eav.Props.C01
import Eav.Lemmas.CheckIp
/-!
# C09 at the level of `is_{822,5321,5322}_email`: class *special* in the result record

Whatever the local part is — any bytes, quoted or not — the record carries class 8 only when the domain part is a valid host name
that `check_tld` classified as special, hence (C09Api) only for the reserved names; with TLD checking off it never carries a class.
-/
namespace Eav.Props.C09
open Eav Eav.Spec

/-- **class 8 in the record of an ASCII-mode call comes from `check_tld` on the domain part**, never from the local part, the
literal branch or a syntax error: the address is `l@d` split at the last '@', `d` passed the host-name test, and `check_tld d` said 8 -/
theorem email_special_sound (b : Build) (conv : List Nat → Conv) (m : Mode) (email : List Nat) (tld : Bool) (r : Result)
    (hm : m ≠ .m6531) (h : isEmail b conv m email tld = .ok r) (h8 : r.rc = (T.SPECIAL : Int)) :
    ∃ l d, splitLast 64 email = some (l, d) ∧ isAsciiDomain b.underscore d [0] = .ok 0 ∧ checkTld d tld = .ok (T.SPECIAL : Int) := by
  unfold isEmail at h
  split at h
  · simp only [Except.ok.injEq] at h; subst h; exact absurd h8 (by decide)
  · split at h
    · simp only [Except.ok.injEq] at h; subst h; exact absurd h8 (by decide)
    · rename_i l d hsp
      split at h
      · simp only [Except.ok.injEq] at h; subst h; exact absurd h8 (by decide)
      · split at h
        · simp only [Except.ok.injEq] at h; subst h; exact absurd h8 (by decide)
        · split at h
          · simp only [Except.ok.injEq] at h; subst h
            have := C01.localOf_nonpos b m l
            simp only at h8; rw [h8] at this; exact absurd this (by decide)
          · split at h
            · -- host name
              unfold hostPart at h
              cases m with
              | m6531 => exact absurd rfl hm
              | m822 | m5321 | m5322 =>
                simp only at h
                cases hd : isAsciiDomain b.underscore d [0] with
                | error e => rw [hd] at h; cases h
                | ok rc =>
                  rw [hd] at h; simp only at h
                  split at h
                  · rename_i hrc
                    have hrc0 : rc = 0 := by simpa using hrc
                    cases ht : checkTld d tld with
                    | error e => rw [ht] at h; cases h
                    | ok t =>
                      rw [ht] at h; simp only [Except.ok.injEq] at h; subst h
                      simp only [okResult] at h8
                      exact ⟨l, d, hsp, by rw [hd, hrc0], by rw [ht, h8]⟩
                  · simp only [Except.ok.injEq] at h; subst h
                    have := C04.isAsciiDomain_nonpos _ _ _ _ hd
                    simp only at h8; rw [h8] at this; exact absurd this (by decide)
            · -- literal
              unfold literalPart at h
              cases hc : checkIp d with
              | error e => rw [hc] at h; cases h
              | ok p =>
                obtain ⟨rc, v4, v6, lit⟩ := p
                rw [hc] at h; simp only at h
                split at h
                · simp only [Except.ok.injEq] at h; subst h; simp only [okResult] at h8; exact absurd h8 (by decide)
                · simp only [Except.ok.injEq] at h; subst h
                  simp only at h8
                  rename_i hne
                  have hne' : rc ≠ 0 := by simpa using hne
                  have := (checkIp_shape d rc v4 v6 lit hc).2 hne'
                  rw [h8] at this; exact absurd this.2.2 (by decide)

/-- **no other domain is classified special**: in the ASCII modes a record with class 8 means the domain (after the last '@') is a
valid host name reserved by RFC 2606 / 6761 / 7686 — for every local part -/
theorem email_special_only_reserved (b : Build) (conv : List Nat → Conv) (m : Mode) (email : List Nat) (tld : Bool) (r : Result)
    (hm : m ≠ .m6531) (h : isEmail b conv m email tld = .ok r) (h8 : r.rc = (T.SPECIAL : Int)) (hnf : NulFree email) :
    ∃ l d, email = l ++ 64 :: d ∧ 64 ∉ d ∧ HostOk b.underscore d ∧ (d.getLast? ≠ some 46 → reserved d = true) ∧ tld = true := by
  obtain ⟨l, d, hsp, hhost, hct⟩ := email_special_sound b conv m email tld r hm h h8
  have hs := (C01.splitLast_iff 64 email l d).mp hsp
  have hnfd : NulFree d := by
    intro x hx
    exact hnf x (by rw [hs.1]; simp [hx])
  have hok : HostOk b.underscore d := (C04.host_iff b.underscore d hnfd).mp hhost
  have htld : tld = true := by
    cases tld with
    | true => rfl
    | false => rw [tld_off_no_class] at hct; exact absurd (Except.ok.inj hct) (by decide)
  subst htld
  exact ⟨l, d, hs.1, hs.2, hok, fun hnr => (special_class_iff_reserved b.underscore d hok hnr).mp hct, rfl⟩

/-- non-vacuity: `"a\nb"@x.test` (822: bare LF inside quotes is legal) is special; the same local part at `b.com` is generic -/
example : (isEmail {} (fun _ => { rc := 0, out := none }) .m822 ([34, 97, 10, 98, 34, 64] ++ [120, 46, 116, 101, 115, 116]) true).map (·.rc) = .ok 8 ∧
          (isEmail {} (fun _ => { rc := 0, out := none }) .m822 ([34, 97, 10, 98, 34, 64] ++ [98, 46, 99, 111, 109]) true).map (·.rc) = .ok 3 := by
  decide +kernel

end Eav.Props.C09
