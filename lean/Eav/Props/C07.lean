import Eav.Model
import Eav.Lemmas.Str
import Eav.Props.C11
/-!
# C07 — the TLD class is the class of the shipped IANA table, matched on the whole last label

`isTld` is the model of `src/is_tld.c` (linear scan with `strncasecmp (tld->domain, start, tld->length)`)
over `Gen.tldTable`, the table compiled into the library on this run.
-/
namespace Eav.Props.C07
open Eav

/-- the class a table assigns to a label: the first row whose name is the lower-cased label -/
def lookup (table : List (List Nat × Nat × Nat)) (s : List Nat) : Int :=
  match table.find? (fun r => r.1 == lowerAll s) with
  | some r => (r.2.2 : Int)
  | none => -(E.TLD_INVALID : Int)

/-- The scan compares WHOLE labels, ASCII-case-insensitively: because every `length` field is
`strlen + 1` the terminator takes part in the comparison, so a prefix, a suffix or an extension of a
listed name never matches. -/
theorem tldScan_eq_lookup (table : List (List Nat × Nat × Nat)) (s : List Nat)
    (hlen : ∀ r ∈ table, r.2.1 = r.1.length + 1) (hlow : ∀ r ∈ table, isLowerName r.1 = true) :
    tldScan table s = lookup table s := by
  induction table with
  | nil => simp [tldScan, lookup]
  | cons r rows ih =>
    obtain ⟨name, len, type⟩ := r
    have h1 : len = name.length + 1 := hlen (name, len, type) (by simp)
    have h2 : lowerAll name = name := lowerAll_of_isLowerName (hlow (name, len, type) (by simp))
    have ih' := ih (fun r hr => hlen r (by simp [hr])) (fun r hr => hlow r (by simp [hr]))
    simp only [tldScan, lookup, List.find?_cons]
    rw [strncaseeq_full name s len (by omega), h2]
    by_cases hm : (name == lowerAll s) = true
    · simp [hm]
    · simp only [hm, Bool.false_eq_true, if_false]
      rw [ih']
      simp [lookup]

theorem table_lengths : ∀ r ∈ Gen.tldTable, r.2.1 = r.1.length + 1 := by
  have h := C11.lengths_and_types
  rw [List.all_eq_true] at h
  intro r hr
  have := h r hr
  simp at this
  exact this.1.1

theorem table_lower : ∀ r ∈ Gen.tldTable, isLowerName r.1 = true := by
  have h := C11.names_lower_alabel
  rw [List.all_eq_true] at h
  intro r hr
  have h1 := h r hr
  simp only [Bool.and_eq_true, List.all_eq_true] at h1
  simp only [isLowerName, List.all_eq_true]
  intro c hc
  have := h1.2 c hc
  simp [isLower, isDigit, isUpper] at this ⊢
  omega

/-- **listed label ⇒ exactly its listed class, unlisted label ⇒ invalid TLD** (for every label, every letter case) -/
theorem isTld_eq_lookup (s : List Nat) (hs : s ≠ []) : isTld s = lookup Gen.tldTable s := by
  unfold isTld isTldIn
  have : s.isEmpty = false := by cases s <;> simp_all
  rw [this]
  simp only [Bool.false_eq_true, if_false]
  exact tldScan_eq_lookup _ _ table_lengths table_lower

/-- a class is reported only for a label that IS a listed name (never for a prefix, suffix or extension) -/
theorem whole_label (s : List Nat) (hs : s ≠ []) (c : Int) (hc : isTld s = c) (hpos : 0 < c) :
    ∃ r ∈ Gen.tldTable, r.1 = lowerAll s ∧ (r.2.2 : Int) = c := by
  rw [isTld_eq_lookup s hs] at hc
  unfold lookup at hc
  split at hc
  · rename_i r hf
    refine ⟨r, List.mem_of_find?_eq_some hf, ?_, hc⟩
    have := List.find?_some hf
    simpa using this
  · omega

/-- the class depends on the label only through its lower-case form -/
theorem case_insensitive (s t : List Nat) (hs : s ≠ []) (ht : t ≠ []) (h : lowerAll s = lowerAll t) :
    isTld s = isTld t := by
  rw [isTld_eq_lookup s hs, isTld_eq_lookup t ht]; simp [lookup, h]

/-- relation between the compiled table and the CSV, lifted through `C11.table_eq_gen` -/
theorem lookup_csv : ∀ (csv : List (List Nat × List Nat × List Nat)) (tbl : List (List Nat × Nat × Nat)) (s : List Nat),
    csv.map Spec.genRow = tbl.map some →
    lookup tbl s = (match Spec.csvClass csv s with | some c => (c : Int) | none => -(E.TLD_INVALID : Int))
  | [], [], s, _ => by simp [lookup, Spec.csvClass]
  | [], _ :: _, _, h => by simp at h
  | _ :: _, [], _, h => by simp at h
  | c :: cs, t :: ts, s, h => by
    simp only [List.map_cons, List.cons.injEq] at h
    obtain ⟨h1, h2⟩ := h
    have ih := lookup_csv cs ts s h2
    unfold Spec.genRow at h1
    cases hc : Spec.classOfRow c with
    | none => simp [hc] at h1
    | some cls =>
      simp only [hc, Option.map_some, Option.some.injEq] at h1
      subst h1
      simp only [lookup, Spec.csvClass, List.find?_cons] at ih ⊢
      by_cases hm : (c.1 == lowerAll s) = true
      · simp [hm, hc]
      · simp only [hm, Bool.false_eq_true]
        exact ih

/-- **the library answers exactly as data/punycode.csv dictates** -/
theorem isTld_eq_csv (s : List Nat) (hs : s ≠ []) :
    isTld s = (match Spec.csvClass Gen.csvPuny s with | some c => (c : Int) | none => -(E.TLD_INVALID : Int)) := by
  rw [isTld_eq_lookup s hs]
  exact lookup_csv _ _ s C11.table_eq_gen

/-- non-vacuity: `com` is generic, `COM` too, `co` is a country code, `comm` is not a TLD -/
example : isTld [99, 111, 109] = 3 ∧ isTld [67, 79, 77] = 3 ∧ isTld [99, 111] = 2 ∧ isTld [99, 111, 109, 109] = -26 := by
  decide +kernel

end Eav.Props.C07
