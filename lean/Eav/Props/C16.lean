import Eav.Model
import Eav.Props.C01
import Eav.Props.C07
import Eav.Props.C08
import Eav.Lemmas.CheckIp
/-!
# C16 — the result record is consistent with the decision and the form of the domain

Statements about the record `isEmail` returns (the model of `is_*_email`), for every input, mode,
build and IDN answer.
-/
namespace Eav.Props.C16
open Eav

def flagCount (r : Result) : Nat := (if r.isIpv4 then 1 else 0) + (if r.isIpv6 then 1 else 0) + (if r.isDomain then 1 else 0)

/-- what `check_ip` reports: never both families, a family exactly on success -/
theorem checkIp_flags (d : List Nat) (rc : Int) (v4 v6 : Bool) (lit : List Nat) (h : checkIp d = .ok (rc, v4, v6, lit)) :
    (rc = 0 → (v4 = true ∧ v6 = false) ∨ (v4 = false ∧ v6 = true)) ∧ (rc ≠ 0 → v4 = false ∧ v6 = false ∧ rc < 0) :=
  checkIp_shape d rc v4 v6 lit h

/-- the class reported by the table scan is one of the nine classes, or the code EEAV_TLD_INVALID -/
theorem isTld_range (s : List Nat) : isTld s = -(E.TLD_INVALID : Int) ∨ (1 ≤ isTld s ∧ isTld s ≤ 9) := by
  by_cases hs : s = []
  · subst hs; left; rfl
  · rw [C07.isTld_eq_lookup s hs]
    unfold C07.lookup
    split
    · rename_i r hf
      right
      have hm := List.mem_of_find?_eq_some hf
      have h := C11.lengths_and_types
      rw [List.all_eq_true] at h
      have := h r hm
      simp only [Bool.and_eq_true, decide_eq_true_eq] at this
      omega
    · left; rfl

theorem checkTld_range (d : List Nat) (tld : Bool) (t : Int) (h : checkTld d tld = .ok t) :
    t = 0 ∨ t = -(E.DOMAIN_NOT_FQDN : Int) ∨ t = -(E.TLD_INVALID : Int) ∨ (1 ≤ t ∧ t ≤ 9) := by
  unfold checkTld at h
  split at h
  · simp only [Except.ok.injEq] at h; left; exact h.symm
  · split at h
    · cases h
    · simp only [Except.ok.injEq] at h; subst h; right; right; right; decide
    · split at h
      · simp only [Except.ok.injEq] at h; subst h; right; left; rfl
      · simp only [Except.ok.injEq] at h; subst h
        rcases isTld_range _ with h | h
        · right; right; left; exact h
        · right; right; right; exact h

/-- **the shape of the result code**: 0, a TLD class 1..9, or a negative error code; a class only with TLD checking on -/
theorem rc_shape (b : Build) (conv : List Nat → Conv) (m : Mode) (s : List Nat) (tld : Bool) (r : Result)
    (h : isEmail b conv m s tld = .ok r) : r.rc ≤ 9 ∧ (tld = false → r.rc ≤ 0) := by
  refine ⟨?_, fun ht => by subst ht; exact C01.rc_nonpos_off b conv m s r h⟩
  unfold isEmail at h
  split at h
  · simp only [Except.ok.injEq] at h; subst h; decide
  · split at h
    · simp only [Except.ok.injEq] at h; subst h; decide
    · split at h
      · simp only [Except.ok.injEq] at h; subst h; decide
      · split at h
        · simp only [Except.ok.injEq] at h; subst h; decide
        · split at h
          · rename_i l d _ _ _ _
            simp only [Except.ok.injEq] at h; subst h
            have := C01.localOf_nonpos b m l
            simp only; omega
          · split at h
            · -- host name
              unfold hostPart at h
              have ascii : ∀ {l d : List Nat} {r : Result}, (match isAsciiDomain b.underscore d [0] with
                  | .error e => .error e
                  | .ok rc => if (rc == 0) = true then
                      match checkTld d tld with
                      | .error e => .error e
                      | .ok t => .ok (okResult b t 0 false false true l d)
                    else .ok { rc := rc }) = Except.ok r → r.rc ≤ 9 := by
                intro l d r h
                split at h
                · cases h
                · rename_i rc hrc
                  split at h
                  · split at h
                    · cases h
                    · rename_i t ht
                      simp only [Except.ok.injEq] at h; subst h
                      have := checkTld_range _ _ _ ht
                      simp only [okResult]
                      rcases this with h | h | h | h
                      · omega
                      · rw [h]; decide
                      · rw [h]; decide
                      · omega
                  · simp only [Except.ok.injEq] at h; subst h
                    have := C04.isAsciiDomain_nonpos _ _ _ _ hrc
                    simp only; omega
              cases m with
              | m6531 =>
                simp only at h
                split at h
                · cases h
                · rename_i rc irc hu
                  have hr : rc ≤ 9 := isUtf8Domain_range b conv _ tld rc irc hu
                  split at h <;> (simp only [Except.ok.injEq] at h; subst h) <;> simp [okResult] <;> omega
              | m822 => exact ascii h
              | m5321 => exact ascii h
              | m5322 => exact ascii h
            · have := C01.literalPart_rc _ _ _ _ h; omega
where
  isUtf8Domain_range (b : Build) (conv : List Nat → Conv) (d : List Nat) (tld : Bool) (rc irc : Int)
      (h : isUtf8Domain b conv d tld = .ok (rc, irc)) : rc ≤ 9 := by
    unfold isUtf8Domain at h
    split at h
    · simp only [Except.ok.injEq, Prod.mk.injEq] at h; obtain ⟨rfl, _⟩ := h; decide
    · simp only at h
      split at h
      · simp only [Except.ok.injEq, Prod.mk.injEq] at h; obtain ⟨rfl, _⟩ := h; decide
      · split at h
        · cases h
        · split at h
          · cases h
          · rename_i r hr
            split at h
            · simp only [Except.ok.injEq, Prod.mk.injEq] at h
              obtain ⟨rfl, _⟩ := h
              have := C04.isAsciiDomain_nonpos _ _ _ _ hr; omega
            · split at h
              · cases h
              · rename_i t ht
                simp only [Except.ok.injEq, Prod.mk.injEq] at h
                obtain ⟨rfl, _⟩ := h
                rcases checkTld_range _ _ _ ht with h | h | h | h
                · omega
                · rw [h]; decide
                · rw [h]; decide
                · omega

/-- hence `abort ()` in `eav_is_email` is unreachable: the policy switch always finds its arm -/
theorem no_abort (b : Build) (conv : List Nat → Conv) (m : Mode) (s : List Nat) (tld : Bool) (k : Nat) (r : Result)
    (h : isEmail b conv m s tld = .ok r) : verdictOf k r ≠ .error .abort := by
  intro ha
  have := C08.abort_only_outside_classes k r ha
  have := (rc_shape b conv m s tld r h).1
  omega

/-- **the flags**: at most one is ever set; on a non-negative result exactly one, and it is `is_domain` for a host
name and one of the two families for a bracketed literal; with a negative result a flag can only be the `is_domain`
of a syntactically valid host name whose TLD test failed (ASCII modes) -/
theorem flags (b : Build) (conv : List Nat → Conv) (m : Mode) (s : List Nat) (tld : Bool) (r : Result)
    (h : isEmail b conv m s tld = .ok r) :
    flagCount r ≤ 1 ∧ (0 ≤ r.rc → flagCount r = 1) ∧
      (r.rc < 0 → flagCount r = 0 ∨ (r.isDomain = true ∧ (r.rc = -(E.DOMAIN_NOT_FQDN : Int) ∨ r.rc = -(E.TLD_INVALID : Int)))) ∧
      (∀ L D, s = L ++ 64 :: D → 64 ∉ D → 0 ≤ r.rc → (r.isDomain = true ↔ D.head? ≠ some 91)) := by
  unfold isEmail at h
  have neg : ∀ {e : Int}, e < 0 → r = { rc := e } →
      flagCount r ≤ 1 ∧ (0 ≤ r.rc → flagCount r = 1) ∧
      (r.rc < 0 → flagCount r = 0 ∨ (r.isDomain = true ∧ (r.rc = -(E.DOMAIN_NOT_FQDN : Int) ∨ r.rc = -(E.TLD_INVALID : Int)))) ∧
      (∀ L D, s = L ++ 64 :: D → 64 ∉ D → 0 ≤ r.rc → (r.isDomain = true ↔ D.head? ≠ some 91)) := by
    intro e he hr
    subst hr
    refine ⟨by simp [flagCount], fun h => by simp at h; omega, fun _ => Or.inl (by simp [flagCount]), fun _ _ _ _ h => by simp at h; omega⟩
  split at h
  · simp only [Except.ok.injEq] at h; exact neg (by decide) h.symm
  · split at h
    · simp only [Except.ok.injEq] at h; exact neg (by decide) h.symm
    · rename_i l d hsp
      obtain ⟨hs, hnd⟩ := (C01.splitLast_iff 64 s l d).mp hsp
      have huniq : ∀ L D, s = L ++ 64 :: D → 64 ∉ D → D = d := by
        intro L D hs' hnd'
        have := (C01.splitLast_iff 64 s L D).mpr ⟨hs', hnd'⟩
        rw [hsp] at this
        simp only [Option.some.injEq, Prod.mk.injEq] at this
        exact this.2.symm
      split at h
      · simp only [Except.ok.injEq] at h; exact neg (by decide) h.symm
      · split at h
        · simp only [Except.ok.injEq] at h; exact neg (by decide) h.symm
        · split at h
          · rename_i hl
            simp only [Except.ok.injEq] at h
            have := C01.localOf_nonpos b m l
            have hne : localOf b m l ≠ 0 := by simpa using hl
            exact neg (by omega) h.symm
          · split at h
            · -- host name
              rename_i hbr
              have hbr' : d.head? ≠ some 91 := by simpa using hbr
              unfold hostPart at h
              have okcase : ∀ {t irc : Int}, r = okResult b t irc false false true l d →
                  flagCount r ≤ 1 ∧ (0 ≤ r.rc → flagCount r = 1) ∧ True ∧
                  (∀ L D, s = L ++ 64 :: D → 64 ∉ D → 0 ≤ r.rc → (r.isDomain = true ↔ D.head? ≠ some 91)) := by
                intro t irc hr
                subst hr
                refine ⟨by simp [flagCount, okResult], fun _ => by simp [flagCount, okResult], trivial, ?_⟩
                intro L D hs' hnd' _
                rw [huniq L D hs' hnd']
                simp [okResult, hbr']
              cases m with
              | m6531 =>
                simp only at h
                split at h
                · cases h
                · rename_i rc irc hu
                  split at h
                  · simp only [Except.ok.injEq] at h
                    have := okcase h.symm
                    refine ⟨this.1, this.2.1, ?_, this.2.2.2⟩
                    intro hneg; subst h; simp [okResult] at hneg; omega
                  · rename_i hge
                    simp only [Except.ok.injEq] at h
                    subst h
                    refine ⟨by simp [flagCount], fun h => by simp at h; omega, fun _ => Or.inl (by simp [flagCount]), fun _ _ _ _ h => by simp at h; omega⟩
              | m822 | m5321 | m5322 =>
                simp only at h
                split at h
                · cases h
                · rename_i rc hrc
                  split at h
                  · split at h
                    · cases h
                    · rename_i t ht
                      simp only [Except.ok.injEq] at h
                      have := okcase h.symm
                      refine ⟨this.1, this.2.1, ?_, this.2.2.2⟩
                      intro hneg
                      subst h
                      right
                      refine ⟨by simp [okResult], ?_⟩
                      simp only [okResult] at hneg ⊢
                      rcases checkTld_range _ _ _ ht with h | h | h | h
                      · omega
                      · exact Or.inl h
                      · exact Or.inr h
                      · omega
                  · rename_i hz
                    simp only [Except.ok.injEq] at h
                    have := C04.isAsciiDomain_nonpos _ _ _ _ hrc
                    have hne : rc ≠ 0 := by simpa using hz
                    exact neg (by omega) h.symm
            · -- literal
              rename_i hbr
              have hbr' : d.head? = some 91 := by simpa using hbr
              unfold literalPart at h
              split at h
              · cases h
              · rename_i rc v4 v6 lit hc
                have hf := checkIp_flags d rc v4 v6 lit hc
                split at h
                · rename_i hz
                  have hz' : rc = 0 := by simpa using hz
                  simp only [Except.ok.injEq] at h
                  subst h
                  have := hf.1 hz'
                  refine ⟨?_, fun _ => ?_, fun hneg => by simp [okResult] at hneg, ?_⟩
                  · rcases this with ⟨rfl, rfl⟩ | ⟨rfl, rfl⟩ <;> simp [flagCount, okResult]
                  · rcases this with ⟨rfl, rfl⟩ | ⟨rfl, rfl⟩ <;> simp [flagCount, okResult]
                  · intro L D hs' hnd' _
                    rw [huniq L D hs' hnd']
                    simp [okResult, hbr']
                · rename_i hz
                  have hne : rc ≠ 0 := by simpa using hz
                  simp only [Except.ok.injEq] at h
                  exact neg (hf.2 hne).2.2 h.symm

/-- `EAV_EXTRA`: `lpart` and `domain` reproduce the two halves of an accepted address byte for byte (a literal
without its brackets), are NULL otherwise, and are always NULL in a build without the option -/
theorem extra_strings (b : Build) (conv : List Nat → Conv) (m : Mode) (s : List Nat) (tld : Bool) (r : Result)
    (h : isEmail b conv m s tld = .ok r) :
    (b.extra = false → r.lpart = none ∧ r.domain = none) ∧
    (r.isIpv4 = false → r.isIpv6 = false → r.isDomain = false → r.lpart = none ∧ r.domain = none) ∧
    (b.extra = true → flagCount r = 1 → ∃ L D, s = L ++ 64 :: D ∧ 64 ∉ D ∧ r.lpart = some L ∧
        ((r.isDomain = true ∧ r.domain = some D) ∨ (r.isDomain = false ∧ r.domain = some (D.drop 1).dropLast))) := by
  unfold isEmail at h
  have none_case : ∀ {e : Int}, r = { rc := e } →
      (b.extra = false → r.lpart = none ∧ r.domain = none) ∧
      (r.isIpv4 = false → r.isIpv6 = false → r.isDomain = false → r.lpart = none ∧ r.domain = none) ∧
      (b.extra = true → flagCount r = 1 → ∃ L D, s = L ++ 64 :: D ∧ 64 ∉ D ∧ r.lpart = some L ∧
        ((r.isDomain = true ∧ r.domain = some D) ∨ (r.isDomain = false ∧ r.domain = some (D.drop 1).dropLast))) := by
    intro e hr; subst hr
    exact ⟨fun _ => ⟨rfl, rfl⟩, fun _ _ _ => ⟨rfl, rfl⟩, fun _ h => by simp [flagCount] at h⟩
  split at h
  · simp only [Except.ok.injEq] at h; exact none_case h.symm
  · split at h
    · simp only [Except.ok.injEq] at h; exact none_case h.symm
    · rename_i l d hsp
      obtain ⟨hs, hnd⟩ := (C01.splitLast_iff 64 s l d).mp hsp
      split at h
      · simp only [Except.ok.injEq] at h; exact none_case h.symm
      · split at h
        · simp only [Except.ok.injEq] at h; exact none_case h.symm
        · split at h
          · simp only [Except.ok.injEq] at h; exact none_case h.symm
          · have okhost : ∀ {t irc : Int}, r = okResult b t irc false false true l d →
                (b.extra = false → r.lpart = none ∧ r.domain = none) ∧
                (r.isIpv4 = false → r.isIpv6 = false → r.isDomain = false → r.lpart = none ∧ r.domain = none) ∧
                (b.extra = true → flagCount r = 1 → ∃ L D, s = L ++ 64 :: D ∧ 64 ∉ D ∧ r.lpart = some L ∧
                  ((r.isDomain = true ∧ r.domain = some D) ∨ (r.isDomain = false ∧ r.domain = some (D.drop 1).dropLast))) := by
              intro t irc hr; subst hr
              refine ⟨fun he => by simp [okResult, he], fun _ _ h => by simp [okResult] at h, fun he _ => ?_⟩
              exact ⟨l, d, hs, hnd, by simp [okResult, he], Or.inl ⟨rfl, by simp [okResult, he]⟩⟩
            split at h
            · unfold hostPart at h
              cases m with
              | m6531 =>
                simp only at h
                split at h
                · cases h
                · split at h
                  · simp only [Except.ok.injEq] at h; exact okhost h.symm
                  · simp only [Except.ok.injEq] at h; subst h
                    exact ⟨fun _ => ⟨rfl, rfl⟩, fun _ _ _ => ⟨rfl, rfl⟩, fun _ h => by simp [flagCount] at h⟩
              | m822 | m5321 | m5322 =>
                simp only at h
                split at h
                · cases h
                · split at h
                  · split at h
                    · cases h
                    · simp only [Except.ok.injEq] at h; exact okhost h.symm
                  · simp only [Except.ok.injEq] at h; exact none_case h.symm
            · unfold literalPart at h
              split at h
              · cases h
              · rename_i rc v4 v6 lit hc
                split at h
                · rename_i hz
                  have hz' : rc = 0 := by simpa using hz
                  simp only [Except.ok.injEq] at h
                  subst h
                  have hf := (checkIp_flags d rc v4 v6 lit hc).1 hz'
                  have hlit : lit = (d.drop 1).dropLast := checkIp_literal d rc v4 v6 lit hc hz'
                  refine ⟨fun he => by simp [okResult, he], fun h4 h6 _ => ?_, fun he _ => ?_⟩
                  · rcases hf with ⟨rfl, rfl⟩ | ⟨rfl, rfl⟩ <;> simp [okResult] at h4 h6
                  · exact ⟨l, d, hs, hnd, by simp [okResult, he], Or.inr ⟨rfl, by simp [okResult, he, hlit]⟩⟩
                · simp only [Except.ok.injEq] at h; exact none_case h.symm
where
  /-- the literal handed out by `check_ip` is the domain without its brackets -/
  checkIp_literal (d : List Nat) (rc : Int) (v4 v6 : Bool) (lit : List Nat) (h : checkIp d = .ok (rc, v4, v6, lit)) (hz : rc = 0) :
      lit = (d.drop 1).dropLast := by
    subst hz
    unfold checkIp at h
    have iv : ∀ {x : Except Fault Bool} {a b : Bool} {inner : List Nat}, ipVerdict x a b inner = .ok (0, v4, v6, lit) → lit = inner := by
      intro x a b inner hx
      unfold ipVerdict at hx
      split at hx
      · cases hx
      · simp only [Except.ok.injEq, Prod.mk.injEq] at hx; exact hx.2.2.2.symm
      · simp only [Except.ok.injEq, Prod.mk.injEq] at hx; exact absurd hx.1 (by decide)
    split at h
    · simp only [Except.ok.injEq, Prod.mk.injEq] at h; exact absurd h.1 (by decide)
    · split at h
      · simp only [Except.ok.injEq, Prod.mk.injEq] at h; exact absurd h.1 (by decide)
      · rename_i pre post hsp
        obtain ⟨hd, _⟩ := (C01.splitLast_iff 93 d pre post).mp hsp
        split at h
        · simp only [Except.ok.injEq, Prod.mk.injEq] at h; exact absurd h.1 (by decide)
        · rename_i hpost
          have hp : post = [] := by cases post <;> simp_all
          subst hp
          have hinner : pre.drop 1 = (d.drop 1).dropLast := by
            rw [hd]
            cases pre with
            | nil => simp
            | cons x xs => simp
          simp only at h
          split at h
          · rw [iv h]; exact hinner
          · split at h <;> (rw [iv h]; exact hinner)

/-! ### non-vacuity -/
example : isEmail { extra := true } (fun _ => ⟨0, none⟩) .m5321 [97, 64, 91, 49, 46, 50, 46, 51, 46, 52, 93] true =
    .ok { rc := 0, isIpv4 := true, lpart := some [97], domain := some [49, 46, 50, 46, 51, 46, 52] } := by decide
example : isEmail {} (fun _ => ⟨0, none⟩) .m5321 [97, 64, 98, 46, 122, 122] true = .ok { rc := -26, isDomain := true } := by decide +kernel

end Eav.Props.C16
