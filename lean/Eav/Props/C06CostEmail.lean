import Eav.CostEmail
import Eav.Props.C06Cost
import Eav.Props.C01
/-!
# C06 (work): one `is_*_email` call examines a number of bytes that is linear in the length of the address

`emailTicks` (`Eav/CostEmail.lean`) composes the counters of every function on the path of `is_*_email`, along
the path the model takes.  Here:

* `domLoopT_fst` / `isAsciiDomainT_fst` — the twin of `is_ascii_domain` returns the model's own result;
* `isAsciiDomainT_le` — its ticks are at most `2·|s| + 3` (one per iteration, one more per hyphen look-ahead);
* `checkTldTicks_le`, `checkIpTicks_le`, `hostTicks_le` — the parts;
* **`emailTicks_linear`** — for every address, mode, build, `tld_check` and converter:
  `emailTicks ≤ 20·|address| + 8·|converter output| + 21 000`, the constant being the weight of the TLD table
  (≤ 20 000, `table_weight`, re-evaluated on the regenerated table) plus the bounded local part and the fixed
  comparisons.  No term is quadratic: the scans inside scans (`strspn`, `strchr`, `strncasecmp`) were bounded
  separately (`isIpv4_ticks`, `isIpv6_ticks`, `specialTicks_linear`, `tldTicks_le`).

That the compiled code does not do more work than these counters allow is measured (callgrind, `./check C06`),
not proved.
-/
namespace Eav.Props.C06.Cost
open Eav

theorem domLoopT_fst (us : Bool) : ∀ (cs after : List Nat) (ll : Nat) (nn : Bool),
    (domLoopT us cs after ll nn).1 = domLoop us cs after ll nn := by
  intro cs
  induction cs with
  | nil => intro after ll nn; rfl
  | cons c cs ih =>
    intro after ll nn
    unfold domLoopT domLoop
    split
    · rfl
    · split
      · split
        · rfl
        · exact ih _ _ _
      · split
        · split
          · rfl
          · exact ih _ _ _
        · split
          · split
            · rfl
            · cases hp : peek cs after with
              | error e => rfl
              | ok nx =>
                simp only [bind, Except.bind]
                split
                · rfl
                · exact ih _ _ _
          · rfl

theorem domLoopT_le (us : Bool) : ∀ (cs after : List Nat) (ll : Nat) (nn : Bool),
    (domLoopT us cs after ll nn).2 ≤ 2 * cs.length + 1 := by
  intro cs
  induction cs with
  | nil => intro after ll nn; simp [domLoopT]
  | cons c cs ih =>
    intro after ll nn
    unfold domLoopT
    simp only [List.length_cons]
    split
    · omega
    · split
      · split
        · omega
        · have := ih after (ll + 1) (nn || !isDigit c); simp only; omega
      · split
        · split
          · omega
          · have := ih after 0 nn; simp only; omega
        · split
          · split
            · omega
            · cases hp : peek cs after with
              | error e => simp only; omega
              | ok nx =>
                simp only
                split
                · omega
                · have := ih after (ll + 1) true; simp only; omega
          · omega

theorem isAsciiDomainT_fst (us : Bool) (s after : List Nat) : (isAsciiDomainT us s after).1 = isAsciiDomain us s after := by
  unfold isAsciiDomainT isAsciiDomain
  split
  · rfl
  · split
    · rfl
    · split
      · exact domLoopT_fst us _ _ _ _
      · exact domLoopT_fst us _ _ _ _

theorem isAsciiDomainT_le (us : Bool) (s after : List Nat) : (isAsciiDomainT us s after).2 ≤ 2 * s.length + 3 := by
  unfold isAsciiDomainT
  split
  · omega
  · split
    · omega
    · split
      · have := domLoopT_le us s.dropLast (46 :: after) 0 false
        simp only [List.length_dropLast] at this ⊢
        omega
      · have := domLoopT_le us s after 0 false
        simp only
        omega

theorem splitLast_length (c : Nat) (s l d : List Nat) (h : splitLast c s = some (l, d)) : l.length + d.length + 1 = s.length := by
  have := ((C01.splitLast_iff c s l d).1 h).1
  rw [this]
  simp
  omega

theorem checkTldTicks_le (d : List Nat) (tld : Bool) : checkTldTicks d tld ≤ 5 * d.length + 20151 := by
  unfold checkTldTicks
  have hs := specialTicks_linear d
  split
  · omega
  · split
    · split
      · omega
      · rename_i last _
        have := isTld_const last
        omega
    · omega

theorem checkIpTicks_le (d : List Nat) : checkIpTicks d ≤ 19 * d.length + 30 := by
  unfold checkIpTicks
  split
  · omega
  · split
    · omega
    · rename_i pre post hsp
      have hl := splitLast_length 93 d pre post hsp
      split
      · omega
      · have h6a := isIpv6_ticks ((pre.drop 1).drop 5) [93, 0]
        have h6b := isIpv6_ticks (pre.drop 1) [93, 0]
        have h4 := isIpv4_ticks (pre.drop 1) [93, 0]
        simp only [List.length_drop, List.length_cons, List.length_nil] at h6a h6b h4 ⊢
        split
        · omega
        · split <;> omega

theorem hostTicks_le (b : Build) (conv : List Nat → Conv) (m : Mode) (d : List Nat) (tld : Bool) :
    hostTicks b conv m d tld ≤ 8 * d.length + 8 * convLen conv d + 20160 := by
  have ascii : ∀ (x : List Nat),
      (isAsciiDomainT b.underscore x [0]).2 + (if isAsciiDomain b.underscore x [0] == .ok 0 then checkTldTicks x tld else 0)
        ≤ 7 * x.length + 20154 := by
    intro x
    have h1 := isAsciiDomainT_le b.underscore x [0]
    have h2 := checkTldTicks_le x tld
    split <;> omega
  unfold hostTicks
  cases m with
  | m6531 =>
    simp only
    split
    · omega
    · unfold convLen
      cases hc : (conv d).out with
      | none => simp only; omega
      | some a =>
        simp only
        have := ascii a
        omega
  | m822 => simp only; have := ascii d; omega
  | m5321 => simp only; have := ascii d; omega
  | m5322 => simp only; have := ascii d; omega

/-- the converter's output for the domain part of the address (what the library goes on to scan in mode 6531) -/
def domainConvLen (conv : List Nat → Conv) (email : List Nat) : Nat :=
  match splitLast 64 email with
  | some (_, d) => convLen conv d
  | none => 0

/-- **linear work**: whatever the address, mode, build options, `tld_check` and converter, one `is_*_email` call examines at
most `20·|address| + 8·|converter output| + 21 000` bytes (the constant is dominated by the weight of the TLD table) -/
theorem emailTicks_linear (b : Build) (conv : List Nat → Conv) (m : Mode) (email : List Nat) (tld : Bool) :
    emailTicks b conv m email tld ≤ 20 * email.length + 8 * domainConvLen conv email + 21000 := by
  unfold emailTicks domainConvLen
  split
  · omega
  · cases hsp : splitLast 64 email with
    | none => simp only; omega
    | some p =>
      obtain ⟨l, d⟩ := p
      have hl := splitLast_length 64 email l d hsp
      simp only
      split
      · omega
      · split
        · omega
        · have hh := hostTicks_le b conv m d tld
          have hi := checkIpTicks_le d
          have hc : localCostMax = 264 := by decide
          split
          · omega
          · split <;> omega

/-- the counters do count: `a-b.c` costs the host-name loop one tick per octet, one more for the look-ahead behind the hyphen, one for the
end of the string and two for the length tests -/
example : (isAsciiDomainT false [97, 45, 98, 46, 99] [0]) = (.ok 0, 9) := by decide
/-- ... and a whole address on a listed TLD costs what the table scan up to its row costs, on top of the linear part -/
example : emailTicks {} (fun _ => ⟨0, none⟩) .m5321 [97, 64, 98, 46, 99] false = 6 + localCostMax + 6 + 1 := by decide

end Eav.Props.C06.Cost
