import Eav.Model
import Eav.Lemmas.Utf8
import Eav.Lemmas.Local6531
/-!
# C20 — the `eav` tool (model of `bin/main.c`, `bin/main.h`)

The tool's line splitting (`getline`), trimming and rendering are modelled in `Eav/Cli.lean` and compared with
the real binary on every run.  Proved here, for every file / line:
* `getlines_flatten`: the records `getline` returns partition the file — no byte is lost, duplicated or reordered,
  so there is exactly one record, hence at most one verdict, per input line, in input order;
* `sanitize_clean`: a line that is well-formed UTF-8 without control characters is echoed unchanged;
* `sanitize` is total (well-founded recursion on the length): the rendering terminates on arbitrary bytes,
  invalid UTF-8 included — there is no assertion left to fail and no fixed-size buffer.
stdio, `getline`'s reallocation and process exit are runtime behaviour, observed on the real binary.
-/
namespace Eav.Props.C20
open Eav Eav.Spec

theorem getlinesAux_flatten : ∀ (inp acc : List Nat), (getlinesAux acc inp).flatten = acc.reverse ++ inp
  | [], acc => by
    unfold getlinesAux
    split <;> simp_all
  | c :: cs, acc => by
    unfold getlinesAux
    split
    · simp [getlinesAux_flatten cs []]
    · rw [getlinesAux_flatten cs (c :: acc)]; simp

/-- the `getline` records partition the file -/
theorem getlines_flatten (file : List Nat) : (getlines file).flatten = file := by
  simp [getlines, getlinesAux_flatten]

/-- every record but possibly the last ends with LF, and LF occurs nowhere else in a record -/
theorem getlinesAux_records : ∀ (inp acc : List Nat), 10 ∉ acc → ∀ r ∈ getlinesAux acc inp,
    (r.getLast? = some 10 ∧ 10 ∉ r.dropLast) ∨ 10 ∉ r
  | [], acc, hacc, r, hr => by
    unfold getlinesAux at hr
    split at hr
    · simp at hr
    · simp only [List.mem_singleton] at hr; subst hr; right; simpa using hacc
  | c :: cs, acc, hacc, r, hr => by
    unfold getlinesAux at hr
    split at hr
    · rename_i hc
      have hc' : c = 10 := by simpa using hc
      simp only [List.mem_cons] at hr
      rcases hr with rfl | hr
      · left; subst hc'
        simp only [List.reverse_cons, List.getLast?_append, List.getLast?_singleton, Option.some_or, true_and]
        simpa using hacc
      · exact getlinesAux_records cs [] (by simp) r hr
    · rename_i hc
      have hc' : c ≠ 10 := by simpa using hc
      exact getlinesAux_records cs (c :: acc) (by simp [hc'.symm, hacc]) r hr

/-- a character that is not a control character is copied byte for byte -/
theorem sanitize_clean : ∀ (n : Nat) (text : List Nat), text.length ≤ n → ∀ (cps : List Nat), decAll text = some cps →
    (∀ cp ∈ cps, ¬ (cp < 32 ∨ cp = 127)) → sanitize text = text := by
  intro n
  induction n with
  | zero =>
    intro text h cps _ _
    have : text = [] := List.length_eq_zero_iff.mp (by omega)
    subst this
    rw [sanitize.eq_def]; simp [decodeNext]
  | succ n ih =>
    intro text h cps hd hclean
    rw [sanitize.eq_def]
    cases hdn : decodeNext text with
    | fin => simp only; exact (decodeNext_fin hdn).symm
    | err => rw [decAll_err hdn] at hd; cases hd
    | ch c rest =>
      simp only
      obtain ⟨_, hs⟩ := decodeNext_sound hdn
      rw [decAll_step hdn] at hd
      cases hr : decAll rest with
      | none => simp [hr] at hd
      | some cps' =>
        simp only [hr, Option.map_some, Option.some.injEq] at hd
        subst hd
        have hc := hclean c (by simp)
        have hnc : ¬ (c < 32 ∨ c = 127) := hc
        have hcond : (decide (c < 32) || c == 127) = false := by
          simp only [Bool.or_eq_false_iff, decide_eq_false_iff_not, beq_eq_false_iff_ne, ne_eq]
          exact ⟨fun h => hnc (Or.inl h), fun h => hnc (Or.inr h)⟩
        have hl : rest.length ≤ n := by have := decodeNext_length hdn; omega
        have ihr := ih rest hl cps' hr (fun cp hcp => hclean cp (by simp [hcp]))
        simp only [hcond, Bool.false_eq_true, if_false, ihr]
        have : text.take (text.length - rest.length) = utf8Enc c := by
          rw [hs]; simp
        rw [this, ← hs]

/-- **echo**: a line that is well-formed UTF-8 (C03's `IsUtf8Of`) without control characters is rendered unchanged -/
theorem echo_unchanged (text cps : List Nat) (h : IsUtf8Of cps text) (hclean : ∀ cp ∈ cps, ¬ (cp < 32 ∨ cp = 127)) :
    sanitize text = text :=
  sanitize_clean _ text (Nat.le_refl _) cps ((decAll_iff text cps).mpr h) hclean

theorem cstr_nulfree : ∀ (l : List Nat), (∀ c ∈ l, c ≠ 0) → cstr l = l
  | [], _ => rfl
  | c :: cs, h => by
    have h0 : (c == 0) = false := by simpa using h c (by simp)
    simp only [cstr, h0, Bool.false_eq_true, if_false, cstr_nulfree cs (fun d hd => h d (by simp [hd]))]

/-- a plain line — no NUL, no leading `#` or blank, no trailing blank or tab, no CR at its end — is handed to
`eav_is_email` exactly as written, whatever its line ending (`LF`, `CRLF`, or none on the last line) -/
theorem trim_plain (addr eol : List Nat) (heol : eol = [10] ∨ eol = [13, 10] ∨ eol = [])
    (h0 : ∀ c ∈ addr, c ≠ 0) (hlf : ∀ c ∈ addr, c ≠ 10)
    (hh : addr.head? ≠ some 35) (hs : addr.head? ≠ some 32)
    (hl : addr.getLast? ≠ some 32 ∧ addr.getLast? ≠ some 9 ∧ addr.getLast? ≠ some 13) :
    trimLine (addr ++ eol) = some addr := by
  have hline : (let n := (addr ++ eol).length
      if (decide (n ≥ 2) && (addr ++ eol).drop (n - 2) == [13, 10]) = true then (addr ++ eol).take (n - 2)
      else if (decide (n ≥ 1) && (addr ++ eol).getLast? == some 10) = true then (addr ++ eol).take (n - 1)
      else addr ++ eol) = addr := by
    rcases heol with rfl | rfl | rfl
    · -- LF only: the CRLF test fails because the byte before LF is not CR
      simp only [List.length_append, List.length_cons, List.length_nil]
      have h1 : ((addr ++ [10]).drop (addr.length + (0 + 1) - 2) == [13, 10]) = false := by
        cases hr : addr.reverse with
        | nil =>
          have : addr = [] := by simpa using hr
          subst this; decide
        | cons z zs =>
          have ha : addr = zs.reverse ++ [z] := by
            have := congrArg List.reverse hr; simpa using this
          have hz : z ≠ 13 := by
            intro hz; apply hl.2.2; rw [ha]; simp [hz]
          subst ha
          have : (zs.reverse ++ [z] ++ [10]).drop ((zs.reverse ++ [z]).length + (0 + 1) - 2) = [z, 10] := by
            have e : (zs.reverse ++ [z]).length + (0 + 1) - 2 = zs.reverse.length := by simp
            rw [e, List.append_assoc, List.drop_left]; rfl
          rw [this]
          simp [hz]
      simp only [h1, Bool.and_false, Bool.false_eq_true, if_false]
      have h2 : (decide (addr.length + (0 + 1) ≥ 1) && (addr ++ [10]).getLast? == some 10) = true := by simp
      simp only [h2, if_true]
      have : addr.length + (0 + 1) - 1 = addr.length := by omega
      rw [this, List.take_left]
    · simp only [List.length_append, List.length_cons, List.length_nil]
      have e : addr.length + (0 + 1 + 1) - 2 = addr.length := by omega
      have h1 : (decide (addr.length + (0 + 1 + 1) ≥ 2) && (addr ++ [13, 10]).drop addr.length == [13, 10]) = true := by
        rw [List.drop_left]; simp
      simp only [e, h1, if_true, List.take_left]
    · simp only [List.append_nil]
      have h1 : (addr.drop (addr.length - 2) == [13, 10]) = false := by
        cases hr : addr.reverse with
        | nil =>
          have : addr = [] := by simpa using hr
          subst this; decide
        | cons z zs =>
          have ha : addr = zs.reverse ++ [z] := by
            have := congrArg List.reverse hr; simpa using this
          have hz : z ≠ 10 := hlf z (by rw [ha]; simp)
          cases hr2 : zs with
          | nil => subst hr2; subst ha; simp
          | cons y ys =>
            subst hr2
            have ha' : addr = ys.reverse ++ [y, z] := by rw [ha]; simp
            have e : addr.length - 2 = ys.reverse.length := by rw [ha']; simp
            rw [e, ha', List.drop_left]
            simp [hz]
      have h2 : (addr.getLast? == some 10) = false := by
        cases hg : addr.getLast? with
        | none => rfl
        | some z =>
          have : z ∈ addr := List.mem_of_getLast? hg
          have := hlf z this
          simp [this]
      simp only [h1, h2, Bool.and_false, Bool.false_eq_true, if_false]
  unfold trimLine
  simp only [hline, cstr_nulfree addr h0]
  have a : (addr.head? == some 35) = false := by simpa using hh
  have b : (addr.head? == some 32) = false := by simpa using hs
  have c : (addr.getLast? == some 32 || addr.getLast? == some 9) = false := by
    simp only [Bool.or_eq_false_iff]; exact ⟨by simpa using hl.1, by simpa using hl.2.1⟩
  simp only [a, b, c, Bool.false_eq_true, if_false]

/-- at most one address, hence at most one verdict, per `getline` record -/
theorem verdicts_le_lines (file : List Nat) : (cliLines file).length ≤ (getlines file).length :=
  List.length_filterMap_le _ _

/-- a comment line produces no verdict -/
example : trimLine [35, 97, 10] = none := by decide
example : trimLine [32, 97, 64, 98, 32, 13, 10] = some [97, 64, 98] := by decide

/-! ### Each line stands alone -/

/-- reading a file whose first part ends with a line feed: the records are those of the first part followed by those of the rest -/
theorem getlinesAux_append_lf : ∀ (f1 acc f2 : List Nat),
    getlinesAux acc (f1 ++ 10 :: f2) = getlinesAux acc (f1 ++ [10]) ++ getlinesAux [] f2
  | [], acc, f2 => by
    simp only [List.nil_append, getlinesAux, beq_self_eq_true, if_true, List.isEmpty_nil, List.singleton_append]
  | c :: cs, acc, f2 => by
    simp only [List.cons_append, getlinesAux]
    by_cases h : (c == 10) = true
    · simp only [h, if_true]
      rw [getlinesAux_append_lf cs [] f2]; simp
    · simp only [h, if_false, Bool.false_eq_true]
      exact getlinesAux_append_lf cs (c :: acc) f2

/-- **each line stands alone**: for a file `f1 ++ "\n" ++ f2` the tool validates the lines of `f1 ++ "\n"` and then the lines of `f2` — what is
handed to the validator for a line does not depend on the lines before or after it (and the validator is a function of its argument,
C13 `isEmail_outcome`), so a line's verdict is the verdict it gets as the only line of a file -/
theorem cliLines_append_lf (f1 f2 : List Nat) : cliLines (f1 ++ 10 :: f2) = cliLines (f1 ++ [10]) ++ cliLines f2 := by
  unfold cliLines getlines
  rw [getlinesAux_append_lf f1 [] f2, List.filterMap_append]

/-- in particular a one-line prefix: `line ++ "\n" ++ rest` -/
example : cliLines ([97, 64, 120, 46, 99, 111, 109, 10] ++ [97, 64, 120, 46, 99, 111, 10]) =
          cliLines [97, 64, 120, 46, 99, 111, 109, 10] ++ cliLines [97, 64, 120, 46, 99, 111, 10] := by decide

end Eav.Props.C20
