import Eav.Props.C20Main
import Eav.Props.C03
/-!
# C20 against the specification: a PASS printed by the `eav` tool is about a well-formed address

`C20Main` shows that what the tool prints for a line is the library's decision for that line alone.  Here that decision is
connected to the declarative specifications of the other properties, for the default build the tool is made from:

* `accepted_shape` — a result record with a non-negative code is only ever produced for `L@D` (split at the LAST `@`, `D`
  not empty, `L` of at most 64 octets) whose local part the mode's scanner accepts;
* **`pass_sound`** — if the block the tool prints for a line is a `PASS` block, the line is `L@D` with `1 ≤ |L| ≤ 64`,
  `D` non-empty and free of `@`, and `L` is well-formed UTF-8 whose characters satisfy the RFC 5321 local-part grammar with
  non-ASCII characters as atom / quoted text (`Spec.IsLocal .m6531`, the specification of C03);
* `fail_has_message` — a `FAIL` block carries a message line (never a NULL, never empty for a table code below `EEAV_MAX`).
-/
namespace Eav.Props.C20
open Eav Eav.Spec

/-- a record whose code is not negative was produced by the domain branch: the address is `l@d`, split at the last `@`,
with `d` non-empty, `l` at most 64 octets and accepted by the scanner of the mode -/
theorem accepted_shape (b : Build) (conv : List Nat → Conv) (m : Mode) (s : List Nat) (tld : Bool) (r : Result)
    (h : isEmail b conv m s tld = .ok r) (hrc : 0 ≤ r.rc) :
    ∃ l d, s = l ++ 64 :: d ∧ 64 ∉ d ∧ d ≠ [] ∧ l.length ≤ Lim.VALID_LPART_LEN ∧ localOf b m l = 0 := by
  unfold isEmail at h
  split at h
  · simp only [Except.ok.injEq] at h; subst h; exact absurd hrc (by decide)
  · split at h
    · simp only [Except.ok.injEq] at h; subst h; exact absurd hrc (by decide)
    · rename_i l d hsp
      obtain ⟨hs, hnd⟩ := (C01.splitLast_iff 64 s l d).mp hsp
      split at h
      · simp only [Except.ok.injEq] at h; subst h; exact absurd hrc (by decide)
      · rename_i hde
        split at h
        · simp only [Except.ok.injEq] at h; subst h; exact absurd hrc (by decide)
        · rename_i hlen
          split at h
          · rename_i hl
            simp only [Except.ok.injEq] at h; subst h
            -- the record carries the scanner's own code, which is negative or zero; zero is excluded by `hl`
            have hneg := C01.localOf_nonpos b m l
            simp only at hrc
            have : localOf b m l = 0 := by omega
            simp [this] at hl
          · rename_i hl
            refine ⟨l, d, hs, hnd, ?_, by omega, by simpa using hl⟩
            intro hd; simp [hd] at hde

/-- `eav_is_email` returns non-zero only for a record with a non-negative code -/
theorem verdict_pass_nonneg (mask : Nat) (r : Result) (ret : Int) (ec : Nat) (im : Option Int)
    (h : verdictOf mask r = .ok (ret, ec, im)) (hret : ret ≠ 0) : 0 ≤ r.rc := by
  unfold verdictOf at h
  split at h
  · rename_i h0; simp only [beq_iff_eq] at h0; omega
  · split at h
    · cases h; exact absurd rfl hret
    · omega

/-- **a PASS is about a well-formed address**: whenever the block the tool prints for a line is a PASS block, the line is `L@D`
(split at the last `@`) with `1 ≤ |L| ≤ 64`, `D` not empty, and `L` well-formed UTF-8 satisfying the local-part grammar of mode 6531 -/
theorem pass_sound (t : Texts) (convOf : List Nat → Conv) (a blk : List Nat) (h : specBlock {} t convOf a = .ok (blk, true)) :
    ∃ L D, a = L ++ 64 :: D ∧ 64 ∉ D ∧ D ≠ [] ∧ 1 ≤ L.length ∧ L.length ≤ 64 ∧
      ∃ cps, IsUtf8Of cps L ∧ IsLocal .m6531 (collapse cps) := by
  unfold specBlock at h
  split at h
  · cases h
  · rename_i ret ec im r hout
    split at h
    · cases h
    · rename_i blk' hb
      simp only [Except.ok.injEq, Prod.mk.injEq] at h
      have hret : ret ≠ 0 := by simpa using h.2
      unfold C13.outcomeOf at hout
      split at hout
      · cases hout
      · rename_i r' hr'
        split at hout
        · cases hout
        · rename_i ret' ec' im' hv
          simp only [Except.ok.injEq, Prod.mk.injEq] at hout
          obtain ⟨rfl, rfl, rfl, rfl⟩ := hout
          have hnn := verdict_pass_nonneg _ _ _ _ _ hv hret
          obtain ⟨l, d, hs, hnd, hd, hlen, hloc⟩ := accepted_shape {} _ .m6531 a true r' hr' hnn
          have hloc' : is6531Local {} l = 0 := hloc
          have hne : 1 ≤ l.length := by
            cases l with
            | nil => simp [is6531Local] at hloc'
            | cons x xs => simp
          exact ⟨l, d, hs, hnd, hd, hne, hlen, (C03.local6531_iff l).mp hloc'⟩

/-- a FAIL block always carries a message line: the block is `FAIL: <echo>\n      <message>\n` for some message text -/
theorem fail_has_message (b : Build) (t : Texts) (convOf : List Nat → Conv) (a blk : List Nat)
    (h : specBlock b t convOf a = .ok (blk, false)) :
    ∃ msg, blk = sFAIL ++ sanitize a ++ [10] ++ sIndent ++ msg ++ [10] := by
  unfold specBlock at h
  split at h
  · cases h
  · rename_i ret ec im r hout
    split at h
    · cases h
    · rename_i blk' hb
      simp only [Except.ok.injEq, Prod.mk.injEq] at h
      obtain ⟨rfl, hret⟩ := h
      unfold lineBlock at hb
      split at hb
      · rename_i hne; simp [hne] at hret
      · split at hb
        · cases hb
        · rename_i m hm
          simp only [Except.ok.injEq] at hb
          exact ⟨m, hb.symm⟩

end Eav.Props.C20
