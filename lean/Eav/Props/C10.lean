import Eav.Model
import Eav.Lemmas.Str
import Eav.Props.C07
import Eav.Props.C09
import Eav.Props.C19
/-!
# C10 — U-label and A-label spellings of a domain are treated identically

The IDNA2008 conversion is not modelled: `conv` is the IDN library's answer, recorded on every run and replayed
into the model.  What is proved is libeav's half, for EVERY possible library answer:

* `same_conversion_same_outcome`: two spellings the library converts to the same A-label get the same result
  code, class and flags in mode 6531 (hypothesis `H_same`: for an IDNA2008-valid domain the library maps the
  U-label spelling and the A-label spelling to the same string — validated on every recorded conversion);
* `ascii_modes_agree`: when the library answers an all-ASCII domain with its lower-case form (`H_ascii`, likewise
  validated), mode 6531 and the ASCII modes produce the same record; when it refuses it, the reason reported
  is the IDN error (`C19.idn_failure_rejected`).
-/
namespace Eav.Props.C10
open Eav

/-- mode 6531 looks at the domain only through the IDN library's answer -/
theorem same_conversion_same_outcome (b : Build) (conv : List Nat → Conv) (u a : List Nat) (tld : Bool)
    (hu : u ≠ []) (ha : a ≠ []) (h : conv u = conv a) :
    isUtf8Domain b conv u tld = isUtf8Domain b conv a tld := by
  unfold isUtf8Domain
  have e1 : u.isEmpty = false := by cases u <;> simp_all
  have e2 : a.isEmpty = false := by cases a <;> simp_all
  simp only [e1, e2, h]

/-! ### the ASCII validators are case-insensitive -/

theorem toLower_class (us : Bool) (c : Nat) :
    labelChar us (toLower c) = labelChar us c ∧ isDigit (toLower c) = isDigit c ∧
    ((toLower c == 46) = (c == 46)) ∧ ((toLower c == 45) = (c == 45)) ∧ ((toLower c == 0) = (c == 0)) := by
  unfold toLower isUpper
  split
  · rename_i h
    simp only [Bool.and_eq_true, decide_eq_true_eq] at h
    refine ⟨?_, ?_, ?_, ?_, ?_⟩
    · simp [labelChar, isAlnum, isDigit, isAlpha, isUpper, isLower]
      rw [Bool.eq_iff_iff]; simp; omega
    · simp [isDigit]; rw [Bool.eq_iff_iff]; simp; omega
    · rw [Bool.eq_iff_iff]; simp; omega
    · rw [Bool.eq_iff_iff]; simp; omega
    · rw [Bool.eq_iff_iff]; simp; omega
  · exact ⟨rfl, rfl, rfl, rfl, rfl⟩

theorem peek_lower (cs after : List Nat) : peek (lowerAll cs) after = (peek cs after).map (fun x => if cs = [] then x else toLower x) := by
  cases cs with
  | nil => cases after <;> simp [peek, Except.map]
  | cons c cs => simp [peek, Except.map]

theorem domLoop_lower (us : Bool) (cs : List Nat) : ∀ (after : List Nat) (ll : Nat) (nn : Bool),
    domLoop us (lowerAll cs) after ll nn = domLoop us cs after ll nn := by
  induction cs with
  | nil => intro after ll nn; rfl
  | cons c cs ih =>
    intro after ll nn
    obtain ⟨h1, h2, h3, h4, h5⟩ := toLower_class us c
    simp only [lowerAll_cons]
    unfold domLoop
    simp only [h1, h2, h3, h4, h5, ih]
    -- the look-ahead byte after a hyphen
    cases cs with
    | nil => rfl
    | cons d ds =>
      obtain ⟨_, _, g3, _, g5⟩ := toLower_class us d
      simp only [lowerAll_cons, peek, bind, Except.bind, g3, g5]

theorem lowerAll_getLast (s : List Nat) : (lowerAll s).getLast? = s.getLast?.map toLower := by
  simp [lowerAll]

theorem lowerAll_dropLast (s : List Nat) : (lowerAll s).dropLast = lowerAll s.dropLast := by
  simp [lowerAll]

theorem isAsciiDomain_lower (us : Bool) (s after : List Nat) :
    isAsciiDomain us (lowerAll s) after = isAsciiDomain us s after := by
  unfold isAsciiDomain
  have hl : (lowerAll s).length = s.length := lowerAll_length s
  have hg : ((lowerAll s).getLast? == some 46) = (s.getLast? == some 46) := by
    rw [lowerAll_getLast]
    cases h : s.getLast? with
    | none => rfl
    | some x =>
      have := (toLower_class us x).2.2.1
      simp only [Option.map_some]
      rw [Bool.eq_iff_iff] at this ⊢
      simpa using this
  have hg' : ((lowerAll s).getLast? != some 46) = (s.getLast? != some 46) := by
    simp only [bne, hg]
  simp only [hl, hg, hg', lowerAll_dropLast, domLoop_lower]

/-- **under `H_ascii` mode 6531 and the ASCII modes agree on the host-name test** -/
theorem ascii_domain_agree (b : Build) (d : List Nat) :
    isAsciiDomain b.underscore (lowerAll d) [0] = isAsciiDomain b.underscore d [0] := isAsciiDomain_lower _ _ _

/-- for all-ASCII domains whose labels are not empty: same reserved-domain answer, same TLD class -/
theorem checkTld_lower (d : List Nat) (tld : Bool) (hlab : ∀ l ∈ splitDots d, l ≠ []) :
    checkTld (lowerAll d) tld = checkTld d tld := by
  have hlab' : ∀ l ∈ splitDots (lowerAll d), l ≠ [] := by
    rw [C09.splitDots_lower]
    intro l hl
    simp only [List.mem_map] at hl
    obtain ⟨l0, h0, rfl⟩ := hl
    have := hlab l0 h0
    cases l0 <;> simp_all
  unfold checkTld
  rw [C09.special_iff d hlab, C09.special_iff (lowerAll d) hlab']
  have hres : Spec.reserved (lowerAll d) = Spec.reserved d := by
    unfold Spec.reserved; rw [lowerAll_idem]
  rw [hres]
  cases tld with
  | false => rfl
  | true =>
    simp only [Bool.not_true, Bool.false_eq_true, if_false]
    cases Spec.reserved d with
    | true => rfl
    | false =>
      simp only
      -- the last label
      rw [splitLast_lower d]
      cases hsp : splitLast 46 d with
      | none => rfl
      | some p =>
        obtain ⟨pre, last⟩ := p
        simp only [Option.map_some]
        by_cases hle : last = []
        · subst hle; rfl
        · have : lowerAll last ≠ [] := by cases last <;> simp_all
          rw [C07.case_insensitive (lowerAll last) last this hle (lowerAll_idem last)]
where
  splitLast_lower : ∀ (s : List Nat), splitLast 46 (lowerAll s) = (splitLast 46 s).map (fun p => (lowerAll p.1, lowerAll p.2))
    | [] => rfl
    | x :: xs => by
      have ih := splitLast_lower xs
      simp only [lowerAll_cons, splitLast, ih]
      cases h : splitLast 46 xs with
      | some p => obtain ⟨l, r⟩ := p; simp
      | none =>
        simp only [Option.map_none]
        have := (C10.toLower_class false x).2.2.1
        rw [this]
        split <;> simp

/-- under `H_ascii` `is_utf8_domain` computes what the ASCII branch computes -/
theorem utf8_as_ascii (b : Build) (conv : List Nat → Conv) (d : List Nat) (tld : Bool)
    (hd : d ≠ []) (hlab : ∀ x ∈ splitDots d, x ≠ []) (hasc : conv d = ⟨0, some (lowerAll d)⟩) :
    isUtf8Domain b conv d tld =
      (match isAsciiDomain b.underscore d [0] with
       | .error e => .error e
       | .ok rc => if rc != 0 then .ok (rc, 0) else match checkTld d tld with | .error e => .error e | .ok t => .ok (t, 0)) := by
  have e1 : d.isEmpty = false := by cases d <;> simp_all
  unfold isUtf8Domain
  simp only [e1, Bool.false_eq_true, if_false, hasc, bne_self_eq_false, ascii_domain_agree, checkTld_lower d tld hlab]
  rfl

/-- **`H_ascii` ⇒ the ASCII modes and mode 6531 report the same result code (decision and class) for the domain**,
and the same whole record (flags, `EAV_EXTRA` strings) whenever the domain is accepted -/
theorem ascii_modes_agree (b : Build) (conv : List Nat → Conv) (m : Mode) (hm : m ≠ .m6531) (l d : List Nat) (tld : Bool)
    (hd : d ≠ []) (hlab : ∀ x ∈ splitDots d, x ≠ []) (hasc : conv d = ⟨0, some (lowerAll d)⟩) :
    (hostPart b conv .m6531 l d tld).map (·.rc) = (hostPart b conv m l d tld).map (·.rc) ∧
    (∀ r, hostPart b conv m l d tld = .ok r → 0 ≤ r.rc → hostPart b conv .m6531 l d tld = .ok r) := by
  have hu := utf8_as_ascii b conv d tld hd hlab hasc
  have hrhs : hostPart b conv m l d tld = (match isAsciiDomain b.underscore d [0] with
      | .error e => .error e
      | .ok rc => if (rc == 0) = true then
          match checkTld d tld with
          | .error e => .error e
          | .ok t => .ok (okResult b t 0 false false true l d)
        else .ok { rc := rc }) := by
    cases m <;> first | rfl | exact absurd rfl hm
  rw [hrhs]
  unfold hostPart
  simp only [hu]
  cases hdom : isAsciiDomain b.underscore d [0] with
  | error e => exact ⟨rfl, fun r h => by cases h⟩
  | ok rc =>
    simp only
    by_cases hz : rc = 0
    · subst hz
      simp only [bne_self_eq_false, Bool.false_eq_true, if_false, beq_self_eq_true, if_true]
      cases hct : checkTld d tld with
      | error e => exact ⟨rfl, fun r h => by cases h⟩
      | ok t =>
        simp only
        by_cases ht : t ≥ 0
        · simp only [ht, if_true]
          exact ⟨trivial, fun r h _ => h⟩
        · simp only [ht, if_false]
          refine ⟨by simp [Except.map, okResult], fun r h hr => ?_⟩
          simp only [Except.ok.injEq] at h; subst h
          simp [okResult] at hr; omega
    · have h1 : (rc != 0) = true := by simpa using hz
      have h2 : (rc == 0) = false := by simpa using hz
      have hneg : ¬ rc ≥ 0 := by
        have := C04.isAsciiDomain_nonpos _ _ _ _ hdom; omega
      simp only [h1, if_true, h2, Bool.false_eq_true, if_false, hneg]
      refine ⟨trivial, fun r h hr => ?_⟩
      simp only [Except.ok.injEq] at h; subst h
      simp at hr; omega

/-- when the library refuses an all-ASCII domain the ASCII modes accept, the reason reported is the IDN error:
see `C19.idn_failure_rejected` (unconditional in the library's answer) -/
theorem refusal_is_idn_error (b : Build) (c : Conv) (L D : List Nat) (tld : Bool)
    (hc : c.rc ≠ 0) (hD : 64 ∉ D) (hDne : D ≠ []) (hbr : D.head? ≠ some 91)
    (hL : L.length ≤ 64) (hloc : localOf b .m6531 L = 0) :
    isEmail b (fun _ => c) .m6531 (L ++ 64 :: D) tld = .ok { rc := -(E.IDN_ERROR : Int), idnRc := c.rc } :=
  C19.idn_failure_rejected b c L D tld hc hD hDne hbr hL hloc

/-! ### the hypotheses are satisfiable -/

/-- `B.Com` with an oracle that answers as libidn2 does for ASCII domains (`H_ascii`): non-empty labels, conversion = lower case -/
example : let d := [66, 46, 67, 111, 109]
    d ≠ [] ∧ (∀ x ∈ splitDots d, x ≠ []) ∧ (fun (x : List Nat) => (⟨0, some (lowerAll x)⟩ : Conv)) d = ⟨0, some (lowerAll d)⟩ := by
  refine ⟨by decide, ?_, rfl⟩
  intro x hx
  have : splitDots [66, 46, 67, 111, 109] = [[66], [67, 111, 109]] := by decide
  rw [this] at hx
  simp only [List.mem_cons, List.mem_nil_iff, or_false] at hx
  rcases hx with rfl | rfl <;> decide

/-- … and on it mode 6531 and mode 5321 agree -/
example : (hostPart {} (fun x => ⟨0, some (lowerAll x)⟩) .m6531 [97] [66, 46, 67, 111, 109] false).map (·.rc) =
    (hostPart {} (fun x => ⟨0, some (lowerAll x)⟩) .m5321 [97] [66, 46, 67, 111, 109] false).map (·.rc) := by decide

/-- a refusing oracle on `a@b.com`: the hypotheses of `refusal_is_idn_error` hold -/
example : (-304 : Int) ≠ 0 ∧ 64 ∉ [98, 46, 99, 111, 109] ∧ [98, 46, 99, 111, 109] ≠ [] ∧ [98, 46, 99, 111, 109].head? ≠ some 91 ∧
    [97].length ≤ 64 ∧ localOf {} .m6531 [97] = 0 := by
  refine ⟨by decide, by decide, by decide, by decide, by decide, ?_⟩
  simp only [localOf, is6531Local, Build.l]
  rw [loc6531Loop.eq_def]
  simp [decodeNext, isCntrl, unquotedStep, specials, loc6531Loop.eq_def, locFin]

end Eav.Props.C10
