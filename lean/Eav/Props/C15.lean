import Eav.Model
import Eav.Props.C01
import Eav.Props.C02
import Eav.Props.C03
import Eav.Props.C04
import Eav.Props.C07
import Eav.Props.C08
import Eav.Props.C16
import Eav.Props.Tie.Errors
/-!
# C15 — diagnostics are truthful: the reported reason really holds of the input
-/
namespace Eav.Props.C15
open Eav Eav.Spec

/-! ### every validator returns 0 or one of ITS OWN error codes -/

theorem unq_err_range {extra : List Nat} {prev : Option Nat} {c : Nat} {cs : List Nat} {e : Int}
    (h : unquotedStep extra prev c cs = .error e) : -12 ≤ e ∧ e ≤ -7 := by
  unfold unquotedStep at h
  repeat' split at h
  all_goals first | (cases h; decide) | cases h

def LRange (x : Int) : Prop := x = 0 ∨ x = -4 ∨ (-15 ≤ x ∧ x ≤ -6)

theorem locFin_range (q : Bool) : LRange (locFin q) := by cases q <;> simp [locFin, LRange]

theorem loc5321_range : ∀ (cs : List Nat) (p : Option Nat) (q qp : Bool), LRange (loc5321Loop p q qp cs) := by
  intro cs
  induction cs with
  | nil => intro p q qp; simp only [loc5321Loop]; exact locFin_range q
  | cons c cs ih =>
    intro p q qp
    unfold loc5321Loop
    repeat' split
    all_goals first
      | exact locFin_range _
      | exact ih _ _ _
      | (right; right; decide)
      | (rename_i e he; have := unq_err_range he; right; right; omega)

theorem loc5322_range : ∀ (cs : List Nat) (p : Option Nat) (q qp : Bool), LRange (loc5322Loop p q qp cs) := by
  intro cs
  induction cs with
  | nil => intro p q qp; simp only [loc5322Loop]; exact locFin_range q
  | cons c cs ih =>
    intro p q qp
    unfold loc5322Loop
    repeat' split
    all_goals first
      | exact locFin_range _
      | exact ih _ _ _
      | (right; right; decide)
      | (rename_i e he; have := unq_err_range he; right; right; omega)

theorem loc822_range (eb : Nat) : ∀ (n : Nat) (cs : List Nat), cs.length ≤ n → ∀ (p : Option Nat) (q qp : Bool), LRange (loc822Loop eb p q qp cs) := by
  intro n
  induction n with
  | zero =>
    intro cs h p q qp
    have : cs = [] := List.length_eq_zero_iff.mp (by omega)
    subst this; simp only [loc822Loop]; exact locFin_range q
  | succ n ih =>
    intro cs h p q qp
    cases cs with
    | nil => simp only [loc822Loop]; exact locFin_range q
    | cons c cs =>
      have hl : cs.length ≤ n := by simp at h; omega
      unfold loc822Loop
      repeat' split
      all_goals first
        | exact locFin_range _
        | exact ih _ hl _ _ _
        | (right; right; decide)
        | (rename_i e he; have := unq_err_range he; right; right; omega)
        | (apply ih; simp at hl ⊢; omega)

theorem loc6531_range (lb : LBuild) : ∀ (n : Nat) (inp : List Nat), inp.length ≤ n → ∀ (p : Option Nat) (q qp : Bool),
    LRange (loc6531Loop lb p q qp inp) := by
  intro n
  induction n with
  | zero =>
    intro inp h p q qp
    have : inp = [] := List.length_eq_zero_iff.mp (by omega)
    subst this
    rw [loc6531Loop.eq_def]; simp only [decodeNext]; exact locFin_range q
  | succ n ih =>
    intro inp h p q qp
    rw [loc6531Loop.eq_def]
    split
    · exact locFin_range q
    · right; right; decide
    · rename_i c rest hd
      have hl : rest.length ≤ n := by have := decodeNext_length hd; omega
      simp only
      repeat' split
      all_goals first
        | exact ih _ hl _ _ _
        | (right; right; decide)
        | (rename_i e he; have := unq_err_range he; right; right; omega)

/-- a local-part scanner returns 0, `EEAV_LPART_EMPTY`, or one of the codes `EEAV_LPART_NOT_ASCII … EEAV_LPART_INVALID_UTF8` —
never `EEAV_LPART_TOO_LONG`, never a code of another validator -/
theorem localOf_range (b : Build) (m : Mode) (l : List Nat) : LRange (localOf b m l) := by
  cases m <;> simp only [localOf, is822Local, is5321Local, is5322Local, is6531Local] <;> split
  all_goals first
    | (right; left; rfl)
    | exact loc5321_range _ _ _ _
    | exact loc5322_range _ _ _ _
    | exact loc822_range _ _ _ (Nat.le_refl _) _ _ _
    | exact loc6531_range _ _ _ (Nat.le_refl _) _ _ _

theorem domFin_range (ll : Nat) (nn : Bool) : domFin ll nn = 0 ∨ (-22 ≤ domFin ll nn ∧ domFin ll nn ≤ -17) := by
  unfold domFin
  split
  · right; decide
  · split
    · left; rfl
    · right; decide

theorem domLoop_range (us : Bool) (cs : List Nat) : ∀ (after : List Nat) (ll : Nat) (nn : Bool) (r : Int),
    domLoop us cs after ll nn = .ok r → r = 0 ∨ (-22 ≤ r ∧ r ≤ -17) := by
  induction cs with
  | nil =>
    intro after ll nn r h
    simp only [domLoop, Except.ok.injEq] at h
    subst h; exact domFin_range ll nn
  | cons c cs ih =>
    intro after ll nn r h
    unfold domLoop at h
    split at h
    · simp only [Except.ok.injEq] at h; subst h; exact domFin_range ll nn
    · split at h
      · split at h
        · simp only [Except.ok.injEq] at h; subst h; right; decide
        · exact ih _ _ _ _ h
      · split at h
        · split at h
          · simp only [Except.ok.injEq] at h; subst h; right; decide
          · exact ih _ _ _ _ h
        · split at h
          · split at h
            · simp only [Except.ok.injEq] at h; subst h; right; decide
            · simp only [bind, Except.bind] at h
              split at h
              · cases h
              · split at h
                · simp only [Except.ok.injEq] at h; subst h; right; decide
                · exact ih _ _ _ _ h
          · simp only [Except.ok.injEq] at h; subst h; right; decide

/-- `is_ascii_domain` returns 0 or one of `EEAV_DOMAIN_EMPTY … EEAV_DOMAIN_NUMERIC` -/
theorem isAsciiDomain_range (us : Bool) (s after : List Nat) (r : Int) (h : isAsciiDomain us s after = .ok r) :
    r = 0 ∨ (-22 ≤ r ∧ r ≤ -16) := by
  unfold isAsciiDomain at h
  split at h
  · simp only [Except.ok.injEq] at h; subst h; right; decide
  · split at h
    · simp only [Except.ok.injEq] at h; subst h; right; decide
    · split at h
      · rcases domLoop_range _ _ _ _ _ _ h with h | h
        · exact Or.inl h
        · right; omega
      · rcases domLoop_range _ _ _ _ _ _ h with h | h
        · exact Or.inl h
        · right; omega

theorem isAsciiDomain_range_ne (us : Bool) (s after : List Nat) (r : Int) (hne : s ≠ []) (h : isAsciiDomain us s after = .ok r) :
    r = 0 ∨ (-22 ≤ r ∧ r ≤ -17) := by
  unfold isAsciiDomain at h
  split at h
  · rename_i h0
    have : s = [] := List.length_eq_zero_iff.mp (by simpa using h0)
    exact absurd this hne
  · split at h
    · simp only [Except.ok.injEq] at h; subst h; right; decide
    · split at h <;> exact domLoop_range _ _ _ _ _ _ h

/-! ### `eav_is_email` returns 1 iff the recorded error is 'no error'; the code is the validator's code -/

theorem policyArm_some (rc : Int) (ec bit : Nat) (h : policyArm rc = some (ec, bit)) :
    1 ≤ rc ∧ rc ≤ 9 ∧ (ec : Int) = 26 + rc := by
  unfold policyArm at h
  repeat' split at h
  all_goals first
    | (cases h; done)
    | (simp only [Option.some.injEq, Prod.mk.injEq] at h; obtain ⟨rfl, _⟩ := h; simp_all)

theorem verdict_shape (k : Nat) (r : Result) (ret : Int) (ec : Nat) (msg : Option Int)
    (h : verdictOf k r = .ok (ret, ec, msg)) :
    (ret = 1 ∨ ret = 0) ∧ (ret = 1 ↔ ec = 0) ∧ (r.rc < 0 → (ec : Int) = -r.rc) ∧
      (1 ≤ r.rc → ret = 0 → (ec : Int) = 26 + r.rc) ∧
      (ec = E.IDN_ERROR → msg = some r.idnRc) ∧ (ec ≠ E.IDN_ERROR → msg = none) := by
  unfold verdictOf at h
  split at h
  · rename_i h0
    have hz : r.rc = 0 := by simpa using h0
    simp only [Except.ok.injEq, Prod.mk.injEq] at h
    obtain ⟨rfl, rfl, rfl⟩ := h
    exact ⟨Or.inl rfl, by simp, fun hn => by omega, fun h1 => by omega, fun h => absurd h (by decide), fun _ => rfl⟩
  · split at h
    · rename_i h0 hneg
      simp only [Except.ok.injEq, Prod.mk.injEq] at h
      obtain ⟨rfl, rfl, rfl⟩ := h
      have hpos : 0 < (-r.rc).toNat := by omega
      refine ⟨Or.inr rfl, ⟨fun h => absurd h (by decide), fun h => by omega⟩, fun _ => by omega, fun h1 => by omega, fun h => by simp [h], fun h => ?_⟩
      have : ((-r.rc).toNat == E.IDN_ERROR) = false := by simpa using h
      simp [this]
    · rename_i h0 hneg
      split at h
      · cases h
      · rename_i ec' bit harm
        have ha := policyArm_some r.rc ec' bit harm
        have hne0 : ec' ≠ 0 := by omega
        have hne2 : ec' ≠ E.IDN_ERROR := by simp only [E.IDN_ERROR]; omega
        split at h
        · simp only [Except.ok.injEq, Prod.mk.injEq] at h
          obtain ⟨rfl, rfl, rfl⟩ := h
          exact ⟨Or.inl rfl, by simp, fun hn => absurd hn hneg, fun _ h => absurd h (by decide), fun h => absurd h (by decide), fun _ => rfl⟩
        · simp only [Except.ok.injEq, Prod.mk.injEq] at h
          obtain ⟨rfl, rfl, rfl⟩ := h
          exact ⟨Or.inr rfl, ⟨fun h => absurd h (by decide), fun h => absurd h hne0⟩, fun hn => absurd hn hneg, fun _ _ => ha.2.2,
            fun h => absurd h hne2, fun _ => rfl⟩

/-! ### the reason holds of the input -/

/-- what `is_*_email` reports, split by where the code comes from -/
theorem code_origin (b : Build) (conv : List Nat → Conv) (m : Mode) (s : List Nat) (tld : Bool) (r : Result)
    (h : isEmail b conv m s tld = .ok r) (hneg : r.rc < 0) :
    (r.rc = -(E.EMAIL_EMPTY : Int) ∧ s = []) ∨
    (r.rc = -(E.DOMAIN_EMPTY : Int) ∧ (64 ∉ s ∨ s.getLast? = some 64)) ∨
    (∃ L D, s = L ++ 64 :: D ∧ 64 ∉ D ∧ D ≠ [] ∧
      ((r.rc = -(E.LPART_TOO_LONG : Int) ∧ L.length > 64) ∨
       (L.length ≤ 64 ∧ r.rc = localOf b m L ∧ localOf b m L ≠ 0) ∨
       (L.length ≤ 64 ∧ localOf b m L = 0 ∧ D.head? ≠ some 91 ∧ hostPart b conv m L D tld = .ok r) ∨
       (L.length ≤ 64 ∧ localOf b m L = 0 ∧ D.head? = some 91 ∧ literalPart b L D = .ok r))) := by
  unfold isEmail at h
  split at h
  · rename_i he
    simp only [Except.ok.injEq] at h; subst h
    left; exact ⟨rfl, by cases s <;> simp_all⟩
  · split at h
    · rename_i hsp
      simp only [Except.ok.injEq] at h; subst h
      right; left
      refine ⟨rfl, Or.inl ?_⟩
      intro hm
      obtain ⟨l, d, h1, h2⟩ := C01.splitLast_iff.mem_split_last 64 s hm
      have := (C01.splitLast_iff 64 s l d).mpr ⟨h1, h2⟩
      rw [hsp] at this; cases this
    · rename_i l d hsp
      obtain ⟨hs, hnd⟩ := (C01.splitLast_iff 64 s l d).mp hsp
      split at h
      · rename_i hde
        simp only [Except.ok.injEq] at h; subst h
        right; left
        refine ⟨rfl, Or.inr ?_⟩
        have : d = [] := by cases d <;> simp_all
        subst this
        rw [hs]; simp
      · rename_i hde
        have hdne : d ≠ [] := by intro e; subst e; simp at hde
        right; right
        refine ⟨l, d, hs, hnd, hdne, ?_⟩
        split at h
        · rename_i hlen
          simp only [Except.ok.injEq] at h; subst h
          left; exact ⟨rfl, by simpa [Lim.VALID_LPART_LEN] using hlen⟩
        · rename_i hlen
          have hlen' : l.length ≤ 64 := by simp only [Lim.VALID_LPART_LEN] at hlen; omega
          split at h
          · rename_i hl
            simp only [Except.ok.injEq] at h; subst h
            right; left; exact ⟨hlen', rfl, by simpa using hl⟩
          · rename_i hl
            have hl0 : localOf b m l = 0 := by simpa using hl
            split at h
            · rename_i hbr
              right; right; left; exact ⟨hlen', hl0, by simpa using hbr, h⟩
            · rename_i hbr
              right; right; right; exact ⟨hlen', hl0, by simpa using hbr, h⟩

theorem utf8_range (b : Build) (conv : List Nat → Conv) (d : List Nat) (tld : Bool) (rc irc : Int)
    (h : isUtf8Domain b conv d tld = .ok (rc, irc)) : rc = -2 ∨ -26 ≤ rc ∧ rc ≤ -16 ∨ 0 ≤ rc := by
  unfold isUtf8Domain at h
  split at h
  · simp only [Except.ok.injEq, Prod.mk.injEq] at h; obtain ⟨rfl, _⟩ := h; right; left; decide
  · simp only at h
    split at h
    · simp only [Except.ok.injEq, Prod.mk.injEq] at h; obtain ⟨rfl, _⟩ := h; left; rfl
    · split at h
      · cases h
      · split at h
        · cases h
        · rename_i r hr
          split at h
          · simp only [Except.ok.injEq, Prod.mk.injEq] at h
            obtain ⟨rfl, _⟩ := h
            rcases isAsciiDomain_range _ _ _ _ hr with h | h
            · right; right; omega
            · right; left; omega
          · split at h
            · cases h
            · rename_i t ht
              simp only [Except.ok.injEq, Prod.mk.injEq] at h
              obtain ⟨rfl, _⟩ := h
              rcases C16.checkTld_range _ _ _ ht with h | h | h | h
              · right; right; omega
              · right; left; rw [h]; decide
              · right; left; rw [h]; decide
              · right; right; omega

/-- codes of the host-name branch: 0, a class, IDN error, a DOMAIN code, NOT_FQDN, TLD_INVALID -/
theorem hostPart_range (b : Build) (conv : List Nat → Conv) (m : Mode) (l d : List Nat) (tld : Bool) (r : Result)
    (h : hostPart b conv m l d tld = .ok r) : r.rc = -2 ∨ -26 ≤ r.rc ∧ r.rc ≤ -16 ∨ 0 ≤ r.rc := by
  unfold hostPart at h
  have ascii : ∀ {r : Result}, (match isAsciiDomain b.underscore d [0] with
      | .error e => .error e
      | .ok rc => if (rc == 0) = true then
          match checkTld d tld with
          | .error e => .error e
          | .ok t => .ok (okResult b t 0 false false true l d)
        else .ok { rc := rc }) = Except.ok r → (r.rc = -2 ∨ -26 ≤ r.rc ∧ r.rc ≤ -16 ∨ 0 ≤ r.rc) := by
    intro r h
    split at h
    · cases h
    · rename_i rc hrc
      split at h
      · split at h
        · cases h
        · rename_i t ht
          simp only [Except.ok.injEq] at h; subst h
          simp only [okResult]
          rcases C16.checkTld_range _ _ _ ht with h | h | h | h
          · right; right; omega
          · right; left; rw [h]; decide
          · right; left; rw [h]; decide
          · right; right; omega
      · simp only [Except.ok.injEq] at h; subst h
        rcases isAsciiDomain_range _ _ _ _ hrc with h | h
        · right; right; simp only; omega
        · right; left; simp only; omega
  cases m with
  | m6531 =>
    simp only at h
    split at h
    · cases h
    · rename_i rc irc hu
      have hr := utf8_range b conv d tld rc irc hu
      split at h <;> (simp only [Except.ok.injEq] at h; subst h) <;> simp [okResult] <;> omega
  | m822 => exact ascii h
  | m5321 => exact ascii h
  | m5322 => exact ascii h
theorem literalPart_lower (b : Build) (l d : List Nat) (r : Result) (h : literalPart b l d = .ok r) : r.rc = 0 ∨ r.rc = -24 ∨ r.rc = -25 := by
  unfold literalPart at h
  split at h
  · cases h
  · rename_i rc v4 v6 lit hc
    split at h
    · simp only [Except.ok.injEq] at h; subst h; left; rfl
    · simp only [Except.ok.injEq] at h; subst h
      simp only
      unfold checkIp at hc
      have iv : ∀ {x v4' v6' inner}, ipVerdict x v4' v6' inner = .ok (rc, v4, v6, lit) → rc = 0 ∨ rc = -24 ∨ rc = -25 := by
        intro x v4' v6' inner hx
        unfold ipVerdict at hx
        split at hx
        · cases hx
        · simp only [Except.ok.injEq, Prod.mk.injEq] at hx; left; exact hx.1.symm
        · simp only [Except.ok.injEq, Prod.mk.injEq] at hx; right; left; exact hx.1.symm
      split at hc
      · simp only [Except.ok.injEq, Prod.mk.injEq] at hc; right; left; exact hc.1.symm
      · split at hc
        · simp only [Except.ok.injEq, Prod.mk.injEq] at hc; right; right; exact hc.1.symm
        · split at hc
          · simp only [Except.ok.injEq, Prod.mk.injEq] at hc; right; left; exact hc.1.symm
          · simp only at hc
            split at hc
            · exact iv hc
            · split at hc <;> exact iv hc


/-- **'too long' only above 64 octets; 'empty' only for the empty string; a local-part code only if the local part
really is invalid for the mode** (modes 822/5321/5322: not `word *("." word)`; mode 6531: not well-formed UTF-8
whose characters form an RFC 5321 local part) -/
theorem lpart_code_sound (b : Build) (hb : b.rfc20 = false ∧ b.rfc5322 = false) (conv : List Nat → Conv) (m : Mode)
    (s : List Nat) (hn : NulFree s) (tld : Bool) (r : Result)
    (h : isEmail b conv m s tld = .ok r) (hcode : -15 ≤ r.rc ∧ r.rc ≤ -4) :
    ∃ L D, s = L ++ 64 :: D ∧ 64 ∉ D ∧
      ((r.rc = -(E.LPART_TOO_LONG : Int) ∧ L.length > 64) ∨
       (r.rc ≠ -(E.LPART_TOO_LONG : Int) ∧ r.rc = localOf b m L ∧
          (match m with
           | .m822 => ¬ IsLocal .m822 L
           | .m5321 => ¬ IsLocal .m5321 L
           | .m5322 => ¬ IsLocal .m5322 L
           | .m6531 => ¬ ∃ cps, IsUtf8Of cps L ∧ IsLocal .m6531 (collapse cps)))) := by
  have ho := code_origin b conv m s tld r h (by omega)
  rcases ho with ⟨h1, _⟩ | ⟨h1, _⟩ | ⟨L, D, hs, hnd, hdne, hcase⟩
  · rw [h1] at hcode; exact absurd hcode.2 (by decide)
  · rw [h1] at hcode; exact absurd hcode.1 (by decide)
  · refine ⟨L, D, hs, hnd, ?_⟩
    have hnl : NulFree L := fun c hc => hn c (by rw [hs]; simp [hc])
    rcases hcase with ⟨h1, h2⟩ | ⟨_, h1, h2⟩ | ⟨_, _, hbr, hh⟩ | ⟨_, _, hbr, hh⟩
    · left; exact ⟨h1, h2⟩
    · right
      have hr := localOf_range b m L
      refine ⟨?_, h1, ?_⟩
      · rw [h1]
        rcases hr with hr | hr | hr
        · exact absurd hr h2
        · rw [hr]; decide
        · intro e; rw [e] at hr; exact absurd hr (by decide)
      · have hl : b.l = {} := by simp [Build.l, hb.1, hb.2]
        cases m with
        | m822 => exact fun hc => h2 ((C02.local_iff_822 L 64 hnl).mpr hc)
        | m5321 => exact fun hc => h2 ((C02.local_iff_5321 L hnl).mpr hc)
        | m5322 => exact fun hc => h2 ((C02.local_iff_5322 L hnl).mpr hc)
        | m6531 =>
          intro hc
          apply h2
          simp only [localOf, hl]
          exact (C03.local6531_iff L).mpr hc
    · -- a host-name outcome is never in the local-part range
      exfalso
      have := hostPart_range b conv m L D tld r hh
      omega
    · exfalso
      have := C01.literalPart_rc b L D r hh
      have hlo := literalPart_lower b L D r hh
      omega
/-- every result code of `is_*_email` is 0, a class, or one of the error codes (so it indexes `errors[]`) -/
theorem rc_lower (b : Build) (conv : List Nat → Conv) (m : Mode) (s : List Nat) (tld : Bool) (r : Result)
    (h : isEmail b conv m s tld = .ok r) : -26 ≤ r.rc := by
  by_cases hneg : r.rc < 0
  · rcases code_origin b conv m s tld r h hneg with ⟨h1, _⟩ | ⟨h1, _⟩ | ⟨L, D, _, _, _, hcase⟩
    · rw [h1]; decide
    · rw [h1]; decide
    · rcases hcase with ⟨h1, _⟩ | ⟨_, h1, _⟩ | ⟨_, _, _, hh⟩ | ⟨_, _, _, hh⟩
      · rw [h1]; decide
      · have := localOf_range b m L
        rw [← h1] at this
        rcases this with h | h | h <;> omega
      · have := hostPart_range b conv m L D tld r hh
        omega
      · have := literalPart_lower b L D r hh
        omega
  · omega

/-- the recorded error code is always an index into `errors[]` -/
theorem errcode_lt_max (k : Nat) (r : Result) (ret : Int) (ec : Nat) (msg : Option Int)
    (h : verdictOf k r = .ok (ret, ec, msg)) (hlo : -35 ≤ r.rc) (hhi : r.rc ≤ 9) : ec < E.MAX := by
  have hs := verdict_shape k r ret ec msg h
  simp only [E.MAX]
  by_cases hneg : r.rc < 0
  · have := hs.2.2.1 hneg; omega
  · rcases hs.1 with h1 | h0
    · have := hs.2.1.mp h1; omega
    · by_cases hz : r.rc = 0
      · unfold verdictOf at h
        simp [hz] at h
        omega
      · have := hs.2.2.2.1 (by omega) h0; omega

/-! ### 'too many dots' only if the local part contains `..` -/

def HasDotDot (s : List Nat) : Prop := ∃ p q, s = p ++ 46 :: 46 :: q

theorem hasDotDot_cons {c : Nat} {cs : List Nat} (h : HasDotDot cs) : HasDotDot (c :: cs) := by
  obtain ⟨p, q, rfl⟩ := h; exact ⟨c :: p, q, rfl⟩

theorem hasDotDot_drop {a b : Nat} {cs : List Nat} (h : HasDotDot cs) : HasDotDot (a :: b :: cs) :=
  hasDotDot_cons (hasDotDot_cons h)

theorem unq_dots {extra : List Nat} {prev : Option Nat} {c : Nat} {cs : List Nat}
    (h : unquotedStep extra prev c cs = .error (-(E.LPART_TOO_MANY_DOTS : Int))) : HasDotDot (c :: cs) := by
  unfold unquotedStep at h
  split at h
  · split at h <;> first | cases h | (simp only [Except.error.injEq] at h; exact absurd h (by decide))
  · split at h
    · rename_i hc
      have hc' : c = 46 := by simpa using hc
      split at h
      · simp only [Except.error.injEq] at h; exact absurd h (by decide)
      · split at h
        · rename_i hh
          cases cs with
          | nil => simp at hh
          | cons d ds =>
            have : d = 46 := by simpa using hh
            subst this; subst hc'
            exact ⟨[], ds, rfl⟩
        · cases h
    · split at h
      · simp only [Except.error.injEq] at h; exact absurd h (by decide)
      · cases h

theorem locFin_ne_dots (q : Bool) : locFin q ≠ -(E.LPART_TOO_MANY_DOTS : Int) := by cases q <;> simp [locFin]

theorem loc5321_dots : ∀ (cs : List Nat) (p : Option Nat) (q qp : Bool),
    loc5321Loop p q qp cs = -(E.LPART_TOO_MANY_DOTS : Int) → HasDotDot cs := by
  intro cs
  induction cs with
  | nil => intro p q qp h; simp only [loc5321Loop] at h; exact absurd h (locFin_ne_dots q)
  | cons c cs ih =>
    intro p q qp h
    unfold loc5321Loop at h
    repeat' split at h
    all_goals first
      | exact absurd h (locFin_ne_dots _)
      | exact hasDotDot_cons (ih _ _ _ h)
      | exact absurd h (by decide)
      | (rename_i e he; subst h; exact unq_dots he)

theorem loc5322_dots : ∀ (cs : List Nat) (p : Option Nat) (q qp : Bool),
    loc5322Loop p q qp cs = -(E.LPART_TOO_MANY_DOTS : Int) → HasDotDot cs := by
  intro cs
  induction cs with
  | nil => intro p q qp h; simp only [loc5322Loop] at h; exact absurd h (locFin_ne_dots q)
  | cons c cs ih =>
    intro p q qp h
    unfold loc5322Loop at h
    repeat' split at h
    all_goals first
      | exact absurd h (locFin_ne_dots _)
      | exact hasDotDot_cons (ih _ _ _ h)
      | exact absurd h (by decide)
      | (rename_i e he; subst h; exact unq_dots he)

theorem loc822_dots (eb : Nat) : ∀ (n : Nat) (cs : List Nat), cs.length ≤ n → ∀ (p : Option Nat) (q qp : Bool),
    loc822Loop eb p q qp cs = -(E.LPART_TOO_MANY_DOTS : Int) → HasDotDot cs := by
  intro n
  induction n with
  | zero =>
    intro cs hl p q qp h
    have : cs = [] := List.length_eq_zero_iff.mp (by omega)
    subst this; simp only [loc822Loop] at h; exact absurd h (locFin_ne_dots q)
  | succ n ih =>
    intro cs hl p q qp h
    cases cs with
    | nil => simp only [loc822Loop] at h; exact absurd h (locFin_ne_dots q)
    | cons c cs =>
      have hl' : cs.length ≤ n := by simp at hl; omega
      unfold loc822Loop at h
      repeat' split at h
      all_goals first
        | exact absurd h (locFin_ne_dots _)
        | exact hasDotDot_cons (ih _ hl' _ _ _ h)
        | exact absurd h (by decide)
        | (rename_i e he; subst h; exact unq_dots he)
        | (refine hasDotDot_cons (hasDotDot_drop (ih _ ?_ _ _ _ h)); simp at hl' ⊢; omega)

/-- the decoder consumes a prefix: what follows a character is a suffix of the input -/
theorem rest_suffix {inp : List Nat} {c : Nat} {rest : List Nat} (hd : decodeNext inp = .ch c rest) : ∃ p, inp = p ++ rest := by
  obtain ⟨_, hs⟩ := decodeNext_sound hd
  exact ⟨_, hs⟩

theorem hasDotDot_suffix {p rest : List Nat} (h : HasDotDot rest) : HasDotDot (p ++ rest) := by
  obtain ⟨a, b, rfl⟩ := h; exact ⟨p ++ a, b, by simp⟩

theorem loc6531_dots (lb : LBuild) : ∀ (n : Nat) (inp : List Nat), inp.length ≤ n → ∀ (p : Option Nat) (q qp : Bool),
    loc6531Loop lb p q qp inp = -(E.LPART_TOO_MANY_DOTS : Int) → HasDotDot inp := by
  intro n
  induction n with
  | zero =>
    intro inp hl p q qp h
    have : inp = [] := List.length_eq_zero_iff.mp (by omega)
    subst this
    rw [loc6531Loop.eq_def] at h; simp only [decodeNext] at h; exact absurd h (locFin_ne_dots q)
  | succ n ih =>
    intro inp hl p q qp h
    rw [loc6531Loop.eq_def] at h
    split at h
    · exact absurd h (locFin_ne_dots q)
    · exact absurd h (by decide)
    · rename_i c rest hd
      have hl' : rest.length ≤ n := by have := decodeNext_length hd; omega
      obtain ⟨pre, hpre⟩ := rest_suffix hd
      have up : HasDotDot rest → HasDotDot inp := fun hh => by rw [hpre]; exact hasDotDot_suffix hh
      simp only at h
      repeat' split at h
      all_goals first
        | exact up (ih _ hl' _ _ _ h)
        | exact absurd h (by decide)
        | (rename_i e he; subst h
           -- an ASCII character: the input is that byte followed by `rest`
           have hc : inp = c :: rest := by
             obtain ⟨_, hs⟩ := decodeNext_sound hd
             have hlt : c < 128 := by omega
             simpa [utf8Enc, hlt] using hs
           rw [hc]; exact unq_dots he)

/-- **'too many dots' only if the local part contains `..`** -/
theorem too_many_dots_sound (b : Build) (m : Mode) (L : List Nat)
    (h : localOf b m L = -(E.LPART_TOO_MANY_DOTS : Int)) : HasDotDot L := by
  cases m <;> simp only [localOf, is822Local, is5321Local, is5322Local, is6531Local] at h <;> split at h
  all_goals first
    | exact absurd h (by decide)
    | exact loc5321_dots _ _ _ _ h
    | exact loc5322_dots _ _ _ _ h
    | exact loc822_dots _ _ _ (Nat.le_refl _) _ _ _ h
    | exact loc6531_dots _ _ _ (Nat.le_refl _) _ _ _ h

/-! ### domain-side reasons (ASCII modes) -/

/-- a `domain …` code only if the domain part really is not a valid host name; `not FQDN` only without a dot;
`invalid TLD` only if the last label is not in the table; an `ip-addr` code only for a bracketed domain, and
`unpaired bracket` only without a closing bracket -/
theorem domain_code_sound (b : Build) (conv : List Nat → Conv) (m : Mode) (hm : m ≠ .m6531) (s : List Nat) (hn : NulFree s)
    (tld : Bool) (r : Result) (h : isEmail b conv m s tld = .ok r) (hneg : r.rc < -15) :
    (r.rc = -(E.DOMAIN_EMPTY : Int) ∧ (64 ∉ s ∨ s.getLast? = some 64)) ∨
    ∃ L D, s = L ++ 64 :: D ∧ 64 ∉ D ∧ D ≠ [] ∧
      ((-22 ≤ r.rc ∧ r.rc ≤ -17 ∧ D.head? ≠ some 91 ∧ ¬ HostOk b.underscore D) ∨
       (r.rc = -(E.DOMAIN_NOT_FQDN : Int) ∧ HostOk b.underscore D ∧ 46 ∉ D) ∨
       (r.rc = -(E.TLD_INVALID : Int) ∧ HostOk b.underscore D ∧
          ∃ p last, D = p ++ 46 :: last ∧ 46 ∉ last ∧ (last = [] ∨ ∀ row ∈ Gen.tldTable, row.1 ≠ lowerAll last)) ∨
       (r.rc = -(E.IPADDR_INVALID : Int) ∧ D.head? = some 91) ∨
       (r.rc = -(E.IPADDR_BRACKET_UNPAIR : Int) ∧ D.head? = some 91 ∧ 93 ∉ D)) := by
  have ho := code_origin b conv m s tld r h (by omega)
  rcases ho with ⟨h1, _⟩ | ⟨h1, h2⟩ | ⟨L, D, hs, hnd, hdne, hcase⟩
  · rw [h1] at hneg; exact absurd hneg (by decide)
  · left; exact ⟨h1, h2⟩
  · right
    refine ⟨L, D, hs, hnd, hdne, ?_⟩
    have hnD : NulFree D := fun c hc => hn c (by rw [hs]; simp [hc])
    rcases hcase with ⟨h1, _⟩ | ⟨_, h1, h2⟩ | ⟨_, _, hbr, hh⟩ | ⟨_, _, hbr, hh⟩
    · rw [h1] at hneg; exact absurd hneg (by decide)
    · have := localOf_range b m L
      rw [← h1] at this
      rcases this with h | h | h <;> omega
    · -- host name
      unfold hostPart at hh
      cases m with
      | m6531 => exact absurd rfl hm
      | m822 | m5321 | m5322 =>
        simp only at hh
        split at hh
        · cases hh
        · rename_i rc hrc
          split at hh
          · rename_i hz
            have hz' : rc = 0 := by simpa using hz
            subst hz'
            have hhost : HostOk b.underscore D := (C04.host_iff _ D hnD).mp hrc
            split at hh
            · cases hh
            · rename_i t ht
              simp only [Except.ok.injEq] at hh; subst hh
              simp only [okResult] at hneg ⊢
              unfold checkTld at ht
              split at ht
              · simp only [Except.ok.injEq] at ht; omega
              · split at ht
                · cases ht
                · simp only [Except.ok.injEq] at ht; subst ht; exact absurd hneg (by decide)
                · split at ht
                  · rename_i hsp
                    simp only [Except.ok.injEq] at ht; subst ht
                    right; left
                    refine ⟨rfl, hhost, ?_⟩
                    intro hm46
                    obtain ⟨l', d', e1, e2⟩ := C01.splitLast_iff.mem_split_last 46 D hm46
                    have := (C01.splitLast_iff 46 D l' d').mpr ⟨e1, e2⟩
                    rw [hsp] at this; cases this
                  · rename_i p last hsp
                    obtain ⟨e1, e2⟩ := (C01.splitLast_iff 46 D p last).mp hsp
                    simp only [Except.ok.injEq] at ht; subst ht
                    right; right; left
                    rcases C16.isTld_range last with hr | hr
                    · refine ⟨hr, hhost, p, last, e1, e2, ?_⟩
                      by_cases hle : last = []
                      · exact Or.inl hle
                      · right
                        rw [C07.isTld_eq_lookup last hle] at hr
                        unfold C07.lookup at hr
                        split at hr
                        · rename_i row hf
                          have hm' := List.mem_of_find?_eq_some hf
                          have := C11.lengths_and_types
                          rw [List.all_eq_true] at this
                          have := this row hm'
                          simp only [Bool.and_eq_true, decide_eq_true_eq] at this
                          omega
                        · rename_i hf
                          intro row hrow heq
                          have := List.find?_eq_none.mp hf row hrow
                          simp [heq] at this
                    · omega
          · rename_i hz
            have hne : rc ≠ 0 := by simpa using hz
            simp only [Except.ok.injEq] at hh; subst hh
            left
            simp only at hneg ⊢
            rcases isAsciiDomain_range_ne _ _ _ _ hdne hrc with h | h
            · exact absurd h hne
            · refine ⟨h.1, h.2, hbr, ?_⟩
              intro hhost
              exact hne (by have := (C04.host_iff _ D hnD).mpr hhost; rw [hrc] at this; simpa using this)
    · -- literal
      have hl := literalPart_lower b L D r hh
      rcases hl with h0 | h24 | h25
      · omega
      · right; right; right; left; exact ⟨h24, hbr⟩
      · right; right; right; right
        refine ⟨h25, hbr, ?_⟩
        -- the only way to get EEAV_IPADDR_BRACKET_UNPAIR is `strrchr (brs, ']') == NULL`
        unfold literalPart at hh
        split at hh
        · cases hh
        · rename_i rc v4 v6 lit hc
          have hrc : rc = -25 := by
            split at hh
            · simp only [Except.ok.injEq] at hh; subst hh; exact absurd h25 (by simp [okResult])
            · simp only [Except.ok.injEq] at hh; subst hh; exact h25
          subst hrc
          unfold checkIp at hc
          have iv : ∀ {x : Except Fault Bool} {a c : Bool} {inner : List Nat}, ipVerdict x a c inner ≠ .ok (-25, v4, v6, lit) := by
            intro x a c inner hx
            unfold ipVerdict at hx
            split at hx
            · cases hx
            · simp only [Except.ok.injEq, Prod.mk.injEq] at hx; exact absurd hx.1 (by decide)
            · simp only [Except.ok.injEq, Prod.mk.injEq] at hx; exact absurd hx.1 (by decide)
          split at hc
          · simp only [Except.ok.injEq, Prod.mk.injEq] at hc; exact absurd hc.1 (by decide)
          · split at hc
            · rename_i hsp
              intro hm93
              obtain ⟨l', d', e1, e2⟩ := C01.splitLast_iff.mem_split_last 93 D hm93
              have := (C01.splitLast_iff 93 D l' d').mpr ⟨e1, e2⟩
              rw [hsp] at this; cases this
            · split at hc
              · simp only [Except.ok.injEq, Prod.mk.injEq] at hc; exact absurd hc.1 (by decide)
              · simp only at hc
                split at hc
                · exact absurd hc iv
                · split at hc <;> exact absurd hc iv

/-! ### the premises occur -/

/-- `a..b` makes mode 5321 report "too many dots", and it does contain `..` -/
example : localOf {} .m5321 [97, 46, 46, 98] = -(E.LPART_TOO_MANY_DOTS : Int) ∧ HasDotDot [97, 46, 46, 98] :=
  ⟨by decide, ⟨[97], [98], rfl⟩⟩
/-- a local-part code: `a b@c.d` in mode 5321 gives "special characters" (code 7) -/
example : (isEmail {} (fun _ => ⟨0, none⟩) .m5321 [97, 32, 98, 64, 99, 46, 100] false).map (·.rc) = .ok (-(E.LPART_SPECIAL : Int)) := by decide
/-- a domain code: `a@-b.c` gives "misplaced hyphen" -/
example : (isEmail {} (fun _ => ⟨0, none⟩) .m5321 [97, 64, 45, 98, 46, 99] false).map (·.rc) = .ok (-(E.DOMAIN_MISPLACED_HYPHEN : Int)) := by decide

end Eav.Props.C15
