import Eav.Model
import Eav.Props.C09
/-!
# C09, seen from `check_tld`: class *special* is said of reserved names and of nothing else

The shipped table has no row of type *special* (`no_special_row`, a fact about the regenerated table), so with TLD checking on
the code 8 can only come from `is_special_domain` — for every valid host name, `check_tld` answers 8 exactly when the name is
reserved by RFC 2606 / 6761 / 7686.  (The local part plays no role: `check_tld` never sees it.)
-/
namespace Eav.Props.C09
open Eav Eav.Spec

/-- the regenerated table classifies no TLD as *special* -/
theorem no_special_row : (Gen.tldTable.all fun r => r.2.2 != T.SPECIAL) = true := by decide +kernel

/-- the scan answers with the type of some row, or with `-EEAV_TLD_INVALID` (no assumption about the table) -/
theorem tldScan_row (s : List Nat) : ∀ (table : List (List Nat × Nat × Nat)),
    tldScan table s = -(E.TLD_INVALID : Int) ∨ ∃ r ∈ table, tldScan table s = (r.2.2 : Int)
  | [] => Or.inl rfl
  | (name, len, type) :: rows => by
    unfold tldScan
    by_cases hm : strncaseeq name s len = true
    · simp only [hm, if_true]
      exact Or.inr ⟨(name, len, type), List.mem_cons_self, rfl⟩
    · simp only [hm, Bool.false_eq_true, if_false]
      rcases tldScan_row s rows with h | ⟨r, hr, h⟩
      · exact Or.inl h
      · exact Or.inr ⟨r, List.mem_cons_of_mem _ hr, h⟩

theorem isTld_ne_special (s : List Nat) : isTld s ≠ (T.SPECIAL : Int) := by
  unfold isTld isTldIn
  split
  · decide
  · rcases tldScan_row s Gen.tldTable with h | ⟨r, hr, h⟩
    · rw [h]; decide
    · rw [h]
      have hall := no_special_row
      rw [List.all_eq_true] at hall
      have := hall r hr
      simp only [bne_iff_ne, ne_eq] at this
      intro hh
      exact this (by exact_mod_cast hh)

/-- **class 8 ⇔ reserved**, for every valid host name without root dot -/
theorem special_class_iff_reserved (us : Bool) (d : List Nat) (h : HostOk us d) (hnr : d.getLast? ≠ some 46) :
    checkTld d true = .ok (T.SPECIAL : Int) ↔ reserved d = true := by
  unfold checkTld
  rw [special_iff_host us d h hnr]
  cases hres : reserved d with
  | true => simp
  | false =>
    simp only [Bool.not_true, Bool.false_eq_true, if_false]
    constructor
    · intro hh
      cases hsp : splitLast 46 d with
      | none => rw [hsp] at hh; simp only at hh; exact absurd (Except.ok.inj hh) (by decide)
      | some p =>
        obtain ⟨a, last⟩ := p
        rw [hsp] at hh; simp only at hh
        exact absurd (Except.ok.inj hh) (isTld_ne_special last)
    · intro hh; cases hh

/-- with TLD checking off `check_tld` says 0, never a class -/
theorem tld_off_no_class (d : List Nat) : checkTld d false = .ok 0 := by
  unfold checkTld; simp

example : checkTld [120, 46, 116, 101, 115, 116] true = .ok 8 ∧ reserved [120, 46, 116, 101, 115, 116] = true ∧
          checkTld [99, 111, 110, 116, 101, 115, 116, 46, 99, 111, 109] true = .ok 3 ∧
          reserved [99, 111, 110, 116, 101, 115, 116, 46, 99, 111, 109] = false := by decide +kernel

end Eav.Props.C09
