import Eav.Model
import Eav.Props.C01
import Eav.Props.C16
/-!
# C13 — reuse of an `eav_t`: the outcome depends on the current settings and the address only

`State` is the `eav_t` (fields) plus the heap ledger (`liveResults`: result records allocated and not yet
freed; `resconfLive`: idnkit contexts).  `Inv` is the ledger invariant; it holds after `eav_init` and is
preserved by every operation; under it `eav_is_email` is a function of (selected mode, `tld_check`,
`allow_tld`, address, IDN answer), the previous record is released by the next call, `eav_free` releases
everything exactly once, and the object can be initialised again.
-/
namespace Eav.Props.C13
open Eav

/-- ledger invariant of a live object: exactly the record `eav->result` points to is allocated; for idnkit,
exactly the context of an `initialized` object -/
def Inv (be : Backend) (st : State) : Prop :=
  match st.obj with
  | none => st.liveResults = 0 ∧ st.resconfLive = 0
  | some e =>
    st.liveResults = (if e.result.isSome then 1 else 0) ∧
    st.resconfLive = (if be = .idnkit ∧ e.initialized = true then 1 else 0)

/-- nothing is allocated: before `eav_init`, and again after `eav_free` -/
def Released (st : State) : Prop := st.liveResults = 0 ∧ st.resconfLive = 0

theorem inv_blank (be : Backend) : Inv be {} := by simp [Inv]

/-- `eav_init` on memory that holds no live allocation gives a consistent object -/
theorem inv_init (be : Backend) (st : State) (h : Released st) : Inv be (eavInit st) := by
  simp [Inv, eavInit, h.1, h.2]

/-- the observable outcome of a validation -/
def outcomeOf (b : Build) (c : Conv) (m : Mode) (tld : Bool) (mask : Nat) (a : List Nat) :
    Except Fault (Int × Nat × Option Int × Result) :=
  match isEmail b (fun _ => c) m a tld with
  | .error f => .error f
  | .ok r =>
    match verdictOf mask r with
    | .error f => .error f
    | .ok (ret, ec, msg) => .ok (ret, ec, msg, r)

/-- **the outcome is a function of (selected mode, tld_check, allow_tld, address) only**: whatever record,
error code, message, counters the object holds from earlier calls, `eav_is_email` returns and stores exactly
`outcomeOf`; the previous record is released (one allocation stays live); the invariant is preserved -/
theorem isEmail_outcome (be : Backend) (b : Build) (c : Conv) (st : State) (e : EavT) (m : Mode) (a : List Nat)
    (hinv : Inv be st) (hobj : st.obj = some e) (hm : C01.modeOfObj e = some m) :
    match outcomeOf b c m e.tldCheck e.allowTld a with
    | .error f => eavIsEmail b (fun _ => c) st a = .error f
    | .ok (ret, ec, msg, r) =>
      ∃ st', eavIsEmail b (fun _ => c) st a = .ok (st', ret) ∧
        st'.obj = some { e with result := some r, errcode := ec, idnmsg := msg } ∧
        st'.liveResults = 1 ∧ st'.freedResults = st.freedResults + (if e.result.isSome then 1 else 0) ∧
        st'.resconfLive = st.resconfLive ∧ Inv be st' := by
  unfold Inv at hinv
  rw [hobj] at hinv
  obtain ⟨hlive, hres⟩ := hinv
  have hsel : selectedMode e = .ok m := by
    unfold C01.modeOfObj at hm
    cases h : selectedMode e with
    | ok m' => simp [h] at hm; rw [hm]
    | error f => simp [h] at hm
  unfold eavIsEmail outcomeOf
  have hnb : (e.result.isSome && st.liveResults == 0) = false := by
    cases hr : e.result <;> simp [hr] at hlive ⊢; omega
  simp only [hobj, hnb, Bool.false_eq_true, if_false, hsel]
  cases hi : isEmail b (fun _ => c) m a e.tldCheck with
  | error f => rfl
  | ok r =>
    simp only
    cases hv : verdictOf e.allowTld r with
    | error f => rfl
    | ok p =>
      obtain ⟨ret, ec, msg⟩ := p
      simp only
      refine ⟨_, rfl, rfl, ?_, rfl, rfl, ?_⟩
      · cases hr : e.result <;> simp [hr] at hlive ⊢ <;> omega
      · unfold Inv
        simp only [Option.isSome_some, if_true]
        refine ⟨?_, hres⟩
        cases hr : e.result <;> simp [hr] at hlive ⊢ <;> omega

/-- `eav_errstr` describes the most recent `eav_is_email` call: it is determined by the error code and IDN
message that call stored -/
theorem errstr_latest (st : State) (e : EavT) (h : st.obj = some e) (hlt : e.errcode < E.MAX) :
    eavErrstr st = .ok (if e.errcode = E.IDN_ERROR then (match e.idnmsg with | some rc => .idn rc | none => .null)
                        else .table e.errcode) := by
  unfold eavErrstr
  simp only [h]
  by_cases h2 : e.errcode = E.IDN_ERROR
  · simp [h2]; cases e.idnmsg <;> rfl
  · have : (e.errcode == E.IDN_ERROR) = false := by simpa using h2
    simp [this, h2, hlt]

/-- a failed `eav_setup` (undefined mode) leaves the selected mode, the settings and the ledger alone and
records `EEAV_INVALID_RFC` -/
theorem failed_setup_keeps_mode (be : Backend) (st : State) (e : EavT) (h : st.obj = some e)
    (hbad : e.rfc ≠ 0 ∧ e.rfc ≠ 1 ∧ e.rfc ≠ 2 ∧ e.rfc ≠ 3) :
    eavSetup be st = .ok ({ st with obj := some { e with errcode := E.INVALID_RFC } }, (E.INVALID_RFC : Int)) := by
  unfold eavSetup
  simp only [h]
  have h0 : (e.rfc == 0) = false := by simpa using hbad.1
  have h1 : (e.rfc == 1) = false := by simpa using hbad.2.1
  have h2 : (e.rfc == 2) = false := by simpa using hbad.2.2.1
  have h3 : (e.rfc == 3) = false := by simpa using hbad.2.2.2
  simp [h0, h1, h2, h3]

/-- `eav_setup` preserves the invariant (idnkit: the context is created when mode 6531 is first confirmed and
destroyed when an ASCII mode is confirmed) and never frees a record -/
theorem inv_setup (be : Backend) (st st' : State) (rc : Int) (hinv : Inv be st) (h : eavSetup be st = .ok (st', rc)) :
    Inv be st' ∧ st'.liveResults = st.liveResults := by
  unfold eavSetup at h
  cases hobj : st.obj with
  | none => simp [hobj] at h
  | some e =>
    simp only [hobj] at h
    unfold Inv at hinv
    rw [hobj] at hinv
    obtain ⟨hl, hr⟩ := hinv
    have ascii : ∀ (m : Mode), setupAscii be st e m = .ok (st', rc) → Inv be st' ∧ st'.liveResults = st.liveResults := by
      intro m h
      unfold setupAscii at h
      split at h
      · rename_i hk
        simp only [Bool.and_eq_true, beq_iff_eq] at hk
        split at h
        · cases h
        · simp only [Except.ok.injEq, Prod.mk.injEq] at h
          obtain ⟨rfl, _⟩ := h
          simp [hk.1, hk.2] at hr
          simp [Inv, hl, hr]
      · rename_i hk
        simp only [Except.ok.injEq, Prod.mk.injEq] at h
        obtain ⟨rfl, _⟩ := h
        have : ¬ (be = Backend.idnkit ∧ e.initialized = true) := by
          intro hh; apply hk; simp [hh.1, hh.2]
        simp [this] at hr
        simp [Inv, hl, hr]
    split at h
    · exact ascii _ h
    · split at h
      · exact ascii _ h
      · split at h
        · exact ascii _ h
        · split at h
          · unfold setup6531 at h
            split at h
            · rename_i hi
              simp only [Except.ok.injEq, Prod.mk.injEq] at h
              obtain ⟨rfl, _⟩ := h
              simp [Inv, hl, hr, hi]
            · rename_i hi
              have hi' : e.initialized = false := by simpa using hi
              simp [hi'] at hr
              split at h
              · rename_i hk
                have hk' : be = Backend.idnkit := by simpa using hk
                simp only [Except.ok.injEq, Prod.mk.injEq] at h
                obtain ⟨rfl, _⟩ := h
                simp [Inv, hl, hr, hk']
              · rename_i hk
                have hk' : ¬ be = Backend.idnkit := by simpa using hk
                simp only [Except.ok.injEq, Prod.mk.injEq] at h
                obtain ⟨rfl, _⟩ := h
                simp [Inv, hl, hr, hk']
          · simp only [Except.ok.injEq, Prod.mk.injEq] at h
            obtain ⟨rfl, _⟩ := h
            simp [Inv, hl, hr]

/-- **`eav_free` after any history releases everything exactly once**: under the invariant it cannot hit a
dead block, it frees the held record (if any) and the idnkit context (if any), and nothing stays allocated -/
theorem free_releases (be : Backend) (st : State) (e : EavT) (hinv : Inv be st) (hobj : st.obj = some e) :
    ∃ st', eavFree be st = .ok st' ∧ Released st' ∧
      st'.freedResults = st.freedResults + (if e.result.isSome then 1 else 0) ∧
      st'.resconfDestroyed = st.resconfDestroyed + (if be = .idnkit ∧ e.initialized = true then 1 else 0) := by
  unfold Inv at hinv
  rw [hobj] at hinv
  obtain ⟨hl, hr⟩ := hinv
  unfold eavFree
  have hnb : (e.result.isSome && st.liveResults == 0) = false := by
    cases hres : e.result <;> simp [hres] at hl ⊢; omega
  simp only [hobj, hnb, Bool.false_eq_true, if_false]
  by_cases hk : be = Backend.idnkit ∧ e.initialized = true
  · have hk' : (be == Backend.idnkit && e.initialized) = true := by simp [hk.1, hk.2]
    simp only [hk, and_self, if_true] at hr ⊢
    have hne : (st.resconfLive == 0) = false := by simp [hr]
    simp only [hk', if_true, hne, Bool.false_eq_true, if_false]
    refine ⟨_, rfl, ?_, rfl, rfl⟩
    cases hres : e.result <;> simp [Released, hres] at hl ⊢ <;> omega
  · have hk' : (be == Backend.idnkit && e.initialized) = false := by
      cases hb : (be == Backend.idnkit) <;> cases hi : e.initialized <;> simp_all
    simp only [hk, if_false] at hr ⊢
    simp only [hk', Bool.false_eq_true, if_false]
    refine ⟨_, rfl, ?_, rfl, by simp⟩
    cases hres : e.result <;> simp [Released, hres] at hl ⊢ <;> omega

/-- after `eav_free` the object can be initialised and used again -/
theorem reinit_ok (be : Backend) (st : State) (e : EavT) (hinv : Inv be st) (hobj : st.obj = some e) :
    ∃ st', eavFree be st = .ok st' ∧ Inv be (eavInit st') := by
  obtain ⟨st', h1, h2, _⟩ := free_releases be st e hinv hobj
  exact ⟨st', h1, inv_init be st' h2⟩

/-- the settings fields are plain stores: they preserve the invariant, the selected mode and the held record -/
theorem inv_settings (be : Backend) (b : Build) (st st' : State) (o : Out) (op : Op)
    (hop : (∃ v, op = .setRfc v) ∨ (∃ t, op = .setTld t) ∨ (∃ k, op = .setMask k))
    (hinv : Inv be st) (h : step be b st op = .ok (st', o)) :
    Inv be st' ∧ (∀ e, st.obj = some e → ∃ e', st'.obj = some e' ∧ C01.modeOfObj e' = C01.modeOfObj e ∧ e'.result = e.result) := by
  cases hobj : st.obj with
  | none => rcases hop with ⟨v, rfl⟩ | ⟨t, rfl⟩ | ⟨k, rfl⟩ <;> simp [step, hobj] at h
  | some e =>
    unfold Inv at hinv ⊢
    rw [hobj] at hinv
    rcases hop with ⟨v, rfl⟩ | ⟨t, rfl⟩ | ⟨k, rfl⟩
    all_goals
      simp only [step, hobj, Except.ok.injEq, Prod.mk.injEq] at h
      obtain ⟨rfl, _⟩ := h
      exact ⟨by simpa using hinv, fun e0 he0 => by cases he0; exact ⟨_, rfl, rfl, rfl⟩⟩

/-- `eav_errstr` changes nothing -/
theorem errstr_pure (be : Backend) (b : Build) (st st' : State) (o : Out) (h : step be b st .errstr = .ok (st', o)) : st' = st := by
  simp only [step] at h
  split at h
  · cases h
  · simp only [Except.ok.injEq, Prod.mk.injEq] at h; exact h.1.symm

theorem setup_obj (be : Backend) (st s0 : State) (rc : Int) (e : EavT) (hobj : st.obj = some e)
    (hs : eavSetup be st = .ok (s0, rc)) : s0.obj ≠ none := by
  have ascii : ∀ m, setupAscii be st e m = .ok (s0, rc) → s0.obj ≠ none := by
    intro m h
    unfold setupAscii at h
    split at h
    · split at h
      · cases h
      · simp only [Except.ok.injEq, Prod.mk.injEq] at h; rw [← h.1]; simp
    · simp only [Except.ok.injEq, Prod.mk.injEq] at h; rw [← h.1]; simp
  unfold eavSetup at hs
  simp only [hobj] at hs
  split at hs
  · exact ascii _ hs
  · split at hs
    · exact ascii _ hs
    · split at hs
      · exact ascii _ hs
      · split at hs
        · unfold setup6531 at hs
          split at hs
          · simp only [Except.ok.injEq, Prod.mk.injEq] at hs; rw [← hs.1]; simp
          · split at hs <;> (simp only [Except.ok.injEq, Prod.mk.injEq] at hs; rw [← hs.1]; simp)
        · simp only [Except.ok.injEq, Prod.mk.injEq] at hs; rw [← hs.1]; simp

/-- **a refused creation of the back end's context changes nothing but the message**: `eav_setup` for mode 6531 on an idnkit object whose
resolver context cannot be created returns the IDN error, and the object keeps the mode confirmed by the last successful `eav_setup`, its
settings, its record and its ledger (`partial/idnkit/eav.c` after 292433e: the switch to UTF-8 is made only after `init_idn` succeeded) -/
theorem failed_create_keeps_mode (st : State) (e : EavT) (r : Int) (h : st.obj = some e) (h3 : e.rfc = 3) (hi : e.initialized = false) :
    eavSetupFail .idnkit st r = .ok ({ st with obj := some { e with idnmsg := some r } }, -(E.IDN_ERROR : Int)) ∧
      C01.modeOfObj { e with idnmsg := some r } = C01.modeOfObj e := by
  refine ⟨?_, rfl⟩
  unfold eavSetupFail
  simp [h, h3, hi]

/-- ... and the next validation does not see it: `eav_is_email` on the object after the refused creation returns what it returns on the
object before it, and leaves the same state behind (the message stored by `init_idn` is overwritten by every validation) -/
theorem failed_create_invisible (b : Build) (conv : List Nat → Conv) (st : State) (e : EavT) (r : Int) (a : List Nat) (h : st.obj = some e) :
    eavIsEmail b conv { st with obj := some { e with idnmsg := some r } } a = eavIsEmail b conv st a := by
  unfold eavIsEmail
  simp only [h]
  rfl

/-- the premises are met by the object `eav_init` leaves (mode 6531 requested, no context yet) ... -/
example : ∃ e, (eavInit {}).obj = some e ∧ e.rfc = 3 ∧ e.initialized = false := ⟨_, rfl, rfl, rfl⟩
/-- ... and a concrete history on the idnkit back end: mode 5321 confirmed, a 6531 setup refused because the context cannot be created, then a
validation - it is the 5321 validator that answers (a non-ASCII local part is refused as such), and nothing is left allocated after `eav_free` -/
example : (run .idnkit {} {} [.init, .setRfc 1, .setup, .setRfc 3, .setupFail 12, .isEmail [208, 182, 64, 98, 46, 99, 111, 109] ⟨0, none⟩, .free]).toOption.map
    (fun p => (p.2.map (fun o => match o with | .rc v => v | .verdict _ ec _ _ => (ec : Int) | _ => 0), p.1.liveResults, p.1.resconfLive)) =
    some ([0, 0, 0, 0, -2, 6, 0], 0, 0) := by decide

/-- in every other situation nothing is created, so nothing can fail: the call is `eav_setup` -/
theorem setupFail_eq_setup (be : Backend) (st : State) (e : EavT) (r : Int) (h : st.obj = some e)
    (hn : be ≠ .idnkit ∨ e.rfc ≠ 3 ∨ e.initialized = true) : eavSetupFail be st r = eavSetup be st := by
  unfold eavSetupFail
  simp only [h]
  split
  · rename_i hc
    simp only [Bool.and_eq_true, beq_iff_eq, Bool.not_eq_true'] at hc
    rcases hn with h1 | h1 | h1
    · exact absurd hc.1.1 h1
    · exact absurd hc.1.2 h1
    · rw [hc.2] at h1; cases h1
  · rfl

/-- the invariant and the ledger survive a setup in which the context cannot be created -/
theorem inv_setupFail (be : Backend) (st st' : State) (r : Int) (rc : Int) (hinv : Inv be st) (h : eavSetupFail be st r = .ok (st', rc)) :
    Inv be st' ∧ st'.liveResults = st.liveResults := by
  unfold eavSetupFail at h
  cases hobj : st.obj with
  | none => simp [hobj] at h
  | some e =>
    simp only [hobj] at h
    split at h
    · simp only [Except.ok.injEq, Prod.mk.injEq] at h
      obtain ⟨rfl, _⟩ := h
      unfold Inv at hinv ⊢
      rw [hobj] at hinv
      exact ⟨hinv, rfl⟩
    · exact inv_setup be st st' rc hinv h

theorem setupFail_obj (be : Backend) (st s0 : State) (r : Int) (rc : Int) (e : EavT) (hobj : st.obj = some e)
    (hs : eavSetupFail be st r = .ok (s0, rc)) : s0.obj ≠ none := by
  unfold eavSetupFail at hs
  simp only [hobj] at hs
  split at hs
  · simp only [Except.ok.injEq, Prod.mk.injEq] at hs; rw [← hs.1]; simp
  · exact setup_obj be st s0 rc e hobj hs

theorem free_obj (be : Backend) (st s0 : State) (e : EavT) (hobj : st.obj = some e)
    (hs : eavFree be st = .ok s0) : s0.obj ≠ none := by
  unfold eavFree at hs
  simp only [hobj] at hs
  split at hs
  · cases hs
  · split at hs
    · split at hs
      · cases hs
      · simp only [Except.ok.injEq] at hs; rw [← hs]; simp
    · simp only [Except.ok.injEq] at hs; rw [← hs]; simp

theorem free_obj_eq (be : Backend) (st s0 : State) (e : EavT) (hobj : st.obj = some e)
    (hs : eavFree be st = .ok s0) : s0.obj = some { e with result := none } := by
  unfold eavFree at hs
  simp only [hobj] at hs
  split at hs
  · cases hs
  · split at hs
    · split at hs
      · cases hs
      · simp only [Except.ok.injEq] at hs; rw [← hs]
    · simp only [Except.ok.injEq] at hs; rw [← hs]

/-- **every reachable state satisfies the invariant**: a history that starts with `eav_init` on blank memory and
contains no further `eav_init` / `eav_free` keeps exactly the current record (and idnkit context) allocated -/
theorem run_inv (be : Backend) (b : Build) : ∀ (ops : List Op) (st st' : State) (outs : List Out),
    Inv be st → (∀ op ∈ ops, op ≠ .init ∧ op ≠ .free) → run be b st ops = .ok (st', outs) → Inv be st'
  | [], st, st', outs, hinv, _, h => by
    simp only [run, Except.ok.injEq, Prod.mk.injEq] at h; rw [← h.1]; exact hinv
  | op :: ops, st, st', outs, hinv, hops, h => by
    simp only [run] at h
    split at h
    · cases h
    · rename_i s o hstep
      split at h
      · cases h
      · rename_i s' os hrun
        simp only [Except.ok.injEq, Prod.mk.injEq] at h
        obtain ⟨rfl, _⟩ := h
        have hop := hops op (by simp)
        have hinv' : Inv be s := by
          cases op with
          | init => exact absurd rfl hop.1
          | free => exact absurd rfl hop.2
          | setRfc v => exact (inv_settings be b st s o _ (Or.inl ⟨v, rfl⟩) hinv hstep).1
          | setTld t => exact (inv_settings be b st s o _ (Or.inr (Or.inl ⟨t, rfl⟩)) hinv hstep).1
          | setMask k => exact (inv_settings be b st s o _ (Or.inr (Or.inr ⟨k, rfl⟩)) hinv hstep).1
          | errstr => rw [errstr_pure be b st s o hstep]; exact hinv
          | setup =>
            simp only [step] at hstep
            split at hstep
            · cases hstep
            · rename_i s0 rc hs
              simp only [Except.ok.injEq, Prod.mk.injEq] at hstep
              rw [← hstep.1]
              exact (inv_setup be st s0 rc hinv hs).1
          | setupFail r =>
            simp only [step] at hstep
            split at hstep
            · cases hstep
            · rename_i s0 rc hs
              simp only [Except.ok.injEq, Prod.mk.injEq] at hstep
              rw [← hstep.1]
              exact (inv_setupFail be st s0 r rc hinv hs).1
          | isEmail a c =>
            simp only [step] at hstep
            split at hstep
            · cases hstep
            · rename_i s0 ret hs
              have : Inv be s0 := isEmail_inv be b c st s0 ret a hinv hs
              split at hstep
              · cases hstep
              · split at hstep
                · split at hstep
                  · simp only [Except.ok.injEq, Prod.mk.injEq] at hstep; rw [← hstep.1]; exact this
                  · cases hstep
                · cases hstep
        exact run_inv be b ops s s' os hinv' (fun o ho => hops o (by simp [ho])) hrun
where
  isEmail_inv (be : Backend) (b : Build) (c : Conv) (st s0 : State) (ret : Int) (a : List Nat)
      (hinv : Inv be st) (hs : eavIsEmail b (fun _ => c) st a = .ok (s0, ret)) : Inv be s0 := by
    cases hobj : st.obj with
    | none => simp [eavIsEmail, hobj] at hs
    | some e =>
      cases hsel : selectedMode e with
      | error f =>
        unfold eavIsEmail at hs
        simp only [hobj, hsel] at hs
        split at hs <;> cases hs
      | ok m =>
        have hm : C01.modeOfObj e = some m := by simp [C01.modeOfObj, hsel]
        have := isEmail_outcome be b c st e m a hinv hobj hm
        cases ho : outcomeOf b c m e.tldCheck e.allowTld a with
        | error f => rw [ho] at this; simp only at this; rw [this] at hs; cases hs
        | ok p =>
          obtain ⟨r1, ec, msg, r⟩ := p
          rw [ho] at this
          simp only at this
          obtain ⟨st', h1, _, _, _, _, h6⟩ := this
          rw [h1] at hs
          simp only [Except.ok.injEq, Prod.mk.injEq] at hs
          rw [← hs.1]; exact h6

/-- **a whole life cycle**: `eav_init`, any operations, `eav_free` — nothing stays allocated, every record was
freed exactly once (allocated = freed) -/
theorem lifecycle_releases (be : Backend) (b : Build) (ops : List Op) (st : State) (outs : List Out)
    (hops : ∀ op ∈ ops, op ≠ .init ∧ op ≠ .free)
    (h : run be b (eavInit {}) ops = .ok (st, outs)) :
    ∃ st', eavFree be st = .ok st' ∧ Released st' := by
  have hinv : Inv be st := run_inv be b ops _ st outs (inv_init be {} ⟨rfl, rfl⟩) hops h
  cases hobj : st.obj with
  | none =>
    -- the object stays initialised: no operation un-initialises it
    exfalso
    exact obj_stays be b ops _ st outs (by simp [eavInit]) h hobj
  | some e =>
    obtain ⟨st', h1, h2, _⟩ := free_releases be st e hinv hobj
    exact ⟨st', h1, h2⟩
where
  obj_stays (be : Backend) (b : Build) : ∀ (ops : List Op) (st st' : State) (outs : List Out),
      st.obj ≠ none → run be b st ops = .ok (st', outs) → st'.obj ≠ none
    | [], st, st', outs, hne, h => by
      simp only [run, Except.ok.injEq, Prod.mk.injEq] at h; rw [← h.1]; exact hne
    | op :: ops, st, st', outs, hne, h => by
      simp only [run] at h
      split at h
      · cases h
      · rename_i s o hstep
        split at h
        · cases h
        · rename_i s' os hrun
          simp only [Except.ok.injEq, Prod.mk.injEq] at h
          obtain ⟨rfl, _⟩ := h
          refine obj_stays be b ops s s' os ?_ hrun
          cases hobj : st.obj with
          | none => exact absurd hobj hne
          | some e =>
            cases op with
            | init => simp only [step, Except.ok.injEq, Prod.mk.injEq] at hstep; rw [← hstep.1]; simp [eavInit]
            | setRfc v => simp only [step, hobj, Except.ok.injEq, Prod.mk.injEq] at hstep; rw [← hstep.1]; simp
            | setTld v => simp only [step, hobj, Except.ok.injEq, Prod.mk.injEq] at hstep; rw [← hstep.1]; simp
            | setMask v => simp only [step, hobj, Except.ok.injEq, Prod.mk.injEq] at hstep; rw [← hstep.1]; simp
            | errstr => rw [C13.errstr_pure be b st s o hstep, hobj]; simp
            | setup =>
              simp only [step] at hstep
              split at hstep
              · cases hstep
              · rename_i s0 rc hs
                simp only [Except.ok.injEq, Prod.mk.injEq] at hstep
                rw [← hstep.1]
                exact C13.setup_obj be st s0 rc e hobj hs
            | setupFail r =>
              simp only [step] at hstep
              split at hstep
              · cases hstep
              · rename_i s0 rc hs
                simp only [Except.ok.injEq, Prod.mk.injEq] at hstep
                rw [← hstep.1]
                exact C13.setupFail_obj be st s0 r rc e hobj hs
            | isEmail a c =>
              simp only [step] at hstep
              split at hstep
              · cases hstep
              · split at hstep
                · cases hstep
                · split at hstep
                  · rename_i e' he'
                    split at hstep
                    · simp only [Except.ok.injEq, Prod.mk.injEq] at hstep; rw [← hstep.1, he']; simp
                    · cases hstep
                  · cases hstep
            | free =>
              simp only [step] at hstep
              split at hstep
              · cases hstep
              · rename_i s0 hs
                simp only [Except.ok.injEq, Prod.mk.injEq] at hstep
                rw [← hstep.1]
                exact C13.free_obj be st s0 e hobj hs

/-! ### the hypotheses are satisfiable: a concrete history on the idnkit back end -/

def demoOps : List Op := [.setTld false, .setRfc 1, .setup, .isEmail [97, 64, 98, 46, 99, 111] ⟨0, none⟩, .errstr,
  .setRfc 7, .setup, .errstr, .setRfc 0, .setup, .isEmail [97, 64, 91, 49, 46, 50, 46, 51, 46, 52, 93] ⟨0, none⟩]

/-- it contains neither `init` nor `free` and runs without a fault from a freshly initialised object … -/
example : (∀ op ∈ demoOps, op ≠ .init ∧ op ≠ .free) ∧
    (match run .idnkit {} (eavInit {}) demoOps with | .ok _ => true | .error _ => false) = true := by
  constructor
  · intro op hop
    simp only [demoOps, List.mem_cons, List.mem_nil_iff, or_false] at hop
    rcases hop with rfl | rfl | rfl | rfl | rfl | rfl | rfl | rfl | rfl | rfl | rfl <;> decide
  · decide

end Eav.Props.C13
