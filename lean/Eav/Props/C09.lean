import Eav.Model
import Eav.Lemmas.Str
import Eav.Props.C04
import Eav.Props.Tie.Special
/-!
# C09 — reserved domains (RFC 2606 / 6761 / 7686) are recognised exactly, whatever precedes them

`isSpecialDomain` is the model of `src/is_special_domain.c` (`strchr`-driven label walking, copies into
`label[64]`, `strncasecmp` against `reserved[]` / `example[]`, whose contents are tied to the source by
`GenTie.reserved_eq` / `example_eq`).  `Spec.reserved` is the property's wording on whole labels.
-/
namespace Eav.Props.C09
open Eav Eav.Spec

/-! ### the `strchr` walkers in terms of the label decomposition -/

theorem walkers (s : List Nat) : ∀ l ls, splitDots s = l :: ls →
    upToDot s = l ∧ countDots s = ls.length ∧ afterDot s = (if ls = [] then none else some (joinDots ls)) := by
  induction s with
  | nil => intro l ls h; simp [splitDots] at h; obtain ⟨rfl, rfl⟩ := h; simp [upToDot, countDots, afterDot]
  | cons c cs ih =>
    intro l ls h
    by_cases hc : c = 46
    · subst hc
      have : splitDots (46 :: cs) = [] :: splitDots cs := by simp [splitDots]
      rw [this] at h
      simp only [List.cons.injEq] at h
      obtain ⟨rfl, rfl⟩ := h
      have hne := splitDots_ne_nil cs
      obtain ⟨l', ls', hs'⟩ : ∃ l' ls', splitDots cs = l' :: ls' := by
        cases h : splitDots cs with
        | nil => exact absurd h hne
        | cons a b => exact ⟨a, b, rfl⟩
      have ih' := ih l' ls' hs'
      refine ⟨by simp [upToDot], ?_, ?_⟩
      · simp [countDots, ih'.2.1, hs']
      · simp only [afterDot, beq_self_eq_true, if_true, hne, if_false]
        rw [C04.join_splitDots]
    · obtain ⟨l', ls', h1, h2⟩ := splitDots_cons_ne (cs := cs) hc
      rw [h2] at h
      simp only [List.cons.injEq] at h
      obtain ⟨rfl, rfl⟩ := h
      have ih' := ih l' ls' h1
      have hc' : (c == 46) = false := by simpa using hc
      exact ⟨by simp [upToDot, hc', ih'.1], by simp [countDots, hc', ih'.2.1], by simp [afterDot, hc', ih'.2.2]⟩

theorem splitDots_joinDots (ls : List (List Nat)) (hne : ls ≠ []) (hnd : ∀ l ∈ ls, 46 ∉ l) :
    splitDots (joinDots ls) = ls := C04.splitDots_join ls hne hnd

theorem skipLabels_succ (n : Nat) (cp : List Nat) (h : n + 1 ≥ 2) :
    skipLabels (n + 1) cp = (afterDot cp).bind (skipLabels n) := by
  simp [skipLabels, h]

/-- `while (count >= 2) { cp = strchr (cp, '.') + 1; count--; }` leaves the last two labels -/
theorem skip_to_last_two : ∀ (ls : List (List Nat)) (a b : List Nat), (∀ l ∈ ls ++ [a, b], 46 ∉ l) →
    skipLabels (ls.length + 1) (joinDots (ls ++ [a, b])) = some (joinDots [a, b])
  | [], a, b, _ => by simp [skipLabels]
  | l :: ls, a, b, h => by
    have hnd : ∀ x ∈ (ls ++ [a, b]), 46 ∉ x := fun x hx => h x (by simp at hx ⊢; exact Or.inr hx)
    have hne : ls ++ [a, b] ≠ [] := by simp
    have hsd : splitDots (joinDots ((l :: ls) ++ [a, b])) = l :: (ls ++ [a, b]) :=
      splitDots_joinDots _ (by simp) (fun x hx => h x (by simpa using hx))
    have hw := (walkers _ _ _ hsd).2.2
    simp only [hne, if_false] at hw
    have : (l :: ls).length + 1 = (ls.length + 1) + 1 := by simp
    rw [this, skipLabels_succ _ _ (by omega)]
    simp only [List.cons_append] at hw ⊢
    rw [hw]
    exact skip_to_last_two ls a b hnd

theorem toLower_dot (c : Nat) : toLower c = 46 ↔ c = 46 := by
  unfold toLower isUpper
  split <;> simp_all <;> omega

theorem splitDots_lower (s : List Nat) : splitDots (lowerAll s) = (splitDots s).map lowerAll := by
  induction s with
  | nil => simp [splitDots, lowerAll]
  | cons c cs ih =>
    by_cases hc : c = 46
    · subst hc
      simp [splitDots, toLower, isUpper, ih]
    · have hl : toLower c ≠ 46 := fun h => hc ((toLower_dot c).mp h)
      obtain ⟨l, ls, h1, h2⟩ := splitDots_cons_ne (cs := cs) hc
      obtain ⟨l', ls', h1', h2'⟩ := splitDots_cons_ne (c := toLower c) (cs := lowerAll cs) hl
      rw [lowerAll_cons, h2', h2]
      rw [ih, h1] at h1'
      simp only [List.map_cons, List.cons.injEq] at h1'
      simp [h1'.1, h1'.2]

/-- a reserved name matches a NUL-terminated label exactly when their lower-case forms coincide -/
theorem checkTable_iff (tbl : List (List Nat × Nat)) (names : List (List Nat)) (d : List Nat)
    (htbl : tbl = names.map (fun n => (n, n.length + 1))) (hlow : ∀ n ∈ names, lowerAll n = n) :
    checkTable tbl d = names.contains (lowerAll d) := by
  subst htbl
  induction names with
  | nil => simp [checkTable]
  | cons n ns ih =>
    have ih' := ih (fun x hx => hlow x (by simp [hx]))
    simp only [checkTable, List.map_cons, List.any_cons, List.contains_cons] at ih' ⊢
    rw [ih']
    rw [strncaseeq_full_right d n (n.length + 1) (by omega), hlow n (by simp)]

theorem reservedTable_eq : reservedTable = reservedTlds.map (fun n => (n, n.length + 1)) := by decide
theorem exampleTable_eq : exampleTable = exampleSlds.map (fun n => (n, n.length + 1)) := by decide
theorem reserved_lower : ∀ n ∈ reservedTlds, lowerAll n = n := by decide
theorem example_lower : ∀ n ∈ exampleSlds, lowerAll n = n := by decide

theorem check_reserved (d : List Nat) : checkTable reservedTable d = reservedTlds.contains (lowerAll d) :=
  checkTable_iff _ _ d reservedTable_eq reserved_lower
theorem check_example (d : List Nat) : checkTable exampleTable d = exampleSlds.contains (lowerAll d) :=
  checkTable_iff _ _ d exampleTable_eq example_lower

/-- the length filter never hides a reserved name -/
theorem filter_ok (x : List Nat) (h : reservedTlds.contains (lowerAll x) = true) : lenFilter x.length = false := by
  have hl : (lowerAll x).length = x.length := lowerAll_length x
  simp only [reservedTlds, List.contains_cons, List.contains_nil, Bool.or_false, Bool.or_eq_true, beq_iff_eq] at h
  rcases h with h | h | h | h | h <;> (rw [← hl, h]; decide)

theorem upToDot_nodot (l r : List Nat) (h : 46 ∉ l) : upToDot (l ++ 46 :: r) = l ∧ afterDot (l ++ 46 :: r) = some r := by
  induction l with
  | nil => simp [upToDot, afterDot]
  | cons c cs ih =>
    have hc : (c == 46) = false := by
      have : c ≠ 46 := fun e => h (by simp [e])
      simpa using this
    have := ih (fun e => h (by simp [e]))
    simp [upToDot, afterDot, hc, this]

theorem upToDot_all (l : List Nat) (h : 46 ∉ l) : upToDot l = l := by
  induction l with
  | nil => rfl
  | cons c cs ih =>
    have hc : (c == 46) = false := by
      have : c ≠ 46 := fun e => h (by simp [e])
      simpa using this
    simp [upToDot, hc, ih (fun e => h (by simp [e]))]

theorem take_of_append (l r : List Nat) : (l ++ r).take l.length = l := by simp

/-- copying a label of at most 63 bytes into `label[64]` is in bounds and yields that label -/
theorem copyLabel_take (l r : List Nat) (h : l.length ≤ 63) : copyLabel (l ++ r) l.length = .ok l := by
  unfold copyLabel
  have : ¬ (l.length + 1 > Lim.LABEL_SIZE) := by simp only [Lim.LABEL_SIZE]; omega
  simp only [this, if_false, take_of_append]

theorem splitDots_nodot_mem (s : List Nat) : ∀ l ∈ splitDots s, 46 ∉ l := by
  induction s with
  | nil => simp [splitDots]
  | cons c cs ih =>
    by_cases hc : c = 46
    · subst hc
      have : splitDots (46 :: cs) = [] :: splitDots cs := by simp [splitDots]
      rw [this]
      intro l hl
      simp only [List.mem_cons] at hl
      rcases hl with rfl | hl
      · simp
      · exact ih l hl
    · obtain ⟨l', ls', h1, h2⟩ := splitDots_cons_ne (cs := cs) hc
      rw [h2]
      intro l hl
      simp only [List.mem_cons] at hl
      rcases hl with rfl | hl
      · intro hm
        simp only [List.mem_cons] at hm
        rcases hm with hm | hm
        · exact hc hm.symm
        · exact ih l' (by rw [h1]; simp) hm
      · exact ih l (by rw [h1]; simp [hl])

/-- the decision on the last two labels -/
theorem tail_decision (a b : List Nat) (ha : 46 ∉ a) (hb : 46 ∉ b) :
    (match exampleHit (a ++ 46 :: b) b with
     | .error e => .error e
     | .ok true => .ok true
     | .ok false => lastLabelHit b) =
    (Except.ok (reservedTlds.contains (lowerAll b) || (lowerAll a == Spec.exampleLabel && exampleSlds.contains (lowerAll b))) : Except Fault Bool) := by
  have hu := upToDot_nodot a b ha
  have hbb := upToDot_all b hb
  have hlast : lastLabelHit b = .ok (reservedTlds.contains (lowerAll b)) := by
    unfold lastLabelHit
    rw [hbb]
    by_cases hf : lenFilter b.length = true
    · have : reservedTlds.contains (lowerAll b) = false := by
        cases hc : reservedTlds.contains (lowerAll b) with
        | false => rfl
        | true => rw [filter_ok b hc] at hf; cases hf
      simp only [hf, if_true, this]
    · have hf' : lenFilter b.length = false := by simpa using hf
      have hlen : b.length ≤ 9 := by
        simp [lenFilter] at hf'; omega
      have hle : b.length ≤ 63 := by omega
      have hcp : copyLabel b b.length = .ok b := by
        have := copyLabel_take b [] hle
        rw [List.append_nil] at this; exact this
      simp only [hf', Bool.false_eq_true, if_false, hcp, check_reserved]
  unfold exampleHit
  rw [hu.1, hbb]
  by_cases h7 : a.length = 7
  · have hle : a.length ≤ 63 := by omega
    have hcp : copyLabel (a ++ 46 :: b) 7 = .ok a := by
      have := copyLabel_take a (46 :: b) hle
      rw [h7] at this; exact this
    have hex : strncaseeq Eav.exampleLabel a 8 = (lowerAll a == Spec.exampleLabel) := by
      rw [strncaseeq_full Eav.exampleLabel a 8 (by decide)]
      have : lowerAll Eav.exampleLabel = Spec.exampleLabel := by decide
      rw [this, list_beq_symm]
    simp only [h7, beq_self_eq_true, if_true, hcp, hex]
    by_cases hae : (lowerAll a == Spec.exampleLabel) = true
    · simp only [hae, if_true, Bool.true_and]
      by_cases h3 : b.length = 3
      · have hle3 : b.length ≤ 63 := by omega
        have hcp3 : copyLabel b 3 = .ok b := by
          have := copyLabel_take b [] hle3
          rw [h3, List.append_nil] at this; exact this
        simp only [h3, beq_self_eq_true, if_true, hcp3, check_example]
        cases hx : exampleSlds.contains (lowerAll b) with
        | true => simp only [Bool.or_true]
        | false => simp only [hlast, Bool.or_false]
      · have h3' : (b.length == 3) = false := by simpa using h3
        have : exampleSlds.contains (lowerAll b) = false := by
          cases hc : exampleSlds.contains (lowerAll b) with
          | false => rfl
          | true =>
            exfalso
            have hl : (lowerAll b).length = b.length := lowerAll_length b
            simp only [exampleSlds, List.contains_cons, List.contains_nil, Bool.or_false, Bool.or_eq_true, beq_iff_eq] at hc
            rcases hc with hc | hc | hc <;> (rw [hc] at hl; simp at hl; exact h3 hl.symm)
        simp only [h3', Bool.false_eq_true, if_false, this, hlast, Bool.and_false, Bool.or_false]
    · have hae' : (lowerAll a == Spec.exampleLabel) = false := by simpa using hae
      simp only [hae', Bool.false_eq_true, if_false, hlast, Bool.false_and, Bool.or_false]
  · have h7' : (a.length == 7) = false := by simpa using h7
    have : (lowerAll a == Spec.exampleLabel) = false := by
      cases hc : (lowerAll a == Spec.exampleLabel) with
      | false => rfl
      | true =>
        exfalso
        have hl : (lowerAll a).length = a.length := lowerAll_length a
        rw [beq_iff_eq] at hc
        rw [hc] at hl
        exact h7 (by simpa [Spec.exampleLabel] using hl.symm)
    simp only [h7', Bool.false_eq_true, if_false, this, hlast, Bool.false_and, Bool.or_false]

/-- **C09**: for a domain whose labels are all non-empty (in particular every valid host name without root dot)
`is_special_domain` answers exactly "the last label is test / example / invalid / localhost / onion, or the
last two labels are example.com / example.net / example.org", ASCII-case-insensitively, on whole labels,
whatever the number, length and content of the labels further left; and it never leaves its 64-byte buffer -/
theorem special_iff (d : List Nat) (hlab : ∀ l ∈ splitDots d, l ≠ []) :
    isSpecialDomain d = .ok (reserved d) := by
  have hnd := splitDots_nodot_mem d
  have hj := C04.join_splitDots d
  have hlow := splitDots_lower d
  -- decompose the label list from the right
  cases hrev : (splitDots d).reverse with
  | nil => simp at hrev; exact absurd hrev (splitDots_ne_nil d)
  | cons b rest =>
    have hsd : splitDots d = rest.reverse ++ [b] := by
      have := congrArg List.reverse hrev; simpa using this
    have hres : ∀ rest', rest = rest' → reserved d = (reservedTlds.contains (lowerAll b) ||
        (match rest' with | a :: _ => lowerAll a == Spec.exampleLabel && exampleSlds.contains (lowerAll b) | [] => false)) := by
      intro rest' hr
      subst hr
      unfold reserved
      rw [hlow, hsd]
      simp only [List.map_append, List.map_cons, List.map_nil, List.reverse_append, List.reverse_cons, List.reverse_nil,
        List.nil_append, List.singleton_append, List.map_reverse, List.reverse_reverse]
      cases rest with
      | nil => rfl
      | cons a r => rfl
    cases rest with
    | nil =>
      -- a single label
      have hd : splitDots d = [b] := by simpa using hsd
      have hw := walkers d b [] hd
      have hdb : d = b := by rw [← hj, hd]; rfl
      unfold isSpecialDomain
      simp only [hw.2.1, List.length_nil, beq_self_eq_true, if_true]
      rw [hres [] rfl]
      simp only [Bool.or_false]
      by_cases hf : lenFilter d.length = true
      · have : reservedTlds.contains (lowerAll b) = false := by
          cases hc : reservedTlds.contains (lowerAll b) with
          | false => rfl
          | true => rw [← hdb] at hc; rw [filter_ok d hc] at hf; cases hf
        simp only [hf, if_true, this]
      · have hf' : lenFilter d.length = false := by simpa using hf
        simp only [hf', Bool.false_eq_true, if_false, check_reserved]
        rw [hdb]
    | cons a r =>
      -- at least two labels: d = r.reverse ++ [a, b]
      have hd : splitDots d = r.reverse ++ [a, b] := by simpa using hsd
      have hall : ∀ l ∈ r.reverse ++ [a, b], 46 ∉ l := fun l hl => hnd l (by rw [hd]; exact hl)
      have ha : 46 ∉ a := hall a (by simp)
      have hb : 46 ∉ b := hall b (by simp)
      have hbne : b ≠ [] := hlab b (by rw [hd]; simp)
      have hdj : d = joinDots (r.reverse ++ [a, b]) := by rw [← hj, hd]
      have hcount : countDots d = r.reverse.length + 1 := by
        cases hl : r.reverse ++ [a, b] with
        | nil => simp at hl
        | cons x xs =>
          have := (walkers d x xs (by rw [hd, hl])).2.1
          rw [this]
          have : (r.reverse ++ [a, b]).length = (x :: xs).length := by rw [hl]
          simp at this ⊢; omega
      have hlastne : d.getLast? ≠ some 46 := by
        -- the last byte of d is the last byte of b, and b has no dot
        have hsplit : ∃ p, d = p ++ b := by
          rw [hdj]
          clear hdj hj hsd hd hrev hres hcount hlow
          induction r.reverse with
          | nil => exact ⟨a ++ [46], by simp [joinDots]⟩
          | cons x xs ih =>
            obtain ⟨p, hp⟩ := ih
            have : joinDots ((x :: xs) ++ [a, b]) = x ++ 46 :: joinDots (xs ++ [a, b]) := by
              cases hh : xs ++ [a, b] with
              | nil => simp at hh
              | cons y ys => simp only [List.cons_append, hh]; rfl
            exact ⟨x ++ 46 :: p, by rw [this, hp]; simp⟩
        obtain ⟨p, hp⟩ := hsplit
        rw [hp, List.getLast?_append]
        cases hbl : b.getLast? with
        | none => exact absurd (List.getLast?_eq_none_iff.mp hbl) hbne
        | some x =>
          simp only [Option.some_or]
          intro hx
          simp only [Option.some.injEq] at hx
          subst hx
          exact hb (List.mem_of_getLast? hbl)
      unfold isSpecialDomain
      have hc0 : (r.reverse.length + 1 == 0) = false := by simp
      have hroot : (d.getLast? == some 46) = false := by simpa using hlastne
      simp only [hcount, hc0, Bool.false_eq_true, if_false, hroot]
      rw [hdj, skip_to_last_two r.reverse a b hall]
      have hja : joinDots [a, b] = a ++ 46 :: b := rfl
      simp only [hja, (upToDot_nodot a b ha).2]
      refine Eq.trans (tail_decision a b ha hb) ?_
      rw [← hdj, hres (a :: r) rfl]

/-- in particular for every valid host name without root dot (C04's `HostOk`) -/
theorem special_iff_host (us : Bool) (d : List Nat) (h : HostOk us d) (hnr : d.getLast? ≠ some 46) :
    isSpecialDomain d = .ok (reserved d) := by
  apply special_iff
  have hs := (C04.specHost_iff us d).mpr h
  unfold specHost at hs
  have hbr : (decide (d.length ≥ 2) && d.getLast? == some 46) = false := by
    have : (d.getLast? == some 46) = false := by simpa using hnr
    simp [this]
  simp only [hbr, Bool.false_eq_true, if_false, hostNoRoot, Bool.and_eq_true, List.all_eq_true] at hs
  intro l hl
  exact C04.okLabel_ne_nil (hs.1.2 l hl)

/-- the bare single-label forms are included; look-alikes are not -/
example : isSpecialDomain [108, 111, 99, 97, 108, 104, 111, 115, 116] = .ok true := by decide          -- localhost
example : isSpecialDomain [97, 98, 99, 100, 101, 102, 103, 46, 116, 101, 115, 116] = .ok true := by decide   -- abcdefg.test
example : isSpecialDomain [101, 120, 97, 109, 112, 108, 101, 46, 101, 120, 97, 109, 112, 108, 101] = .ok true := by decide  -- example.example
example : isSpecialDomain [120, 46, 69, 120, 65, 109, 80, 108, 69, 46, 79, 114, 71] = .ok true := by decide   -- x.ExAmPlE.OrG
example : isSpecialDomain [120, 101, 120, 97, 109, 112, 108, 101, 46, 99, 111, 109] = .ok false := by decide  -- xexample.com
example : isSpecialDomain [101, 120, 97, 109, 112, 108, 101, 46, 99, 111] = .ok false := by decide            -- example.co
example : isSpecialDomain [102, 111, 111, 46, 116, 101, 115, 116, 115] = .ok false := by decide               -- foo.tests

end Eav.Props.C09
