import Eav.Cost
import Eav.Gen.TldTable
/-!
# C06, "returns after work linear in the input": the functions that scan inside a scan

`Eav/Cost.lean` pairs the model of `is_ipv4` / `is_ipv6` with a count of the bytes they examine (their own loop, the `strspn`
look-aheads, the nested `is_ipv4` call) and counts, along the model's own path, what `is_special_domain` and `is_tld` examine.
Here: the first component of each twin IS the model function (so the count follows the same control flow), and the count is bounded by
a linear function of the input length — for `is_tld` by a constant, the weight of the regenerated table.

The single-pass loops (`is_ascii_domain`, the four local-part scanners, the decoder) are structural recursions that consume at least
one byte per step and look at most two bytes ahead: they are linear by construction and get no twin.

What this does not show: that the compiled code does the same amount of work as the model counts.  That tie is measured — C06 runs the
direct-call families under callgrind and checks instructions ≤ 150·ticks + 50 000 against the ticks the compiled driver reports (ops
`c4`, `c6`, `cS`, `cT`), besides the doubling test.
-/
namespace Eav.Props.C06.Cost
open Eav

/-! ### `is_ipv4` -/

theorem ipv4LoopT_fst (whole : List Nat) : ∀ (cs : List Nat) (ib : Bool) (bv bc : Nat),
    (ipv4LoopT whole cs ib bv bc).1 = ipv4Loop whole cs ib bv bc
  | [], _, _, _ => rfl
  | c :: cs, ib, bv, bc => by
    unfold ipv4LoopT ipv4Loop
    by_cases h0 : (c == 0) = true
    · simp only [h0, if_true]
    · simp only [h0, if_false, Bool.false_eq_true]
      by_cases hd : isDigit c = true
      · simp only [hd, if_true]
        generalize (if ib = true then bc else bc + 1) = bc'
        generalize ((if ib = true then bv else 0) * 10 + (c - 48)) = bv'
        by_cases hv : bv' > 255
        · simp only [hv, if_true]
        · simp only [hv, if_false]
          exact ipv4LoopT_fst whole cs _ _ _
      · simp only [hd, if_false, Bool.false_eq_true]
        by_cases h46 : (c == 46) = true
        · simp only [h46, if_true]
          by_cases hm : (!ib || cs.isEmpty || cs.head? == some 0) = true
          · simp only [hm, if_true]
          · simp only [hm, if_false, Bool.false_eq_true]
            by_cases hz : (bc == 1 && bv == 0) = true
            · simp only [hz, if_true]
              cases h : byteAfterZeroDots whole with
              | error e => rfl
              | ok b =>
                simp only [bind, Except.bind]
                by_cases hb : (b != 0) = true
                · simp only [hb, if_true]
                · simp only [hb, if_false, Bool.false_eq_true]
                  exact ipv4LoopT_fst whole cs _ _ _
            · simp only [hz, if_false, Bool.false_eq_true]
              exact ipv4LoopT_fst whole cs _ _ _
        · simp only [h46, if_false, Bool.false_eq_true]

theorem zeroDotSpan_le : ∀ (w : List Nat), zeroDotSpan w ≤ w.length
  | [] => by simp [zeroDotSpan]
  | c :: cs => by
    unfold zeroDotSpan
    split
    · have := zeroDotSpan_le cs; simp; omega
    · simp

/-- the `strspn` look-ahead can still happen only before the first dot has been passed -/
def pot (w : Nat) (ib : Bool) (bc : Nat) : Nat := if bc = 0 ∨ (bc = 1 ∧ ib = true) then w else 0

theorem pot_digit (w : Nat) (ib : Bool) (bc : Nat) : pot w true (if ib = true then bc else bc + 1) ≤ pot w ib bc := by
  unfold pot
  cases ib
  · by_cases h0 : bc = 0
    · simp [h0]
    · have : ¬ (bc + 1 = 0 ∨ bc + 1 = 1 ∧ True) := by omega
      simp [h0]
  · simp

theorem pot_dot (w : Nat) (ib : Bool) (bc : Nat) : pot w false bc ≤ pot w ib bc := by
  unfold pot
  by_cases h0 : bc = 0 <;> simp [h0]

theorem ipv4LoopT_ticks (whole : List Nat) : ∀ (cs : List Nat) (ib : Bool) (bv bc : Nat),
    (ipv4LoopT whole cs ib bv bc).2 ≤ cs.length + 1 + pot whole.length ib bc
  | [], _, _, _ => by simp [ipv4LoopT]
  | c :: cs, ib, bv, bc => by
    unfold ipv4LoopT
    simp only [List.length_cons]
    by_cases h0 : (c == 0) = true
    · simp only [h0, if_true]; omega
    · simp only [h0, if_false, Bool.false_eq_true]
      by_cases hd : isDigit c = true
      · simp only [hd, if_true]
        have hp := pot_digit whole.length ib bc
        generalize (if ib = true then bc else bc + 1) = bc' at hp ⊢
        generalize ((if ib = true then bv else 0) * 10 + (c - 48)) = bv'
        by_cases hv : bv' > 255
        · simp only [hv, if_true]; omega
        · simp only [hv, if_false]
          have ih := ipv4LoopT_ticks whole cs true bv' bc'
          omega
      · simp only [hd, if_false, Bool.false_eq_true]
        by_cases h46 : (c == 46) = true
        · simp only [h46, if_true]
          by_cases hm : (!ib || cs.isEmpty || cs.head? == some 0) = true
          · simp only [hm, if_true]; omega
          · simp only [hm, if_false, Bool.false_eq_true]
            have hib : ib = true := by cases ib <;> simp_all
            by_cases hz : (bc == 1 && bv == 0) = true
            · simp only [hz, if_true]
              have hbc : bc = 1 := by simp at hz; exact hz.1
              have hs := zeroDotSpan_le whole
              have hp1 : pot whole.length ib bc = whole.length := by simp [pot, hbc, hib]
              cases h : byteAfterZeroDots whole with
              | error e => simp only; omega
              | ok b =>
                simp only
                by_cases hb : (b != 0) = true
                · simp only [hb, if_true]; omega
                · simp only [hb, if_false, Bool.false_eq_true]
                  have ih := ipv4LoopT_ticks whole cs false bv bc
                  have hp0 : pot whole.length false bc = 0 := by simp [pot, hbc]
                  omega
            · simp only [hz, if_false, Bool.false_eq_true]
              have ih := ipv4LoopT_ticks whole cs false bv bc
              have hp := pot_dot whole.length ib bc
              omega
        · simp only [h46, if_false, Bool.false_eq_true]; omega

theorem isIpv4_ticks (s after : List Nat) : (isIpv4T s after).2 ≤ 2 * s.length + after.length + 1 := by
  have := ipv4LoopT_ticks (s ++ after) s false 0 0
  unfold isIpv4T
  simp [pot] at this ⊢
  omega

/-- **`is_ipv4`: the twin's result is the model's, and it examines at most `2·|s| + |after| + 1` bytes** -/
theorem isIpv4_linear (s after : List Nat) :
    (isIpv4T s after).1 = isIpv4 s after ∧ (isIpv4T s after).2 ≤ 2 * s.length + after.length + 1 :=
  ⟨ipv4LoopT_fst _ _ _ _ _, isIpv4_ticks s after⟩

/-! ### `is_ipv6` -/

theorem ipv6LoopT_fst : ∀ (cs after : List Nat) (f nf : Nat) (run : List Nat) (skip : Nat),
    (ipv6LoopT cs after f nf run skip).1 = ipv6Loop cs after f nf run skip
  | [], _, _, _, _, _ => rfl
  | c :: cs, after, f, nf, run, skip => by
    unfold ipv6LoopT ipv6Loop
    by_cases hs : skip > 0
    · simp only [hs, if_true]; exact ipv6LoopT_fst cs after f nf run (skip - 1)
    · simp only [hs, if_false]
      by_cases h0 : (c == 0) = true
      · simp only [h0, if_true]
      · simp only [h0, if_false, Bool.false_eq_true]
        by_cases h46 : (c == 46) = true
        · simp only [h46, if_true]
          by_cases h1 : (decide (f < 2) || decide (f > 6)) = true
          · simp only [h1, if_true]
          · simp only [h1, if_false, Bool.false_eq_true]
            by_cases h2 : (nf == 0 && f != 6) = true
            · simp only [h2, if_true]
            · simp only [h2, if_false, Bool.false_eq_true]
              exact ipv4LoopT_fst _ _ _ _ _
        · simp only [h46, if_false, Bool.false_eq_true]
          by_cases h58 : (c == 58) = true
          · simp only [h58, if_true]
            cases hp : (if (f == 0 && run.length == 0) = true then (peek cs after).map isAlnum else Except.ok false) with
            | error e => rfl
            | ok bb =>
              cases bb with
              | true => rfl
              | false =>
                simp only
                by_cases h7 : f + 1 > 7
                · simp only [h7, if_true]
                · simp only [h7, if_false]
                  cases hq : peek cs after with
                  | error e => rfl
                  | ok n =>
                    simp only
                    by_cases hn : (n == 58) = true
                    · simp only [hn, if_true]
                      by_cases hnf : nf > 0
                      · simp only [hnf, if_true]
                      · simp only [hnf, if_false]; exact ipv6LoopT_fst _ _ _ _ _ _
                    · simp only [hn, if_false, Bool.false_eq_true]; exact ipv6LoopT_fst _ _ _ _ _ _
          · simp only [h58, if_false, Bool.false_eq_true]
            cases hsp : spanHex (c :: cs ++ after) with
            | none => rfl
            | some n =>
              simp only
              by_cases hn4 : n > 4
              · simp only [hn4, if_true]
              · simp only [hn4, if_false]
                by_cases hn0 : (n == 0) = true
                · simp only [hn0, if_true]
                · simp only [hn0, if_false, Bool.false_eq_true]; exact ipv6LoopT_fst _ _ _ _ _ _
theorem spanHex_some : ∀ (l : List Nat) (n : Nat), spanHex l = some n → n + 1 ≤ l.length
  | [], n, h => by simp [spanHex] at h
  | c :: cs, n, h => by
    unfold spanHex at h
    by_cases hh : isHex c = true
    · simp only [hh, if_true] at h
      cases hs : spanHex cs with
      | none => rw [hs] at h; simp at h
      | some m =>
        rw [hs] at h; simp at h; subst h
        have := spanHex_some cs m hs
        simp; omega
    · simp only [hh, if_false, Bool.false_eq_true] at h
      simp at h; subst h; simp

theorem hexSpanCost_le (l : List Nat) : hexSpanCost l ≤ l.length := by
  unfold hexSpanCost
  cases h : spanHex l with
  | none => simp
  | some n => exact spanHex_some l n h

theorem ipv6LoopT_ticks : ∀ (cs after : List Nat) (f nf : Nat) (run : List Nat) (skip : Nat),
    (ipv6LoopT cs after f nf run skip).2 ≤ 16 * cs.length + 2 * run.length + 2 * after.length + 4
  | [], _, _, _, _, _ => by simp [ipv6LoopT]
  | c :: cs, after, f, nf, run, skip => by
    unfold ipv6LoopT
    simp only [List.length_cons]
    by_cases hs : skip > 0
    · simp only [hs, if_true]
      have := ipv6LoopT_ticks cs after f nf run (skip - 1); omega
    · simp only [hs, if_false]
      by_cases h0 : (c == 0) = true
      · simp only [h0, if_true]; omega
      · simp only [h0, if_false, Bool.false_eq_true]
        by_cases h46 : (c == 46) = true
        · simp only [h46, if_true]
          by_cases h1 : (decide (f < 2) || decide (f > 6)) = true
          · simp only [h1, if_true]; omega
          · simp only [h1, if_false, Bool.false_eq_true]
            by_cases h2 : (nf == 0 && f != 6) = true
            · simp only [h2, if_true]; omega
            · simp only [h2, if_false, Bool.false_eq_true]
              have := ipv4LoopT_ticks (run ++ c :: cs ++ after) (run ++ c :: cs) false 0 0
              simp [pot] at this ⊢
              omega
        · simp only [h46, if_false, Bool.false_eq_true]
          by_cases h58 : (c == 58) = true
          · simp only [h58, if_true]
            cases hp : (if (f == 0 && run.length == 0) = true then (peek cs after).map isAlnum else Except.ok false) with
            | error e => simp only; omega
            | ok bb =>
              cases bb with
              | true => simp only; omega
              | false =>
                simp only
                by_cases h7 : f + 1 > 7
                · simp only [h7, if_true]; omega
                · simp only [h7, if_false]
                  cases hq : peek cs after with
                  | error e => simp only; omega
                  | ok n =>
                    simp only
                    by_cases hn : (n == 58) = true
                    · simp only [hn, if_true]
                      by_cases hnf : nf > 0
                      · simp only [hnf, if_true]; omega
                      · simp only [hnf, if_false]
                        have := ipv6LoopT_ticks cs after (f + 1) (f + 1) [] 0
                        simp at this ⊢; omega
                    · simp only [hn, if_false, Bool.false_eq_true]
                      have := ipv6LoopT_ticks cs after (f + 1) nf [] 0
                      simp at this ⊢; omega
          · simp only [h58, if_false, Bool.false_eq_true]
            have hlen : (c :: cs ++ after).length = cs.length + after.length + 1 := by simp
            have hc := hexSpanCost_le (c :: cs ++ after)
            rw [hlen] at hc
            cases hsp : spanHex (c :: cs ++ after) with
            | none => simp only; omega
            | some n =>
              simp only
              by_cases hn4 : n > 4
              · simp only [hn4, if_true]; omega
              · simp only [hn4, if_false]
                by_cases hn0 : (n == 0) = true
                · simp only [hn0, if_true]; omega
                · simp only [hn0, if_false, Bool.false_eq_true]
                  have ih := ipv6LoopT_ticks cs after f nf ((c :: cs ++ after).take n) (n - 1)
                  have hcost : hexSpanCost (c :: cs ++ after) = n + 1 := by unfold hexSpanCost; rw [hsp]
                  have htk : ((c :: cs ++ after).take n).length ≤ n := by simp [List.length_take]; omega
                  rw [hcost]
                  omega

theorem isIpv6_ticks (s after : List Nat) : (isIpv6T s after).2 ≤ 16 * s.length + 2 * after.length + 4 := by
  have := ipv6LoopT_ticks s after 0 0 [] 0
  unfold isIpv6T
  simpa using this

/-- **`is_ipv6`: the twin's result is the model's, and it examines at most `16·|s| + 2·|after| + 4` bytes** -/
theorem isIpv6_linear (s after : List Nat) :
    (isIpv6T s after).1 = isIpv6 s after ∧ (isIpv6T s after).2 ≤ 16 * s.length + 2 * after.length + 4 :=
  ⟨ipv6LoopT_fst _ _ _ _ _ _, isIpv6_ticks s after⟩

/-! ### `is_tld`, `is_special_domain` -/


theorem cmpTicks_le : ∀ (a b : List Nat) (n : Nat), cmpTicks a b n ≤ n
  | _, _, 0 => by simp [cmpTicks]
  | [], [], _ + 1 => by simp [cmpTicks]
  | [], _ :: _, _ + 1 => by simp [cmpTicks]
  | _ :: _, [], _ + 1 => by simp [cmpTicks]
  | a :: as, b :: bs, n + 1 => by
    unfold cmpTicks
    split
    · have := cmpTicks_le as bs n; omega
    · omega

/-- **`is_tld` costs at most the table's weight, whatever the label** (the compare length is the row's, never the label's) -/
theorem tldTicks_le (s : List Nat) : ∀ (table : List (List Nat × Nat × Nat)), tldTicks table s ≤ tableWeight table
  | [] => by simp [tldTicks, tableWeight]
  | (name, len, t) :: rows => by
    unfold tldTicks tableWeight
    have h1 := cmpTicks_le name s len
    have h2 := tldTicks_le s rows
    split <;> omega

theorem afterDot_length : ∀ (cp rest : List Nat), afterDot cp = some rest → rest.length < cp.length
  | [], _, h => by simp [afterDot] at h
  | c :: cs, rest, h => by
    unfold afterDot at h
    split at h
    · simp at h; subst h; simp
    · have := afterDot_length cs rest h; simp; omega

theorem skipLabels_length : ∀ (n : Nat) (cp r : List Nat), skipLabels n cp = some r → r.length ≤ cp.length
  | 0, cp, r, h => by simp [skipLabels] at h; subst h; exact Nat.le_refl _
  | n + 1, cp, r, h => by
    unfold skipLabels at h
    split at h
    · cases ha : afterDot cp with
      | none => rw [ha] at h; simp at h
      | some x =>
        rw [ha] at h; simp only [Option.bind_some] at h
        have h1 := afterDot_length cp x ha
        have h2 := skipLabels_length n x r h
        omega
    · simp at h; subst h; exact Nat.le_refl _

theorem upToDot_length : ∀ (l : List Nat), (upToDot l).length ≤ l.length
  | [] => by simp [upToDot]
  | c :: cs => by
    unfold upToDot
    split
    · simp
    · have := upToDot_length cs; simp; omega

/-- **`is_special_domain` examines at most `4·|s| + 150` bytes** -/
theorem specialTicks_linear (s : List Nat) : specialTicks s ≤ 4 * s.length + 150 := by
  unfold specialTicks
  split
  · omega
  · cases hsk : skipLabels (if s.getLast? == some 46 then countDots s - 1 else countDots s) s with
    | none => simp only; omega
    | some cp =>
      simp only
      have h1 := skipLabels_length _ s cp hsk
      cases had : afterDot cp with
      | none => simp only; omega
      | some rest =>
        simp only
        have h2 := afterDot_length cp rest had
        have h3 := upToDot_length rest
        split <;> omega

/-- the weight of the table compiled into the library on this run -/
theorem table_weight : tableWeight Gen.tldTable ≤ 20000 := by decide +kernel

/-- **`is_tld` examines a bounded number of bytes, whatever the label's length** -/
theorem isTld_const (s : List Nat) : tldTicks Gen.tldTable s ≤ 20000 :=
  Nat.le_trans (tldTicks_le s Gen.tldTable) table_weight

/-- non-vacuity: on `0.0.0. … .0` (the shape on which a per-dot look-ahead would be quadratic) the count is what the bound says -/
example : (isIpv4T (List.replicate 50 [48, 46]).flatten [48, 0]).2 ≤ 2 * 100 + 2 + 1 ∧
          (isIpv4T [48, 46, 48, 46, 48, 46, 48] [0]).1 = .ok true ∧ (isIpv4T [48, 46, 48, 46, 48, 46, 48] [0]).2 = 16 := by decide +kernel

end Eav.Props.C06.Cost
