import Eav.Props.Tie.Enums
import Eav.Props.Tie.Errors
import Eav.Props.Tie.Special
import Eav.Props.Tie.Scanners
import Eav.Props.Tie.Build
import Eav.Props.Tie.Init
import Eav.Props.Tie.Globals
/-! Umbrella: the translator-tie theorems live in `Eav/Props/Tie/*.lean`, one module per topic. -/
