import Eav.Model
import Eav.Gen.Enums
/-!
# The translator tie: data extracted from the source tree on this run equals what the model assumes

Every theorem here is closed by kernel evaluation on `Eav/Gen/Enums.lean`, which `tools/extract.py`
regenerates from /repo's working tree before every build.  If a header, an initialiser, a `case`
list, `eav_init`, `eav_setup` or the Makefile changes, the corresponding theorem stops checking.
-/
namespace Eav.Props.GenTie
open Eav

/-- `enum { EEAV_* }` of include/eav.h: names, order and values -/
theorem errEnum_eq : Gen.errEnum = (E.names.zip (List.range 37)).map (fun p => (p.1, (p.2 : Int))) := by decide

theorem tldTypeEnum_eq : Gen.tldTypeEnum = (T.names.zip (List.range 11)).map (fun p => (p.1, (p.2 : Int))) := by decide

/-- `EAV_TLD_x = 1 << (TLD_TYPE_x + 1)`: the bit of a class -/
theorem tldBitEnum_eq : Gen.tldBitEnum =
    [("EAV_TLD_INVALID", 2), ("EAV_TLD_NOT_ASSIGNED", 4), ("EAV_TLD_COUNTRY_CODE", 8), ("EAV_TLD_GENERIC", 16),
     ("EAV_TLD_GENERIC_RESTRICTED", 32), ("EAV_TLD_INFRASTRUCTURE", 64), ("EAV_TLD_SPONSORED", 128),
     ("EAV_TLD_TEST", 256), ("EAV_TLD_SPECIAL", 512), ("EAV_TLD_RETIRED", 1024)] := by decide

theorem rfcEnum_eq : Gen.rfcEnum = [("EAV_RFC_822", 0), ("EAV_RFC_5321", 1), ("EAV_RFC_5322", 2), ("EAV_RFC_6531", 3)] := by decide

theorem limits_eq : Gen.limits = [("DOMAIN_SIZE", Lim.DOMAIN_SIZE), ("LABEL_SIZE", Lim.LABEL_SIZE),
    ("VALID_HOSTNAME_LEN", Lim.VALID_HOSTNAME_LEN), ("VALID_LABEL_LEN", Lim.VALID_LABEL_LEN),
    ("VALID_LPART_LEN", Lim.VALID_LPART_LEN)] := by decide

/-- `errors[]`: 36 entries, each carrying the tag of its own index, and the strings `eav_errstr` returns are
the strings of the initialiser (entry EEAV_IDN_ERROR is served from `idnmsg`) -/
theorem errors_tags : Gen.errorsSource.map (·.2) = E.names.take 36 := by decide
theorem errors_runtime : ∀ i, i < 36 → i ≠ 2 → Gen.errorsRuntime[i]? = (Gen.errorsSource.map (·.1))[i]? := by decide
theorem errors_nonempty : Gen.errorsSource.all (fun p => p.1 != "") = true := by decide
theorem errors_distinct : (Gen.errorsSource.map (·.1)).Nodup := by decide

theorem reserved_eq : Gen.reservedTable = Eav.reservedTable := by decide
theorem example_eq : Gen.exampleTable = Eav.exampleTable := by decide
theorem exampleLabel_eq : Gen.exampleLabel = (Eav.exampleLabel, 8) := by decide
theorem lenFilter_eq : Gen.specialLenFilters = [(4, 9, 6, 8), (4, 9, 6, 8)] := by decide

/-- the `case` lists returning EEAV_LPART_SPECIAL, per scanner and per build option -/
theorem specials_eq : Gen.specialsCases =
    [("src/is_822_local.c", "", specials), ("src/is_5321_local.c", "", specials), ("src/is_5322_local.c", "", specials),
     ("src/is_6531_local.c", "", specials), ("src/is_6531_local.c", "RFC6531_FOLLOW_RFC20", specials ++ rfc20set),
     ("src/is_6531_local.c", "RFC6531_FOLLOW_RFC5322", specials)] := by decide

/-- Makefile: all three options default to OFF and `ON` defines the macro of the same name -/
theorem buildOpts_eq : Gen.buildOpts =
    [("RFC6531_FOLLOW_RFC5322", "OFF", "ON", "RFC6531_FOLLOW_RFC5322"), ("RFC6531_FOLLOW_RFC20", "OFF", "ON", "RFC6531_FOLLOW_RFC20"),
     ("LABELS_ALLOW_UNDERSCORE", "OFF", "ON", "LABELS_ALLOW_UNDERSCORE")] := by decide

/-- `eav_init` writes every field of a poisoned `eav_t` … -/
theorem init_sets_all : Gen.initFieldsSet.all (·.2) = true := by decide
theorem init_fields : Gen.initFieldsSet.map (·.1) =
    ["rfc", "allow_tld", "tld_check", "utf8", "errcode", "idnmsg", "initialized", "utf8_cb", "ascii_cb", "result"] := by decide

/-- … with the values of the model's `eavInit` -/
theorem init_values : Gen.initValues =
    (match (eavInit {}).obj with
     | some e => [("rfc", e.rfc), ("allow_tld", (e.allowTld : Int)), ("tld_check", if e.tldCheck then 1 else 0),
                  ("utf8", if e.utf8 then 1 else 0), ("errcode", (e.errcode : Int)),
                  ("idnmsg_null", if e.idnmsg.isNone then 1 else 0), ("initialized", if e.initialized then 1 else 0),
                  ("utf8_cb_null", if e.utf8Cb then 0 else 1), ("ascii_cb_null", if e.asciiCb.isNone then 1 else 0),
                  ("result_null", if e.result.isNone then 1 else 0)]
     | none => []) := by decide

/-- what the model's `eav_setup` does for a raw `rfc` value, in the vocabulary of the dump -/
def setupRow (rfc : Int) : Int × Int × Int × String × String × Int :=
  match (eavInit {}).obj with
  | none => (rfc, -1, 0, "", "", 0)
  | some e0 =>
    match eavSetup .idn2 { obj := some { e0 with rfc := rfc } } with
    | .ok (st, rc) =>
      (match st.obj with
       | some e => (rfc, rc, if e.utf8 then 1 else 0,
                    match e.asciiCb with
                    | some .m822 => "is_822_email" | some .m5321 => "is_5321_email" | some .m5322 => "is_5322_email"
                    | some .m6531 => "other" | none => "unchanged",
                    if e.utf8Cb then "is_6531_email" else "unchanged", (e.errcode : Int))
       | none => (rfc, -1, 0, "", "", 0))
    | .error _ => (rfc, -1, 0, "", "", 0)

/-- `eav_setup` of the compiled library selects, for each mode and for invalid values, what the model says -/
theorem setup_eq : Gen.setupTable = [0, 1, 2, 3, -1, 4, 7, 1000].map setupRow := by decide

/-- no object with static storage lives in a writable section -/
theorem no_mutable_globals : Gen.mutableGlobals = [] := by decide

/-- external symbols the library may call; none of them keeps hidden state across calls
(`strtok`, `setlocale`, `localeconv`, `rand`, `getenv`, `strerror` … are absent) -/
def mtSafe : List String := ["_GLOBAL_OFFSET_TABLE_", "__assert_fail", "__ctype_b_loc", "__stack_chk_fail", "abort", "free", "malloc",
  "calloc", "memchr", "memcpy", "memcmp", "strchr", "strlen", "strncasecmp", "strrchr", "strspn", "strndup", "strnlen",
  "idn2_strerror", "idn2_to_ascii_8z", "idn2_lookup_ul", "idn2_free",
  "idna_strerror", "idna_to_ascii_lz",
  "idn_res_encodename", "idn_resconf_create", "idn_resconf_destroy", "idn_resconf_initialize", "idn_result_tostring"]
theorem externals_mt_safe : Gen.externals.all (fun s => mtSafe.contains s) = true := by decide

end Eav.Props.GenTie
