import Eav.Model
import Eav.Props.C04
import Eav.Lemmas.Str
/-!
# C01 — the address decision: split at the last '@', local part 1–64 octets, both halves valid

`isEmail` is the model of `is_{822,5321,5322}_email` / `is_6531_email` with the macros of
`include/eav/private_email.h`; the per-part validators (`localOf`, `isAsciiDomain`, `isUtf8Domain`,
`checkIp`) are the library's public functions, characterised by C02–C05.
-/
namespace Eav.Props.C01
open Eav

/-- `strrchr`: the split is at the LAST occurrence -/
theorem splitLast_iff (c : Nat) : ∀ (s l d : List Nat), splitLast c s = some (l, d) ↔ (s = l ++ c :: d ∧ c ∉ d)
  | [], l, d => by simp [splitLast]
  | x :: xs, l, d => by
    unfold splitLast
    cases h : splitLast c xs with
    | some p =>
      obtain ⟨l', d'⟩ := p
      have ih := (splitLast_iff c xs l' d').mp h
      simp only [Option.some.injEq, Prod.mk.injEq]
      constructor
      · rintro ⟨rfl, rfl⟩
        exact ⟨by simp [ih.1], ih.2⟩
      · rintro ⟨hs, hnd⟩
        cases l with
        | nil =>
          simp at hs
          obtain ⟨rfl, rfl⟩ := hs
          exact absurd (by rw [ih.1]; simp) hnd
        | cons y ys =>
          simp at hs
          obtain ⟨rfl, hxs⟩ := hs
          have := (splitLast_iff c xs ys d).mpr ⟨hxs, hnd⟩
          rw [h] at this
          simp only [Option.some.injEq, Prod.mk.injEq] at this
          exact ⟨by rw [this.1], this.2⟩
    | none =>
      have hno : ∀ l' d', ¬ (xs = l' ++ c :: d' ∧ c ∉ d') := by
        intro l' d' hh
        have := (splitLast_iff c xs l' d').mpr hh
        rw [h] at this; cases this
      by_cases hx : x = c
      · subst hx
        simp only [beq_self_eq_true, if_true, Option.some.injEq, Prod.mk.injEq]
        constructor
        · rintro ⟨rfl, rfl⟩
          refine ⟨by simp, ?_⟩
          intro hm
          -- x occurs in xs: then xs splits at its last occurrence
          obtain ⟨l', d', h1, h2⟩ := mem_split_last x xs hm
          exact hno l' d' ⟨h1, h2⟩
        · rintro ⟨hs, hnd⟩
          cases l with
          | nil => simp at hs; exact ⟨rfl, hs⟩
          | cons y ys =>
            simp at hs
            exact absurd ⟨hs.2, hnd⟩ (hno ys d)
      · have hx' : (x == c) = false := by simpa using hx
        simp only [hx', Bool.false_eq_true, if_false]
        constructor
        · intro hh; cases hh
        · rintro ⟨hs, hnd⟩
          cases l with
          | nil => simp at hs; exact absurd hs.1 hx
          | cons y ys =>
            simp at hs
            exact absurd ⟨hs.2, hnd⟩ (hno ys d)
where
  mem_split_last (c : Nat) : ∀ (xs : List Nat), c ∈ xs → ∃ l d, xs = l ++ c :: d ∧ c ∉ d
    | [], h => by simp at h
    | y :: ys, h => by
      by_cases hy : c ∈ ys
      · obtain ⟨l, d, h1, h2⟩ := mem_split_last c ys hy
        exact ⟨y :: l, d, by simp [h1], h2⟩
      · have : c = y := by
          simp only [List.mem_cons] at h
          rcases h with h | h
          · exact h
          · exact absurd h hy
        subst this
        exact ⟨[], ys, rfl, hy⟩

/-- the domain half as the selected mode judges it, TLD checking off:
a bracketed literal through `check_ip`, otherwise a host name (through the IDN library in mode 6531) -/
def domainAccepted (b : Build) (conv : List Nat → Conv) (m : Mode) (d : List Nat) : Prop :=
  if d.head? = some 91 then ∃ v4 v6 lit, checkIp d = .ok (0, v4, v6, lit)
  else match m with
    | .m6531 => ∃ rc irc, isUtf8Domain b conv d false = .ok (rc, irc) ∧ 0 ≤ rc
    | _ => isAsciiDomain b.underscore d [0] = .ok 0

/-- accepted with TLD checking off: the call returns a record with `rc = 0` -/
def accepted (b : Build) (conv : List Nat → Conv) (m : Mode) (s : List Nat) : Prop :=
  ∃ r, isEmail b conv m s false = .ok r ∧ r.rc = 0

theorem checkTld_off (d : List Nat) : checkTld d false = .ok 0 := by
  simp [checkTld]

theorem isUtf8Domain_off_rc (b : Build) (conv : List Nat → Conv) (d : List Nat) (rc irc : Int)
    (h : isUtf8Domain b conv d false = .ok (rc, irc)) : rc ≤ 0 := by
  unfold isUtf8Domain at h
  simp only [checkTld_off] at h
  split at h
  · simp only [Except.ok.injEq, Prod.mk.injEq] at h; obtain ⟨rfl, _⟩ := h; decide
  · split at h
    · simp only [Except.ok.injEq, Prod.mk.injEq] at h; obtain ⟨rfl, _⟩ := h; decide
    · split at h
      · cases h
      · split at h
        · cases h
        · rename_i r hr
          split at h
          · simp only [Except.ok.injEq, Prod.mk.injEq] at h
            obtain ⟨rfl, _⟩ := h
            exact Props.C04.isAsciiDomain_nonpos _ _ _ _ hr
          · simp only [Except.ok.injEq, Prod.mk.injEq] at h
            obtain ⟨rfl, _⟩ := h; decide

/-- every local-part scanner returns 0 or a negative code -/
theorem unq_err_neg {extra : List Nat} {prev : Option Nat} {c : Nat} {cs : List Nat} {e : Int}
    (h : unquotedStep extra prev c cs = .error e) : e < 0 := by
  unfold unquotedStep at h
  repeat' split at h
  all_goals first | (cases h; decide) | cases h

theorem locFin_nonpos (q : Bool) : locFin q ≤ 0 := by cases q <;> simp [locFin]

theorem loc5321_nonpos : ∀ (cs : List Nat) (p : Option Nat) (q qp : Bool), loc5321Loop p q qp cs ≤ 0 := by
  intro cs
  induction cs with
  | nil => intro p q qp; simp only [loc5321Loop]; exact locFin_nonpos q
  | cons c cs ih =>
    intro p q qp
    unfold loc5321Loop
    repeat' split
    all_goals first
      | exact locFin_nonpos _
      | exact ih _ _ _
      | decide
      | (rename_i e he; have := unq_err_neg he; omega)

theorem loc5322_nonpos : ∀ (cs : List Nat) (p : Option Nat) (q qp : Bool), loc5322Loop p q qp cs ≤ 0 := by
  intro cs
  induction cs with
  | nil => intro p q qp; simp only [loc5322Loop]; exact locFin_nonpos q
  | cons c cs ih =>
    intro p q qp
    unfold loc5322Loop
    repeat' split
    all_goals first
      | exact locFin_nonpos _
      | exact ih _ _ _
      | decide
      | (rename_i e he; have := unq_err_neg he; omega)

theorem loc822_nonpos (eb : Nat) : ∀ (n : Nat) (cs : List Nat), cs.length ≤ n → ∀ (p : Option Nat) (q qp : Bool), loc822Loop eb p q qp cs ≤ 0 := by
  intro n
  induction n with
  | zero =>
    intro cs h p q qp
    have : cs = [] := List.length_eq_zero_iff.mp (by omega)
    subst this; simp only [loc822Loop]; exact locFin_nonpos q
  | succ n ih =>
    intro cs h p q qp
    cases cs with
    | nil => simp only [loc822Loop]; exact locFin_nonpos q
    | cons c cs =>
      have hl : cs.length ≤ n := by simp at h; omega
      unfold loc822Loop
      repeat' split
      all_goals first
        | exact locFin_nonpos _
        | exact ih _ hl _ _ _
        | decide
        | (rename_i e he; have := unq_err_neg he; omega)
        | (apply ih; simp at hl ⊢; omega)

theorem loc6531_nonpos (lb : LBuild) : ∀ (n : Nat) (inp : List Nat), inp.length ≤ n → ∀ (p : Option Nat) (q qp : Bool),
    loc6531Loop lb p q qp inp ≤ 0 := by
  intro n
  induction n with
  | zero =>
    intro inp h p q qp
    have : inp = [] := List.length_eq_zero_iff.mp (by omega)
    subst this
    rw [loc6531Loop.eq_def]; simp only [decodeNext]; exact locFin_nonpos q
  | succ n ih =>
    intro inp h p q qp
    rw [loc6531Loop.eq_def]
    split
    · exact locFin_nonpos q
    · decide
    · rename_i c rest hd
      have hl : rest.length ≤ n := by have := decodeNext_length hd; omega
      simp only
      repeat' split
      all_goals first
        | exact ih _ hl _ _ _
        | decide
        | (rename_i e he; have := unq_err_neg he; omega)

theorem localOf_nonpos (b : Build) (m : Mode) (l : List Nat) : localOf b m l ≤ 0 := by
  cases m <;> simp only [localOf, is822Local, is5321Local, is5322Local, is6531Local] <;> split
  all_goals first
    | decide
    | exact loc5321_nonpos _ _ _ _
    | exact loc5322_nonpos _ _ _ _
    | exact loc822_nonpos _ _ _ (Nat.le_refl _) _ _ _
    | exact loc6531_nonpos _ _ _ (Nat.le_refl _) _ _ _

theorem localOf_nil_ne (b : Build) (m : Mode) : localOf b m [] ≠ 0 := by
  cases m <;> simp [localOf, is822Local, is5321Local, is5322Local, is6531Local]

theorem hostPart_off_rc (b : Build) (conv : List Nat → Conv) (m : Mode) (l d : List Nat) (r : Result)
    (h : hostPart b conv m l d false = .ok r) : r.rc ≤ 0 := by
  unfold hostPart at h
  have ascii : ∀ {r : Result}, (match isAsciiDomain b.underscore d [0] with
      | .error e => .error e
      | .ok rc => if (rc == 0) = true then
          match checkTld d false with
          | .error e => .error e
          | .ok t => .ok (okResult b t 0 false false true l d)
        else .ok { rc := rc }) = Except.ok r → r.rc ≤ 0 := by
    intro r h
    split at h
    · cases h
    · rename_i rc hrc
      split at h
      · rw [checkTld_off] at h
        simp only [Except.ok.injEq] at h
        subst h; simp [okResult]
      · simp only [Except.ok.injEq] at h
        subst h
        exact Props.C04.isAsciiDomain_nonpos _ _ _ _ hrc
  cases m with
  | m6531 =>
    simp only at h
    split at h
    · cases h
    · rename_i rc irc hu
      have := isUtf8Domain_off_rc b conv d rc irc hu
      split at h <;> (simp only [Except.ok.injEq] at h; subst h) <;> simp [okResult] <;> omega
  | m822 => exact ascii h
  | m5321 => exact ascii h
  | m5322 => exact ascii h

theorem literalPart_rc (b : Build) (l d : List Nat) (r : Result) (h : literalPart b l d = .ok r) : r.rc ≤ 0 := by
  unfold literalPart at h
  split at h
  · cases h
  · rename_i rc v4 v6 lit hc
    split at h
    · simp only [Except.ok.injEq] at h; subst h; simp [okResult]
    · rename_i hne
      simp only [Except.ok.injEq] at h; subst h
      -- every other outcome of check_ip is one of the two IPADDR codes
      simp only
      unfold checkIp at hc
      have iv : ∀ {x v4' v6' inner}, ipVerdict x v4' v6' inner = .ok (rc, v4, v6, lit) → rc ≤ 0 := by
        intro x v4' v6' inner hx
        unfold ipVerdict at hx
        split at hx
        · cases hx
        · simp only [Except.ok.injEq, Prod.mk.injEq] at hx; omega
        · simp only [Except.ok.injEq, Prod.mk.injEq] at hx; obtain ⟨rfl, _⟩ := hx; decide
      split at hc
      · simp only [Except.ok.injEq, Prod.mk.injEq] at hc; obtain ⟨rfl, _⟩ := hc; decide
      · split at hc
        · simp only [Except.ok.injEq, Prod.mk.injEq] at hc; obtain ⟨rfl, _⟩ := hc; decide
        · split at hc
          · simp only [Except.ok.injEq, Prod.mk.injEq] at hc; obtain ⟨rfl, _⟩ := hc; decide
          · simp only at hc
            split at hc
            · exact iv hc
            · split at hc <;> exact iv hc

/-- with TLD checking off the result code is never a TLD class: `0` = accepted, negative = the failing validator's code -/
theorem rc_nonpos_off (b : Build) (conv : List Nat → Conv) (m : Mode) (s : List Nat) (r : Result)
    (h : isEmail b conv m s false = .ok r) : r.rc ≤ 0 := by
  unfold isEmail at h
  split at h
  · simp only [Except.ok.injEq] at h; subst h; decide
  · split at h
    · simp only [Except.ok.injEq] at h; subst h; decide
    · split at h
      · simp only [Except.ok.injEq] at h; subst h; decide
      · split at h
        · simp only [Except.ok.injEq] at h; subst h; decide
        · split at h
          · rename_i l d _ _ _ hl
            simp only [Except.ok.injEq] at h; subst h
            exact localOf_nonpos b m l
          · split at h
            · exact hostPart_off_rc _ _ _ _ _ _ h
            · exact literalPart_rc _ _ _ _ h

/-- **C01, the decision**: with TLD checking off an address is accepted exactly when it is `L@D` with no
'@' in `D`, `L` of 1 to 64 octets and valid for the mode, `D` valid for the mode -/
theorem email_iff (b : Build) (conv : List Nat → Conv) (m : Mode) (s : List Nat) :
    accepted b conv m s ↔
      ∃ L D, s = L ++ 64 :: D ∧ 64 ∉ D ∧ 1 ≤ L.length ∧ L.length ≤ 64 ∧ localOf b m L = 0 ∧ D ≠ [] ∧
        domainAccepted b conv m D := by
  unfold accepted isEmail
  constructor
  · rintro ⟨r, h, hrc⟩
    split at h
    · simp only [Except.ok.injEq] at h; subst h; exact absurd hrc (by decide)
    · split at h
      · simp only [Except.ok.injEq] at h; subst h; exact absurd hrc (by decide)
      · rename_i l d hsp
        obtain ⟨hs, hnd⟩ := (splitLast_iff 64 s l d).mp hsp
        split at h
        · simp only [Except.ok.injEq] at h; subst h; exact absurd hrc (by decide)
        · rename_i hde
          split at h
          · simp only [Except.ok.injEq] at h; subst h; exact absurd hrc (by decide)
          · rename_i hlen
            split at h
            · rename_i hl
              simp only [Except.ok.injEq] at h; subst h
              simp only at hrc
              simp [hrc] at hl
            · rename_i hl
              have hl0 : localOf b m l = 0 := by simpa using hl
              have hlne : 1 ≤ l.length := by
                cases l with
                | nil => exact absurd hl0 (localOf_nil_ne b m)
                | cons x xs => simp
              have hdne : d ≠ [] := by intro e; subst e; simp at hde
              refine ⟨l, d, hs, hnd, hlne, by simp only [Lim.VALID_LPART_LEN] at hlen; omega, hl0, hdne, ?_⟩
              unfold domainAccepted
              split at h
              · rename_i hbr
                have hbr' : ¬ d.head? = some 91 := by simpa using hbr
                simp only [hbr', if_false]
                unfold hostPart at h
                cases m with
                | m6531 =>
                  simp only at h ⊢
                  split at h
                  · cases h
                  · rename_i rc irc hu
                    refine ⟨rc, irc, hu, ?_⟩
                    split at h
                    · assumption
                    · simp only [Except.ok.injEq] at h; subst h; simp only at hrc; omega
                | m822 | m5321 | m5322 =>
                  simp only at h ⊢
                  split at h
                  · cases h
                  · rename_i rc hr
                    split at h
                    · rename_i hz; have : rc = 0 := by simpa using hz
                      subst this; exact hr
                    · rename_i hz
                      simp only [Except.ok.injEq] at h; subst h
                      simp only at hrc; simp [hrc] at hz
              · rename_i hbr
                have hbr' : d.head? = some 91 := by simpa using hbr
                simp only [hbr', if_true]
                unfold literalPart at h
                split at h
                · cases h
                · rename_i rc v4 v6 lit hc
                  split at h
                  · rename_i hz; have : rc = 0 := by simpa using hz
                    subst this; exact ⟨v4, v6, lit, hc⟩
                  · rename_i hz
                    simp only [Except.ok.injEq] at h; subst h
                    simp only at hrc; simp [hrc] at hz
  · rintro ⟨L, D, hs, hnd, h1, h64, hl, hdne, hdom⟩
    have hsp := (splitLast_iff 64 s L D).mpr ⟨hs, hnd⟩
    have hse : s.isEmpty = false := by rw [hs]; cases L <;> simp
    have hde : D.isEmpty = false := by cases D <;> simp_all
    have hlen : ¬ L.length > Lim.VALID_LPART_LEN := by simp only [Lim.VALID_LPART_LEN]; omega
    have hl' : (localOf b m L != 0) = false := by simp [hl]
    simp only [hse, Bool.false_eq_true, if_false, hsp, hde, hlen, hl']
    unfold domainAccepted at hdom
    by_cases hbr : D.head? = some 91
    · have hbr' : (D.head? != some 91) = false := by simp [hbr]
      simp only [hbr, if_true] at hdom
      obtain ⟨v4, v6, lit, hc⟩ := hdom
      simp only [hbr', Bool.false_eq_true, if_false, literalPart, hc]
      exact ⟨_, rfl, by simp [okResult]⟩
    · have hbr' : (D.head? != some 91) = true := by simp [hbr]
      simp only [hbr, if_false] at hdom
      simp only [hbr', if_true, hostPart]
      cases m with
      | m6531 =>
        simp only at hdom ⊢
        obtain ⟨rc, irc, hu, hge⟩ := hdom
        have h0 := isUtf8Domain_off_rc b conv D rc irc hu
        have : rc = 0 := by omega
        subst this
        simp only [hu]
        exact ⟨_, rfl, by simp [okResult]⟩
      | m822 | m5321 | m5322 =>
        simp only at hdom ⊢
        simp only [hdom, checkTld_off]
        exact ⟨_, rfl, by simp [okResult]⟩

/-- the empty string, a missing '@', an empty local part and an empty domain are always rejected
(whatever the mode, the build, the IDN library, with TLD checking on or off) -/
theorem always_rejected (b : Build) (conv : List Nat → Conv) (m : Mode) (s : List Nat) (tld : Bool)
    (h : s = [] ∨ 64 ∉ s ∨ s.head? = some 64 ∧ 64 ∉ s.tail ∨ s.getLast? = some 64) :
    ∃ r, isEmail b conv m s tld = .ok r ∧ r.rc < 0 := by
  unfold isEmail
  rcases h with rfl | h | h | h
  · exact ⟨{ rc := -(E.EMAIL_EMPTY : Int) }, by simp, by decide⟩
  · -- no '@'
    have : splitLast 64 s = none := by
      cases hsp : splitLast 64 s with
      | none => rfl
      | some p =>
        obtain ⟨l, d⟩ := p
        have := (splitLast_iff 64 s l d).mp hsp
        exact absurd (by rw [this.1]; simp) h
    split
    · exact ⟨_, rfl, by decide⟩
    · rw [this]; exact ⟨_, rfl, by decide⟩
  · -- empty local part: the only '@' is the first byte
    obtain ⟨hh, ht⟩ := h
    cases s with
    | nil => simp at hh
    | cons x xs =>
      simp at hh; subst hh
      simp only [List.tail_cons] at ht
      have hsp : splitLast 64 (64 :: xs) = some ([], xs) := (splitLast_iff 64 _ [] xs).mpr ⟨rfl, ht⟩
      simp only [List.isEmpty_cons, Bool.false_eq_true, if_false, hsp]
      split
      · exact ⟨_, rfl, by decide⟩
      · have : localOf b m [] ≠ 0 := localOf_nil_ne b m
        have hl : (localOf b m [] != 0) = true := by simpa using this
        simp only [List.length_nil, Lim.VALID_LPART_LEN, gt_iff_lt, Nat.not_lt_zero, if_false, hl, if_true]
        refine ⟨_, rfl, ?_⟩
        have := localOf_nonpos b m []
        simp only; omega
  · -- empty domain: the last byte is '@'
    have hs : s = s.dropLast ++ 64 :: [] := (dropLast_append_of_getLast? s 64 h).symm
    have hsp : splitLast 64 s = some (s.dropLast, []) := (splitLast_iff 64 s _ []).mpr ⟨hs, by simp⟩
    have hse : s.isEmpty = false := by rw [hs]; simp
    simp only [hse, Bool.false_eq_true, if_false, hsp, List.isEmpty_nil, if_true]
    exact ⟨_, rfl, by decide⟩

/-! ### the mode chosen before `eav_setup` is the mode whose rules are applied -/

def rfcNum : Mode → Int
  | .m822 => 0 | .m5321 => 1 | .m5322 => 2 | .m6531 => 3

/-- the callback `eav_is_email` will call -/
def modeOfObj (e : EavT) : Option Mode :=
  match selectedMode e with
  | .ok m => some m
  | .error _ => none

/-- after `eav_init; rfc = m0; eav_setup; rfc = m; eav_setup`: both calls returned 0, the callback of mode `m`
is the one selected, no result is held yet -/
def setupOk (be : Backend) (m0 m : Mode) : Bool :=
  match run be {} {} [.init, .setRfc (rfcNum m0), .setup, .setRfc (rfcNum m), .setup] with
  | .ok (st, outs) =>
    outs == [.unit, .unit, .rc 0, .unit, .rc 0] &&
      (match st.obj with
       | some e => modeOfObj e == some m && e.result.isNone && e.rfc == rfcNum m
       | none => false)
  | .error _ => false

/-- `eav_setup` returns 0 and selects mode `m`'s callback — in every back end, and whatever mode had been
confirmed before (the model's `eav_setup` is tied to the compiled one by `GenTie.setup_eq`) -/
theorem setup_selects_mode (be : Backend) (m0 m : Mode) : setupOk be m0 m = true := by
  cases be <;> cases m <;> cases m0 <;> decide

/-- `eav_is_email` validates with the selected mode's function and the current `tld_check`, then applies the policy -/
theorem eavIsEmail_spec (b : Build) (conv : List Nat → Conv) (st : State) (e : EavT) (m : Mode) (a : List Nat)
    (hobj : st.obj = some e) (hm : modeOfObj e = some m) (hres : e.result = none) :
    eavIsEmail b conv st a =
      (match isEmail b conv m a e.tldCheck with
       | .error f => .error f
       | .ok r =>
         match verdictOf e.allowTld r with
         | .error f => .error f
         | .ok (ret, ec, msg) =>
           .ok ({ st with liveResults := st.liveResults + 1,
                          obj := some { e with result := some r, errcode := ec, idnmsg := msg } }, ret)) := by
  unfold eavIsEmail
  have hsel : selectedMode e = .ok m := by
    unfold modeOfObj at hm
    cases h : selectedMode e with
    | ok m' => simp [h] at hm; rw [hm]
    | error f => simp [h] at hm
  simp only [hobj, hres, Option.isSome_none, Bool.false_and, Bool.false_eq_true, if_false, hsel, Nat.add_zero]
  cases isEmail b conv m a e.tldCheck with
  | error f => rfl
  | ok r =>
    cases verdictOf e.allowTld r with
    | error f => rfl
    | ok p => rfl

/-! ### non-vacuity -/
example : accepted {} (fun _ => ⟨0, none⟩) .m5321 [97, 64, 98, 46, 99] :=                                  -- a@b.c
  ⟨{ rc := 0, isDomain := true }, by decide, rfl⟩
example : accepted {} (fun _ => ⟨0, none⟩) .m822 [97, 64, 91, 49, 46, 50, 46, 51, 46, 52, 93] :=           -- a@[1.2.3.4]
  ⟨{ rc := 0, isIpv4 := true }, by decide, rfl⟩
example : ¬ accepted {} (fun _ => ⟨0, none⟩) .m5321 [97, 64, 98, 64] := by                               -- a@b@
  rintro ⟨r, h, hr⟩
  have : isEmail {} (fun _ => ⟨0, none⟩) .m5321 [97, 64, 98, 64] false = .ok { rc := -16 } := by decide
  rw [this] at h; cases h; simp at hr

/-! ### The local part is judged first, on its own, whatever the domain is -/

/-- **the local part is judged first and on its own**: an address whose local part (1–64 octets, or empty) is invalid for the mode is
refused with the local part's own code whatever follows the last '@' — a host name, an address literal, garbage -/
theorem invalid_local_any_domain (b : Build) (conv : List Nat → Conv) (m : Mode) (l d : List Nat) (tld : Bool)
    (hl : localOf b m l ≠ 0) (hlen : l.length ≤ Lim.VALID_LPART_LEN) (hd : d ≠ []) (hat : 64 ∉ d) :
    isEmail b conv m (l ++ 64 :: d) tld = .ok { rc := localOf b m l } := by
  unfold isEmail
  have hne : (l ++ 64 :: d).isEmpty = false := by cases l <;> simp
  have hsp : splitLast 64 (l ++ 64 :: d) = some (l, d) := (splitLast_iff 64 _ _ _).mpr ⟨rfl, hat⟩
  have hde : d.isEmpty = false := by cases d <;> simp_all
  have hlen' : ¬ l.length > Lim.VALID_LPART_LEN := by omega
  have hl' : (localOf b m l != 0) = true := by simpa using hl
  simp only [hne, hsp, hde, hlen', hl', Bool.false_eq_true, if_false, if_true]

/-- and conversely: once the local part is valid, the record is the domain branch's — `hostPart` for a host name, `literalPart` after `[` -/
theorem valid_local_domain_decides (b : Build) (conv : List Nat → Conv) (m : Mode) (l d : List Nat) (tld : Bool)
    (hl : localOf b m l = 0) (hlen : l.length ≤ Lim.VALID_LPART_LEN) (hd : d ≠ []) (hat : 64 ∉ d) :
    isEmail b conv m (l ++ 64 :: d) tld = (if d.head? != some 91 then hostPart b conv m l d tld else literalPart b l d) := by
  unfold isEmail
  have hne : (l ++ 64 :: d).isEmpty = false := by cases l <;> simp
  have hsp : splitLast 64 (l ++ 64 :: d) = some (l, d) := (splitLast_iff 64 _ _ _).mpr ⟨rfl, hat⟩
  have hde : d.isEmpty = false := by cases d <;> simp_all
  have hlen' : ¬ l.length > Lim.VALID_LPART_LEN := by omega
  have hl' : (localOf b m l != 0) = false := by simp [hl]
  simp only [hne, hsp, hde, hlen', hl', Bool.false_eq_true, if_false]

/-- the literal branch does not look at the mode: the same local-part verdict in front of `[…]` gives the same record in every mode -/
theorem literal_branch_mode_free (b : Build) (conv : List Nat → Conv) (m m' : Mode) (l d : List Nat) (tld : Bool)
    (hl : localOf b m l = 0) (hl' : localOf b m' l = 0) (hlen : l.length ≤ Lim.VALID_LPART_LEN) (hat : 64 ∉ d) (hb : d.head? = some 91) :
    isEmail b conv m (l ++ 64 :: d) tld = isEmail b conv m' (l ++ 64 :: d) tld := by
  have hd : d ≠ [] := by intro h; subst h; simp at hb
  rw [valid_local_domain_decides b conv m l d tld hl hlen hd hat, valid_local_domain_decides b conv m' l d tld hl' hlen hd hat]
  simp [hb]

example : isEmail {} (fun _ => { rc := 0, out := none }) .m6531 ([195, 40] ++ 64 :: [91, 49, 57, 50, 46, 48, 46, 50, 46, 49, 93]) false
            = .ok { rc := localOf {} .m6531 [195, 40] } ∧ localOf {} .m6531 [195, 40] ≠ 0 := by decide +kernel

end Eav.Props.C01
