import Eav.Model
import Eav.Props.C13
/-!
# C19 — failures of the IDN library are contained

The conversion is a parameter of the model: `c : Conv` is whatever the IDN library answers during the call —
any return code, with or without an output buffer.  The theorems are unconditional in `c`.
-/
namespace Eav.Props.C19
open Eav

/-- **rejected with the IDN error code, nothing treated as a domain**: when the local part is valid for mode 6531
and the domain is a non-empty non-bracketed string, a failing conversion makes `is_6531_email` return
`-EEAV_IDN_ERROR` with `idn_rc` the library's code, no form flag, no strings — whatever the code, whether or not
an output buffer came with it, with TLD checking on or off -/
theorem idn_failure_rejected (b : Build) (c : Conv) (L D : List Nat) (tld : Bool)
    (hc : c.rc ≠ 0) (hD : 64 ∉ D) (hDne : D ≠ []) (hbr : D.head? ≠ some 91)
    (hL : L.length ≤ 64) (hloc : localOf b .m6531 L = 0) :
    isEmail b (fun _ => c) .m6531 (L ++ 64 :: D) tld = .ok { rc := -(E.IDN_ERROR : Int), idnRc := c.rc } := by
  have hsp := (C01.splitLast_iff 64 (L ++ 64 :: D) L D).mpr ⟨rfl, hD⟩
  have hse : (L ++ 64 :: D).isEmpty = false := by cases L <;> simp
  have hde : D.isEmpty = false := by cases D <;> simp_all
  have hlen : ¬ L.length > Lim.VALID_LPART_LEN := by simp only [Lim.VALID_LPART_LEN]; omega
  have hl' : (localOf b .m6531 L != 0) = false := by simp [hloc]
  have hbr' : (D.head? != some 91) = true := by simpa using hbr
  have hcne : (c.rc != 0) = true := by simpa using hc
  unfold isEmail
  simp only [hse, Bool.false_eq_true, if_false, hsp, hde, hlen, hl', hbr', if_true, hostPart, isUtf8Domain, hcne]
  rfl

/-- the policy step then reports `EEAV_IDN_ERROR` and keeps the library's code for the message -/
theorem idn_failure_verdict (k : Nat) (irc : Int) :
    verdictOf k { rc := -(E.IDN_ERROR : Int), idnRc := irc } = .ok (0, E.IDN_ERROR, some irc) := by
  simp [verdictOf]

/-- **the whole call**: return value 0, error code `EEAV_IDN_ERROR`, `eav_errstr` = the IDN library's message for the
returned code; one record live (no leak, no double free); the ledger invariant holds, so by `C13.isEmail_outcome`
the next validation on the same object behaves as on a fresh one -/
theorem idn_failure_contained (be : Backend) (b : Build) (c : Conv) (st : State) (e : EavT) (L D : List Nat)
    (hinv : C13.Inv be st) (hobj : st.obj = some e) (hm : C01.modeOfObj e = some .m6531)
    (hc : c.rc ≠ 0) (hD : 64 ∉ D) (hDne : D ≠ []) (hbr : D.head? ≠ some 91)
    (hL : L.length ≤ 64) (hloc : localOf b .m6531 L = 0) :
    ∃ st', step be b st (.isEmail (L ++ 64 :: D) c) =
        .ok (st', .verdict 0 E.IDN_ERROR (.idn c.rc) { rc := -(E.IDN_ERROR : Int), idnRc := c.rc }) ∧
      st'.liveResults = 1 ∧ C13.Inv be st' := by
  have hout := C13.isEmail_outcome be b c st e .m6531 (L ++ 64 :: D) hinv hobj hm
  have hem := idn_failure_rejected b c L D e.tldCheck hc hD hDne hbr hL hloc
  simp only [C13.outcomeOf, hem, idn_failure_verdict] at hout
  obtain ⟨st', h1, h2, h3, _, _, h6⟩ := hout
  refine ⟨st', ?_, h3, h6⟩
  simp only [step, h1, eavErrstr, h2]
  rfl

/-- non-vacuity: `a@b.c` in mode 6531 with the library answering IDN2_MALLOC (-100), with an output buffer attached -/
example : isEmail {} (fun _ => ⟨-100, some [120]⟩) .m6531 [97, 64, 98, 46, 99] true = .ok { rc := -2, idnRc := -100 } :=
  idn_failure_rejected {} ⟨-100, some [120]⟩ [97] [98, 46, 99] true (by decide) (by decide) (by decide) (by decide) (by decide)
    (by simp [localOf, is6531Local, loc6531Loop, decodeNext, locFin, unquotedStep, isCntrl, specials, Build.l])

end Eav.Props.C19
