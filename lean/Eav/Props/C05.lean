import Eav.Model
import Eav.Lemmas.Ip6Lower
import Eav.Lemmas.IpSpec
import Eav.Props.C01
import Eav.Props.Tie.Errors
/-!
# C05 — address literals: only `[IPv4]` or `[IPv6:addr]`, nothing trailing, family reported

Grammar (`Eav/Spec/Ip.lean`): `v4` = four decimal octets `0..255` separated by single dots; `IsV6_4291` = RFC 4291
textual form (eight groups, or fewer with one `::`, optional dotted-quad tail); `IsV6_5321` = RFC 5321 §4.1.3
(`IPv6-full`, `IPv6-comp` ≤ 6 groups, `IPv6v4-full`, `IPv6v4-comp` ≤ 4 groups) with a dotted-quad tail of 1–3 digit
octets and non-zero first octet.

* `literal_upper`  : whatever `check_ip` accepts is exactly `[` addr `]` with addr an IPv4 dotted quad, an RFC 4291
                     address, or such an address behind a five-byte tag that is `IPv6:` in some letter case;
* `literal_lower`  : every `[d.d.d.d]` (1–3 digit octets ≤ 255, first not zero) and every `[IPv6:` RFC-5321 address `]`
                     is accepted;
* `literal_family` : the flags name the family of the address present;
* `literal_every_mode` : the four `is_*_email` functions share this code (`literalPart` has no mode parameter).
All for every NUL-free byte string — no bound on length, number of groups or digits.
-/
namespace Eav.Props.C05
open Eav Eav.Spec

/-- upper bound, as a grammar of whole domains -/
def IsLiteralUpper (d : List Nat) : Prop :=
  ∃ inner, d = 91 :: inner ++ [93] ∧
    (v4 inner = true ∨ IsV6_4291 inner ∨ ∃ tag a, inner = tag ++ a ∧ lowerAll tag = tagLower ∧ IsV6_4291 a)

/-- lower bound -/
def IsLiteralLower (d : List Nat) : Prop :=
  ∃ inner, d = 91 :: inner ++ [93] ∧ (quad5321 inner = true ∨ ∃ a, inner = tagRfc ++ a ∧ IsV6_5321 a)

/-! ### helper lemmas -/

theorem splitLast_snoc (c : Nat) : ∀ (pre : List Nat), splitLast c (pre ++ [c]) = some (pre, [])
  | [] => by simp [splitLast]
  | x :: p => by simp [splitLast, splitLast_snoc c p]

theorem strncaseeq_take : ∀ (n : Nat) (a b : List Nat), strncaseeq a b n = true → n ≤ a.length → n ≤ b.length →
    lowerAll (a.take n) = lowerAll (b.take n)
  | 0, _, _, _, _, _ => by simp
  | n + 1, [], _, _, h, _ => by simp at h
  | n + 1, _ :: _, [], _, _, h => by simp at h
  | n + 1, x :: a, y :: b, h, ha, hb => by
    simp only [strncaseeq, Bool.and_eq_true, beq_iff_eq] at h
    simp only [List.take_succ_cons, lowerAll_cons, h.1]
    rw [strncaseeq_take n a b h.2 (by simpa using ha) (by simpa using hb)]

theorem mem_splitOn (c : Nat) : ∀ (t : List Nat) (x : Nat), x ∈ t → x = c ∨ ∃ w ∈ splitOn c t, x ∈ w
  | [], x, h => by simp at h
  | y :: ys, x, h => by
    by_cases hy : y = c
    · subst hy
      rw [splitOn_sep]
      rcases List.mem_cons.mp h with rfl | h'
      · exact Or.inl rfl
      · rcases mem_splitOn y ys x h' with h1 | ⟨w, hw, hx⟩
        · exact Or.inl h1
        · exact Or.inr ⟨w, by simp [hw], hx⟩
    · obtain ⟨w', ws', hs, hs'⟩ := splitOn_cons_ne ys hy
      rw [hs']
      rcases List.mem_cons.mp h with rfl | h'
      · exact Or.inr ⟨x :: w', by simp, by simp⟩
      · rcases mem_splitOn c ys x h' with h1 | ⟨w, hw, hx⟩
        · exact Or.inl h1
        · rw [hs] at hw
          rcases List.mem_cons.mp hw with rfl | hw'
          · exact Or.inr ⟨y :: w, by simp, by simp [hx]⟩
          · exact Or.inr ⟨w, by simp [hw'], hx⟩

/-- a dotted quad consists of digits and dots only -/
theorem v4_chars {t : List Nat} (h : v4 t = true) : ∀ x ∈ t, isDigit x = true ∨ x = 46 := by
  intro x hx
  simp only [v4, Bool.and_eq_true, List.all_eq_true] at h
  rcases mem_splitOn 46 t x hx with h1 | ⟨w, hw, hxw⟩
  · exact Or.inr h1
  · have := h.2 w hw
    simp only [decOctet, Bool.and_eq_true, List.all_eq_true] at this
    exact Or.inl (this.1.2 x hxw)

theorem v4_no_colon {t : List Nat} (h : v4 t = true) : t.contains 58 = false := by
  cases hc : t.contains 58 with
  | false => rfl
  | true =>
    have : 58 ∈ t := by simpa using hc
    rcases v4_chars h 58 this with h1 | h1
    · exact absurd h1 (by decide)
    · exact absurd h1 (by decide)

/-- … and begins with a digit -/
theorem v4_head {t : List Nat} (h : v4 t = true) : ∃ c cs, t = c :: cs ∧ isDigit c = true := by
  cases t with
  | nil => simp [v4, splitOn] at h
  | cons c cs =>
    refine ⟨c, cs, rfl, ?_⟩
    rcases v4_chars h c (by simp) with h1 | h1
    · exact h1
    · subst h1; rw [Eav.v4_dot_false] at h; cases h

theorem splitOn_length (c : Nat) : ∀ (t : List Nat), ((splitOn c t).map List.length).sum + (splitOn c t).length = t.length + 1
  | [] => by simp [splitOn]
  | y :: ys => by
    have ih := splitOn_length c ys
    by_cases hy : y = c
    · subst hy; rw [splitOn_sep]; simp; omega
    · obtain ⟨w', ws', hs, hs'⟩ := splitOn_cons_ne ys hy
      rw [hs'] ; rw [hs] at ih
      simp at ih ⊢; omega

theorem v4_length {t : List Nat} (h : v4 t = true) : 7 ≤ t.length := by
  have hl := splitOn_length 46 t
  simp only [v4, Bool.and_eq_true, List.all_eq_true, beq_iff_eq] at h
  obtain ⟨h4, hall⟩ := h
  match hs : splitOn 46 t, h4, hall with
  | [a, b, c, d], _, hall =>
    rw [hs] at hl
    have ne : ∀ w, w ∈ [a, b, c, d] → 1 ≤ w.length := by
      intro w hw
      have := hall w hw
      simp only [decOctet, Bool.and_eq_true] at this
      cases w with
      | nil => simp at this
      | cons => simp
    have ha := ne a (by simp); have hb := ne b (by simp); have hc := ne c (by simp); have hd := ne d (by simp)
    simp at hl; omega

theorem v4Snum_v4 {t : List Nat} (h : v4Snum t = true) : v4 t = true := (quad_decomp h).choose_spec.choose_spec.2.2.2.2

theorem isV6_length {q : List Nat → Bool} {m : Nat} {a : List Nat} (h : IsV6 q m a) : 2 ≤ a.length := by
  rcases h with ht | ⟨l, r, _, _, rfl, _, _, _⟩
  · generalize hn : (8 : Nat) = n at ht
    cases ht with
    | one => omega
    | quad => omega
    | cons hg _ =>
      have hne := (h16_parts hg).2.1
      have := List.length_pos_iff.mpr hne
      simp; omega
  · simp; omega

theorem not_v4_of_head {c : Nat} {cs : List Nat} (hd : isDigit c = false) : v4 (c :: cs) = false := by
  cases h : v4 (c :: cs) with
  | false => rfl
  | true =>
    obtain ⟨c', cs', he, hd'⟩ := v4_head h
    cases he
    rw [hd] at hd'; cases hd'

/-! ### the frame: what `check_ip` looks at -/

/-- the three address tests, on the bytes between the brackets -/
def addrTest (inner : List Nat) : Except Fault Bool × Bool :=
  if strncaseeq (inner ++ [93]) tagIPv6 5 then (isIpv6 (inner.drop 5) lit, false)
  else if inner.contains 58 then (isIpv6 inner lit, false)
  else (isIpv4 inner lit, true)

theorem checkIp_accept {d : List Nat} (hh : d.head? = some 91) {v4f v6f : Bool} {l : List Nat}
    (h : checkIp d = .ok (0, v4f, v6f, l)) :
    ∃ inner, d = 91 :: inner ++ [93] ∧ 7 ≤ inner.length ∧ l = inner ∧ (addrTest inner).1 = .ok true ∧
      v4f = (addrTest inner).2 ∧ v6f = !(addrTest inner).2 := by
  unfold checkIp at h
  by_cases h8 : d.length ≤ 8
  · rw [if_pos h8] at h; cases h
  · rw [if_neg h8] at h
    cases hs : splitLast 93 d with
    | none => rw [hs] at h; cases h
    | some pr =>
      obtain ⟨pre, post⟩ := pr
      rw [hs] at h
      simp only at h
      by_cases hp : post.isEmpty = true
      · have hpost : post = [] := by simpa using hp
        subst hpost
        obtain ⟨hd, _⟩ := (C01.splitLast_iff 93 d pre []).mp hs
        simp only [hp, Bool.not_true, Bool.false_eq_true, if_false] at h
        cases pre with
        | nil => subst hd; simp at h8
        | cons x inner =>
          have hx : x = 91 := by subst hd; simpa using hh
          subst hx
          have hdrop : d.drop 1 = inner ++ [93] := by subst hd; rfl
          have hlen : 7 ≤ inner.length := by subst hd; simp at h8; omega
          refine ⟨inner, hd, hlen, ?_⟩
          simp only [List.drop_succ_cons, List.drop_zero, hdrop] at h
          unfold addrTest
          by_cases ht : strncaseeq (inner ++ [93]) tagIPv6 5 = true
          · simp only [ht, if_true] at h ⊢
            unfold ipVerdict at h
            split at h
            · cases h
            · rename_i hok; simp only [Except.ok.injEq, Prod.mk.injEq] at h
              exact ⟨h.2.2.2.symm, hok, h.2.1.symm, by rw [← h.2.2.1]; rfl⟩
            · simp only [Except.ok.injEq, Prod.mk.injEq] at h; exact absurd h.1 (by decide)
          · simp only [ht, Bool.false_eq_true, if_false] at h ⊢
            by_cases hc : inner.contains 58 = true
            · simp only [hc, if_true] at h ⊢
              unfold ipVerdict at h
              split at h
              · cases h
              · rename_i hok; simp only [Except.ok.injEq, Prod.mk.injEq] at h
                exact ⟨h.2.2.2.symm, hok, h.2.1.symm, by rw [← h.2.2.1]; rfl⟩
              · simp only [Except.ok.injEq, Prod.mk.injEq] at h; exact absurd h.1 (by decide)
            · simp only [hc, Bool.false_eq_true, if_false] at h ⊢
              unfold ipVerdict at h
              split at h
              · cases h
              · rename_i hok; simp only [Except.ok.injEq, Prod.mk.injEq] at h
                exact ⟨h.2.2.2.symm, hok, h.2.1.symm, by rw [← h.2.2.1]; rfl⟩
              · simp only [Except.ok.injEq, Prod.mk.injEq] at h; exact absurd h.1 (by decide)
      · simp only [hp, Bool.not_false, if_true] at h
        simp only [Except.ok.injEq, Prod.mk.injEq] at h; exact absurd h.1 (by decide)

theorem checkIp_of_test {inner : List Nat} (hlen : 7 ≤ inner.length) (h : (addrTest inner).1 = .ok true) :
    checkIp (91 :: inner ++ [93]) = .ok (0, (addrTest inner).2, !(addrTest inner).2, inner) := by
  unfold checkIp
  have h8 : ¬ (91 :: inner ++ [93]).length ≤ 8 := by simp; omega
  rw [if_neg h8]
  have hs : splitLast 93 (91 :: inner ++ [93]) = some (91 :: inner, []) := splitLast_snoc 93 (91 :: inner)
  rw [hs]
  simp only [List.isEmpty_nil, Bool.not_true, Bool.false_eq_true, if_false, List.cons_append, List.drop_succ_cons, List.drop_zero]
  unfold addrTest at h ⊢
  by_cases ht : strncaseeq (inner ++ [93]) tagIPv6 5 = true
  · simp only [ht, if_true] at h ⊢; rw [h]; rfl
  · simp only [ht, Bool.false_eq_true, if_false] at h ⊢
    by_cases hc : inner.contains 58 = true
    · simp only [hc, if_true] at h ⊢; rw [h]; rfl
    · simp only [hc, Bool.false_eq_true, if_false] at h ⊢; rw [h]; rfl

/-! ### the three theorems -/

/-- **upper bound.**  An accepted bracketed domain is exactly `[` addr `]` — nothing after the bracket — with addr a
dotted quad of octets `0..255`, an RFC 4291 address, or such an address behind a tag that is `IPv6:` in some letter
case.  No other tag, no other bytes. -/
theorem literal_upper (d : List Nat) (hn : NulFree d) (hh : d.head? = some 91) (v4f v6f : Bool) (l : List Nat)
    (h : checkIp d = .ok (0, v4f, v6f, l)) : IsLiteralUpper d := by
  obtain ⟨inner, hd, hlen, _, ht, _, _⟩ := checkIp_accept hh h
  refine ⟨inner, hd, ?_⟩
  have hni : NulFree inner := fun c hc => hn c (by rw [hd]; simp [hc])
  unfold addrTest at ht
  by_cases htag : strncaseeq (inner ++ [93]) tagIPv6 5 = true
  · simp only [htag, if_true] at ht
    right; right
    refine ⟨inner.take 5, inner.drop 5, (List.take_append_drop 5 inner).symm, ?_, ?_⟩
    · have := strncaseeq_take 5 (inner ++ [93]) tagIPv6 htag (by simp; omega) (by decide)
      rw [List.take_append_of_le_length (by omega)] at this
      rw [this]; decide
    · exact isIpv6_upper _ (fun c hc => hni c (List.mem_of_mem_drop hc)) ht
  · simp only [htag, Bool.false_eq_true, if_false] at ht
    by_cases hc : inner.contains 58 = true
    · simp only [hc, if_true] at ht
      exact Or.inr (Or.inl (isIpv6_upper _ hni ht))
    · simp only [hc, Bool.false_eq_true, if_false] at ht
      rw [isIpv4_literal inner hni] at ht
      simp only [Except.ok.injEq, Bool.and_eq_true] at ht
      exact Or.inl ht.1

/-- **lower bound.**  Every dotted quad of 1–3 digit octets ≤ 255 with non-zero first octet, and every `IPv6:`-tagged
RFC 5321 §4.1.3 literal (dotted-quad tail with non-zero first octet), between brackets, is accepted. -/
theorem literal_lower (d : List Nat) (hn : NulFree d) (h : IsLiteralLower d) :
    ∃ v4f v6f l, checkIp d = .ok (0, v4f, v6f, l) := by
  obtain ⟨inner, rfl, hcase⟩ := h
  have hni : NulFree inner := fun c hc => hn c (by simp [hc])
  rcases hcase with hq | ⟨a, rfl, ha⟩
  · simp only [quad5321, Bool.and_eq_true] at hq
    have hv4 := v4Snum_v4 hq.1
    have hlen := v4_length hv4
    refine ⟨_, _, _, checkIp_of_test hlen ?_⟩
    obtain ⟨c, cs, rfl, hd⟩ := v4_head hv4
    have htag : strncaseeq (c :: cs ++ [93]) tagIPv6 5 = false := by
      have : (toLower c == toLower 73) = false := by
        have hc : toLower c = c := by
          simp only [toLower, isUpper, isDigit, Bool.and_eq_true, decide_eq_true_eq] at hd ⊢
          rw [if_neg (by omega)]
        rw [hc]
        simp only [isDigit, Bool.and_eq_true, decide_eq_true_eq] at hd
        have : toLower 73 = 105 := by decide
        rw [this]; simp; omega
      simp [strncaseeq, tagIPv6, this]
    unfold addrTest
    simp only [htag, Bool.false_eq_true, if_false, v4_no_colon hv4]
    rw [isIpv4_literal _ hni, hv4, hq.2]; rfl
  · have hlen : 7 ≤ (tagRfc ++ a).length := by
      have := isV6_length ha; simp [tagRfc]; omega
    refine ⟨_, _, _, checkIp_of_test hlen ?_⟩
    have htag : strncaseeq (tagRfc ++ a ++ [93]) tagIPv6 5 = true := by
      simp [strncaseeq, tagRfc, tagIPv6]
    unfold addrTest
    simp only [htag, if_true]
    have : (tagRfc ++ a).drop 5 = a := List.drop_left (l₁ := tagRfc)
    rw [this]
    exact isIpv6_lower a (fun c hc => hni c (by simp [hc])) ha

/-- **family.**  `is_ipv4` is set exactly when the bytes between the brackets are a dotted quad, `is_ipv6` exactly
otherwise; the literal reported (`EAV_EXTRA`) is the bytes between the brackets. -/
theorem literal_family (d : List Nat) (hn : NulFree d) (hh : d.head? = some 91) (v4f v6f : Bool) (l : List Nat)
    (h : checkIp d = .ok (0, v4f, v6f, l)) :
    ∃ inner, d = 91 :: inner ++ [93] ∧ l = inner ∧ v4f = v4 inner ∧ v6f = !v4 inner := by
  obtain ⟨inner, hd, hlen, hl, ht, h4, h6⟩ := checkIp_accept hh h
  refine ⟨inner, hd, hl, ?_⟩
  have hni : NulFree inner := fun c hc => hn c (by rw [hd]; simp [hc])
  suffices hs : (addrTest inner).2 = v4 inner by rw [h4, h6, hs]; exact ⟨rfl, rfl⟩
  unfold addrTest at ht ⊢
  by_cases htag : strncaseeq (inner ++ [93]) tagIPv6 5 = true
  · simp only [htag, if_true]
    cases inner with
    | nil => simp at hlen
    | cons c cs =>
      simp only [List.cons_append, strncaseeq, tagIPv6, Bool.and_eq_true, beq_iff_eq] at htag
      have hc : toLower c = 105 := by rw [htag.1]; decide
      have : isDigit c = false := by
        cases hdg : isDigit c with
        | false => rfl
        | true =>
          simp only [isDigit, Bool.and_eq_true, decide_eq_true_eq] at hdg
          simp only [toLower, isUpper, Bool.and_eq_true, decide_eq_true_eq] at hc
          rw [if_neg (by omega)] at hc; omega
      exact (not_v4_of_head this).symm
  · simp only [htag, Bool.false_eq_true, if_false] at ht ⊢
    by_cases hc : inner.contains 58 = true
    · simp only [hc, if_true]
      cases hv : v4 inner with
      | false => rfl
      | true => rw [v4_no_colon hv] at hc; cases hc
    · simp only [hc, Bool.false_eq_true, if_false] at ht ⊢
      rw [isIpv4_literal inner hni] at ht
      simp only [Except.ok.injEq, Bool.and_eq_true] at ht
      exact ht.1.symm

/-- **every mode.**  Once the local part has passed, a bracketed domain is judged by the same code in all four
modes, and an accepted literal yields return code 0 with the flags of `check_ip`. -/
theorem literal_every_mode (b : Build) (conv : List Nat → Conv) (m : Mode) (email l d : List Nat) (tld : Bool)
    (hs : splitLast 64 email = some (l, d)) (hh : d.head? = some 91) (hl : l.length ≤ Lim.VALID_LPART_LEN)
    (hloc : localOf b m l = 0) : isEmail b conv m email tld = literalPart b l d := by
  unfold isEmail
  have he : email.isEmpty = false := by
    cases email with
    | nil => simp [splitLast] at hs
    | cons => rfl
  have hd : d.isEmpty = false := by
    cases d with
    | nil => simp at hh
    | cons => rfl
  have hl' : ¬ l.length > Lim.VALID_LPART_LEN := by omega
  simp [he, hs, hd, hl', hloc, hh]

theorem literal_accepted_record (b : Build) (l d : List Nat) (v4f v6f : Bool) (lit' : List Nat)
    (h : checkIp d = .ok (0, v4f, v6f, lit')) :
    literalPart b l d = .ok (okResult b 0 0 v4f v6f false l lit') := by
  unfold literalPart; rw [h]; rfl


/-! ### the executable forms evaluated by the S stream (`sI` op) are these grammars -/

theorem literal_frame (d : List Nat) (f : List Nat → Bool) :
    (match d with
      | 91 :: rest => if rest.getLast? != some 93 then false else f rest.dropLast
      | _ => false) = true ↔ ∃ inner, d = 91 :: inner ++ [93] ∧ f inner = true := by
  cases d with
  | nil => simp
  | cons x rest =>
    by_cases hx : x = 91
    · subst hx
      simp only
      constructor
      · intro h
        by_cases hl : rest.getLast? = some 93
        · have hne : (rest.getLast? != some 93) = false := by simp [hl]
          rw [hne] at h
          simp only [Bool.false_eq_true, if_false] at h
          exact ⟨rest.dropLast, by rw [List.cons_append, dropLast_append_of_getLast? rest 93 hl], h⟩
        · have hne : (rest.getLast? != some 93) = true := by simpa using hl
          rw [hne] at h; simp at h
      · rintro ⟨inner, hd, hf⟩
        simp only [List.cons_append, List.cons.injEq, true_and] at hd
        subst hd
        simp [hf]
    · constructor
      · intro h
        split at h
        · rename_i heq; simp only [List.cons.injEq] at heq; exact absurd heq.1 hx
        · cases h
      · rintro ⟨inner, hd, _⟩
        simp only [List.cons_append, List.cons.injEq] at hd
        exact absurd hd.1 hx

theorem literalUpper_iff (d : List Nat) : literalUpper d = true ↔ IsLiteralUpper d := by
  unfold literalUpper IsLiteralUpper
  refine (literal_frame d (fun inner => v4 inner || v6_4291 inner || (lowerAll (inner.take 5) == tagLower && v6_4291 (inner.drop 5)))).trans ?_
  constructor
  · rintro ⟨inner, hd, h⟩
    refine ⟨inner, hd, ?_⟩
    simp only [Bool.or_eq_true, Bool.and_eq_true, beq_iff_eq] at h
    rcases h with (h | h) | ⟨ht, ha⟩
    · exact Or.inl h
    · exact Or.inr (Or.inl ((v6_4291_iff _).mp h))
    · exact Or.inr (Or.inr ⟨inner.take 5, inner.drop 5, (List.take_append_drop 5 inner).symm, ht, (v6_4291_iff _).mp ha⟩)
  · rintro ⟨inner, hd, h⟩
    refine ⟨inner, hd, ?_⟩
    simp only [Bool.or_eq_true, Bool.and_eq_true, beq_iff_eq]
    rcases h with h | h | ⟨tag, a, rfl, ht, ha⟩
    · exact Or.inl (Or.inl h)
    · exact Or.inl (Or.inr ((v6_4291_iff _).mpr h))
    · right
      have hl : tag.length = 5 := by
        have := congrArg List.length ht
        simpa [tagLower] using this
      have e1 : (tag ++ a).take 5 = tag := by rw [← hl]; exact List.take_left
      have e2 : (tag ++ a).drop 5 = a := by rw [← hl]; exact List.drop_left
      rw [e1, e2]
      exact ⟨ht, (v6_4291_iff _).mpr ha⟩

theorem literalLower_iff (d : List Nat) : literalLower d = true ↔ IsLiteralLower d := by
  unfold literalLower IsLiteralLower
  refine (literal_frame d (fun inner => (v4Snum inner && firstOctetNonZero inner) || (inner.take 5 == tagRfc && v6_5321 (inner.drop 5)))).trans ?_
  constructor
  · rintro ⟨inner, hd, h⟩
    refine ⟨inner, hd, ?_⟩
    simp only [Bool.or_eq_true, Bool.and_eq_true, beq_iff_eq] at h
    rcases h with h | ⟨ht, ha⟩
    · exact Or.inl (by simp [quad5321, h.1, h.2])
    · refine Or.inr ⟨inner.drop 5, ?_, (v6_5321_iff _).mp ha⟩
      rw [← ht]; exact (List.take_append_drop 5 inner).symm
  · rintro ⟨inner, hd, h⟩
    refine ⟨inner, hd, ?_⟩
    simp only [Bool.or_eq_true, Bool.and_eq_true, beq_iff_eq]
    rcases h with h | ⟨a, rfl, ha⟩
    · simp only [quad5321, Bool.and_eq_true] at h; exact Or.inl h
    · right
      have e1 : (tagRfc ++ a).take 5 = tagRfc := List.take_left (l₁ := tagRfc)
      have e2 : (tagRfc ++ a).drop 5 = a := List.drop_left (l₁ := tagRfc)
      rw [e1, e2]
      exact ⟨rfl, (v6_5321_iff _).mpr ha⟩

/-- `literalIsV4` (the family the S stream expects) is `v4` of the bytes between the brackets -/
theorem literalIsV4_eq (inner : List Nat) : literalIsV4 (91 :: inner ++ [93]) = v4 inner := by
  simp [literalIsV4]

/-- the three theorems once more, against the executable forms -/
theorem literal_sandwich (d : List Nat) (hn : NulFree d) (hh : d.head? = some 91) :
    (∀ v4f v6f l, checkIp d = .ok (0, v4f, v6f, l) → literalUpper d = true ∧ v4f = literalIsV4 d ∧ v6f = !literalIsV4 d) ∧
    (literalLower d = true → ∃ v4f v6f l, checkIp d = .ok (0, v4f, v6f, l)) := by
  refine ⟨fun v4f v6f l h => ?_, fun h => literal_lower d hn ((literalLower_iff d).mp h)⟩
  refine ⟨(literalUpper_iff d).mpr (literal_upper d hn hh v4f v6f l h), ?_⟩
  obtain ⟨inner, hd, _, h4, h6⟩ := literal_family d hn hh v4f v6f l h
  rw [hd, literalIsV4_eq]; exact ⟨h4, h6⟩

/-- **at the level of `is_*_email`**: an accepted address whose domain starts with `[` has a domain of exactly the
form `[` addr `]`, in the upper-bound grammar, and the record says `is_ipv4` iff addr is a dotted quad, `is_ipv6`
otherwise, never `is_domain` -/
theorem email_literal (b : Build) (conv : List Nat → Conv) (m : Mode) (email l d : List Nat) (tld : Bool)
    (hs : splitLast 64 email = some (l, d)) (hh : d.head? = some 91) (hn : NulFree d)
    (r : Result) (h : isEmail b conv m email tld = .ok r) (hr : r.rc = 0) :
    IsLiteralUpper d ∧ ∃ inner, d = 91 :: inner ++ [93] ∧ r.isIpv4 = v4 inner ∧ r.isIpv6 = (!v4 inner) ∧ r.isDomain = false := by
  unfold isEmail at h
  have he : email.isEmpty = false := by
    cases email with
    | nil => simp [splitLast] at hs
    | cons => rfl
  have hd : d.isEmpty = false := by
    cases d with
    | nil => simp at hh
    | cons => rfl
  simp only [he, hs, hd, Bool.false_eq_true, if_false] at h
  split at h
  · cases h; exact absurd hr (by decide)
  · split at h
    · rename_i hloc
      cases h
      simp only at hr
      simp only [bne_iff_ne, ne_eq] at hloc
      exact absurd hr hloc
    · have hne : (d.head? != some 91) = false := by simp [hh]
      simp only [hne, Bool.false_eq_true, if_false] at h
      unfold literalPart at h
      cases hc : checkIp d with
      | error e => rw [hc] at h; cases h
      | ok v =>
        obtain ⟨rc, v4f, v6f, lit'⟩ := v
        rw [hc] at h
        simp only at h
        by_cases hrc : (rc == 0) = true
        · have : rc = 0 := by simpa using hrc
          subst this
          simp only [beq_self_eq_true, if_true, Except.ok.injEq] at h
          subst h
          refine ⟨literal_upper d hn hh v4f v6f lit' hc, ?_⟩
          obtain ⟨inner, hd', _, h4, h6⟩ := literal_family d hn hh v4f v6f lit' hc
          exact ⟨inner, hd', h4, h6, rfl⟩
        · simp only [hrc, Bool.false_eq_true, if_false, Except.ok.injEq] at h
          subst h
          simp only at hr
          exact absurd hr (by simpa using hrc)

/-! ### the hypotheses are satisfiable, and the bounds are not vacuous -/
example : IsLiteralLower [91, 49, 46, 50, 46, 51, 46, 52, 93] :=              -- [1.2.3.4]
  ⟨[49, 46, 50, 46, 51, 46, 52], rfl, Or.inl (by decide)⟩
example : IsLiteralLower ([91] ++ tagRfc ++ [58, 58, 49] ++ [93]) :=          -- [IPv6:::1]
  ⟨tagRfc ++ [58, 58, 49], rfl, Or.inr ⟨[58, 58, 49], rfl,
    Or.inr ⟨[], [49], 0, 1, rfl, Or.inl ⟨rfl, rfl⟩, Or.inr (IsTail.one (by decide)), by omega⟩⟩⟩
example : checkIp [91, 49, 46, 50, 46, 51, 46, 52, 93] = .ok (0, true, false, [49, 46, 50, 46, 51, 46, 52]) := by decide
-- rejected although inside the upper bound (first octet zero): the two bounds are different sets
example : checkIp [91, 48, 46, 50, 46, 51, 46, 52, 93] = .ok (-24, false, false, []) := by decide

end Eav.Props.C05
