import Eav.Model
import Eav.Props.Tie.Init
/-!
# C08 — allow_tld / tld_check policy

`verdictOf` is everything `eav_is_email` does after the mode's callback returned: `rc = 0` accepts,
`rc < 0` rejects with code `-rc`, a TLD class `1..9` goes through the `switch` (`policyArm`), anything
else reaches `abort ()`.  The arms are compared with the library over the complete finite domain
(2^11 masks x every result code) on every run; the theorems hold for every mask, not only 11-bit ones.
-/
namespace Eav.Props.C08
open Eav

/-- every class has an arm: its own error code `EEAV_TLD_x = 26 + class` and its own bit `1 << (class + 1)` -/
theorem policyArm_eq (c : Nat) (h1 : 1 ≤ c) (h9 : c ≤ 9) : policyArm (c : Int) = some (26 + c, Spec.bitOfClass c) := by
  have : c = 1 ∨ c = 2 ∨ c = 3 ∨ c = 4 ∨ c = 5 ∨ c = 6 ∨ c = 7 ∨ c = 8 ∨ c = 9 := by omega
  rcases this with rfl | rfl | rfl | rfl | rfl | rfl | rfl | rfl | rfl <;> decide

theorem and_bit_ne_zero (k n : Nat) : (k &&& 2 ^ n != 0) = k.testBit n := by
  cases h : k.testBit n with
  | true =>
    have : (k &&& 2 ^ n).testBit n = true := by simp [Nat.testBit_and, h, Nat.testBit_two_pow_self]
    have hne : k &&& 2 ^ n ≠ 0 := by
      intro e; rw [e] at this; simp at this
    simpa using hne
  | false =>
    have : k &&& 2 ^ n = 0 := by
      apply Nat.eq_of_testBit_eq
      intro i
      simp only [Nat.testBit_and, Nat.testBit_two_pow, Nat.zero_testBit]
      by_cases hi : n = i
      · subst hi; simp [h]
      · simp [hi]
    simp [this]

/-- **acceptance iff the bit of the TLD class is set in allow_tld**; the code of a refused class is the class's code -/
theorem policy_iff (k : Nat) (r : Result) (c : Nat) (hrc : r.rc = (c : Int)) (h1 : 1 ≤ c) (h9 : c ≤ 9) :
    verdictOf k r = .ok (if k.testBit (c + 1) then (1, 0, none) else (0, 26 + c, none)) := by
  unfold verdictOf
  have hne : ¬ (r.rc == 0) = true := by simp [hrc]; omega
  have hpos : ¬ (r.rc < 0) := by rw [hrc]; omega
  simp only [hne, hpos, if_false, Bool.false_eq_true]
  rw [hrc, policyArm_eq c h1 h9]
  simp only [Spec.bitOfClass, and_bit_ne_zero]
  cases k.testBit (c + 1) <;> simp

/-- each class is governed by its own bit and by no other bit: masks that agree on bit `class + 1`
give the same outcome -/
theorem own_bit_only (k k' : Nat) (r : Result) (c : Nat) (hrc : r.rc = (c : Int)) (h1 : 1 ≤ c) (h9 : c ≤ 9)
    (h : k.testBit (c + 1) = k'.testBit (c + 1)) : verdictOf k r = verdictOf k' r := by
  rw [policy_iff k r c hrc h1 h9, policy_iff k' r c hrc h1 h9, h]

/-- an unlisted TLD, a non-FQDN, any negative result is rejected whatever the mask, with code `-rc` -/
theorem negative_rc_any_mask (k : Nat) (r : Result) (h : r.rc < 0) :
    ∃ msg, verdictOf k r = .ok (0, (-r.rc).toNat, msg) := by
  unfold verdictOf
  have hne : ¬ (r.rc == 0) = true := by simp; omega
  simp only [hne, h, if_true, if_false, Bool.false_eq_true]
  exact ⟨_, rfl⟩

/-- `rc = 0` (TLD checking off, or an address literal) is accepted whatever the mask -/
theorem zero_rc_any_mask (k : Nat) (r : Result) (h : r.rc = 0) : verdictOf k r = .ok (1, 0, none) := by
  unfold verdictOf; simp [h]

/-- hence: when the callback's result is not a TLD class the mask plays no role -/
theorem mask_irrelevant_unless_class (k k' : Nat) (r : Result) (h : r.rc ≤ 0) : verdictOf k r = verdictOf k' r := by
  unfold verdictOf
  by_cases h0 : r.rc = 0
  · simp [h0]
  · have : r.rc < 0 := by omega
    have hne : ¬ (r.rc == 0) = true := by simp [h0]
    simp [hne, this]

/-- `abort ()` is reached only for a positive result that is not one of the nine classes -/
theorem abort_only_outside_classes (k : Nat) (r : Result) (h : verdictOf k r = .error .abort) : 9 < r.rc := by
  unfold verdictOf at h
  split at h
  · cases h
  · split at h
    · cases h
    · rename_i h0 hneg
      by_cases hle : r.rc ≤ 9
      · exfalso
        have hpos : 1 ≤ r.rc := by
          have : r.rc ≠ 0 := by simpa using h0
          omega
        obtain ⟨c, hc⟩ : ∃ c : Nat, r.rc = (c : Int) := ⟨r.rc.toNat, by omega⟩
        rw [hc, policyArm_eq c (by omega) (by omega)] at h
        simp only at h
        split at h <;> cases h
      · omega

/-- `eav_init` selects mode 6531, TLD checking on, and every class except not-assigned, test and retired
(the values are tied to the compiled `eav_init` by `GenTie.init_values`) -/
theorem init_defaults :
    ∃ e, (eavInit {}).obj = some e ∧ e.rfc = 3 ∧ e.tldCheck = true ∧
      (∀ c, 1 ≤ c → c ≤ 9 → (e.allowTld.testBit (c + 1) = true ↔ c ∈ [T.COUNTRY_CODE, T.GENERIC, T.GENERIC_RESTRICTED, T.INFRASTRUCTURE, T.SPONSORED, T.SPECIAL])) := by
  refine ⟨_, rfl, rfl, rfl, ?_⟩
  intro c h1 h9
  have : c = 1 ∨ c = 2 ∨ c = 3 ∨ c = 4 ∨ c = 5 ∨ c = 6 ∨ c = 7 ∨ c = 8 ∨ c = 9 := by omega
  rcases this with rfl | rfl | rfl | rfl | rfl | rfl | rfl | rfl | rfl <;> decide

/-- non-vacuity: class generic (3) under the default mask is accepted, under mask 8 (country-code only) refused with EEAV_TLD_GENERIC -/
example : verdictOf defaultMask { rc := 3 } = .ok (1, 0, none) ∧ verdictOf 8 { rc := 3 } = .ok (0, 29, none) := by decide

end Eav.Props.C08
