import Eav.Model
import Eav.Lemmas.LocalGrammar
import Eav.Lemmas.LocalScan
/-!
# C02 — in modes 822, 5321 and 5322 a local part is accepted iff it is `word *("." word)`

`is822Local`, `is5321Local`, `is5322Local` are the models of `src/is_{822,5321,5322}_local.c`
(tied to the C code by the correspondence check); `Spec.IsLocal` is the declarative grammar of the
property (atoms, quoted strings with the mode's quoted content, RFC 822 folding, the RFC 5322 blank rule).
The theorems hold for every NUL-free byte string of every length.
-/
namespace Eav.Props.C02
open Eav Eav.Spec

/-- **mode 5321** -/
theorem local_iff_5321 (s : List Nat) (hn : NulFree s) : is5321Local s = 0 ↔ IsLocal .m5321 s :=
  (is5321Local_iff s hn).trans (specLocal_iff .m5321 s)

/-- **mode 822**; the byte at `*end` (which the folding test may read) does not influence the decision -/
theorem local_iff_822 (s : List Nat) (endByte : Nat) (hn : NulFree s) : is822Local s endByte = 0 ↔ IsLocal .m822 s :=
  (is822Local_iff s endByte hn).trans (specLocal_iff .m822 s)

/-- **mode 5322** -/
theorem local_iff_5322 (s : List Nat) (hn : NulFree s) : is5322Local s = 0 ↔ IsLocal .m5322 s :=
  (is5322Local_iff s hn).trans (specLocal_iff .m5322 s)

/-! ### consequences named in the property -/

theorem flat_ascii {m : LMode} (hm : m ≠ .m6531) : ∀ (items : List QItem), (∀ it ∈ items, okItem m it = true) →
    ∀ b ∈ flat items, b < 128 := by
  intro items
  induction items with
  | nil => intro _ b hb; simp [flat] at hb
  | cons it rest ih =>
    intro hok b hb
    simp only [flat, List.flatMap_cons, List.mem_append] at hb
    rcases hb with hb | hb
    · have h := hok it (by simp)
      cases it with
      | ch c =>
        simp [QItem.bytes] at hb; subst hb
        cases m <;> simp [okItem, ascii, printable] at h hm ⊢ <;> omega
      | pair c =>
        simp [QItem.bytes] at hb
        rcases hb with rfl | rfl
        · omega
        · cases m <;> simp [okItem, ascii, printable] at h hm ⊢ <;> omega
      | fold w =>
        simp [QItem.bytes] at hb
        cases m <;> simp [okItem] at h hm
        rcases hb with rfl | rfl | rfl
        · omega
        · omega
        · rcases h with rfl | rfl <;> omega
    · exact ih (fun i hi => hok i (by simp [hi])) b (by simpa [flat] using hb)

theorem word_ascii {m : LMode} (hm : m ≠ .m6531) {w : List Nat} (hw : IsWord m w) : ∀ b ∈ w, b < 128 := by
  rcases hw with ⟨_, hat⟩ | ⟨items, hok, rfl, _⟩
  · intro b hb
    have := hat b hb
    cases m <;> simp [atext, atextAscii] at this hm ⊢ <;> omega
  · intro b hb
    simp only [List.cons_append, List.mem_cons, List.mem_append, List.mem_nil_iff, or_false] at hb
    rcases hb with rfl | hb | rfl
    · omega
    · exact flat_ascii hm items hok b hb
    · omega

theorem join_ascii {m : LMode} (hm : m ≠ .m6531) : ∀ (ws : List (List Nat)), (∀ w ∈ ws, IsWord m w) → ∀ b ∈ join ws, b < 128
  | [], _, b, hb => by simp [join] at hb
  | [w], h, b, hb => word_ascii hm (h w (by simp)) b (by simpa [join] using hb)
  | w :: w' :: ws, h, b, hb => by
    rw [join_cons w (w' :: ws) (by simp)] at hb
    simp only [List.mem_append, List.mem_cons] at hb
    rcases hb with hb | rfl | hb
    · exact word_ascii hm (h w (by simp)) b hb
    · omega
    · exact join_ascii hm (w' :: ws) (fun x hx => h x (by simp [hx])) b hb

/-- no byte `≥ 0x80` is ever accepted in the ASCII modes -/
theorem no_high_byte {m : LMode} (hm : m ≠ .m6531) {s : List Nat} (h : IsLocal m s) : ∀ b ∈ s, b < 128 := by
  obtain ⟨ws, _, hall, rfl⟩ := h
  exact join_ascii hm ws hall

theorem word_head {m : LMode} {w : List Nat} (hw : IsWord m w) : w.head? ≠ some 46 ∧ w ≠ [] := by
  rcases hw with ⟨hne, hat⟩ | ⟨items, _, rfl, _⟩
  · cases w with
    | nil => exact absurd rfl hne
    | cons x xs =>
      have := atext_ne (hat x (by simp))
      simp [this.2.1]
  · simp

/-- a local part never starts with a dot and is never empty -/
theorem no_leading_dot {m : LMode} {s : List Nat} (h : IsLocal m s) : s.head? ≠ some 46 ∧ s ≠ [] := by
  obtain ⟨w, t, hw, _, rfl⟩ := local_inv m s h
  have := word_head hw
  cases w with
  | nil => exact absurd rfl this.2
  | cons x xs => simpa using this.1

/-! ### non-vacuity, and the rejections the property names (kernel-evaluated on the models) -/

example : is5321Local [34, 97, 32, 98, 34, 46, 99] = 0 := by decide                   -- "a b".c
example : IsLocal .m5321 [34, 97, 32, 98, 34, 46, 99] := (local_iff_5321 _ (by intro c hc; simp at hc; omega)).mp (by decide)
example : is5321Local [34, 97, 98, 99, 34, 100, 101, 102] = -9 := by decide          -- "abc"def : atom glued to a quoted string
example : is822Local [34, 97, 98, 99, 34, 100, 101, 102] 64 = -9 ∧ is5322Local [34, 97, 98, 99, 34, 100, 101, 102] = -9 := by decide
example : is5321Local [97, 34, 98, 34] = -9 := by decide                              -- a"b" : quote inside an atom
example : is5321Local [34, 97] = -10 := by decide                                     -- "a   : unbalanced quote
example : is5321Local [97, 46, 46, 98] = -11 ∧ is5321Local [46, 97] = -12 ∧ is5321Local [97, 46] = -12 := by decide
example : is822Local [34, 97, 13, 10, 32, 98, 34] 64 = 0 ∧ is822Local [34, 97, 13, 98, 34] 64 = -14 := by decide    -- folding
example : is5322Local [34, 97, 32, 98, 34] = -13 ∧ is5322Local [34, 32, 97, 32, 34] = 0 ∧ is5321Local [34, 97, 32, 98, 34] = 0 := by decide
example : is5321Local [34, 92, 1, 34] = -8 ∧ is5322Local [34, 92, 1, 34] = 0 ∧ is822Local [34, 1, 34] 64 = 0 := by decide   -- controls
example : is5321Local [97, 128] = -6 := by decide

end Eav.Props.C02
