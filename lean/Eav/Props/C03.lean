import Eav.Model
import Eav.Lemmas.Utf8
import Eav.Lemmas.Local6531
import Eav.Props.C02
/-!
# C03 — RFC 6531 local part (default build): strict UTF-8 plus the RFC 5321 grammar, nothing else

`is6531Local {}` is the model of `src/is_6531_local.c` built without options, driving the model of
`src/utf8_decode.c`.  `Spec.IsUtf8Of cps s`: `s` is the shortest-form encoding of the scalar values `cps`.
`Spec.collapse` reads every non-ASCII character as one symbol `≥ 128`; `Spec.IsLocal .m6531` is the RFC 5321
grammar with that symbol admitted as atom / quoted-text character (never after a backslash).
-/
namespace Eav.Props.C03
open Eav Eav.Spec

/-- **the decoder**: a string decodes iff it is well-formed UTF-8 — no overlong forms, surrogates,
code points above U+10FFFF, stray or missing continuation bytes — and then to exactly its scalar values -/
theorem utf8_iff (s cps : List Nat) : decAll s = some cps ↔ IsUtf8Of cps s := decAll_iff s cps

/-- **C03** for every byte string -/
theorem local6531_iff (s : List Nat) :
    is6531Local {} s = 0 ↔ ∃ cps, IsUtf8Of cps s ∧ IsLocal .m6531 (collapse cps) := by
  rw [is6531Local_iff]
  constructor
  · rintro ⟨cps, h1, h2⟩; exact ⟨cps, (decAll_iff s cps).mp h1, (specLocal_iff _ _).mp h2⟩
  · rintro ⟨cps, h1, h2⟩; exact ⟨cps, (decAll_iff s cps).mpr h1, (specLocal_iff _ _).mpr h2⟩

/-- ill-formed UTF-8 is never accepted -/
theorem invalid_utf8_rejected (s : List Nat) (h : ¬ IsUtf8 s) : is6531Local {} s ≠ 0 := by
  intro h0
  obtain ⟨cps, h1, _⟩ := (local6531_iff s).mp h0
  exact h ⟨cps, h1⟩

/-! ### pure-ASCII local parts: modes 6531 and 5321 decide identically -/

theorem utf8Enc_ascii {c : Nat} (h : c < 128) : utf8Enc c = [c] := by simp [utf8Enc, h]

theorem isUtf8Of_ascii (s : List Nat) (h : ∀ b ∈ s, b < 128) : IsUtf8Of s s := by
  refine ⟨fun cp hcp => by have := h cp hcp; simp [validScalar]; omega, ?_⟩
  induction s with
  | nil => rfl
  | cons c cs ih =>
    simp only [List.flatMap_cons, utf8Enc_ascii (h c (by simp)), List.singleton_append, List.cons.injEq, true_and]
    exact ih (fun b hb => h b (by simp [hb]))

theorem collapse_ascii (s : List Nat) (h : ∀ b ∈ s, b < 128) : collapse s = s := by
  induction s with
  | nil => rfl
  | cons c cs ih =>
    have := h c (by simp)
    simp only [collapse, List.map_cons, List.cons.injEq]
    refine ⟨by simp; omega, ?_⟩
    exact ih (fun b hb => h b (by simp [hb]))

theorem flatMap_enc_ascii : ∀ (cps : List Nat), (∀ b ∈ cps.flatMap utf8Enc, b < 128) → cps.flatMap utf8Enc = cps ∧ ∀ b ∈ cps, b < 128
  | [], _ => ⟨rfl, by simp⟩
  | cp :: cps, h => by
    have hcp : cp < 128 := by
      apply Classical.byContradiction
      intro hge
      have : ∃ b ∈ utf8Enc cp, ¬ b < 128 := by
        unfold utf8Enc
        have h1 : ¬ cp < 128 := hge
        simp only [h1, if_false]
        split
        · exact ⟨192 + cp / 64, by simp, by omega⟩
        · split
          · exact ⟨224 + cp / 4096, by simp, by omega⟩
          · exact ⟨240 + cp / 262144, by simp, by omega⟩
      obtain ⟨b, hb, hnb⟩ := this
      exact hnb (h b (by simp [hb]))
    have ih := flatMap_enc_ascii cps (fun b hb => h b (by simp [hb]))
    constructor
    · simp [utf8Enc_ascii hcp, ih.1]
    · intro b hb
      simp only [List.mem_cons] at hb
      rcases hb with rfl | hb
      · exact hcp
      · exact ih.2 b hb

theorem stepSt_ascii_eq (st : St) (c : Nat) (nx : Option Nat) (h : c < 128) :
    stepSt .m6531 st c nx = stepSt .m5321 st c nx := by
  have h128 : decide (128 ≤ c) = false := by simp; omega
  have ha : atext .m6531 c = atext .m5321 c := by simp [atext, h128]
  have hch : okItem .m6531 (.ch c) = okItem .m5321 (.ch c) := by simp [okItem, h128]
  have hp : okItem .m6531 (.pair c) = okItem .m5321 (.pair c) := by simp [okItem]
  cases st <;> simp [stepSt, ha, hch, hp, blocked]

theorem runFrom_ascii_eq : ∀ (s : List Nat) (st : St), (∀ b ∈ s, b < 128) → runFrom .m6531 st s = runFrom .m5321 st s
  | [], st, _ => by simp [runFrom]
  | c :: cs, st, h => by
    rw [runFrom_cons, runFrom_cons, stepSt_ascii_eq st c _ (h c (by simp))]
    cases stepSt .m5321 st c cs.head? with
    | none => rfl
    | some st' => exact runFrom_ascii_eq cs st' (fun b hb => h b (by simp [hb]))

/-- on pure-ASCII local parts modes 6531 and 5321 decide identically -/
theorem ascii_agrees_5321 (s : List Nat) (hn : NulFree s) (h : ∀ b ∈ s, b < 128) :
    is6531Local {} s = 0 ↔ is5321Local s = 0 := by
  rw [is6531Local_iff, is5321Local_iff s hn]
  constructor
  · rintro ⟨cps, h1, h2⟩
    obtain ⟨_, hs⟩ := (decAll_iff s cps).mp h1
    have := flatMap_enc_ascii cps (by rw [← hs]; exact h)
    have hcs : cps = s := by rw [hs]; exact this.1.symm
    subst hcs
    rw [collapse_ascii _ h] at h2
    unfold specLocal at h2 ⊢
    rw [← runFrom_ascii_eq _ _ h]; exact h2
  · intro h5
    refine ⟨s, (decAll_iff s s).mpr (isUtf8Of_ascii s h), ?_⟩
    rw [collapse_ascii _ h]
    unfold specLocal at h5 ⊢
    rw [runFrom_ascii_eq _ _ h]; exact h5

/-- `a.X.b` is accepted for every non-ASCII character `X` -/
theorem nonascii_between_dots (X : Nat) (hv : validScalar X = true) (hX : X ≥ 128) :
    is6531Local {} ([97, 46] ++ utf8Enc X ++ [46, 98]) = 0 := by
  rw [local6531_iff]
  refine ⟨[97, 46, X, 46, 98], ⟨?_, ?_⟩, ?_⟩
  · intro cp hcp
    simp only [List.mem_cons, List.mem_nil_iff, or_false] at hcp
    rcases hcp with rfl | rfl | rfl | rfl | rfl <;> first | exact hv | decide
  · simp [utf8Enc]
  · have : collapse [97, 46, X, 46, 98] = [97, 46, 128, 46, 98] := by
      simp [collapse]; omega
    rw [this, ← specLocal_iff]; decide

/-! ### non-vacuity and the cases named in the property -/

set_option linter.unusedSimpArgs false in
/-- evaluate the (well-founded) scanner on a literal by rewriting -/
macro "eval6531" : tactic =>
  `(tactic| simp [is6531Local, loc6531Loop, decodeNext, isCont, locFin, unquotedStep, isCntrl, closeOk, specials])

set_option linter.unusedSimpArgs false
example : is6531Local {} [208, 150] = 0 := by eval6531                              -- Ж
example : is6531Local {} [97, 34, 98, 34] = -9 := by eval6531                       -- a"b"
example : is6531Local {} [208, 150, 34, 98, 34] = -9 := by eval6531                 -- Ж"b"
example : is6531Local {} [97, 46, 208, 150, 46, 98] = 0 := by eval6531              -- a.Ж.b
example : is6531Local {} [34, 92, 208, 150, 97, 34] = -6 := by eval6531             -- "\Жa"
example : is6531Local {} [192, 128] = -15 := by eval6531                            -- overlong
example : is6531Local {} [237, 160, 128] = -15 := by eval6531                       -- surrogate
example : is6531Local {} [244, 144, 128, 128] = -15 := by eval6531                  -- above U+10FFFF
example : is6531Local {} [128] = -15 := by eval6531                                 -- stray continuation byte
example : is6531Local {} [208] = -15 := by eval6531                                 -- missing continuation byte
example : is6531Local {} [34, 97, 34, 208, 150] = -9 := by eval6531                 -- "a"Ж

end Eav.Props.C03
