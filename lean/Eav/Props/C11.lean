import Eav.Model
import Eav.Lemmas.Str
import Eav.Gen.TldTable
import Eav.Gen.Csv
/-!
# C11 — the generated TLD table is a faithful translation of data/punycode.csv

All statements are about the data regenerated from the working tree on this run:
`Gen.tldTable` is `tld_list[]` as compiled into the library, `Gen.csvPuny` / `Gen.csvRaw` /
`Gen.tldDomainsTxt` are the shipped data files.  `Spec.genRow` is the row `util/gentld.pl` documents.
-/
namespace Eav.Props.C11
open Eav

/-- row by row, the compiled table is what the generator rules make of the CSV
(type map, `^Not assigned` / `^Retired` overrides, `length + 1`) -/
theorem table_eq_gen : Gen.csvPuny.map Spec.genRow = Gen.tldTable.map some := by decide +kernel

/-- strictly increasing byte-lexicographic order -/
def ltBytes : List Nat → List Nat → Bool
  | [], [] => false
  | [], _ :: _ => true
  | _ :: _, [] => false
  | a :: as, b :: bs => decide (a < b) || (a == b && ltBytes as bs)

def sortedStrict : List (List Nat) → Bool
  | [] => true
  | [_] => true
  | a :: b :: rest => ltBytes a b && sortedStrict (b :: rest)

theorem names_sorted : sortedStrict (Gen.tldTable.map (·.1)) = true := by decide +kernel

theorem ltBytes_irrefl (a : List Nat) : ltBytes a a = false := by
  induction a with
  | nil => rfl
  | cons x xs ih => simp [ltBytes, ih]

theorem ltBytes_trans : ∀ (a b c : List Nat), ltBytes a b = true → ltBytes b c = true → ltBytes a c = true
  | [], [], _, h, _ => by simp [ltBytes] at h
  | [], _ :: _, [], _, h => by simp [ltBytes] at h
  | [], _ :: _, _ :: _, _, _ => by simp [ltBytes]
  | _ :: _, [], _, h, _ => by simp [ltBytes] at h
  | _ :: _, _ :: _, [], _, h => by simp [ltBytes] at h
  | a :: as, b :: bs, c :: cs, h1, h2 => by
    simp only [ltBytes, Bool.or_eq_true, decide_eq_true_eq, Bool.and_eq_true, beq_iff_eq] at h1 h2 ⊢
    rcases h1 with h1 | ⟨rfl, h1⟩
    · rcases h2 with h2 | ⟨rfl, _⟩
      · left; omega
      · left; exact h1
    · rcases h2 with h2 | ⟨rfl, h2⟩
      · left; exact h2
      · right; exact ⟨rfl, ltBytes_trans as bs cs h1 h2⟩

theorem sortedStrict_head_lt : ∀ (a : List Nat) (l : List (List Nat)), sortedStrict (a :: l) = true →
    ∀ b ∈ l, ltBytes a b = true
  | _, [], _, b, hb => by simp at hb
  | a, x :: rest, h, b, hb => by
    simp only [sortedStrict, Bool.and_eq_true] at h
    simp only [List.mem_cons] at hb
    rcases hb with rfl | hb
    · exact h.1
    · exact ltBytes_trans a x b h.1 (sortedStrict_head_lt x rest h.2 b hb)

theorem sortedStrict_tail : ∀ (a : List Nat) (l : List (List Nat)), sortedStrict (a :: l) = true → sortedStrict l = true
  | _, [], _ => rfl
  | _, _ :: _, h => by simp only [sortedStrict, Bool.and_eq_true] at h; exact h.2

theorem nodup_of_sortedStrict : ∀ (l : List (List Nat)), sortedStrict l = true → l.Nodup
  | [], _ => List.nodup_nil
  | a :: l, h => by
    rw [List.nodup_cons]
    refine ⟨?_, nodup_of_sortedStrict l (sortedStrict_tail a l h)⟩
    intro hmem
    have := sortedStrict_head_lt a l h a hmem
    rw [ltBytes_irrefl] at this
    exact Bool.false_ne_true this

/-- no domain appears twice in the compiled table, hence no domain has two classes -/
theorem names_distinct : (Gen.tldTable.map (·.1)).Nodup := nodup_of_sortedStrict _ names_sorted

/-- entries are lower-case LDH strings (lower-case A-labels), never empty -/
theorem names_lower_alabel : Gen.tldTable.all (fun r => !r.1.isEmpty && r.1.all (fun c => isLower c || isDigit c || c == 45)) = true := by
  decide +kernel

/-- every `length` field is `strlen + 1`, every class is one of the nine TLD classes -/
theorem lengths_and_types : Gen.tldTable.all (fun r => r.2.1 == r.1.length + 1 && decide (1 ≤ r.2.2) && decide (r.2.2 ≤ 9)) = true := by
  decide +kernel

/-- raw.csv and punycode.csv have the same number of rows and agree on every all-ASCII domain … -/
theorem same_rows : Gen.csvRaw.length = Gen.csvPuny.length := by decide +kernel
theorem ascii_rows_equal :
    (List.zip Gen.csvRaw Gen.csvPuny).all (fun p => !(p.1.1.all (· < 128)) || p.1.1 == p.2.1) = true := by decide +kernel
theorem types_equal : Gen.csvRaw.map (·.2) = Gen.csvPuny.map (·.2.1) := by decide +kernel

/-- … and data/tld-domains.txt, the list the test-suite iterates over, is `name.name` for every raw.csv row -/
theorem domains_txt_eq : Gen.tldDomainsTxt = Gen.csvRaw.map (fun r => r.1 ++ 46 :: r.1) := by decide +kernel

end Eav.Props.C11
