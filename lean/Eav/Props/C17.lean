import Eav.Model
import Eav.Props.C04
import Eav.Props.C03
import Eav.Props.C01
import Eav.Props.Tie.Build
import Eav.Props.Tie.Scanners
/-!
# C17 — build options change exactly what they document and nothing else

`Build` carries the three make options.  The Makefile defaults (all OFF) and the option → macro mapping are
`GenTie.buildOpts_eq`; the `case` lists per option are `GenTie.specials_eq`.
-/
namespace Eav.Props.C17
open Eav Eav.Spec

/-! ### each option leaves every other decision unchanged (by construction of the code, mirrored in the model) -/

/-- the scanners of modes 822 / 5321 / 5322 do not look at any option -/
theorem ascii_locals_ignore_options (b b' : Build) (m : Mode) (hm : m ≠ .m6531) (L : List Nat) :
    localOf b m L = localOf b' m L := by
  cases m <;> first | rfl | exact absurd rfl hm

/-- no local-part function looks at `LABELS_ALLOW_UNDERSCORE` -/
theorem locals_ignore_underscore (b : Build) (u : Bool) (m : Mode) (L : List Nat) :
    localOf { b with underscore := u } m L = localOf b m L := by
  cases m <;> rfl

/-- no host-name function looks at the two local-part options -/
theorem domain_ignores_local_options (b : Build) (x y : Bool) (s after : List Nat) :
    isAsciiDomain ({ b with rfc20 := x, rfc5322 := y } : Build).underscore s after = isAsciiDomain b.underscore s after := rfl

/-- **LABELS_ALLOW_UNDERSCORE accepts exactly the host names that are valid when `_` counts as a letter** -/
theorem underscore_iff (s : List Nat) (hn : NulFree s) : isAsciiDomain true s [0] = .ok 0 ↔ HostOk true s :=
  C04.host_iff true s hn

/-- … and a host name valid without the option stays valid with it -/
theorem underscore_monotone (s : List Nat) (h : HostOk false s) : HostOk true s := by
  obtain ⟨labels, root, h1, h2, h3, h4, h5, h6⟩ := h
  refine ⟨labels, root, h1, h2, ?_, h4, h5, h6⟩
  intro l hl
  have := h3 l hl
  simp only [okLabel, Bool.and_eq_true, List.all_eq_true, letDig] at this ⊢
  refine ⟨⟨⟨this.1.1.1, fun c hc => ?_⟩, this.1.2⟩, this.2⟩
  have := this.1.1.2 c hc
  simp at this ⊢
  rcases this with h | h
  · exact Or.inl (Or.inl h)
  · exact Or.inr h

/-! ### RFC6531_FOLLOW_RFC5322: pure-ASCII local parts are judged as mode 5322 judges them (same return code) -/

theorem rfc5322_ascii_loop (r20 : Bool) : ∀ (n : Nat) (cs : List Nat), cs.length ≤ n → (∀ c ∈ cs, c < 128 ∧ c ≠ 0) →
    (r20 = true → ∀ c ∈ cs, rfc20set.contains c = false) →
    ∀ (prev : Option Nat) (q qp : Bool),
    loc6531Loop { rfc20 := r20, rfc5322 := true } prev q qp cs = loc5322Loop prev q qp cs := by
  intro n
  induction n with
  | zero =>
    intro cs h _ _ prev q qp
    have : cs = [] := List.length_eq_zero_iff.mp (by omega)
    subst this
    rw [loc6531Loop.eq_def]; simp [decodeNext, loc5322Loop]
  | succ n ih =>
    intro cs h hasc h20 prev q qp
    cases cs with
    | nil => rw [loc6531Loop.eq_def]; simp [decodeNext, loc5322Loop]
    | cons c cs =>
      obtain ⟨hlt, h0⟩ := hasc c (by simp)
      have hasc' : ∀ d ∈ cs, d < 128 ∧ d ≠ 0 := fun d hd => hasc d (by simp [hd])
      have h20' : r20 = true → ∀ d ∈ cs, rfc20set.contains d = false := fun hr d hd => h20 hr d (by simp [hd])
      have hd : decodeNext (c :: cs) = .ch c cs := by simp [decodeNext, hlt]
      have hl : cs.length ≤ n := by simp at h; omega
      have hhi : ¬ c > 127 := by omega
      have h0' : (c == 0) = false := by simpa using h0
      have hex : (specials.contains c || (if r20 = true then rfc20set else []).contains c) = (specials.contains c || ([] : List Nat).contains c) := by
        cases r20 with
        | false => simp
        | true =>
          have := h20 rfl c (by simp)
          simp only [if_true, this, List.contains_nil]
      have hunq : unquotedStep (if r20 = true then rfc20set else []) prev c cs = unquotedStep [] prev c cs := by
        unfold unquotedStep
        rw [hex]
      rw [loc6531Loop.eq_def]
      split
      · rename_i h'; rw [hd] at h'; cases h'
      · rename_i h'; rw [hd] at h'; cases h'
      · rename_i c' rest h'
        rw [hd] at h'; cases h'
        unfold loc5322Loop
        simp only [hhi, if_false, h0', Bool.false_eq_true, Bool.not_true, Bool.false_and, Bool.true_and, List.head?_cons, hunq]
        have IH := fun p q' qp' => ih cs hl hasc' h20' p q' qp'
        cases q with
        | false =>
          simp only [Bool.not_false, if_true, Bool.false_eq_true, if_false]
          split
          · rfl
          · split
            · rfl
            · exact IH _ _ _
        | true =>
          simp only [Bool.not_true, Bool.false_eq_true, if_false]
          cases qp with
          | true => simp only [if_true]; exact IH _ _ _
          | false =>
            simp only [Bool.false_eq_true, if_false]
            by_cases h34 : (c == 34) = true
            · simp only [h34, if_true]
              split
              · exact IH _ _ _
              · rfl
            · simp only [h34, Bool.false_eq_true, if_false]
              by_cases h92 : (c == 92) = true
              · simp only [h92, if_true]; exact IH _ _ _
              · simp only [h92, Bool.false_eq_true, if_false]
                by_cases hb : blanks.contains c = true
                · simp only [hb, if_true]
                  cases cs with
                  | nil =>
                    simp only [List.head?_nil]
                    cases prev with
                    | none => simp only [Bool.false_eq_true, if_false]; exact IH _ _ _
                    | some p => simp only; split <;> exact IH _ _ _
                  | cons d ds =>
                    have hdl : d < 128 := (hasc' d (by simp)).1
                    have hdd : decide (d > 127) = false := by simp; omega
                    simp only [List.head?_cons, hdd, Bool.false_or]
                    cases prev with
                    | none =>
                      simp only [Bool.false_eq_true, if_false]
                      split
                      · exact IH _ _ _
                      · rfl
                    | some p =>
                      simp only
                      by_cases hw : wsq.contains p = true
                      · simp only [hw, if_true]; exact IH _ _ _
                      · simp only [hw, Bool.false_eq_true, if_false]
                        split
                        · exact IH _ _ _
                        · rfl
                · simp only [hb, Bool.false_eq_true, if_false]; exact IH _ _ _

/-- **RFC6531_FOLLOW_RFC5322 makes mode 6531 judge pure-ASCII local parts as mode 5322 does** — same return code -/
theorem rfc5322_ascii (s : List Nat) (hasc : ∀ c ∈ s, c < 128 ∧ c ≠ 0) :
    is6531Local { rfc20 := false, rfc5322 := true } s = is5322Local s := by
  unfold is6531Local is5322Local
  split
  · rfl
  · exact rfc5322_ascii_loop false _ s (Nat.le_refl _) hasc (fun h => by cases h) none false false

/-- well-formed UTF-8 stays necessary in every build -/
theorem utf8_necessary (lb : LBuild) : ∀ (n : Nat) (inp : List Nat), inp.length ≤ n → ∀ (prev : Option Nat) (q qp : Bool),
    loc6531Loop lb prev q qp inp = 0 → ∃ cps, decAll inp = some cps := by
  intro n
  induction n with
  | zero =>
    intro inp h _ _ _ _
    have : inp = [] := List.length_eq_zero_iff.mp (by omega)
    subst this; exact ⟨[], decAll_nil⟩
  | succ n ih =>
    intro inp h prev q qp h0
    rw [loc6531Loop.eq_def] at h0
    split at h0
    · rename_i hd; exact ⟨[], decAll_fin hd⟩
    · exact absurd h0 (by decide)
    · rename_i c rest hd
      have hl : rest.length ≤ n := by have := decodeNext_length hd; omega
      have step : (∃ cps', decAll rest = some cps') → ∃ cps, decAll inp = some cps := by
        rintro ⟨cps', hc⟩
        exact ⟨c :: cps', by rw [decAll_step hd, hc]; rfl⟩
      simp only at h0
      repeat' split at h0
      all_goals first
        | exact step (ih _ hl _ _ _ h0)
        | exact absurd h0 (by decide)
        | (rename_i e he; subst h0; have := C01.unq_err_neg he; omega)

theorem utf8_necessary_all_builds (lb : LBuild) (s : List Nat) (h : is6531Local lb s = 0) : IsUtf8 s := by
  unfold is6531Local at h
  split at h
  · exact absurd h (by decide)
  · obtain ⟨cps, hc⟩ := utf8_necessary lb _ s (Nat.le_refl _) none false false h
    exact ⟨cps, (decAll_iff s cps).mp hc⟩

/-! ### RFC6531_FOLLOW_RFC20 touches only local parts that contain one of `# ^ ` { | } ~` -/

theorem rfc20_no_effect_loop (r5322 : Bool) : ∀ (n : Nat) (inp : List Nat), inp.length ≤ n →
    (∀ c ∈ inp, rfc20set.contains c = false) → ∀ (prev : Option Nat) (q qp : Bool),
    loc6531Loop { rfc20 := true, rfc5322 := r5322 } prev q qp inp = loc6531Loop { rfc20 := false, rfc5322 := r5322 } prev q qp inp := by
  intro n
  induction n with
  | zero =>
    intro inp h _ prev q qp
    have : inp = [] := List.length_eq_zero_iff.mp (by omega)
    subst this
    rw [loc6531Loop.eq_def, loc6531Loop.eq_def (b := { rfc20 := false, rfc5322 := r5322 })]; simp [decodeNext]
  | succ n ih =>
    intro inp h hno prev q qp
    rw [loc6531Loop.eq_def, loc6531Loop.eq_def (b := { rfc20 := false, rfc5322 := r5322 })]
    cases hd : decodeNext inp with
    | fin => rfl
    | err => rfl
    | ch c rest =>
      have hl : rest.length ≤ n := by have := decodeNext_length hd; omega
      obtain ⟨_, hs⟩ := decodeNext_sound hd
      have hrest : ∀ d ∈ rest, rfc20set.contains d = false := fun d hd' => hno d (by rw [hs]; simp [hd'])
      have IH := fun p q' qp' => ih rest hl hrest p q' qp'
      have hunq : c ≤ 127 → unquotedStep rfc20set prev c rest = unquotedStep [] prev c rest := by
        intro hle
        have hc : c ∈ inp := by
          have hlt : c < 128 := by omega
          rw [hs]; simp [utf8Enc, hlt]
        have := hno c hc
        unfold unquotedStep
        simp only [this, List.contains_nil]
        rfl
      simp only [IH]
      by_cases hhi : c > 127
      · simp only [hhi, if_true]
      · simp only [hhi, if_false, Bool.false_eq_true, if_true]
        rw [hunq (by omega)]

/-- the option changes nothing for a local part that contains none of the seven characters (same return code) -/
theorem rfc20_no_effect (r5322 : Bool) (s : List Nat) (h : ∀ c ∈ s, rfc20set.contains c = false) :
    is6531Local { rfc20 := true, rfc5322 := r5322 } s = is6531Local { rfc20 := false, rfc5322 := r5322 } s := by
  unfold is6531Local
  split
  · rfl
  · exact rfc20_no_effect_loop r5322 _ s (Nat.le_refl _) h none false false

/-- the default build has all three options off, and `ON` is what switches each one on -/
theorem defaults_off : Gen.buildOpts.all (fun o => o.2.1 == "OFF" && o.2.2.1 == "ON" && o.2.2.2 == o.1) = true := by decide

end Eav.Props.C17
