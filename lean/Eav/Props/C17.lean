import Eav.Model
import Eav.Props.C04
import Eav.Props.C03
import Eav.Props.C01
import Eav.Props.Tie.Build
import Eav.Props.Tie.Scanners
/-!
# C17 — build options change exactly what they document and nothing else

`Build` carries the three make options.  The Makefile defaults (all OFF) and the option → macro mapping are
`GenTie.buildOpts_eq`; the `case` lists per option are `GenTie.specials_eq`.
-/
namespace Eav.Props.C17
open Eav Eav.Spec

/-! ### each option leaves every other decision unchanged (by construction of the code, mirrored in the model) -/

/-- the scanners of modes 822 / 5321 / 5322 do not look at any option -/
theorem ascii_locals_ignore_options (b b' : Build) (m : Mode) (hm : m ≠ .m6531) (L : List Nat) :
    localOf b m L = localOf b' m L := by
  cases m <;> first | rfl | exact absurd rfl hm

/-- no local-part function looks at `LABELS_ALLOW_UNDERSCORE` -/
theorem locals_ignore_underscore (b : Build) (u : Bool) (m : Mode) (L : List Nat) :
    localOf { b with underscore := u } m L = localOf b m L := by
  cases m <;> rfl

/-- no host-name function looks at the two local-part options -/
theorem domain_ignores_local_options (b : Build) (x y : Bool) (s after : List Nat) :
    isAsciiDomain ({ b with rfc20 := x, rfc5322 := y } : Build).underscore s after = isAsciiDomain b.underscore s after := rfl

/-- **LABELS_ALLOW_UNDERSCORE accepts exactly the host names that are valid when `_` counts as a letter** -/
theorem underscore_iff (s : List Nat) (hn : NulFree s) : isAsciiDomain true s [0] = .ok 0 ↔ HostOk true s :=
  C04.host_iff true s hn

/-- … and a host name valid without the option stays valid with it -/
theorem underscore_monotone (s : List Nat) (h : HostOk false s) : HostOk true s := by
  obtain ⟨labels, root, h1, h2, h3, h4, h5, h6⟩ := h
  refine ⟨labels, root, h1, h2, ?_, h4, h5, h6⟩
  intro l hl
  have := h3 l hl
  simp only [okLabel, Bool.and_eq_true, List.all_eq_true, letDig] at this ⊢
  refine ⟨⟨⟨this.1.1.1, fun c hc => ?_⟩, this.1.2⟩, this.2⟩
  have := this.1.1.2 c hc
  simp at this ⊢
  rcases this with h | h
  · exact Or.inl (Or.inl h)
  · exact Or.inr h

/-! ### RFC6531_FOLLOW_RFC5322: pure-ASCII local parts are judged as mode 5322 judges them (same return code) -/

theorem rfc5322_ascii_loop (r20 : Bool) : ∀ (n : Nat) (cs : List Nat), cs.length ≤ n → (∀ c ∈ cs, c < 128 ∧ c ≠ 0) →
    (r20 = true → ∀ c ∈ cs, rfc20set.contains c = false) →
    ∀ (prev : Option Nat) (q qp : Bool),
    loc6531Loop { rfc20 := r20, rfc5322 := true } prev q qp cs = loc5322Loop prev q qp cs := by
  intro n
  induction n with
  | zero =>
    intro cs h _ _ prev q qp
    have : cs = [] := List.length_eq_zero_iff.mp (by omega)
    subst this
    rw [loc6531Loop.eq_def]; simp [decodeNext, loc5322Loop]
  | succ n ih =>
    intro cs h hasc h20 prev q qp
    cases cs with
    | nil => rw [loc6531Loop.eq_def]; simp [decodeNext, loc5322Loop]
    | cons c cs =>
      obtain ⟨hlt, h0⟩ := hasc c (by simp)
      have hasc' : ∀ d ∈ cs, d < 128 ∧ d ≠ 0 := fun d hd => hasc d (by simp [hd])
      have h20' : r20 = true → ∀ d ∈ cs, rfc20set.contains d = false := fun hr d hd => h20 hr d (by simp [hd])
      have hd : decodeNext (c :: cs) = .ch c cs := by simp [decodeNext, hlt]
      have hl : cs.length ≤ n := by simp at h; omega
      have hhi : ¬ c > 127 := by omega
      have h0' : (c == 0) = false := by simpa using h0
      have hex : (specials.contains c || (if r20 = true then rfc20set else []).contains c) = (specials.contains c || ([] : List Nat).contains c) := by
        cases r20 with
        | false => simp
        | true =>
          have := h20 rfl c (by simp)
          simp only [if_true, this, List.contains_nil]
      have hunq : unquotedStep (if r20 = true then rfc20set else []) prev c cs = unquotedStep [] prev c cs := by
        unfold unquotedStep
        rw [hex]
      rw [loc6531Loop.eq_def]
      split
      · rename_i h'; rw [hd] at h'; cases h'
      · rename_i h'; rw [hd] at h'; cases h'
      · rename_i c' rest h'
        rw [hd] at h'; cases h'
        unfold loc5322Loop
        simp only [hhi, if_false, h0', Bool.false_eq_true, Bool.not_true, Bool.false_and, Bool.true_and, List.head?_cons, hunq]
        have IH := fun p q' qp' => ih cs hl hasc' h20' p q' qp'
        cases q with
        | false =>
          simp only [Bool.not_false, if_true, Bool.false_eq_true, if_false]
          split
          · rfl
          · split
            · rfl
            · exact IH _ _ _
        | true =>
          simp only [Bool.not_true, Bool.false_eq_true, if_false]
          cases qp with
          | true => simp only [if_true]; exact IH _ _ _
          | false =>
            simp only [Bool.false_eq_true, if_false]
            by_cases h34 : (c == 34) = true
            · simp only [h34, if_true]
              split
              · exact IH _ _ _
              · rfl
            · simp only [h34, Bool.false_eq_true, if_false]
              by_cases h92 : (c == 92) = true
              · simp only [h92, if_true]; exact IH _ _ _
              · simp only [h92, Bool.false_eq_true, if_false]
                by_cases hb : blanks.contains c = true
                · simp only [hb, if_true]
                  cases cs with
                  | nil =>
                    simp only [List.head?_nil]
                    cases prev with
                    | none => simp only [Bool.false_eq_true, if_false]; exact IH _ _ _
                    | some p => simp only; split <;> exact IH _ _ _
                  | cons d ds =>
                    have hdl : d < 128 := (hasc' d (by simp)).1
                    have hdd : decide (d > 127) = false := by simp; omega
                    simp only [List.head?_cons, hdd, Bool.false_or]
                    cases prev with
                    | none =>
                      simp only [Bool.false_eq_true, if_false]
                      split
                      · exact IH _ _ _
                      · rfl
                    | some p =>
                      simp only
                      by_cases hw : wsq.contains p = true
                      · simp only [hw, if_true]; exact IH _ _ _
                      · simp only [hw, Bool.false_eq_true, if_false]
                        split
                        · exact IH _ _ _
                        · rfl
                · simp only [hb, Bool.false_eq_true, if_false]; exact IH _ _ _

/-- **RFC6531_FOLLOW_RFC5322 makes mode 6531 judge pure-ASCII local parts as mode 5322 does** — same return code -/
theorem rfc5322_ascii (s : List Nat) (hasc : ∀ c ∈ s, c < 128 ∧ c ≠ 0) :
    is6531Local { rfc20 := false, rfc5322 := true } s = is5322Local s := by
  unfold is6531Local is5322Local
  split
  · rfl
  · exact rfc5322_ascii_loop false _ s (Nat.le_refl _) hasc (fun h => by cases h) none false false

/-- well-formed UTF-8 stays necessary in every build -/
theorem utf8_necessary (lb : LBuild) : ∀ (n : Nat) (inp : List Nat), inp.length ≤ n → ∀ (prev : Option Nat) (q qp : Bool),
    loc6531Loop lb prev q qp inp = 0 → ∃ cps, decAll inp = some cps := by
  intro n
  induction n with
  | zero =>
    intro inp h _ _ _ _
    have : inp = [] := List.length_eq_zero_iff.mp (by omega)
    subst this; exact ⟨[], decAll_nil⟩
  | succ n ih =>
    intro inp h prev q qp h0
    rw [loc6531Loop.eq_def] at h0
    split at h0
    · rename_i hd; exact ⟨[], decAll_fin hd⟩
    · exact absurd h0 (by decide)
    · rename_i c rest hd
      have hl : rest.length ≤ n := by have := decodeNext_length hd; omega
      have step : (∃ cps', decAll rest = some cps') → ∃ cps, decAll inp = some cps := by
        rintro ⟨cps', hc⟩
        exact ⟨c :: cps', by rw [decAll_step hd, hc]; rfl⟩
      simp only at h0
      repeat' split at h0
      all_goals first
        | exact step (ih _ hl _ _ _ h0)
        | exact absurd h0 (by decide)
        | (rename_i e he; subst h0; have := C01.unq_err_neg he; omega)

theorem utf8_necessary_all_builds (lb : LBuild) (s : List Nat) (h : is6531Local lb s = 0) : IsUtf8 s := by
  unfold is6531Local at h
  split at h
  · exact absurd h (by decide)
  · obtain ⟨cps, hc⟩ := utf8_necessary lb _ s (Nat.le_refl _) none false false h
    exact ⟨cps, (decAll_iff s cps).mp hc⟩

/-! ### RFC6531_FOLLOW_RFC20 touches only local parts that contain one of `# ^ ` { | } ~` -/

theorem rfc20_no_effect_loop (r5322 : Bool) : ∀ (n : Nat) (inp : List Nat), inp.length ≤ n →
    (∀ c ∈ inp, rfc20set.contains c = false) → ∀ (prev : Option Nat) (q qp : Bool),
    loc6531Loop { rfc20 := true, rfc5322 := r5322 } prev q qp inp = loc6531Loop { rfc20 := false, rfc5322 := r5322 } prev q qp inp := by
  intro n
  induction n with
  | zero =>
    intro inp h _ prev q qp
    have : inp = [] := List.length_eq_zero_iff.mp (by omega)
    subst this
    rw [loc6531Loop.eq_def, loc6531Loop.eq_def (b := { rfc20 := false, rfc5322 := r5322 })]; simp [decodeNext]
  | succ n ih =>
    intro inp h hno prev q qp
    rw [loc6531Loop.eq_def, loc6531Loop.eq_def (b := { rfc20 := false, rfc5322 := r5322 })]
    cases hd : decodeNext inp with
    | fin => rfl
    | err => rfl
    | ch c rest =>
      have hl : rest.length ≤ n := by have := decodeNext_length hd; omega
      obtain ⟨_, hs⟩ := decodeNext_sound hd
      have hrest : ∀ d ∈ rest, rfc20set.contains d = false := fun d hd' => hno d (by rw [hs]; simp [hd'])
      have IH := fun p q' qp' => ih rest hl hrest p q' qp'
      have hunq : c ≤ 127 → unquotedStep rfc20set prev c rest = unquotedStep [] prev c rest := by
        intro hle
        have hc : c ∈ inp := by
          have hlt : c < 128 := by omega
          rw [hs]; simp [utf8Enc, hlt]
        have := hno c hc
        unfold unquotedStep
        simp only [this, List.contains_nil]
        rfl
      simp only [IH]
      by_cases hhi : c > 127
      · simp only [hhi, if_true]
      · simp only [hhi, if_false, Bool.false_eq_true, if_true]
        rw [hunq (by omega)]

/-- the option changes nothing for a local part that contains none of the seven characters (same return code) -/
theorem rfc20_no_effect (r5322 : Bool) (s : List Nat) (h : ∀ c ∈ s, rfc20set.contains c = false) :
    is6531Local { rfc20 := true, rfc5322 := r5322 } s = is6531Local { rfc20 := false, rfc5322 := r5322 } s := by
  unfold is6531Local
  split
  · rfl
  · exact rfc20_no_effect_loop r5322 _ s (Nat.le_refl _) h none false false


/-! ### RFC6531_FOLLOW_RFC20 rejects exactly the local parts having one of the seven characters outside quotes -/

/-- "one of `ex` occurs outside quotes": a quoted run starts at `"` and ends at the next `"` that is not escaped
by a backslash (state: inside quotes, after a backslash) -/
def outsideHit (ex : List Nat) : Bool → Bool → List Nat → Bool
  | _, _, [] => false
  | q, esc, c :: cs =>
    if !q then (if c == 34 then outsideHit ex true false cs else ex.contains c || outsideHit ex false false cs)
    else if esc then outsideHit ex true false cs
    else if c == 34 then outsideHit ex false false cs
    else if c == 92 then outsideHit ex true true cs
    else outsideHit ex true false cs

theorem utf8Enc_high {c : Nat} (h : c > 127) : ∀ b ∈ utf8Enc c, b ≥ 128 := by
  intro b hb
  unfold utf8Enc at hb
  have h1 : ¬ c < 128 := by omega
  simp only [h1, if_false] at hb
  split at hb
  · simp at hb; omega
  · split at hb
    · simp at hb; omega
    · simp at hb; omega

theorem outsideHit_high (q : Bool) : ∀ (hi rest : List Nat), (∀ b ∈ hi, b ≥ 128) →
    outsideHit rfc20set q false (hi ++ rest) = outsideHit rfc20set q false rest
  | [], _, _ => rfl
  | b :: hi, rest, h => by
    have hb : b ≥ 128 := h b (by simp)
    have ih := outsideHit_high q hi rest (fun x hx => h x (by simp [hx]))
    have h34 : (b == 34) = false := by simp; omega
    have h92 : (b == 92) = false := by simp; omega
    have hex : rfc20set.contains b = false := by
      simp only [rfc20set, List.contains_cons, List.contains_nil, Bool.or_false, Bool.or_eq_false_iff, beq_eq_false_iff_ne, ne_eq]
      omega
    cases q with
    | false =>
      simp only [List.cons_append, outsideHit, Bool.not_false, if_true, h34, Bool.false_eq_true, if_false, hex, Bool.false_or]
      exact ih
    | true =>
      simp only [List.cons_append, outsideHit, Bool.not_true, Bool.false_eq_true, if_false, h34, h92]
      exact ih

theorem unq_indep (ex : List Nat) (prev : Option Nat) (c : Nat) (rest : List Nat)
    (h : (c == 34 || c == 46 || specials.contains c) = true) : unquotedStep ex prev c rest = unquotedStep [] prev c rest := by
  unfold unquotedStep
  by_cases h34 : (c == 34) = true
  · simp only [h34, if_true]
  · by_cases h46 : (c == 46) = true
    · simp only [h34, h46, if_true, Bool.false_eq_true, if_false]
    · have hsp : specials.contains c = true := by simpa [h34, h46] using h
      simp only [h34, h46, Bool.false_eq_true, if_false, hsp, Bool.true_or, if_true]

theorem unq_plain (ex : List Nat) (prev : Option Nat) (c : Nat) (rest : List Nat)
    (h : (c == 34 || c == 46 || specials.contains c) = false) :
    unquotedStep ex prev c rest = if ex.contains c then .error (-(E.LPART_SPECIAL : Int)) else .ok false := by
  simp only [Bool.or_eq_false_iff] at h
  unfold unquotedStep
  simp only [h.1.1, h.1.2, h.2, Bool.false_eq_true, if_false, Bool.false_or]

theorem unq_ok_q {prev : Option Nat} {c : Nat} {rest : List Nat} {q' : Bool} (h : unquotedStep [] prev c rest = .ok q') :
    q' = (c == 34) := by
  unfold unquotedStep at h
  by_cases h34 : (c == 34) = true
  · simp only [h34, if_true] at h
    split at h
    · cases h; exact h34.symm
    · cases h
  · simp only [h34, Bool.false_eq_true, if_false] at h
    have h34' : (c == 34) = false := by simpa using h34
    rw [h34']
    repeat' split at h
    all_goals first | (cases h; rfl) | cases h

theorem specials_not_rfc20 {c : Nat} (h : (c == 46 || specials.contains c) = true) : rfc20set.contains c = false := by
  simp only [specials, rfc20set, List.contains_cons, List.contains_nil, Bool.or_false, Bool.or_eq_true, beq_iff_eq,
    Bool.or_eq_false_iff, beq_eq_false_iff_ne, ne_eq] at h ⊢
  omega

theorem rfc20_exact_loop (r5322 : Bool) : ∀ (n : Nat) (inp : List Nat), inp.length ≤ n →
    ∀ (prev : Option Nat) (q qp : Bool), (q = false → qp = false) →
    (loc6531Loop { rfc20 := true, rfc5322 := r5322 } prev q qp inp = 0 ↔
      loc6531Loop { rfc20 := false, rfc5322 := r5322 } prev q qp inp = 0 ∧ outsideHit rfc20set q qp inp = false) := by
  intro n
  induction n with
  | zero =>
    intro inp h prev q qp _
    have : inp = [] := List.length_eq_zero_iff.mp (by omega)
    subst this
    rw [loc6531Loop.eq_def, loc6531Loop.eq_def (b := { rfc20 := false, rfc5322 := r5322 })]
    simp [decodeNext, outsideHit]
  | succ n ih =>
    intro inp h prev q qp hinv
    have rej : ∀ {e : Int} {P : Prop}, e < 0 → (e = 0 ↔ e = 0 ∧ P) := by
      intro e P he
      constructor <;> intro hh
      · omega
      · omega
    rw [loc6531Loop.eq_def, loc6531Loop.eq_def (b := { rfc20 := false, rfc5322 := r5322 })]
    cases hd : decodeNext inp with
    | fin =>
      have := decodeNext_fin hd; subst this
      simp [outsideHit]
    | err => simp only; exact rej (by decide)
    | ch c rest =>
      have hl : rest.length ≤ n := by have := decodeNext_length hd; omega
      obtain ⟨_, hs⟩ := decodeNext_sound hd
      have IH := fun p q' qp' hi => ih rest hl p q' qp' hi
      simp only
      by_cases hhi : c > 127
      · -- a non-ASCII character: never one of the seven, never a quote or a backslash
        simp only [hhi, if_true]
        cases qp with
        | true => simp only [if_true]; exact rej (by decide)
        | false =>
          simp only [Bool.false_eq_true, if_false]
          rw [IH _ q false hinv, hs, outsideHit_high q _ rest (utf8Enc_high hhi)]
      · have hlt : c < 128 := by omega
        have hinp : inp = c :: rest := by rw [hs]; simp [utf8Enc, hlt]
        simp only [hhi, if_false]
        by_cases hc1 : (!r5322 && isCntrl c) = true
        · simp only [hc1, if_true]; exact rej (by decide)
        · simp only [hc1, Bool.false_eq_true, if_false]
          cases q with
          | false =>
            have hqp : qp = false := hinv rfl
            subst hqp
            simp only [Bool.not_false, if_true, Bool.and_true]
            by_cases hc2 : (r5322 && isCntrl c) = true
            · simp only [hc2, if_true]; exact rej (by decide)
            · simp only [hc2, Bool.false_eq_true, if_false]
              rw [hinp]
              by_cases hA : (c == 34 || c == 46 || specials.contains c) = true
              · -- quote, dot or special: the option plays no part
                rw [unq_indep rfc20set prev c rest hA]
                cases hu : unquotedStep [] prev c rest with
                | error e => simp only; exact rej (C01.unq_err_neg hu)
                | ok q' =>
                  simp only
                  have hq' := unq_ok_q hu
                  by_cases h34 : (c == 34) = true
                  · rw [h34] at hq'; subst hq'
                    simp only [outsideHit, Bool.not_false, if_true, h34]
                    exact IH _ true false (fun h => by cases h)
                  · have h34' : (c == 34) = false := by simpa using h34
                    rw [h34'] at hq'; subst hq'
                    have hex : rfc20set.contains c = false := specials_not_rfc20 (by simpa [h34'] using hA)
                    simp only [outsideHit, Bool.not_false, if_true, h34', Bool.false_eq_true, if_false, hex, Bool.false_or]
                    exact IH _ false false (fun _ => rfl)
              · have hA' : (c == 34 || c == 46 || specials.contains c) = false := by simpa using hA
                rw [unq_plain rfc20set prev c rest hA', unq_plain [] prev c rest hA']
                have h34' : (c == 34) = false := by
                  simp only [Bool.or_eq_false_iff] at hA'; exact hA'.1.1
                by_cases hex : rfc20set.contains c = true
                · -- one of the seven, outside quotes: the option rejects, and this is a hit
                  simp only [hex, if_true, List.contains_nil, Bool.false_eq_true, if_false, outsideHit, Bool.not_false, h34',
                    Bool.true_or]
                  constructor <;> intro hh
                  · exact absurd hh (by decide)
                  · exact absurd hh.2 (by decide)
                · have hex' : rfc20set.contains c = false := by simpa using hex
                  simp only [hex', List.contains_nil, Bool.false_eq_true, if_false, outsideHit, Bool.not_false, if_true, h34',
                    Bool.false_or]
                  exact IH _ false false (fun _ => rfl)
          | true =>
            simp only [Bool.not_true, Bool.false_eq_true, if_false]
            rw [hinp]
            cases qp with
            | true =>
              simp only [if_true, outsideHit, Bool.not_true, Bool.false_eq_true, if_false]
              exact IH _ true false (fun h => by cases h)
            | false =>
              simp only [Bool.false_eq_true, if_false, outsideHit, Bool.not_true]
              by_cases h34 : (c == 34) = true
              · simp only [h34, if_true]
                by_cases hcl : closeOk rest = true
                · simp only [hcl, if_true]; exact IH _ false false (fun _ => rfl)
                · simp only [hcl, Bool.false_eq_true, if_false]; exact rej (by decide)
              · simp only [h34, Bool.false_eq_true, if_false]
                by_cases h92 : (c == 92) = true
                · simp only [h92, if_true]
                  exact IH _ true true (fun h => by cases h)
                · simp only [h92, Bool.false_eq_true, if_false]
                  have IHt := IH (some c) true false (fun h => by cases h)
                  by_cases hb : (r5322 && blanks.contains c) = true
                  · simp only [hb, if_true, List.head?_cons]
                    cases prev with
                    | none =>
                      simp only [Bool.false_eq_true, if_false]
                      cases hh : rest.head? with
                      | none => exact IHt
                      | some nx =>
                        simp only
                        by_cases hn : (decide (nx > 127) || wsq.contains nx) = true
                        · simp only [hn, if_true]; exact IHt
                        · simp only [hn, Bool.false_eq_true, if_false]; exact rej (by decide)
                    | some p =>
                      simp only
                      by_cases hw : wsq.contains p = true
                      · simp only [hw, if_true]; exact IHt
                      · simp only [hw, Bool.false_eq_true, if_false]
                        cases hh : rest.head? with
                        | none => exact IHt
                        | some nx =>
                          simp only
                          by_cases hn : (decide (nx > 127) || wsq.contains nx) = true
                          · simp only [hn, if_true]; exact IHt
                          · simp only [hn, Bool.false_eq_true, if_false]; exact rej (by decide)
                  · simp only [hb, Bool.false_eq_true, if_false, List.head?_cons]; exact IHt

/-- **RFC6531_FOLLOW_RFC20, exactly**: with the option a local part is accepted in mode 6531 iff it is accepted
without it and none of `# ^ ` { | } ~` occurs outside quotes -/
theorem rfc20_exact (r5322 : Bool) (s : List Nat) :
    is6531Local { rfc20 := true, rfc5322 := r5322 } s = 0 ↔
      (is6531Local { rfc20 := false, rfc5322 := r5322 } s = 0 ∧ outsideHit rfc20set false false s = false) := by
  unfold is6531Local
  split
  · constructor <;> intro hh
    · exact absurd hh (by decide)
    · exact absurd hh.1 (by decide)
  · exact rfc20_exact_loop r5322 _ s (Nat.le_refl _) none false false (fun _ => rfl)

example : outsideHit rfc20set false false [97, 35, 98] = true := by decide            -- a#b
example : outsideHit rfc20set false false [34, 97, 35, 98, 34] = false := by decide   -- "a#b"
example : outsideHit rfc20set false false [34, 92, 34, 35, 34] = false := by decide   -- "\"#"  (escaped quote does not close)

/-- the default build has all three options off, and `ON` is what switches each one on -/
theorem defaults_off : Gen.buildOpts.all (fun o => o.2.1 == "OFF" && o.2.2.1 == "ON" && o.2.2.2 == o.1) = true := by decide

end Eav.Props.C17
