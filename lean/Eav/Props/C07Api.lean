import Eav.Model
import Eav.Props.C01
import Eav.Props.C07
import Eav.Props.C09
/-!
# C07, seen from `check_tld` and from `eav_is_email`

`C07.lean` ties `is_tld` to the shipped CSV.  Here the same statement is carried up to the callers: `check_tld` classifies a
valid, non-reserved, multi-label host name by its WHOLE LAST label (and says "not fully qualified" when there is one label),
and `eav_is_email` leaves the same result record behind whatever the caller's `allow_tld` is — the mask decides whether a
class is acceptable, it never decides the class and never switches the table off.
-/
namespace Eav.Props.C07
open Eav Eav.Spec

theorem getLast_after_dot (pre last : List Nat) (hne : last ≠ []) : (pre ++ 46 :: last).getLast? = last.getLast? := by
  cases last with
  | nil => exact absurd rfl hne
  | cons x xs =>
    rw [List.getLast?_append, List.getLast?_cons_cons]
    cases h : (x :: xs).getLast? with
    | none => simp at h
    | some v => simp

/-- **classified by the whole last label, exactly as `data/punycode.csv` dictates**: a listed label gets its listed class, an
unlisted one `-EEAV_TLD_INVALID`; nothing in front of the last dot takes part -/
theorem classified_by_last_label (us : Bool) (pre last : List Nat) (h : HostOk us (pre ++ 46 :: last)) (hnd : 46 ∉ last) (hne : last ≠ [])
    (hres : reserved (pre ++ 46 :: last) = false) :
    checkTld (pre ++ 46 :: last) true =
      .ok (match Spec.csvClass Gen.csvPuny last with | some c => (c : Int) | none => -(E.TLD_INVALID : Int)) := by
  unfold checkTld
  have hnr : (pre ++ 46 :: last).getLast? ≠ some 46 := by
    rw [getLast_after_dot pre last hne]
    exact fun hh => hnd (List.mem_of_getLast? hh)
  rw [C09.special_iff_host us _ h hnr, hres]
  have hs : splitLast 46 (pre ++ 46 :: last) = some (pre, last) := (C01.splitLast_iff 46 _ _ _).mpr ⟨rfl, hnd⟩
  simp only [Bool.not_true, Bool.false_eq_true, if_false, hs]
  rw [isTld_eq_csv last hne]
  cases Spec.csvClass Gen.csvPuny last <;> rfl

/-- the part in front of the last dot is irrelevant: two valid non-reserved names with the same last label get the same class -/
theorem class_ignores_prefix (us : Bool) (p q last : List Nat) (hp : HostOk us (p ++ 46 :: last)) (hq : HostOk us (q ++ 46 :: last))
    (hnd : 46 ∉ last) (hne : last ≠ []) (rp : reserved (p ++ 46 :: last) = false) (rq : reserved (q ++ 46 :: last) = false) :
    checkTld (p ++ 46 :: last) true = checkTld (q ++ 46 :: last) true := by
  rw [classified_by_last_label us p last hp hnd hne rp, classified_by_last_label us q last hq hnd hne rq]

/-- a single non-reserved label is not fully qualified -/
theorem single_label_not_fqdn (us : Bool) (d : List Nat) (h : HostOk us d) (hnd : 46 ∉ d) (hres : reserved d = false) :
    checkTld d true = .ok (-(E.DOMAIN_NOT_FQDN : Int)) := by
  unfold checkTld
  have hnr : d.getLast? ≠ some 46 := fun hh => hnd (List.mem_of_getLast? hh)
  rw [C09.special_iff_host us _ h hnr, hres]
  have hs : splitLast 46 d = none := by
    cases hsp : splitLast 46 d with
    | none => rfl
    | some p =>
      obtain ⟨l, r⟩ := p
      have := (C01.splitLast_iff 46 d l r).mp hsp
      exact absurd (by rw [this.1]; simp) hnd
  simp only [Bool.not_true, Bool.false_eq_true, if_false, hs]

/-- the record a call leaves in the object -/
def recordOf (r : Except Fault (State × Int)) : Except Fault (Option Result) :=
  match r with
  | .error f => .error f
  | .ok (st, _) => .ok (st.obj.bind (·.result))

theorem verdict_fault_any_mask (k k' : Nat) (r : Result) :
    (∃ f, verdictOf k r = .error f) → verdictOf k' r = verdictOf k r := by
  intro ⟨f, hf⟩
  unfold verdictOf at hf ⊢
  by_cases h0 : (r.rc == 0) = true
  · simp [h0] at hf
  · by_cases hn : r.rc < 0
    · simp [h0, hn] at hf
    · simp only [h0, hn, if_false, Bool.false_eq_true] at hf ⊢
      cases hp : policyArm r.rc with
      | none => rfl
      | some p =>
        rw [hp] at hf
        obtain ⟨ec, bit⟩ := p
        simp only at hf
        split at hf <;> cases hf

/-- **the caller's `allow_tld` never reaches the classification**: with the object otherwise unchanged, every mask (all nine class
bits, more than all, none) leaves the same result record — class, flags — behind -/
theorem api_record_any_mask (b : Build) (conv : List Nat → Conv) (st : State) (e : EavT) (k : Nat) (email : List Nat)
    (h : st.obj = some e) :
    recordOf (eavIsEmail b conv { st with obj := some { e with allowTld := k } } email) = recordOf (eavIsEmail b conv st email) := by
  unfold eavIsEmail
  simp only [h]
  have hsel : selectedMode { e with allowTld := k } = selectedMode e := rfl
  split
  · rfl
  · rw [hsel]
    cases hm : selectedMode e with
    | error f => rfl
    | ok mode =>
      simp only
      cases hr : isEmail b conv mode email e.tldCheck with
      | error f => rfl
      | ok r =>
        simp only
        cases hv : verdictOf e.allowTld r with
        | error f =>
          rw [verdict_fault_any_mask e.allowTld k r ⟨f, hv⟩, hv]
        | ok v =>
          cases hv' : verdictOf k r with
          | error f =>
            have := verdict_fault_any_mask k e.allowTld r ⟨f, hv'⟩
            rw [hv, hv'] at this; cases this
          | ok v' =>
            obtain ⟨a, b', c⟩ := v; obtain ⟨a', b'', c'⟩ := v'
            rfl

/-- non-vacuity: `mail.iana.org` → generic (3), `x.comm` → invalid TLD, `localhostx` → not fully qualified; and `HostOk`, "not reserved"
hold of them -/
example : checkTld [109, 97, 105, 108, 46, 105, 97, 110, 97, 46, 111, 114, 103] true = .ok 3 ∧
          checkTld [120, 46, 99, 111, 109, 109] true = .ok (-26) ∧
          checkTld [108, 111, 99, 97, 108, 104, 111, 115, 116, 120] true = .ok (-23) ∧
          specHost false [120, 46, 99, 111, 109, 109] = true ∧ reserved [120, 46, 99, 111, 109, 109] = false := by
  decide +kernel

end Eav.Props.C07
