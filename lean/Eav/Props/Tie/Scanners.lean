import Eav.Model
import Eav.Gen.Enums
/-!
Translator tie (case lists of the scanners): data extracted from the source tree on this run equals what the model assumes.
Closed by kernel evaluation on `Eav/Gen/Enums.lean`, which `tools/extract.py` regenerates from /repo's
working tree before every build.  One module per topic, so that a change to one part of the tree only
breaks the obligations of the properties that rest on that part.
-/
namespace Eav.Props.GenTie
open Eav

/-- same bytes, whatever the order -/
def sameSet (a b : List Nat) : Bool := a.all b.contains && b.all a.contains

/-- the bytes each scanner refuses as "special" outside quotes, per scanner and per build option (probed on the code
compiled from the tree): exactly the model's `specials`, plus `rfc20set` under `RFC6531_FOLLOW_RFC20` -/
theorem specials_eq :
    (Gen.specialsCases.map fun e => (e.1, e.2.1)) =
      [("src/is_822_local.c", ""), ("src/is_5321_local.c", ""), ("src/is_5322_local.c", ""), ("src/is_6531_local.c", ""),
       ("src/is_6531_local.c", "RFC6531_FOLLOW_RFC20"), ("src/is_6531_local.c", "RFC6531_FOLLOW_RFC5322")] ∧
    ((Gen.specialsCases.map (·.2.2)).zip [specials, specials, specials, specials, specials ++ rfc20set, specials]).all
      (fun p => sameSet p.1 p.2) = true := by decide

end Eav.Props.GenTie
