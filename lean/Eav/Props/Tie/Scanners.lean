import Eav.Model
import Eav.Gen.Enums
/-!
Translator tie (case lists of the scanners): data extracted from the source tree on this run equals what the model assumes.
Closed by kernel evaluation on `Eav/Gen/Enums.lean`, which `tools/extract.py` regenerates from /repo's
working tree before every build.  One module per topic, so that a change to one part of the tree only
breaks the obligations of the properties that rest on that part.
-/
namespace Eav.Props.GenTie
open Eav

/-- the `case` lists returning EEAV_LPART_SPECIAL, per scanner and per build option -/
theorem specials_eq : Gen.specialsCases =
    [("src/is_822_local.c", "", specials), ("src/is_5321_local.c", "", specials), ("src/is_5322_local.c", "", specials),
     ("src/is_6531_local.c", "", specials), ("src/is_6531_local.c", "RFC6531_FOLLOW_RFC20", specials ++ rfc20set),
     ("src/is_6531_local.c", "RFC6531_FOLLOW_RFC5322", specials)] := by decide

end Eav.Props.GenTie
