import Eav.Model
import Eav.Gen.Enums
/-!
Translator tie (reserved-domain tables): data extracted from the source tree on this run equals what the model assumes.
Closed by kernel evaluation on `Eav/Gen/Enums.lean`, which `tools/extract.py` regenerates from /repo's
working tree before every build.  One module per topic, so that a change to one part of the tree only
breaks the obligations of the properties that rest on that part.
-/
namespace Eav.Props.GenTie
open Eav

/-- the tables are searched for any matching row, so their order does not matter: same rows -/
def sameRows (a b : List (List Nat × Nat)) : Bool := a.all b.contains && b.all a.contains && a.length == b.length
/-- the names the model assumes, as a set -/
def modelNames : List (List Nat) := (Eav.reservedTable.map (·.1)) ++ (Eav.exampleTable.map (·.1)) ++ [Eav.exampleLabel]
def sameNames (a b : List (List Nat)) : Bool := a.all b.contains && b.all a.contains
/-- `reserved[]` / `example[]` as written in the source, when they are written as `{ "name", len }` rows; whatever their
spelling, the string literals of the compiled function are exactly the model's names -/
theorem reserved_eq : (Gen.reservedTable = [] ∨ sameRows Gen.reservedTable Eav.reservedTable = true) ∧
    sameNames Gen.specialObjStrings modelNames = true := by decide
theorem example_eq : (Gen.exampleTable = [] ∨ sameRows Gen.exampleTable Eav.exampleTable = true) ∧
    sameNames Gen.specialObjStrings modelNames = true := by decide
/-- the `strncasecmp ("example", label, 8)` test and the two length filters, where the source spells them that way
(`([], 0)` / no entry otherwise: they are then covered by the correspondence alone) -/
theorem exampleLabel_eq : Gen.exampleLabel = (Eav.exampleLabel, 8) ∨ Gen.exampleLabel = ([], 0) := by decide
theorem lenFilter_eq : Gen.specialLenFilters.all (· == (4, 9, 6, 8)) = true := by decide

end Eav.Props.GenTie
