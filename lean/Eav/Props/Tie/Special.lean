import Eav.Model
import Eav.Gen.Enums
/-!
Translator tie (reserved-domain tables): data extracted from the source tree on this run equals what the model assumes.
Closed by kernel evaluation on `Eav/Gen/Enums.lean`, which `tools/extract.py` regenerates from /repo's
working tree before every build.  One module per topic, so that a change to one part of the tree only
breaks the obligations of the properties that rest on that part.
-/
namespace Eav.Props.GenTie
open Eav

/-- the tables are searched for any matching row, so their order does not matter: same rows -/
def sameRows (a b : List (List Nat × Nat)) : Bool := a.all b.contains && b.all a.contains && a.length == b.length
theorem reserved_eq : sameRows Gen.reservedTable Eav.reservedTable = true := by decide
theorem example_eq : sameRows Gen.exampleTable Eav.exampleTable = true := by decide
/-- the `strncasecmp ("example", label, 8)` test and the two length filters, where the source spells them that way
(`([], 0)` / no entry otherwise: they are then covered by the correspondence alone) -/
theorem exampleLabel_eq : Gen.exampleLabel = (Eav.exampleLabel, 8) ∨ Gen.exampleLabel = ([], 0) := by decide
theorem lenFilter_eq : Gen.specialLenFilters.all (· == (4, 9, 6, 8)) = true := by decide

end Eav.Props.GenTie
