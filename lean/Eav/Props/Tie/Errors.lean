import Eav.Model
import Eav.Gen.Enums
/-!
Translator tie (errors[]): data extracted from the source tree on this run equals what the model assumes.
Closed by kernel evaluation on `Eav/Gen/Enums.lean`, which `tools/extract.py` regenerates from /repo's
working tree before every build.  One module per topic, so that a change to one part of the tree only
breaks the obligations of the properties that rest on that part.
-/
namespace Eav.Props.GenTie
open Eav

/-- `errors[]`: 36 entries, each carrying the tag of its own index (where the source tags it at all), and the strings `eav_errstr` returns are
the strings of the initialiser (entry EEAV_IDN_ERROR is served from `idnmsg`) -/
theorem errors_tags : Gen.errorsSource.length = 36 ∧
    (Gen.errorsSource.zip (E.names.take 36)).all (fun p => p.1.2 == "" || p.1.2 == p.2) = true := by decide
theorem errors_runtime : ∀ i, i < 36 → i ≠ 2 → Gen.errorsRuntime[i]? = (Gen.errorsSource.map (·.1))[i]? := by decide
theorem errors_nonempty : Gen.errorsSource.all (fun p => p.1 != "") = true := by decide
theorem errors_distinct : (Gen.errorsSource.map (·.1)).Nodup := by decide

end Eav.Props.GenTie
