import Eav.Model
import Eav.Gen.Enums
/-!
Translator tie (eav_init and eav_setup): data extracted from the source tree on this run equals what the model assumes.
Closed by kernel evaluation on `Eav/Gen/Enums.lean`, which `tools/extract.py` regenerates from /repo's
working tree before every build.  One module per topic, so that a change to one part of the tree only
breaks the obligations of the properties that rest on that part.
-/
namespace Eav.Props.GenTie
open Eav

/-- `eav_init` writes every field of a poisoned `eav_t` … -/
theorem init_sets_all : Gen.initFieldsSet.all (·.2) = true := by decide
theorem init_fields : Gen.initFieldsSet.map (·.1) =
    ["rfc", "allow_tld", "tld_check", "utf8", "errcode", "idnmsg", "initialized", "utf8_cb", "ascii_cb", "result"] := by decide

/-- … with the values of the model's `eavInit` -/
theorem init_values : Gen.initValues =
    (match (eavInit {}).obj with
     | some e => [("rfc", e.rfc), ("allow_tld", (e.allowTld : Int)), ("tld_check", if e.tldCheck then 1 else 0),
                  ("utf8", if e.utf8 then 1 else 0), ("errcode", (e.errcode : Int)),
                  ("idnmsg_null", if e.idnmsg.isNone then 1 else 0), ("initialized", if e.initialized then 1 else 0),
                  ("utf8_cb_null", if e.utf8Cb then 0 else 1), ("ascii_cb_null", if e.asciiCb.isNone then 1 else 0),
                  ("result_null", if e.result.isNone then 1 else 0)]
     | none => []) := by decide

/-- what the model's `eav_setup` does for a raw `rfc` value, in the vocabulary of the dump -/
def setupRow (rfc : Int) : Int × Int × Int × String × String × Int :=
  match (eavInit {}).obj with
  | none => (rfc, -1, 0, "", "", 0)
  | some e0 =>
    match eavSetup .idn2 { obj := some { e0 with rfc := rfc } } with
    | .ok (st, rc) =>
      (match st.obj with
       | some e => (rfc, rc, if e.utf8 then 1 else 0,
                    match e.asciiCb with
                    | some .m822 => "is_822_email" | some .m5321 => "is_5321_email" | some .m5322 => "is_5322_email"
                    | some .m6531 => "other" | none => "unchanged",
                    if e.utf8Cb then "is_6531_email" else "unchanged", (e.errcode : Int))
       | none => (rfc, -1, 0, "", "", 0))
    | .error _ => (rfc, -1, 0, "", "", 0)

/-- `eav_setup` of the compiled library selects, for each mode and for invalid values, what the model says -/
theorem setup_eq : Gen.setupTable = [0, 1, 2, 3, -1, 4, 7, 1000].map setupRow := by decide

end Eav.Props.GenTie
