import Eav.Model
import Eav.Gen.Enums
/-!
Translator tie (enum values and limits): data extracted from the source tree on this run equals what the model assumes.
Closed by kernel evaluation on `Eav/Gen/Enums.lean`, which `tools/extract.py` regenerates from /repo's
working tree before every build.  One module per topic, so that a change to one part of the tree only
breaks the obligations of the properties that rest on that part.
-/
namespace Eav.Props.GenTie
open Eav

/-- `enum { EEAV_* }` of include/eav.h: names, order and values -/
theorem errEnum_eq : Gen.errEnum = (E.names.zip (List.range 37)).map (fun p => (p.1, (p.2 : Int))) := by decide

theorem tldTypeEnum_eq : Gen.tldTypeEnum = (T.names.zip (List.range 11)).map (fun p => (p.1, (p.2 : Int))) := by decide

/-- `EAV_TLD_x = 1 << (TLD_TYPE_x + 1)`: the bit of a class -/
theorem tldBitEnum_eq : Gen.tldBitEnum =
    [("EAV_TLD_INVALID", 2), ("EAV_TLD_NOT_ASSIGNED", 4), ("EAV_TLD_COUNTRY_CODE", 8), ("EAV_TLD_GENERIC", 16),
     ("EAV_TLD_GENERIC_RESTRICTED", 32), ("EAV_TLD_INFRASTRUCTURE", 64), ("EAV_TLD_SPONSORED", 128),
     ("EAV_TLD_TEST", 256), ("EAV_TLD_SPECIAL", 512), ("EAV_TLD_RETIRED", 1024)] := by decide

theorem rfcEnum_eq : Gen.rfcEnum = [("EAV_RFC_822", 0), ("EAV_RFC_5321", 1), ("EAV_RFC_5322", 2), ("EAV_RFC_6531", 3)] := by decide

/-- every limit the tree defines has the value the model assumes, and the four public ones are all there
(`LABEL_SIZE` exists only while `is_special_domain` copies labels into a buffer) -/
theorem limits_eq : Gen.limits.all (fun kv => [("DOMAIN_SIZE", Lim.DOMAIN_SIZE), ("LABEL_SIZE", Lim.LABEL_SIZE),
      ("VALID_HOSTNAME_LEN", Lim.VALID_HOSTNAME_LEN), ("VALID_LABEL_LEN", Lim.VALID_LABEL_LEN), ("VALID_LPART_LEN", Lim.VALID_LPART_LEN)].contains kv) = true ∧
    ["DOMAIN_SIZE", "VALID_HOSTNAME_LEN", "VALID_LABEL_LEN", "VALID_LPART_LEN"].all (fun k => (Gen.limits.map (·.1)).contains k) = true := by decide

end Eav.Props.GenTie
