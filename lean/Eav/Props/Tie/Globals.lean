import Eav.Model
import Eav.Gen.Enums
/-!
Translator tie (objects with static storage, external symbols): data extracted from the source tree on this run equals what the model assumes.
Closed by kernel evaluation on `Eav/Gen/Enums.lean`, which `tools/extract.py` regenerates from /repo's
working tree before every build.  One module per topic, so that a change to one part of the tree only
breaks the obligations of the properties that rest on that part.
-/
namespace Eav.Props.GenTie
open Eav

/-- no object with static storage lives in a writable section -/
theorem no_mutable_globals : Gen.mutableGlobals = [] := by decide

/-- external symbols the library may call; none of them keeps hidden state across calls
(the memory / string / ctype functions POSIX marks MT-Safe, the allocator, the three IDN libraries' entry points;
`strtok`, `setlocale`, `localeconv`, `rand`, `getenv`, `strerror`, stdio … are absent) -/
def mtSafe : List String := ["_GLOBAL_OFFSET_TABLE_", "__assert_fail", "__ctype_b_loc", "__stack_chk_fail", "abort", "free", "malloc",
  "calloc", "realloc", "memchr", "memrchr", "rawmemchr", "memcpy", "mempcpy", "memmove", "memset", "memcmp", "strchr", "strchrnul", "strlen",
  "strcmp", "strncmp", "strcasecmp", "strncasecmp", "strrchr", "strspn", "strcspn", "strpbrk", "strstr", "strcpy", "strncpy", "stpcpy",
  "strcat", "strncat", "strdup", "strndup", "strnlen", "tolower", "toupper", "__ctype_tolower_loc", "__ctype_toupper_loc",
  "__memcpy_chk", "__memset_chk", "__strcpy_chk", "__strncpy_chk", "__memmove_chk",
  "idn2_strerror", "idn2_to_ascii_8z", "idn2_lookup_ul", "idn2_free",
  "idna_strerror", "idna_to_ascii_lz",
  "idn_res_encodename", "idn_resconf_create", "idn_resconf_destroy", "idn_resconf_initialize", "idn_result_tostring"]
theorem externals_mt_safe : Gen.externals.all (fun s => mtSafe.contains s) = true := by decide

end Eav.Props.GenTie
