import Eav.Model
import Eav.Gen.Enums
/-!
Translator tie (Makefile option defaults): data extracted from the source tree on this run equals what the model assumes.
Closed by kernel evaluation on `Eav/Gen/Enums.lean`, which `tools/extract.py` regenerates from /repo's
working tree before every build.  One module per topic, so that a change to one part of the tree only
breaks the obligations of the properties that rest on that part.
-/
namespace Eav.Props.GenTie
open Eav

/-- Makefile: all three options default to OFF and `ON` defines the macro of the same name -/
theorem buildOpts_eq : Gen.buildOpts =
    [("RFC6531_FOLLOW_RFC5322", "OFF", "ON", "RFC6531_FOLLOW_RFC5322"), ("RFC6531_FOLLOW_RFC20", "OFF", "ON", "RFC6531_FOLLOW_RFC20"),
     ("LABELS_ALLOW_UNDERSCORE", "OFF", "ON", "LABELS_ALLOW_UNDERSCORE")] := by decide

end Eav.Props.GenTie
