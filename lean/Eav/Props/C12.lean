import Eav.Model
import Eav.Props.C02
import Eav.Props.C01
/-!
# C12 — the modes differ only where the RFCs differ
-/
namespace Eav.Props.C12
open Eav Eav.Spec

/-! ### quote-free pure-ASCII local parts: all four scanners return the same code -/

/-- the scan outside quotes, common to the four scanners -/
def plainLoop : Option Nat → List Nat → Int
  | _, [] => 0
  | prev, c :: cs =>
    if isCntrl c then -(E.LPART_CTRL_CHAR : Int)
    else match unquotedStep [] prev c cs with
      | .error e => e
      | .ok _ => plainLoop (some c) cs

/-- no DQUOTE, no backslash, no NUL, no byte above 127 -/
def Plain (s : List Nat) : Prop := ∀ c ∈ s, c ≠ 34 ∧ c ≠ 92 ∧ c ≠ 0 ∧ c ≤ 127

theorem unq_not_quote {prev : Option Nat} {c : Nat} {cs : List Nat} (hc : c ≠ 34) {q : Bool}
    (h : unquotedStep [] prev c cs = .ok q) : q = false := by
  unfold unquotedStep at h
  have h34 : (c == 34) = false := by simpa using hc
  simp only [h34, Bool.false_eq_true, if_false] at h
  repeat' split at h
  all_goals first | (cases h; done) | (cases h; rfl) | (simp only [Except.ok.injEq] at h; exact h.symm)

theorem loc5321_plain : ∀ (cs : List Nat) (prev : Option Nat), Plain cs → loc5321Loop prev false false cs = plainLoop prev cs := by
  intro cs
  induction cs with
  | nil => intro prev _; simp [loc5321Loop, plainLoop, locFin]
  | cons c cs ih =>
    intro prev hp
    obtain ⟨h34, h92, h0, h127⟩ := hp c (by simp)
    have hp' : Plain cs := fun d hd => hp d (by simp [hd])
    have h0' : (c == 0) = false := by simpa using h0
    have hhi : ¬ c > 127 := by omega
    unfold loc5321Loop plainLoop
    simp only [h0', Bool.false_eq_true, if_false, hhi, Bool.not_false, if_true]
    split
    · rfl
    · cases hs : unquotedStep [] prev c cs with
      | error e => rfl
      | ok q => rw [unq_not_quote h34 hs]; exact ih (some c) hp'

theorem loc5322_plain : ∀ (cs : List Nat) (prev : Option Nat), Plain cs → loc5322Loop prev false false cs = plainLoop prev cs := by
  intro cs
  induction cs with
  | nil => intro prev _; simp [loc5322Loop, plainLoop, locFin]
  | cons c cs ih =>
    intro prev hp
    obtain ⟨h34, h92, h0, h127⟩ := hp c (by simp)
    have hp' : Plain cs := fun d hd => hp d (by simp [hd])
    have h0' : (c == 0) = false := by simpa using h0
    have hhi : ¬ c > 127 := by omega
    unfold loc5322Loop plainLoop
    simp only [h0', Bool.false_eq_true, if_false, hhi, Bool.not_false, if_true, Bool.true_and]
    split
    · rfl
    · cases hs : unquotedStep [] prev c cs with
      | error e => rfl
      | ok q => rw [unq_not_quote h34 hs]; exact ih (some c) hp'

theorem loc822_plain (e : Nat) : ∀ (cs : List Nat) (prev : Option Nat), Plain cs → loc822Loop e prev false false cs = plainLoop prev cs := by
  intro cs
  induction cs with
  | nil => intro prev _; simp [loc822Loop, plainLoop, locFin]
  | cons c cs ih =>
    intro prev hp
    obtain ⟨h34, h92, h0, h127⟩ := hp c (by simp)
    have hp' : Plain cs := fun d hd => hp d (by simp [hd])
    have h0' : (c == 0) = false := by simpa using h0
    have hhi : ¬ c > 127 := by omega
    unfold loc822Loop plainLoop
    simp only [h0', Bool.false_eq_true, if_false, hhi, Bool.not_false, if_true, Bool.true_and]
    split
    · rfl
    · cases hs : unquotedStep [] prev c cs with
      | error e => rfl
      | ok q => rw [unq_not_quote h34 hs]; exact ih (some c) hp'

theorem loc6531_plain : ∀ (n : Nat) (cs : List Nat), cs.length ≤ n → ∀ (prev : Option Nat), Plain cs →
    loc6531Loop {} prev false false cs = plainLoop prev cs := by
  intro n
  induction n with
  | zero =>
    intro cs h prev _
    have : cs = [] := List.length_eq_zero_iff.mp (by omega)
    subst this
    rw [loc6531Loop.eq_def]; simp [decodeNext, plainLoop, locFin]
  | succ n ih =>
    intro cs h prev hp
    cases cs with
    | nil => rw [loc6531Loop.eq_def]; simp [decodeNext, plainLoop, locFin]
    | cons c cs =>
      obtain ⟨h34, h92, h0, h127⟩ := hp c (by simp)
      have hp' : Plain cs := fun d hd => hp d (by simp [hd])
      have hlt : c < 128 := by omega
      have hd : decodeNext (c :: cs) = .ch c cs := by simp [decodeNext, hlt]
      have hhi : ¬ c > 127 := by omega
      rw [loc6531Loop.eq_def]
      split
      · rename_i h'; rw [hd] at h'; cases h'
      · rename_i h'; rw [hd] at h'; cases h'
      · rename_i c' rest h'
        rw [hd] at h'; cases h'
        simp only [hhi, if_false, Bool.not_false, Bool.true_and, Bool.false_and, Bool.false_eq_true, if_true, List.head?_cons]
        unfold plainLoop
        split
        · rfl
        · cases hs : unquotedStep [] prev c cs with
          | error e => rfl
          | ok q =>
            rw [unq_not_quote h34 hs]
            exact ih cs (by simp at h; omega) (some c) hp'

/-- **all four modes give the same return code on a quote-free pure-ASCII local part** -/
theorem unquoted_same (b : Build) (hb : b.rfc20 = false ∧ b.rfc5322 = false) (L : List Nat) (hp : Plain L) (m m' : Mode) :
    localOf b m L = localOf b m' L := by
  have key : ∀ m, localOf b m L = if L.isEmpty then -(E.LPART_EMPTY : Int) else plainLoop none L := by
    intro m
    have hl : b.l = {} := by simp [Build.l, hb.1, hb.2]
    cases m <;> simp only [localOf, is822Local, is5321Local, is5322Local, is6531Local, hl] <;> split <;> try rfl
    · exact loc822_plain _ L none hp
    · exact loc5321_plain L none hp
    · exact loc5322_plain L none hp
    · exact loc6531_plain _ L (Nat.le_refl _) none hp
  rw [key m, key m']

/-! ### every address accepted in mode 5321 is accepted in mode 822 -/

theorem okItem_mono (it : QItem) (h : okItem .m5321 it = true) : okItem .m822 it = true := by
  cases it with
  | ch c => simp [okItem, printable, ascii] at h ⊢; omega
  | pair c => simp [okItem, printable, ascii] at h ⊢; omega
  | fold w => simp [okItem] at h

theorem isLocal_mono (s : List Nat) (h : IsLocal .m5321 s) : IsLocal .m822 s := by
  obtain ⟨ws, hne, hall, rfl⟩ := h
  refine ⟨ws, hne, ?_, rfl⟩
  intro w hw
  rcases hall w hw with ⟨h1, h2⟩ | ⟨items, hok, rfl, _⟩
  · left
    refine ⟨h1, fun x hx => ?_⟩
    have := h2 x hx
    simp [atext] at this ⊢
    exact this
  · right
    exact ⟨items, fun it hit => okItem_mono it (hok it hit), rfl, fun h => by cases h⟩

/-- the local part -/
theorem local_incl (L : List Nat) (e : Nat) (hn : NulFree L) (h : is5321Local L = 0) : is822Local L e = 0 :=
  (C02.local_iff_822 L e hn).mpr (isLocal_mono L ((C02.local_iff_5321 L hn).mp h))

/-- in the ASCII modes the domain half is judged by one and the same function -/
theorem hostPart_shared (b : Build) (conv : List Nat → Conv) (m m' : Mode) (hm : m ≠ .m6531) (hm' : m' ≠ .m6531)
    (l d : List Nat) (tld : Bool) : hostPart b conv m l d tld = hostPart b conv m' l d tld := by
  cases m <;> cases m' <;> first | rfl | exact absurd rfl hm | exact absurd rfl hm'

/-- **for a fixed domain part the three ASCII modes report the same verdict, class, flags and strings**
(whenever the local part is valid in both modes; otherwise each reports its own local-part code) -/
theorem domain_verdict_shared (b : Build) (conv : List Nat → Conv) (m m' : Mode) (hm : m ≠ .m6531) (hm' : m' ≠ .m6531)
    (L D : List Nat) (tld : Bool) (hD : 64 ∉ D) (h1 : localOf b m L = 0) (h2 : localOf b m' L = 0) :
    isEmail b conv m (L ++ 64 :: D) tld = isEmail b conv m' (L ++ 64 :: D) tld := by
  have hsp := (C01.splitLast_iff 64 (L ++ 64 :: D) L D).mpr ⟨rfl, hD⟩
  unfold isEmail
  simp only [hsp, h1, h2]
  rw [hostPart_shared b conv m m' hm hm']

/-- **inclusion**: an address accepted in mode 5321 is accepted in mode 822 (with the same result record) -/
theorem incl_5321_822 (b : Build) (conv : List Nat → Conv) (s : List Nat) (tld : Bool) (hn : NulFree s) (r : Result)
    (h : isEmail b conv .m5321 s tld = .ok r) (hacc : 0 ≤ r.rc) : isEmail b conv .m822 s tld = .ok r := by
  unfold isEmail at h
  split at h
  · simp only [Except.ok.injEq] at h; subst h; exact absurd hacc (by decide)
  · split at h
    · simp only [Except.ok.injEq] at h; subst h; exact absurd hacc (by decide)
    · rename_i l d hsp
      obtain ⟨hs, hnd⟩ := (C01.splitLast_iff 64 s l d).mp hsp
      split at h
      · simp only [Except.ok.injEq] at h; subst h; exact absurd hacc (by decide)
      · split at h
        · simp only [Except.ok.injEq] at h; subst h; exact absurd hacc (by decide)
        · split at h
          · rename_i hl
            simp only [Except.ok.injEq] at h; subst h
            have := C01.localOf_nonpos b .m5321 l
            have hne : localOf b .m5321 l ≠ 0 := by simpa using hl
            simp only at hacc; omega
          · rename_i hl
            have hl0 : is5321Local l = 0 := by simpa [localOf] using hl
            have hnl : NulFree l := fun c hc => hn c (by rw [hs]; simp [hc])
            have h822 : localOf b .m822 l = 0 := local_incl l 64 hnl hl0
            have h5321 : localOf b .m5321 l = 0 := by simpa [localOf] using hl0
            -- both modes continue with the same domain test
            have e1 : isEmail b conv .m822 s tld = (if (d.head? != some 91) = true then hostPart b conv .m822 l d tld else literalPart b l d) := by
              have hse : s.isEmpty = false := by rw [hs]; cases l <;> simp
              rename_i hde hlen
              unfold isEmail
              have hl' : (localOf b .m822 l != 0) = false := by simp [h822]
              simp only [hse, Bool.false_eq_true, if_false, hsp, hde, hlen, hl']
            rw [e1, hostPart_shared b conv .m822 .m5321 (by decide) (by decide)]
            exact h

/-! ### the hypotheses are satisfiable, and the restriction to quote-free pure-ASCII local parts is needed -/

/-- `a.b` and `a..b` are plain (no quote, no backslash, ASCII) -/
example : Plain [97, 46, 98] ∧ Plain [97, 46, 46, 98] := by
  constructor <;> (intro c hc; simp only [List.mem_cons, List.mem_nil_iff, or_false] at hc; rcases hc with rfl | rfl | rfl | rfl <;> decide) <;> done
/-- same code in two modes on such a local part (here: "too many dots") -/
example : localOf {} .m822 [97, 46, 46, 98] = localOf {} .m5322 [97, 46, 46, 98] := by decide
/-- with a quoted blank the modes differ: 5321 accepts `"a b"`, 5322 does not -/
example : localOf {} .m5321 [34, 97, 32, 98, 34] = 0 ∧ localOf {} .m5322 [34, 97, 32, 98, 34] ≠ 0 := by decide

end Eav.Props.C12
