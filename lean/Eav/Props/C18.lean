import Eav.Model
import Eav.Props.C13
/-!
# C18 — the IDN back end (libidn2 / libidn / idnkit) changes no decision and leaks no resource

In the model the three `partial/<backend>/is_6531_email.c` / `is_utf8_domain.c` are ONE definition (`isEmail`,
`isUtf8Domain`, parameterised by the conversion result); that the three source sets really behave alike is what
the correspondence check establishes by building all three against one converter.  `partial/<backend>/eav.c`
differs in the idnkit context handling only (`Backend` parameter of `eavSetup` / `eavFree`): proved here to be
unobservable, and balanced.
-/
namespace Eav.Props.C18
open Eav

/-- two objects of different builds that went through the same calls: same fields, same record ledger -/
def Same (s1 s2 : State) : Prop :=
  s1.obj = s2.obj ∧ s1.liveResults = s2.liveResults ∧ s1.freedResults = s2.freedResults

theorem setupAscii_agree (be1 be2 : Backend) (s1 s2 : State) (e : EavT) (m : Mode)
    (hs : Same s1 s2) (h1 : C13.Inv be1 s1) (h2 : C13.Inv be2 s2) (ho : s1.obj = some e)
    (t1 : State) (rc : Int) (h : setupAscii be1 s1 e m = .ok (t1, rc)) :
    ∃ t2, setupAscii be2 s2 e m = .ok (t2, rc) ∧ Same t1 t2 := by
  have ho2 : s2.obj = some e := by rw [← hs.1]; exact ho
  unfold C13.Inv at h1 h2
  rw [ho] at h1; rw [ho2] at h2
  unfold setupAscii at h ⊢
  have rcz : rc = 0 ∧ t1.obj = some { e with asciiCb := some m, initialized := false, utf8 := false } ∧
      t1.liveResults = s1.liveResults ∧ t1.freedResults = s1.freedResults := by
    split at h
    · split at h
      · cases h
      · simp only [Except.ok.injEq, Prod.mk.injEq] at h; obtain ⟨rfl, rfl⟩ := h; exact ⟨rfl, rfl, rfl, rfl⟩
    · simp only [Except.ok.injEq, Prod.mk.injEq] at h; obtain ⟨rfl, rfl⟩ := h; exact ⟨rfl, rfl, rfl, rfl⟩
  obtain ⟨rfl, ht1, htl, htf⟩ := rcz
  by_cases hk : (e.initialized && be2 == Backend.idnkit) = true
  · simp only [hk, if_true]
    simp only [Bool.and_eq_true, beq_iff_eq] at hk
    have : s2.resconfLive = 1 := by simpa [hk.1, hk.2] using h2.2
    have hz : (s2.resconfLive == 0) = false := by simp [this]
    simp only [hz, Bool.false_eq_true, if_false]
    exact ⟨_, rfl, by simp [ht1], by simp [htl, hs.2.1], by simp [htf, hs.2.2]⟩
  · simp only [hk, Bool.false_eq_true, if_false]
    exact ⟨_, rfl, by simp [ht1], by simp [htl, hs.2.1], by simp [htf, hs.2.2]⟩

theorem setup6531_agree (be1 be2 : Backend) (s1 s2 : State) (e : EavT)
    (hs : Same s1 s2) (t1 : State) (rc : Int) (h : setup6531 be1 s1 e = .ok (t1, rc)) :
    ∃ t2, setup6531 be2 s2 e = .ok (t2, rc) ∧ Same t1 t2 := by
  unfold setup6531 at h ⊢
  split at h
  · rename_i hi
    simp only [Except.ok.injEq, Prod.mk.injEq] at h; obtain ⟨rfl, rfl⟩ := h
    simp only [hi, if_true]
    exact ⟨_, rfl, rfl, hs.2.1, hs.2.2⟩
  · rename_i hi
    simp only [hi, Bool.false_eq_true, if_false]
    have key : rc = 0 ∧ t1.obj = some { e with utf8 := true, utf8Cb := true, initialized := true } ∧
        t1.liveResults = s1.liveResults ∧ t1.freedResults = s1.freedResults := by
      split at h <;> (simp only [Except.ok.injEq, Prod.mk.injEq] at h; obtain ⟨rfl, rfl⟩ := h; exact ⟨rfl, rfl, rfl, rfl⟩)
    obtain ⟨rfl, ht1, htl, htf⟩ := key
    split
    · exact ⟨_, rfl, by simp [ht1], by simp [htl, hs.2.1], by simp [htf, hs.2.2]⟩
    · exact ⟨_, rfl, by simp [ht1], by simp [htl, hs.2.1], by simp [htf, hs.2.2]⟩

theorem eavSetup_agree (be1 be2 : Backend) (s1 s2 : State) (hs : Same s1 s2) (h1 : C13.Inv be1 s1) (h2 : C13.Inv be2 s2)
    (t : State) (rc : Int) (hsu : eavSetup be1 s1 = .ok (t, rc)) :
    ∃ t2, eavSetup be2 s2 = .ok (t2, rc) ∧ Same t t2 := by
  unfold eavSetup at hsu ⊢
  cases ho : s1.obj with
  | none => simp [ho] at hsu
  | some e =>
    have ho2 : s2.obj = some e := by rw [← hs.1]; exact ho
    simp only [ho] at hsu
    simp only [ho2]
    by_cases c0 : (e.rfc == 0) = true
    · simp only [c0, if_true] at hsu ⊢
      exact setupAscii_agree be1 be2 s1 s2 e _ hs h1 h2 ho t rc hsu
    · simp only [c0, Bool.false_eq_true, if_false] at hsu ⊢
      by_cases c1 : (e.rfc == 1) = true
      · simp only [c1, if_true] at hsu ⊢
        exact setupAscii_agree be1 be2 s1 s2 e _ hs h1 h2 ho t rc hsu
      · simp only [c1, Bool.false_eq_true, if_false] at hsu ⊢
        by_cases c2 : (e.rfc == 2) = true
        · simp only [c2, if_true] at hsu ⊢
          exact setupAscii_agree be1 be2 s1 s2 e _ hs h1 h2 ho t rc hsu
        · simp only [c2, Bool.false_eq_true, if_false] at hsu ⊢
          by_cases c3 : (e.rfc == 3) = true
          · simp only [c3, if_true] at hsu ⊢
            exact setup6531_agree be1 be2 s1 s2 e hs t rc hsu
          · simp only [c3, Bool.false_eq_true, if_false] at hsu ⊢
            simp only [Except.ok.injEq, Prod.mk.injEq] at hsu; obtain ⟨rfl, rfl⟩ := hsu
            exact ⟨_, rfl, rfl, hs.2.1, hs.2.2⟩

/-- **the back end is unobservable**: from corresponding states every operation gives the same observation
(return codes, verdict, error code, message, result record) and corresponding states again -/
theorem backends_agree (be1 be2 : Backend) (b : Build) (s1 s2 : State) (op : Op)
    (hs : Same s1 s2) (h1 : C13.Inv be1 s1) (h2 : C13.Inv be2 s2)
    (hop : ∀ r, op ≠ .setupFail r)          -- a context that cannot be created is an event of ONE back end, not an operation of the caller
    (t1 : State) (o : Out) (h : step be1 b s1 op = .ok (t1, o)) :
    ∃ t2, step be2 b s2 op = .ok (t2, o) ∧ Same t1 t2 := by
  cases op with
  | setupFail r => exact absurd rfl (hop r)
  | init =>
    simp only [step, Except.ok.injEq, Prod.mk.injEq] at h ⊢
    obtain ⟨rfl, rfl⟩ := h
    exact ⟨_, ⟨rfl, rfl⟩, rfl, hs.2.1, hs.2.2⟩
  | setRfc v =>
    simp only [step] at h ⊢
    rw [← hs.1]
    split at h
    · cases h
    · rename_i e he
      simp only [Except.ok.injEq, Prod.mk.injEq] at h; obtain ⟨rfl, rfl⟩ := h
      exact ⟨_, rfl, rfl, hs.2.1, hs.2.2⟩
  | setTld v =>
    simp only [step] at h ⊢
    rw [← hs.1]
    split at h
    · cases h
    · simp only [Except.ok.injEq, Prod.mk.injEq] at h; obtain ⟨rfl, rfl⟩ := h
      exact ⟨_, rfl, rfl, hs.2.1, hs.2.2⟩
  | setMask v =>
    simp only [step] at h ⊢
    rw [← hs.1]
    split at h
    · cases h
    · simp only [Except.ok.injEq, Prod.mk.injEq] at h; obtain ⟨rfl, rfl⟩ := h
      exact ⟨_, rfl, rfl, hs.2.1, hs.2.2⟩
  | errstr =>
    simp only [step] at h ⊢
    have : eavErrstr s2 = eavErrstr s1 := by simp [eavErrstr, hs.1]
    rw [this]
    split at h
    · cases h
    · rename_i m hm
      simp only [Except.ok.injEq, Prod.mk.injEq] at h; obtain ⟨rfl, rfl⟩ := h
      exact ⟨_, rfl, hs⟩
  | setup =>
    simp only [step] at h ⊢
    split at h
    · cases h
    · rename_i t rc hsu
      simp only [Except.ok.injEq, Prod.mk.injEq] at h; obtain ⟨rfl, rfl⟩ := h
      obtain ⟨t2, h2', hsame⟩ := eavSetup_agree be1 be2 s1 s2 hs h1 h2 t rc hsu
      exact ⟨t2, by rw [h2'], hsame⟩
  | isEmail a c =>
    simp only [step] at h ⊢
    have heq : ∀ t ret, eavIsEmail b (fun _ => c) s1 a = .ok (t, ret) →
        ∃ t2, eavIsEmail b (fun _ => c) s2 a = .ok (t2, ret) ∧ Same t t2 ∧ t2.obj = t.obj := by
      intro t ret he
      unfold eavIsEmail at he ⊢
      cases ho : s1.obj with
      | none => simp [ho] at he
      | some e =>
        have ho2 : s2.obj = some e := by rw [← hs.1]; exact ho
        simp only [ho] at he
        simp only [ho2, ← hs.2.1]
        cases hnb : (e.result.isSome && s1.liveResults == 0) with
        | true => simp [hnb] at he
        | false =>
          simp only [hnb, Bool.false_eq_true, if_false] at he ⊢
          cases hsel : selectedMode e with
          | error f => simp [hsel] at he
          | ok md =>
            simp only [hsel] at he ⊢
            cases hi : isEmail b (fun _ => c) md a e.tldCheck with
            | error f => simp [hi] at he
            | ok r =>
              simp only [hi] at he ⊢
              cases hv : verdictOf e.allowTld r with
              | error f => simp [hv] at he
              | ok p =>
                obtain ⟨ret', ec, msg⟩ := p
                simp only [hv, Except.ok.injEq, Prod.mk.injEq] at he ⊢
                obtain ⟨rfl, rfl⟩ := he
                exact ⟨_, ⟨rfl, rfl⟩, ⟨rfl, rfl, by simp [hs.2.2]⟩, rfl⟩
    split at h
    · cases h
    · rename_i t ret he
      obtain ⟨t2, he2, hsame, hobj⟩ := heq t ret he
      rw [he2]
      simp only
      have : eavErrstr t2 = eavErrstr t := by simp [eavErrstr, hobj]
      rw [this, hobj]
      split at h
      · cases h
      · split at h
        · split at h
          · simp only [Except.ok.injEq, Prod.mk.injEq] at h; obtain ⟨rfl, rfl⟩ := h
            exact ⟨t2, rfl, hsame⟩
          · cases h
        · cases h
  | free =>
    simp only [step] at h ⊢
    split at h
    · cases h
    · rename_i t hf
      simp only [Except.ok.injEq, Prod.mk.injEq] at h; obtain ⟨rfl, rfl⟩ := h
      cases ho : s1.obj with
      | none => simp [eavFree, ho] at hf
      | some e =>
        have ho2 : s2.obj = some e := by rw [← hs.1]; exact ho
        obtain ⟨t2, hf2, _, hfr2, _⟩ := C13.free_releases be2 s2 e h2 ho2
        obtain ⟨t1', hf1, _, hfr1, _⟩ := C13.free_releases be1 s1 e h1 ho
        rw [hf] at hf1; cases hf1
        refine ⟨t2, by rw [hf2], ?_, ?_, ?_⟩
        · have a1 := C13.free_obj_eq be1 s1 t e ho hf
          have a2 := C13.free_obj_eq be2 s2 t2 e ho2 hf2
          rw [a1, a2]
        · have r1 := (C13.free_releases be1 s1 e h1 ho)
          obtain ⟨x, hx, hrel, _⟩ := r1
          rw [hf] at hx; cases hx
          obtain ⟨y, hy, hrel2, _⟩ := C13.free_releases be2 s2 e h2 ho2
          rw [hf2] at hy; cases hy
          rw [hrel.1, hrel2.1]
        · rw [hfr1, hfr2, hs.2.2]

/-! ### the premises occur: two back ends in corresponding states -/

/-- after `eav_init; eav_setup` (mode 6531) the libidn2 and idnkit objects are `Same`, both satisfy the ledger invariant, and the idnkit one
holds a context the libidn2 one does not have -/
example : ∃ s1 s2, step .idn2 {} (eavInit {}) .setup = .ok (s1, .rc 0) ∧ step .idnkit {} (eavInit {}) .setup = .ok (s2, .rc 0) ∧
    Same s1 s2 ∧ C13.Inv .idn2 s1 ∧ C13.Inv .idnkit s2 ∧ s1.resconfLive = 0 ∧ s2.resconfLive = 1 := by
  refine ⟨_, _, rfl, rfl, ⟨rfl, rfl, rfl⟩, ?_, ?_, rfl, rfl⟩ <;> simp [C13.Inv, eavInit]

end Eav.Props.C18
