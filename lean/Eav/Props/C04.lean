import Eav.Model
import Eav.Lemmas.Domain
/-!
# C04 — host-name domains: LDH labels, 63 / 253, optional root dot, not all-numeric

`isAsciiDomain` is the model of `src/is_ascii_domain.c`; `Spec.HostOk` is the property's wording.
The statements are made under the contract of the library: the domain is NUL-free and stored
NUL-terminated (`after = [0]`).  (With another byte at `*end` the C code would accept a label ending
in a hyphen — `a-` followed by `x` — which is why the contract appears in the statement; the
correspondence check drives that case too.)
-/
namespace Eav.Props.C04
open Eav Eav.Spec

/-! ### `splitDots` / `joinDots` are inverse on dot-free labels -/

theorem joinDots_cons_cons (c : Nat) (l : List Nat) (ls : List (List Nat)) :
    joinDots ((c :: l) :: ls) = c :: joinDots (l :: ls) := by
  cases ls <;> simp [joinDots]

theorem joinDots_cons (l : List Nat) (ls : List (List Nat)) (h : ls ≠ []) :
    joinDots (l :: ls) = l ++ 46 :: joinDots ls := by
  cases ls with
  | nil => exact absurd rfl h
  | cons x xs => rfl

theorem join_splitDots (s : List Nat) : joinDots (splitDots s) = s := by
  induction s with
  | nil => simp [splitDots, joinDots]
  | cons c cs ih =>
    by_cases h : c = 46
    · subst h
      have : splitDots (46 :: cs) = [] :: splitDots cs := by simp [splitDots]
      rw [this, joinDots_cons _ _ (splitDots_ne_nil cs), ih]; simp
    · obtain ⟨l, ls, h1, h2⟩ := splitDots_cons_ne (cs := cs) h
      rw [h2, joinDots_cons_cons, ← h1, ih]

theorem splitDots_nodot (l : List Nat) (h : 46 ∉ l) : splitDots l = [l] := by
  induction l with
  | nil => simp [splitDots]
  | cons c cs ih =>
    have hc : c ≠ 46 := fun e => h (by simp [e])
    have := ih (fun e => h (by simp [e]))
    simp [splitDots, hc, this]

theorem splitDots_append_dot (l r : List Nat) (h : 46 ∉ l) : splitDots (l ++ 46 :: r) = l :: splitDots r := by
  induction l with
  | nil => simp [splitDots]
  | cons c cs ih =>
    have hc : c ≠ 46 := fun e => h (by simp [e])
    have := ih (fun e => h (by simp [e]))
    simp [splitDots, hc, this]

theorem splitDots_join : ∀ (labels : List (List Nat)), labels ≠ [] → (∀ l ∈ labels, 46 ∉ l) →
    splitDots (joinDots labels) = labels
  | [], h, _ => absurd rfl h
  | [l], _, h => by simp [joinDots, splitDots_nodot l (h l (by simp))]
  | l :: l' :: ls, _, h => by
    rw [joinDots_cons l (l' :: ls) (by simp), splitDots_append_dot l _ (h l (by simp)),
      splitDots_join (l' :: ls) (by simp) (fun x hx => h x (by simp [hx]))]

theorem okLabel_nodot {us : Bool} {l : List Nat} (h : okLabel us l = true) : 46 ∉ l := by
  simp only [okLabel, Bool.and_eq_true, List.all_eq_true] at h
  intro hm
  have := h.1.1.2 46 hm
  simp [letDig, isAlnum, isDigit, isAlpha, isUpper, isLower] at this

theorem okLabel_ne_nil {us : Bool} {l : List Nat} (h : okLabel us l = true) : l ≠ [] := by
  intro e; subst e; simp [okLabel] at h

theorem getLast?_append_cons (l : List Nat) (c : Nat) (J : List Nat) (hJ : J ≠ []) :
    (l ++ c :: J).getLast? = J.getLast? := by
  induction l with
  | nil =>
    cases J with
    | nil => exact absurd rfl hJ
    | cons b bs => simp [List.getLast?_cons_cons]
  | cons x l ih =>
    cases l with
    | nil => simp only [List.cons_append, List.nil_append] at ih ⊢; rw [List.getLast?_cons_cons]; exact ih
    | cons y r => simp only [List.cons_append] at ih ⊢; rw [List.getLast?_cons_cons]; exact ih

theorem allNumeric_append (a b : List Nat) : allNumeric (a ++ b) = (allNumeric a && allNumeric b) := by
  simp [allNumeric]

/-! ### the executable form of the specification is the declarative one -/

theorem getLast?_joinDots_ne_dot {us : Bool} : ∀ (labels : List (List Nat)), labels ≠ [] →
    (∀ l ∈ labels, okLabel us l = true) → (joinDots labels).getLast? ≠ some 46 ∧ joinDots labels ≠ []
  | [], h, _ => absurd rfl h
  | [l], _, h => by
    have hl := h l (by simp)
    have hne := okLabel_ne_nil hl
    have hnd := okLabel_nodot hl
    refine ⟨?_, by simpa [joinDots] using hne⟩
    simp only [joinDots]
    intro e
    exact hnd (List.mem_of_getLast? e)
  | l :: l' :: ls, _, h => by
    have ih := getLast?_joinDots_ne_dot (us := us) (l' :: ls) (by simp) (fun x hx => h x (by simp [hx]))
    rw [joinDots_cons l (l' :: ls) (by simp)]
    refine ⟨?_, by simp⟩
    have : (l ++ 46 :: joinDots (l' :: ls)).getLast? = (joinDots (l' :: ls)).getLast? :=
      getLast?_append_cons l 46 _ ih.2
    rw [this]; exact ih.1

theorem hostNoRoot_iff (us : Bool) (x : List Nat) :
    hostNoRoot us x = true ↔
      ∃ labels : List (List Nat), labels ≠ [] ∧ (∀ l ∈ labels, okLabel us l = true) ∧ x = joinDots labels ∧
        x.length ≤ 253 ∧ allNumeric x = false := by
  constructor
  · intro h
    simp only [hostNoRoot, Bool.and_eq_true, decide_eq_true_eq, List.all_eq_true, Bool.not_eq_true'] at h
    exact ⟨splitDots x, splitDots_ne_nil x, h.1.2, (join_splitDots x).symm, h.1.1, h.2⟩
  · rintro ⟨labels, hne, hall, rfl, hlen, hnum⟩
    simp only [hostNoRoot, Bool.and_eq_true, decide_eq_true_eq, List.all_eq_true, Bool.not_eq_true']
    rw [splitDots_join labels hne (fun l hl => okLabel_nodot (hall l hl))]
    exact ⟨⟨hlen, hall⟩, hnum⟩

/-- `specHost` decides `HostOk` -/
theorem specHost_iff (us : Bool) (s : List Nat) : specHost us s = true ↔ HostOk us s := by
  unfold specHost
  split
  · rename_i hroot
    simp only [Bool.and_eq_true, decide_eq_true_eq, beq_iff_eq] at hroot
    have hs : s = s.dropLast ++ [46] := by
      exact (dropLast_append_of_getLast? s 46 hroot.2).symm
    rw [hostNoRoot_iff]
    constructor
    · rintro ⟨labels, hne, hall, hx, hlen, hnum⟩
      refine ⟨labels, [46], hne, Or.inr rfl, hall, ?_, ?_, ?_⟩
      · rw [← hx]; exact hs
      · rw [← hx]; exact hlen
      · rw [hs, allNumeric_append, hnum]; rfl
    · rintro ⟨labels, root, hne, hr, hall, hx, hlen, hnum⟩
      have hj := getLast?_joinDots_ne_dot labels hne hall
      rcases hr with rfl | rfl
      · simp only [List.append_nil] at hx
        rw [hx] at hroot
        exact absurd hroot.2 hj.1
      · have : s.dropLast = joinDots labels := by rw [hx]; simp
        refine ⟨labels, hne, hall, this, by rw [this]; exact hlen, ?_⟩
        rw [hx, allNumeric_append] at hnum
        rw [this]
        simpa [allNumeric, isDigit] using hnum
  · rename_i hroot
    rw [hostNoRoot_iff]
    constructor
    · rintro ⟨labels, hne, hall, hx, hlen, hnum⟩
      exact ⟨labels, [], hne, Or.inl rfl, hall, by simpa using hx, by rw [← hx]; exact hlen, hnum⟩
    · rintro ⟨labels, root, hne, hr, hall, hx, hlen, hnum⟩
      rcases hr with rfl | rfl
      · simp only [List.append_nil] at hx
        exact ⟨labels, hne, hall, hx, by rw [hx]; exact hlen, hnum⟩
      · exfalso
        apply hroot
        have hj := getLast?_joinDots_ne_dot labels hne hall
        have hlen2 : 2 ≤ s.length := by
          rw [hx]; simp
          cases h : joinDots labels with
          | nil => exact absurd h hj.2
          | cons a as => simp
        simp only [Bool.and_eq_true, decide_eq_true_eq, beq_iff_eq]
        exact ⟨hlen2, by rw [hx]; simp⟩

/-! ### the model of the C function decides the executable specification -/

theorem nulFree_dropLast {s : List Nat} (h : NulFree s) : NulFree s.dropLast :=
  fun c hc => h c (List.dropLast_subset s hc)

theorem restOk_zero (us : Bool) (x : List Nat) : restOk us 0 x = (splitDots x).all (okLabel us) := by
  unfold restOk
  cases h : splitDots x with
  | nil => exact absurd h (splitDots_ne_nil x)
  | cons l ls => simp [okCont_zero]

theorem isAsciiDomain_iff_spec (us : Bool) (s : List Nat) (hn : NulFree s) :
    isAsciiDomain us s [0] = .ok 0 ↔ specHost us s = true := by
  unfold isAsciiDomain specHost
  simp only [Lim.VALID_HOSTNAME_LEN]
  by_cases h0 : s.length = 0
  · have : s = [] := List.length_eq_zero_iff.mp h0
    subst this
    simp [hostNoRoot, splitDots, okLabel]
  · by_cases h255 : s.length ≥ 255
    · -- too long
      have hc : (decide (s.length ≥ 255) || (s.length == 255 - 1 && s.getLast? != some 46)) = true := by simp [h255]
      simp only [h0, beq_iff_eq, if_false, hc, if_true]
      have : (Except.ok (-(E.DOMAIN_TOO_LONG : Int)) : Except Fault Int) = .ok 0 ↔ False := by simp
      rw [this, false_iff]
      split <;> simp only [hostNoRoot, Bool.and_eq_true, decide_eq_true_eq, not_and, List.length_dropLast] <;> intro hh <;> omega
    · by_cases hroot : s.getLast? = some 46
      · -- ends with a dot
        by_cases h2 : s.length ≥ 2
        · have hc : (decide (s.length ≥ 255) || (s.length == 255 - 1 && s.getLast? != some 46)) = false := by simp [h255, hroot]
          have hr : (decide (s.length ≥ 2) && s.getLast? == some 46) = true := by simp [h2, hroot]
          simp only [h0, beq_iff_eq, if_false, hc, Bool.false_eq_true, hr, if_true]
          rw [domLoop_ok us s.dropLast (46 :: [0]) 0 false (nulFree_dropLast hn) (Or.inr rfl) (by omega)]
          simp only [hostNoRoot, restOk_zero, Bool.and_eq_true, decide_eq_true_eq, List.length_dropLast,
            Bool.false_eq_true, false_or, Bool.not_eq_true']
          constructor
          · rintro ⟨h1, h2⟩; exact ⟨⟨by omega, h1⟩, h2⟩
          · rintro ⟨⟨_, h1⟩, h2⟩; exact ⟨h1, h2⟩
        · -- the single string "."
          have hc : (decide (s.length ≥ 255) || (s.length == 255 - 1 && s.getLast? != some 46)) = false := by simp [h255, hroot]
          have hr : (decide (s.length ≥ 2) && s.getLast? == some 46) = false := by simp [h2]
          simp only [h0, beq_iff_eq, if_false, hc, Bool.false_eq_true, hr]
          rw [domLoop_ok us s [0] 0 false hn (Or.inl rfl) (by omega)]
          simp only [hostNoRoot, restOk_zero, Bool.and_eq_true, decide_eq_true_eq,
            Bool.false_eq_true, false_or, Bool.not_eq_true']
          constructor
          · rintro ⟨h1, h2⟩; exact ⟨⟨by omega, h1⟩, h2⟩
          · rintro ⟨⟨_, h1⟩, h2⟩; exact ⟨h1, h2⟩
      · -- no root dot
        have hr : (decide (s.length ≥ 2) && s.getLast? == some 46) = false := by simp [hroot]
        by_cases h254 : s.length = 254
        · have hc : (decide (s.length ≥ 255) || (s.length == 255 - 1 && s.getLast? != some 46)) = true := by simp [h254, hroot]
          simp only [h0, beq_iff_eq, if_false, hc, if_true, hr, Bool.false_eq_true]
          have : (Except.ok (-(E.DOMAIN_TOO_LONG : Int)) : Except Fault Int) = .ok 0 ↔ False := by simp
          rw [this, false_iff]
          simp only [hostNoRoot, Bool.and_eq_true, decide_eq_true_eq, not_and]
          intro hh; omega
        · have hc : (decide (s.length ≥ 255) || (s.length == 255 - 1 && s.getLast? != some 46)) = false := by simp [h255, h254]
          simp only [h0, beq_iff_eq, if_false, hc, Bool.false_eq_true, hr]
          rw [domLoop_ok us s [0] 0 false hn (Or.inl rfl) (by omega)]
          simp only [hostNoRoot, restOk_zero, Bool.and_eq_true, decide_eq_true_eq,
            Bool.false_eq_true, false_or, Bool.not_eq_true']
          constructor
          · rintro ⟨h1, h2⟩; exact ⟨⟨by omega, h1⟩, h2⟩
          · rintro ⟨⟨_, h1⟩, h2⟩; exact ⟨h1, h2⟩

theorem domFin_nonpos (ll : Nat) (nn : Bool) : domFin ll nn ≤ 0 := by
  unfold domFin
  split
  · decide
  · split <;> decide

theorem domLoop_nonpos (us : Bool) (cs : List Nat) : ∀ (after : List Nat) (ll : Nat) (nn : Bool) (r : Int),
    domLoop us cs after ll nn = .ok r → r ≤ 0 := by
  induction cs with
  | nil =>
    intro after ll nn r h
    simp only [domLoop, Except.ok.injEq] at h
    subst h; exact domFin_nonpos ll nn
  | cons c cs ih =>
    intro after ll nn r h
    unfold domLoop at h
    split at h
    · simp only [Except.ok.injEq] at h; subst h; exact domFin_nonpos ll nn
    · split at h
      · split at h
        · simp only [Except.ok.injEq] at h; subst h; decide
        · exact ih _ _ _ _ h
      · split at h
        · split at h
          · simp only [Except.ok.injEq] at h; subst h; decide
          · exact ih _ _ _ _ h
        · split at h
          · split at h
            · simp only [Except.ok.injEq] at h; subst h; decide
            · simp only [bind, Except.bind] at h
              split at h
              · cases h
              · split at h
                · simp only [Except.ok.injEq] at h; subst h; decide
                · exact ih _ _ _ _ h
          · simp only [Except.ok.injEq] at h; subst h; decide

theorem isAsciiDomain_nonpos (us : Bool) (s after : List Nat) (r : Int) (h : isAsciiDomain us s after = .ok r) : r ≤ 0 := by
  unfold isAsciiDomain at h
  split at h
  · simp only [Except.ok.injEq] at h; subst h; decide
  · split at h
    · simp only [Except.ok.injEq] at h; subst h; decide
    · split at h <;> exact domLoop_nonpos _ _ _ _ _ _ h

/-- **C04**: in the ASCII modes a non-bracketed, NUL-free, NUL-terminated domain is accepted by
`is_ascii_domain` exactly when it is a host name in the sense of the property -/
theorem host_iff (us : Bool) (s : List Nat) (hn : NulFree s) :
    isAsciiDomain us s [0] = .ok 0 ↔ HostOk us s :=
  (isAsciiDomain_iff_spec us s hn).trans (specHost_iff us s)

/-- mode 6531: whatever the IDN library returns, an accepted domain has an A-label form that is a host name -/
theorem host6531_sound (b : Build) (conv : List Nat → Conv) (d : List Nat) (tld : Bool) (rc irc : Int)
    (h : isUtf8Domain b conv d tld = .ok (rc, irc)) (hacc : 0 ≤ rc) (hnf : ∀ a, (conv d).out = some a → NulFree a) :
    ∃ a, (conv d).rc = 0 ∧ (conv d).out = some a ∧ HostOk b.underscore a := by
  unfold isUtf8Domain at h
  split at h
  · simp only [Except.ok.injEq, Prod.mk.injEq] at h
    obtain ⟨rfl, _⟩ := h
    exact absurd hacc (by decide)
  · simp only at h
    split at h
    · simp only [Except.ok.injEq, Prod.mk.injEq] at h
      obtain ⟨rfl, _⟩ := h
      exact absurd hacc (by decide)
    · rename_i hc
      split at h
      · cases h
      · rename_i a hout
        split at h
        · cases h
        · rename_i r hdom
          split at h
          · rename_i hr
            simp only [Except.ok.injEq, Prod.mk.injEq] at h
            obtain ⟨rfl, _⟩ := h
            exfalso
            have := isAsciiDomain_nonpos b.underscore a [0] r hdom
            simp at hr; omega
          · rename_i hr
            have hr0 : r = 0 := by simpa using hr
            subst hr0
            refine ⟨a, by simpa using hc, hout, (host_iff _ a (hnf a hout)).mp hdom⟩

/-! ### non-vacuity and the corollaries named in the property -/

example : isAsciiDomain false [97, 45, 98, 46, 101, 120, 97, 109, 112, 108, 101, 46, 99, 111, 109] [0] = .ok 0 := by decide
example : isAsciiDomain false [101, 120, 97, 109, 112, 108, 101, 46, 99, 111, 109, 46] [0] = .ok 0 := by decide
example : isAsciiDomain false [97, 46, 46] [0] = .ok (-19) := by decide
example : isAsciiDomain false [49, 46, 50] [0] = .ok (-22) := by decide
example : isAsciiDomain false [97, 95, 98, 46, 99] [0] = .ok (-20) ∧ isAsciiDomain true [97, 95, 98, 46, 99] [0] = .ok 0 := by decide
example : HostOk false [97, 46, 98] := ⟨[[97], [98]], [], by simp, Or.inl rfl, by decide, by decide, by decide, by decide⟩
/-- the contract matters: with another byte at `*end` a trailing hyphen is not seen -/
example : isAsciiDomain false [97, 45] [120, 0] = .ok 0 ∧ isAsciiDomain false [97, 45] [0] = .ok (-18) := by decide

end Eav.Props.C04
