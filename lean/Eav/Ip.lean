import Eav.Basic
import Eav.Codes
/-!
# `src/is_ipv4_ipv6.c` (Postfix `valid_ipv4_hostaddr` / `valid_ipv6_hostaddr`, end-pointer variant)

`strspn` / `strchr` ignore `end`: they are modelled on `s ++ after`.
-/
namespace Eav

/-- `start[strspn(start, "0.")]`: the first byte that is neither `0` nor `.`;
running off the modelled memory is a fault. -/
def byteAfterZeroDots : List Nat → Except Fault Nat
  | [] => .error .oob
  | c :: cs => if c == 48 || c == 46 then byteAfterZeroDots cs else .ok c

/-- loop of `is_ipv4`; `whole` = `start .. terminator` for the `strspn` test -/
def ipv4Loop (whole : List Nat) : List Nat → Bool → Nat → Nat → Except Fault Bool
  | [], _, _, bc => .ok (bc == 4)
  | c :: cs, inByte, bv, bc =>
    if c == 0 then .ok (bc == 4)
    else if isDigit c then
      let bc' := if inByte then bc else bc + 1
      let bv' := (if inByte then bv else 0) * 10 + (c - 48)
      if bv' > 255 then .ok false else ipv4Loop whole cs true bv' bc'
    else if c == 46 then
      -- `in_byte == 0 || (cp + 1) == end || cp[1] == 0`
      if !inByte || cs.isEmpty || cs.head? == some 0 then .ok false
      else if bc == 1 && bv == 0 then do
        let b ← byteAfterZeroDots whole
        if b != 0 then .ok false else ipv4Loop whole cs false bv bc
      else ipv4Loop whole cs false bv bc
    else .ok false

def isIpv4 (s after : List Nat) : Except Fault Bool := ipv4Loop (s ++ after) s false 0 0

/-- `strspn(cp, "0123456789abcdefABCDEF")`; `none` when the scan runs off the modelled memory -/
def spanHex : List Nat → Option Nat
  | [] => none
  | c :: cs => if isHex c then (spanHex cs).map (· + 1) else some 0

/-- terminal checks of `is_ipv6` (label `done:`) -/
def ipv6Fin (field nullField len : Nat) : Bool :=
  if field < 2 then false
  else if len == 0 && nullField != field - 1 then false
  else if nullField == 0 && field != 7 then false
  else true

/-- loop of `is_ipv6`.  `run` are the bytes of the hex group just scanned (`len = run.length`,
`cp - len` is where it starts), `skip` the bytes of that group still to step over
(`cp += len` is performed one byte at a time). -/
def ipv6Loop : List Nat → List Nat → Nat → Nat → List Nat → Nat → Except Fault Bool
  | [], _, field, nullField, run, _ => .ok (ipv6Fin field nullField run.length)
  | c :: cs, after, field, nullField, run, skip =>
    if skip > 0 then ipv6Loop cs after field nullField run (skip - 1)
    else if c == 0 then .ok (ipv6Fin field nullField run.length)
    else if c == 46 then
      if field < 2 || field > 6 then .ok false
      else if nullField == 0 && field != 6 then .ok false
      else ipv4Loop (run ++ c :: cs ++ after) (run ++ c :: cs) false 0 0    -- is_ipv4(cp - len, end)
    else if c == 58 then
      -- `field == 0 && len == 0 && ISALNUM(cp[1])`: cp[1] is read only when the first two hold
      match (if field == 0 && run.length == 0 then (peek cs after).map isAlnum else .ok false) with
      | .error e => .error e
      | .ok true => .ok false
      | .ok false =>
        let field' := field + 1
        if field' > 7 then .ok false
        else match peek cs after with            -- `*cp` after `cp++`
          | .error e => .error e
          | .ok n =>
            if n == 58 then
              if nullField > 0 then .ok false else ipv6Loop cs after field' field' [] 0
            else ipv6Loop cs after field' nullField [] 0
    else
      match spanHex (c :: cs ++ after) with
      | none => .error .oob
      | some n =>
        if n > 4 then .ok false
        else if n == 0 then .ok false
        else ipv6Loop cs after field nullField ((c :: cs ++ after).take n) (n - 1)


def isIpv6 (s after : List Nat) : Except Fault Bool := ipv6Loop s after 0 0 [] 0

/-- `strchr(start, ':') != NULL` on the NUL-terminated string `s ++ after` -/
def hasColonBeforeNul : List Nat → Except Fault Bool
  | [] => .error .oob
  | c :: cs => if c == 58 then .ok true else if c == 0 then .ok false else hasColonBeforeNul cs

def isIpaddr (s after : List Nat) : Except Fault Bool := do
  if (← hasColonBeforeNul (s ++ after)) then isIpv6 s after else isIpv4 s after

end Eav
