import Eav.Basic
import Eav.Codes
import Eav.Gen.TldTable
/-!
# `src/is_tld.c`: linear scan of `tld_list[]` with `strncasecmp (tld->domain, start, tld->length)`

The table is `Eav.Gen.tldTable`, regenerated on every run from the compiled `tld_list[]`.
`s` is the NUL-free label at `start`, whose terminator is at `end`.
-/
namespace Eav

def tldScan : List (List Nat × Nat × Nat) → List Nat → Int
  | [], _ => -(E.TLD_INVALID : Int)
  | (name, len, type) :: rows, s => if strncaseeq name s len then (type : Int) else tldScan rows s

def isTldIn (table : List (List Nat × Nat × Nat)) (s : List Nat) : Int :=
  if s.isEmpty then -(E.TLD_INVALID : Int) else tldScan table s

def isTld (s : List Nat) : Int := isTldIn Gen.tldTable s

end Eav
