import Eav.Model
/-!
# `check_ip`: the shape of what it reports (used by C09 and C16)
-/
namespace Eav

/-- what `check_ip` reports: never both families, a family exactly on success -/
theorem checkIp_shape (d : List Nat) (rc : Int) (v4 v6 : Bool) (lit : List Nat) (h : checkIp d = .ok (rc, v4, v6, lit)) :
    (rc = 0 → (v4 = true ∧ v6 = false) ∨ (v4 = false ∧ v6 = true)) ∧ (rc ≠ 0 → v4 = false ∧ v6 = false ∧ rc < 0) := by
  have iv : ∀ {x : Except Fault Bool} {a b : Bool} {inner : List Nat}, ((a = true ∧ b = false) ∨ (a = false ∧ b = true)) →
      ipVerdict x a b inner = .ok (rc, v4, v6, lit) →
      (rc = 0 → (v4 = true ∧ v6 = false) ∨ (v4 = false ∧ v6 = true)) ∧ (rc ≠ 0 → v4 = false ∧ v6 = false ∧ rc < 0) := by
    intro x a b inner hab hx
    unfold ipVerdict at hx
    split at hx
    · cases hx
    · simp only [Except.ok.injEq, Prod.mk.injEq] at hx
      obtain ⟨rfl, rfl, rfl, _⟩ := hx
      exact ⟨fun _ => hab, fun h => absurd rfl h⟩
    · simp only [Except.ok.injEq, Prod.mk.injEq] at hx
      obtain ⟨rfl, rfl, rfl, _⟩ := hx
      exact ⟨fun h => absurd h (by decide), fun _ => ⟨rfl, rfl, by decide⟩⟩
  have bad : ∀ {e : Nat}, e ≠ 0 → (Except.ok (-(e : Int), false, false, ([] : List Nat)) : Except Fault _) = .ok (rc, v4, v6, lit) →
      (rc = 0 → (v4 = true ∧ v6 = false) ∨ (v4 = false ∧ v6 = true)) ∧ (rc ≠ 0 → v4 = false ∧ v6 = false ∧ rc < 0) := by
    intro e he hx
    simp only [Except.ok.injEq, Prod.mk.injEq] at hx
    obtain ⟨rfl, rfl, rfl, _⟩ := hx
    exact ⟨fun h => by omega, fun _ => ⟨rfl, rfl, by omega⟩⟩
  unfold checkIp at h
  split at h
  · exact bad (by decide) h
  · split at h
    · exact bad (by decide) h
    · split at h
      · exact bad (by decide) h
      · simp only at h
        split at h
        · exact iv (Or.inr ⟨rfl, rfl⟩) h
        · split at h
          · exact iv (Or.inr ⟨rfl, rfl⟩) h
          · exact iv (Or.inl ⟨rfl, rfl⟩) h

end Eav
