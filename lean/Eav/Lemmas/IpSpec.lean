import Eav.Lemmas.Ip6Lower
/-!
# The executable address grammars (`v6_4291`, `v6_5321`: what the S stream evaluates) are the inductive
grammars (`IsV6_4291`, `IsV6_5321`: what the theorems are stated against)
-/
namespace Eav
open Eav.Spec

/-- what both grammars need of a dotted-quad test: a quad is not empty, has no colon and is not a hex group -/
def QuadLike (q : List Nat → Bool) : Prop := ∀ t, q t = true → t ≠ [] ∧ 58 ∉ t ∧ h16 t = false

theorem h16_no_colon {g : List Nat} (h : h16 g = true) : 58 ∉ g := by
  intro hm
  have := (h16_parts h).1
  rw [List.all_eq_true] at this
  exact absurd (this 58 hm) (by decide)

theorem splitOn_no_sep (c : Nat) : ∀ (w : List Nat), c ∉ w → splitOn c w = [w]
  | [], _ => rfl
  | x :: xs, h => by
    have hx : x ≠ c := fun e => h (by simp [e])
    obtain ⟨w', ws', hs, hs'⟩ := splitOn_cons_ne xs hx
    rw [splitOn_no_sep c xs (fun hm => h (by simp [hm]))] at hs
    cases hs
    exact hs'

theorem splitOn_append (c : Nat) : ∀ (w rest : List Nat), c ∉ w → splitOn c (w ++ c :: rest) = w :: splitOn c rest
  | [], rest, _ => splitOn_sep c rest
  | x :: xs, rest, h => by
    have hx : x ≠ c := fun e => h (by simp [e])
    obtain ⟨w', ws', hs, hs'⟩ := splitOn_cons_ne (xs ++ c :: rest) hx
    rw [splitOn_append c xs rest (fun hm => h (by simp [hm]))] at hs
    cases hs
    exact hs'

/-- inverse of `splitOn_append` -/
theorem splitOn_decomp' (c : Nat) : ∀ (t w w2 : List Nat) (ws : List (List Nat)), splitOn c t = w :: w2 :: ws →
    ∃ t', t = w ++ c :: t' ∧ c ∉ w ∧ splitOn c t' = w2 :: ws
  | [], w, w2, ws, h => by simp [splitOn] at h
  | x :: xs, w, w2, ws, h => by
    by_cases hx : x = c
    · subst hx
      rw [splitOn_sep] at h
      simp only [List.cons.injEq] at h
      exact ⟨xs, by rw [← h.1]; rfl, by rw [← h.1]; simp, h.2⟩
    · obtain ⟨w', ws', hs, hs'⟩ := splitOn_cons_ne xs hx
      rw [hs'] at h
      simp only [List.cons.injEq] at h
      obtain ⟨rfl, rfl⟩ := h
      obtain ⟨t', ht, hnw, hst⟩ := splitOn_decomp' c xs w' w2 ws hs
      exact ⟨t', by rw [ht]; rfl, by simp [hnw, Ne.symm hx], hst⟩

theorem splitOn_single (c : Nat) (t w : List Nat) (h : splitOn c t = [w]) : t = w ∧ c ∉ w := by
  induction t generalizing w with
  | nil => simp [splitOn] at h; subst h; simp
  | cons x xs ih =>
    by_cases hx : x = c
    · subst hx
      rw [splitOn_sep] at h
      simp only [List.cons.injEq] at h
      exact absurd h.2 (splitOn_ne_nil _ _)
    · obtain ⟨w', ws', hs, hs'⟩ := splitOn_cons_ne xs hx
      rw [hs'] at h
      simp only [List.cons.injEq] at h
      obtain ⟨rfl, rfl⟩ := h
      obtain ⟨h1, h2⟩ := ih w' hs
      exact ⟨by rw [h1], by simp [h2, Ne.symm hx]⟩

/-- `groupsCount` on the list of fields -/
def countFields (q : List Nat → Bool) (allowTail : Bool) : List (List Nat) → Option Nat
  | [] => none
  | [last] => if h16 last then some 1 else if allowTail && q last then some 2 else none
  | f :: f2 :: fs => if h16 f then (countFields q allowTail (f2 :: fs)).map (· + 1) else none

theorem groupsCount_eq (q : List Nat → Bool) (at' : Bool) (s : List Nat) (hs : s ≠ []) :
    groupsCount q at' s = countFields q at' (splitOn 58 s) := by
  unfold groupsCount
  have he : s.isEmpty = false := by cases s with | nil => exact absurd rfl hs | cons => rfl
  simp only [he, Bool.false_eq_true, if_false]
  generalize splitOn 58 s = fs
  induction fs with
  | nil => rfl
  | cons f fs ih =>
    cases fs with
    | nil =>
      simp only [List.dropLast_singleton, List.getLast?_singleton, List.all_nil, Bool.not_true, Bool.false_eq_true, if_false,
        List.length_cons, List.length_nil, countFields]
    | cons f2 fs2 =>
      simp only [List.dropLast_cons₂, List.getLast?_cons_cons, List.all_cons, List.length_cons] at ih ⊢
      rw [countFields]
      by_cases hf : h16 f = true
      · simp only [hf, Bool.true_and, if_true]
        rw [← ih]
        cases (f2 :: fs2).getLast? with
        | none => rfl
        | some last =>
          simp only
          split
          · rfl
          · split
            · simp
            · split
              · simp
              · rfl
      · have hf' : h16 f = false := by simpa using hf
        simp only [hf', Bool.false_and, Bool.not_false, if_true, Bool.false_eq_true, if_false]
        cases (f2 :: fs2).getLast? <;> rfl

/-- fields ⇔ inductive grammar, with a dotted-quad tail allowed -/
theorem countFields_tail {q : List Nat → Bool} (hq : QuadLike q) : ∀ (fs : List (List Nat)) (s : List Nat) (n : Nat),
    splitOn 58 s = fs → (countFields q true fs = some n ↔ IsTail q n s)
  | [], s, n, h => absurd h (splitOn_ne_nil _ _)
  | [last], s, n, h => by
    obtain ⟨rfl, hnc⟩ := splitOn_single 58 s last h
    simp only [countFields, Bool.true_and]
    constructor
    · intro hc
      by_cases h1 : h16 s = true
      · simp only [h1, if_true, Option.some.injEq] at hc; subst hc; exact IsTail.one h1
      · simp only [h1, Bool.false_eq_true, if_false] at hc
        by_cases h2 : q s = true
        · simp only [h2, if_true, Option.some.injEq] at hc; subst hc; exact IsTail.quad h2
        · simp [h2] at hc
    · intro ht
      cases ht with
      | one hg => simp [hg]
      | quad hq' => simp [(hq _ hq').2.2, hq']
      | cons hg _ => exact absurd (by simp) hnc
  | f :: f2 :: fs, s, n, h => by
    obtain ⟨t', rfl, hnc, hst⟩ := splitOn_decomp' 58 s f f2 fs h
    have ih := fun m => countFields_tail hq (f2 :: fs) t' m hst
    rw [countFields]
    constructor
    · intro hc
      by_cases h1 : h16 f = true
      · simp only [h1, if_true, Option.map_eq_some_iff] at hc
        obtain ⟨m, hm, rfl⟩ := hc
        exact IsTail.cons h1 ((ih m).mp hm)
      · simp [h1] at hc
    · intro ht
      generalize hs : f ++ 58 :: t' = s at ht
      cases ht with
      | one hg => exact absurd (by rw [← hs]; simp) (h16_no_colon hg)
      | quad hq' => exact absurd (by rw [← hs]; simp) (hq _ hq').2.1
      | @cons g s' n' hg ht' =>
        -- the first colon of `g ++ ':' :: s'` is the first colon of `f ++ ':' :: t'`
        have e := splitOn_append 58 g s' (h16_no_colon hg)
        rw [← hs, splitOn_append 58 f t' hnc] at e
        simp only [List.cons.injEq] at e
        obtain ⟨rfl, e2⟩ := e
        have : t' = s' := by
          have := List.append_cancel_left hs
          simpa using this
        subst this
        simp only [hg, if_true, Option.map_eq_some_iff]
        exact ⟨n', (ih n').mpr ht', rfl⟩

/-- fields ⇔ inductive grammar, hexadecimal groups only -/
theorem countFields_groups (q : List Nat → Bool) : ∀ (fs : List (List Nat)) (s : List Nat) (n : Nat),
    splitOn 58 s = fs → (countFields q false fs = some n ↔ IsGroups n s)
  | [], s, n, h => absurd h (splitOn_ne_nil _ _)
  | [last], s, n, h => by
    obtain ⟨rfl, hnc⟩ := splitOn_single 58 s last h
    simp only [countFields, Bool.false_and, Bool.false_eq_true, if_false]
    constructor
    · intro hc
      by_cases h1 : h16 s = true
      · simp only [h1, if_true, Option.some.injEq] at hc; subst hc; exact IsGroups.one h1
      · simp [h1] at hc
    · intro ht
      cases ht with
      | one hg => simp [hg]
      | cons hg _ => exact absurd (by simp) hnc
  | f :: f2 :: fs, s, n, h => by
    obtain ⟨t', rfl, hnc, hst⟩ := splitOn_decomp' 58 s f f2 fs h
    have ih := fun m => countFields_groups q (f2 :: fs) t' m hst
    rw [countFields]
    constructor
    · intro hc
      by_cases h1 : h16 f = true
      · simp only [h1, if_true, Option.map_eq_some_iff] at hc
        obtain ⟨m, hm, rfl⟩ := hc
        exact IsGroups.cons h1 ((ih m).mp hm)
      · simp [h1] at hc
    · intro ht
      generalize hs : f ++ 58 :: t' = s at ht
      cases ht with
      | one hg => exact absurd (by rw [← hs]; simp) (h16_no_colon hg)
      | @cons g s' n' hg ht' =>
        have e := splitOn_append 58 g s' (h16_no_colon hg)
        rw [← hs, splitOn_append 58 f t' hnc] at e
        simp only [List.cons.injEq] at e
        obtain ⟨rfl, e2⟩ := e
        have : t' = s' := by
          have := List.append_cancel_left hs
          simpa using this
        subst this
        simp only [hg, if_true, Option.map_eq_some_iff]
        exact ⟨n', (ih n').mpr ht', rfl⟩

theorem isTail_ne_nil {q : List Nat → Bool} (hq : QuadLike q) {n : Nat} {s : List Nat} (h : IsTail q n s) : s ≠ [] := by
  cases h with
  | one hg => exact (h16_parts hg).2.1
  | quad hq' => exact (hq _ hq').1
  | cons => simp

theorem isGroups_ne_nil {n : Nat} {s : List Nat} (h : IsGroups n s) : s ≠ [] := by
  cases h with
  | one hg => exact (h16_parts hg).2.1
  | cons => simp

theorem groupsCount_tail {q : List Nat → Bool} (hq : QuadLike q) (s : List Nat) (n : Nat) :
    groupsCount q true s = some n ↔ (s = [] ∧ n = 0 ∨ IsTail q n s) := by
  by_cases hs : s = []
  · subst hs
    have e : groupsCount q true [] = some 0 := rfl
    rw [e]
    constructor
    · intro h; cases h; exact Or.inl ⟨rfl, rfl⟩
    · rintro (⟨_, h⟩ | h)
      · rw [h]
      · exact absurd rfl (isTail_ne_nil hq h)
  · rw [groupsCount_eq q true s hs, countFields_tail hq _ s n rfl]
    constructor
    · exact Or.inr
    · rintro (⟨h, _⟩ | h)
      · exact absurd h hs
      · exact h

theorem groupsCount_groups (q : List Nat → Bool) (s : List Nat) (n : Nat) :
    groupsCount q false s = some n ↔ (s = [] ∧ n = 0 ∨ IsGroups n s) := by
  by_cases hs : s = []
  · subst hs
    have e : groupsCount q false [] = some 0 := rfl
    rw [e]
    constructor
    · intro h; cases h; exact Or.inl ⟨rfl, rfl⟩
    · rintro (⟨_, h⟩ | h)
      · rw [h]
      · exact absurd rfl (isGroups_ne_nil h)
  · rw [groupsCount_eq q false s hs, countFields_groups q _ s n rfl]
    constructor
    · exact Or.inr
    · rintro (⟨h, _⟩ | h)
      · exact absurd h hs
      · exact h

/-! ### `findDC`: the first `::` -/

theorem findDC_cons2 (x y : Nat) (rest : List Nat) (h : ¬ (x = 58 ∧ y = 58)) :
    findDC (x :: y :: rest) = (findDC (y :: rest)).map fun (l, r) => (x :: l, r) := by
  rw [findDC]
  have : (x == 58 && y == 58) = false := by
    cases hx : x == 58 <;> cases hy : y == 58 <;> simp_all
  rw [this]; rfl

theorem findDC_some : ∀ (a l r : List Nat), findDC a = some (l, r) → a = l ++ 58 :: 58 :: r
  | [], l, r, h => by simp [findDC] at h
  | [x], l, r, h => by simp [findDC] at h
  | x :: y :: rest, l, r, h => by
    by_cases hxy : x = 58 ∧ y = 58
    · obtain ⟨rfl, rfl⟩ := hxy
      simp only [findDC, beq_self_eq_true, Bool.and_self, if_true, Option.some.injEq, Prod.mk.injEq] at h
      obtain ⟨rfl, rfl⟩ := h; rfl
    · rw [findDC_cons2 x y rest hxy] at h
      simp only [Option.map_eq_some_iff] at h
      obtain ⟨⟨l', r'⟩, hf, he⟩ := h
      simp only [Prod.mk.injEq] at he
      obtain ⟨rfl, rfl⟩ := he
      rw [findDC_some (y :: rest) l' r' hf]; rfl

/-- no `::` inside, and no colon at the end -/
def NoDC : List Nat → Prop
  | [] => True
  | [x] => x ≠ 58
  | x :: y :: rest => ¬ (x = 58 ∧ y = 58) ∧ NoDC (y :: rest)

theorem findDC_first : ∀ (l r : List Nat), NoDC l → findDC (l ++ 58 :: 58 :: r) = some (l, r)
  | [], r, _ => by simp [findDC]
  | [x], r, h => by
    have hx : x ≠ 58 := h
    show findDC (x :: 58 :: 58 :: r) = _
    rw [findDC_cons2 x 58 _ (fun e => hx e.1)]
    simp [findDC]
  | x :: y :: rest, r, h => by
    obtain ⟨hxy, hrest⟩ := h
    show findDC (x :: y :: (rest ++ 58 :: 58 :: r)) = _
    rw [findDC_cons2 x y _ hxy]
    have := findDC_first (y :: rest) r hrest
    simp only [List.cons_append] at this
    rw [this]; rfl

theorem findDC_none_of_noDC : ∀ (a : List Nat), NoDC a → findDC a = none
  | [], _ => by simp [findDC]
  | [x], _ => by simp [findDC]
  | x :: y :: rest, h => by
    obtain ⟨hxy, hrest⟩ := h
    rw [findDC_cons2 x y rest hxy, findDC_none_of_noDC (y :: rest) hrest]; rfl

theorem noDC_append_colon : ∀ (g s : List Nat), 58 ∉ g → g ≠ [] → s ≠ [] → NoDC s → s.head? ≠ some 58 → NoDC (g ++ 58 :: s)
  | [], _, _, h, _, _, _ => absurd rfl h
  | [x], s, hg, _, hne, hs, hh => by
    have hx : x ≠ 58 := fun e => hg (by simp [e])
    cases s with
    | nil => exact absurd rfl hne
    | cons y ys =>
      have hy : y ≠ 58 := by simpa using hh
      exact ⟨fun h => hx h.1, fun h => hy h.2, hs⟩
  | x :: y :: g, s, hg, _, hne, hs, hh => by
    have hx : x ≠ 58 := fun e => hg (by simp [e])
    exact ⟨fun h => hx h.1, noDC_append_colon (y :: g) s (fun hm => hg (by simp [hm])) (by simp) hne hs hh⟩

theorem noDC_of_no_colon : ∀ (g : List Nat), 58 ∉ g → NoDC g
  | [], _ => trivial
  | [x], h => fun e => h (by simp [e])
  | x :: y :: g, h => ⟨fun e => h (by simp [e.1]), noDC_of_no_colon (y :: g) (fun hm => h (by simp [hm]))⟩

theorem isTail_noDC {q : List Nat → Bool} (hq : QuadLike q) {n : Nat} {s : List Nat} (h : IsTail q n s) :
    NoDC s ∧ s.head? ≠ some 58 := by
  induction h with
  | one hg =>
    refine ⟨noDC_of_no_colon _ (h16_no_colon hg), ?_⟩
    intro hh
    exact h16_no_colon hg (List.mem_of_mem_head? hh)
  | quad hq' =>
    refine ⟨noDC_of_no_colon _ (hq _ hq').2.1, ?_⟩
    intro hh
    exact (hq _ hq').2.1 (List.mem_of_mem_head? hh)
  | @cons g s n hg hs ih =>
    refine ⟨noDC_append_colon g s (h16_no_colon hg) (h16_parts hg).2.1 (isTail_ne_nil hq hs) ih.1 ih.2, ?_⟩
    intro hh
    have hne := (h16_parts hg).2.1
    cases g with
    | nil => exact absurd rfl hne
    | cons c g' =>
      simp at hh
      exact h16_no_colon hg (by simp [hh])

theorem isGroups_noDC {n : Nat} {s : List Nat} (h : IsGroups n s) : NoDC s ∧ s.head? ≠ some 58 := by
  induction h with
  | one hg =>
    refine ⟨noDC_of_no_colon _ (h16_no_colon hg), ?_⟩
    intro hh
    exact h16_no_colon hg (List.mem_of_mem_head? hh)
  | @cons g s n hg hs ih =>
    refine ⟨noDC_append_colon g s (h16_no_colon hg) (h16_parts hg).2.1 (isGroups_ne_nil hs) ih.1 ih.2, ?_⟩
    intro hh
    have hne := (h16_parts hg).2.1
    cases g with
    | nil => exact absurd rfl hne
    | cons c g' =>
      simp at hh
      exact h16_no_colon hg (by simp [hh])

/-- **executable form ⇔ inductive grammar**, for any dotted-quad test and any bound on the groups written around `::` -/
theorem v6_generic {q : List Nat → Bool} (hq : QuadLike q) (m : Nat) (a : List Nat) :
    (match findDC a with
      | none => groupsCount q true a == some 8
      | some (l, r) =>
        match groupsCount q false l, groupsCount q true r with
        | some nl, some nr => decide (nl + nr ≤ m)
        | _, _ => false) = true ↔ IsV6 q m a := by
  constructor
  · intro h
    cases hf : findDC a with
    | none =>
      rw [hf] at h
      simp only [beq_iff_eq] at h
      rcases (groupsCount_tail hq a 8).mp h with ⟨_, h8⟩ | ht
      · cases h8
      · exact Or.inl ht
    | some lr =>
      obtain ⟨l, r⟩ := lr
      rw [hf] at h
      simp only at h
      have ha := findDC_some a l r hf
      cases hl : groupsCount q false l with
      | none => rw [hl] at h; simp at h
      | some nl =>
        cases hr : groupsCount q true r with
        | none => rw [hl, hr] at h; simp at h
        | some nr =>
          rw [hl, hr] at h
          simp only [decide_eq_true_eq] at h
          exact Or.inr ⟨l, r, nl, nr, ha, (groupsCount_groups q l nl).mp hl, (groupsCount_tail hq r nr).mp hr, h⟩
  · rintro (ht | ⟨l, r, nl, nr, rfl, hl, hr, hle⟩)
    · rw [findDC_none_of_noDC a (isTail_noDC hq ht).1]
      simp only [beq_iff_eq]
      exact (groupsCount_tail hq a 8).mpr (Or.inr ht)
    · have hnl : NoDC l := by
        rcases hl with ⟨rfl, _⟩ | hg
        · trivial
        · exact (isGroups_noDC hg).1
      rw [findDC_first l r hnl]
      simp only
      rw [(groupsCount_groups q l nl).mpr hl, (groupsCount_tail hq r nr).mpr hr]
      simpa using hle

theorem v4_quadLike : QuadLike v4 := by
  intro t ht
  have hch : ∀ x ∈ t, isDigit x = true ∨ x = 46 := by
    intro x hx
    simp only [v4, Bool.and_eq_true, List.all_eq_true] at ht
    -- every byte is a separator or belongs to a field
    have key : ∀ (t : List Nat) (x : Nat), x ∈ t → x = 46 ∨ ∃ w ∈ splitOn 46 t, x ∈ w := by
      intro t
      induction t with
      | nil => intro x h; simp at h
      | cons y ys ih =>
        intro x h
        by_cases hy : y = 46
        · subst hy
          rw [splitOn_sep]
          rcases List.mem_cons.mp h with rfl | h'
          · exact Or.inl rfl
          · rcases ih x h' with h1 | ⟨w, hw, hx⟩
            · exact Or.inl h1
            · exact Or.inr ⟨w, by simp [hw], hx⟩
        · obtain ⟨w', ws', hs, hs'⟩ := splitOn_cons_ne ys hy
          rw [hs']
          rcases List.mem_cons.mp h with rfl | h'
          · exact Or.inr ⟨x :: w', by simp, by simp⟩
          · rcases ih x h' with h1 | ⟨w, hw, hx⟩
            · exact Or.inl h1
            · rw [hs] at hw
              rcases List.mem_cons.mp hw with rfl | hw'
              · exact Or.inr ⟨y :: w, by simp, by simp [hx]⟩
              · exact Or.inr ⟨w, by simp [hw'], hx⟩
    rcases key t x hx with h1 | ⟨w, hw, hxw⟩
    · exact Or.inr h1
    · have := ht.2 w hw
      simp only [decOctet, Bool.and_eq_true, List.all_eq_true] at this
      exact Or.inl (this.1.2 x hxw)
  refine ⟨?_, ?_, ?_⟩
  · intro h; subst h; simp [v4, splitOn] at ht
  · intro hm
    rcases hch 58 hm with h | h
    · exact absurd h (by decide)
    · exact absurd h (by decide)
  · -- a dotted quad contains a dot, a hexadecimal group does not
    cases hh : h16 t with
    | false => rfl
    | true =>
      exfalso
      have hhex := (h16_parts hh).1
      rw [List.all_eq_true] at hhex
      have h46 : 46 ∈ t := by
        simp only [v4, Bool.and_eq_true, beq_iff_eq] at ht
        cases hs : splitOn 46 t with
        | nil => exact absurd hs (splitOn_ne_nil _ _)
        | cons w ws =>
          cases ws with
          | nil => rw [hs] at ht; simp at ht
          | cons w2 ws2 =>
            obtain ⟨t', ht'⟩ := splitOn_decomp 46 t w w2 ws2 hs
            rw [ht']; simp
      exact absurd (hhex 46 h46) (by decide)

theorem quad5321_quadLike : QuadLike quad5321 := by
  intro t ht
  simp only [quad5321, Bool.and_eq_true] at ht
  exact v4_quadLike t (quad_decomp ht.1).choose_spec.choose_spec.2.2.2.2

/-- the executable upper-bound grammar is the inductive one -/
theorem v6_4291_iff (a : List Nat) : v6_4291 a = true ↔ IsV6_4291 a := by
  unfold v6_4291 IsV6_4291
  exact v6_generic v4_quadLike 7 a

/-- the executable lower-bound grammar is the inductive one -/
theorem v6_5321_iff (a : List Nat) : v6_5321 a = true ↔ IsV6_5321 a := by
  unfold v6_5321 IsV6_5321
  exact v6_generic quad5321_quadLike 6 a

end Eav
