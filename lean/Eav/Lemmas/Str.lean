import Eav.Basic
/-! Helper lemmas about the libc-primitive models (`strncaseeq`, `toLower`, `splitDots`). -/
namespace Eav

theorem toLower_idem (c : Nat) : toLower (toLower c) = toLower c := by
  unfold toLower isUpper
  split <;> simp_all <;> omega

theorem lowerAll_idem (s : List Nat) : lowerAll (lowerAll s) = lowerAll s := by
  simp [lowerAll, toLower_idem]

@[simp] theorem lowerAll_nil : lowerAll [] = [] := rfl
@[simp] theorem lowerAll_cons (c : Nat) (s : List Nat) : lowerAll (c :: s) = toLower c :: lowerAll s := rfl
@[simp] theorem lowerAll_length (s : List Nat) : (lowerAll s).length = s.length := by simp [lowerAll]

/-- comparing at least one position past the longer string is comparing whole strings -/
theorem strncaseeq_full : ∀ (a b : List Nat) (n : Nat), a.length < n →
    strncaseeq a b n = (lowerAll a == lowerAll b)
  | [], [], n, h => by
    cases n with
    | zero => omega
    | succ n => simp [strncaseeq]
  | [], _ :: _, n, h => by
    cases n with
    | zero => omega
    | succ n => simp [strncaseeq]
  | _ :: _, [], n, h => by
    cases n with
    | zero => simp at h
    | succ n => simp [strncaseeq]
  | a :: as, b :: bs, n, h => by
    cases n with
    | zero => simp at h
    | succ n =>
      have ih := strncaseeq_full as bs n (by simp at h; omega)
      simp only [strncaseeq, ih, lowerAll_cons]
      rw [Bool.eq_iff_iff]
      simp

theorem nat_beq_symm (x y : Nat) : (x == y) = (y == x) := by
  rw [Bool.eq_iff_iff]; simp only [beq_iff_eq]; exact eq_comm

theorem list_beq_symm (x y : List Nat) : (x == y) = (y == x) := by
  rw [Bool.eq_iff_iff]; simp only [beq_iff_eq]; exact eq_comm

theorem strncaseeq_comm : ∀ (a b : List Nat) (n : Nat), strncaseeq a b n = strncaseeq b a n
  | _, _, 0 => by simp [strncaseeq]
  | [], [], _ + 1 => rfl
  | [], _ :: _, _ + 1 => rfl
  | _ :: _, [], _ + 1 => rfl
  | a :: as, b :: bs, n + 1 => by
    simp only [strncaseeq, strncaseeq_comm as bs n, nat_beq_symm (toLower a) (toLower b)]

theorem strncaseeq_full_right (a b : List Nat) (n : Nat) (h : b.length < n) :
    strncaseeq a b n = (lowerAll a == lowerAll b) := by
  rw [strncaseeq_comm, strncaseeq_full b a n h, list_beq_symm]

/-- a lower-case name is its own lower-case form -/
def isLowerName (s : List Nat) : Bool := s.all (fun c => !isUpper c)

theorem lowerAll_of_isLowerName {s : List Nat} (h : isLowerName s = true) : lowerAll s = s := by
  induction s with
  | nil => rfl
  | cons c cs ih =>
    simp [isLowerName] at h
    simp [toLower, h.1]
    exact ih (by simpa [isLowerName] using h.2)

theorem splitDots_ne_nil (cs : List Nat) : splitDots cs ≠ [] := by
  induction cs with
  | nil => simp [splitDots]
  | cons c cs ih =>
    unfold splitDots
    split
    · simp
    · split <;> simp

theorem dropLast_append_of_getLast? : ∀ (s : List Nat) (a : Nat), s.getLast? = some a → s.dropLast ++ [a] = s
  | [], _, h => by simp at h
  | [x], a, h => by simp at h; simp [h]
  | x :: y :: r, a, h => by
    have := dropLast_append_of_getLast? (y :: r) a (by simpa [List.getLast?_cons_cons] using h)
    simp [this]

end Eav
