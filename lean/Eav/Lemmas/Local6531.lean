import Eav.Local
import Eav.Spec.Local
import Eav.Spec.Utf8
import Eav.Lemmas.LocalGrammar
import Eav.Lemmas.LocalScan
import Eav.Lemmas.Utf8
/-!
# `is_6531_local` (default build) accepts exactly: well-formed UTF-8 whose characters, with every
non-ASCII character read as one more atom / quoted-text symbol, form an RFC 5321 local part
-/
namespace Eav
open Spec Spec.St

/-- what the scanner knows outside quotes; `hd` is the first byte of the rest of the input (if any) -/
inductive UInv6 : Option Nat → St → Option Nat → Prop
  | start (hd : Option Nat) : hd ≠ none → UInv6 none wordStart hd
  | afterDot (hd : Option Nat) : hd ≠ none → hd ≠ some 46 → UInv6 (some 46) wordStart hd
  | afterQuote (hd : Option Nat) : (hd = none ∨ hd = some 46) → UInv6 (some 34) afterQuote hd
  | inAtom (p : Nat) (hd : Option Nat) : atext .m6531 p = true → UInv6 (some p) inAtom hd

/-- emptiness and "starts with a dot" are all the scanner asks of the rest of the input -/
def hclass (h : Option Nat) : Bool × Bool := (h.isNone, h == some 46)

theorem stepSt_6531_next (st : St) (c : Nat) (n1 n2 : Option Nat) : stepSt .m6531 st c n1 = stepSt .m6531 st c n2 := by
  cases st <;> simp [stepSt, blocked]

/-- one ASCII character outside quotes: `R` is the scanner's rest (bytes), `S` the recogniser's rest (symbols) -/
theorem unq_sim6 (prev : Option Nat) (st : St) (c : Nat) (R S : List Nat) (hcl : hclass R.head? = hclass S.head?)
    (hinv : UInv6 prev st (some c)) (h0 : c ≠ 0) (h127 : c ≤ 127) (hctl : isCntrl c = false) :
    match unquotedStep [] prev c R with
    | .error _ => runFrom .m6531 st (c :: S) = false
    | .ok true => stepSt .m6531 st c S.head? = some (inQuote 34) ∧ c = 34
    | .ok false => ∃ st', stepSt .m6531 st c S.head? = some st' ∧ UInv6 (some c) st' R.head? := by
  have hE : R.isEmpty = S.isEmpty := by
    have := congrArg Prod.fst hcl
    cases R <;> cases S <;> simp [hclass] at this ⊢
  have hD : (R.head? == some 46) = (S.head? == some 46) := congrArg Prod.snd hcl
  unfold unquotedStep
  by_cases h34 : c = 34
  · subst h34
    simp only [beq_self_eq_true, if_true]
    cases hinv with
    | start _ _ => simp [stepSt]
    | afterDot _ _ _ => simp [stepSt]
    | afterQuote _ hh => simp at hh
    | inAtom p _ hp =>
      have := atext_ne hp
      have hp46 : (p == 46) = false := by simpa using this.2.1
      simp [hp46, runFrom_cons, stepSt, atext, atextAscii, special]
  · have h34' : (c == 34) = false := by simpa using h34
    simp only [h34', Bool.false_eq_true, if_false]
    by_cases h46 : c = 46
    · subst h46
      simp only [beq_self_eq_true, if_true]
      have key : ∀ st0, (st0 = afterQuote ∨ st0 = inAtom) → ∀ p, prev = some p →
          match (if (prev == none || R.isEmpty) = true then (Except.error (-(E.LPART_MISPLACED_DOT : Int)) : Except Int Bool)
                 else if (R.head? == some 46) = true then .error (-(E.LPART_TOO_MANY_DOTS : Int)) else .ok false) with
          | .error _ => runFrom .m6531 st0 (46 :: S) = false
          | .ok true => stepSt .m6531 st0 46 S.head? = some (inQuote 34) ∧ (46 : Nat) = 34
          | .ok false => ∃ st', stepSt .m6531 st0 46 S.head? = some st' ∧ UInv6 (some 46) st' R.head? := by
        intro st0 hst0 p hp
        subst hp
        have hstep : ∀ nx, stepSt .m6531 st0 46 nx = some wordStart := by
          intro nx; rcases hst0 with rfl | rfl <;> simp [stepSt]
        cases S with
        | nil =>
          have : R.isEmpty = true := by simpa using hE
          simp [this, runFrom_cons, hstep, runFrom_wordStart_nil]
        | cons d ds =>
          have hRe : R.isEmpty = false := by simpa using hE
          have hRd : (R.head? == some 46) = (d == 46) := by simpa using hD
          by_cases hd : d = 46
          · subst hd
            have hw : runFrom .m6531 st0 (46 :: 46 :: ds) = false := by
              rw [runFrom_cons, hstep]; exact runFrom_wordStart_dot .m6531 ds
            simp [hRe, hRd, hw]
          · have hd' : (d == 46) = false := by simpa using hd
            simp only [hRe, hRd, hd', Bool.or_false, Bool.false_eq_true, if_false, beq_iff_eq, reduceCtorEq]
            refine ⟨wordStart, hstep _, UInv6.afterDot _ ?_ ?_⟩
            · cases R <;> simp_all
            · intro e; rw [e] at hRd; simp at hRd; exact hd hRd.symm.symm
      cases hinv with
      | start _ _ => simp [runFrom_wordStart_dot]
      | afterDot _ _ hh => simp at hh
      | afterQuote _ _ => exact key afterQuote (Or.inl rfl) 34 rfl
      | inAtom p _ _ => exact key inAtom (Or.inr rfl) p rfl
    · have h46' : (c == 46) = false := by simpa using h46
      simp only [h46', Bool.false_eq_true, if_false]
      by_cases hs : specials.contains c = true
      · have hna : atext .m6531 c = false := not_atext_special hs
        simp only [hs, List.contains_nil, Bool.or_false, if_true]
        cases hinv with
        | start _ _ => simp [runFrom_cons, stepSt, h34', hna]
        | afterDot _ _ _ => simp [runFrom_cons, stepSt, h34', hna]
        | afterQuote _ _ => simp [runFrom_cons, stepSt, h46']
        | inAtom p _ _ => simp [runFrom_cons, stepSt, h46', hna]
      · have hs' : specials.contains c = false := by simpa using hs
        have ha : atext .m6531 c = true := atext_of_plain h0 h127 hctl h34 h46 hs'
        simp only [hs', List.contains_nil, Bool.or_false, Bool.false_eq_true, if_false]
        cases hinv with
        | start _ _ => exact ⟨inAtom, by simp [stepSt, h34', ha], UInv6.inAtom c _ ha⟩
        | afterDot _ _ _ => exact ⟨inAtom, by simp [stepSt, h34', ha], UInv6.inAtom c _ ha⟩
        | afterQuote _ hcl' => simp at hcl'; exact absurd hcl' h46
        | inAtom p _ _ => exact ⟨inAtom, by simp [stepSt, h46', ha], UInv6.inAtom c _ ha⟩

/-- the symbol a character stands for -/
def sym (cp : Nat) : Nat := if cp ≥ 128 then 128 else cp

theorem collapse_cons (cp : Nat) (cps : List Nat) : collapse (cp :: cps) = sym cp :: collapse cps := rfl

theorem decAll_fin {inp : List Nat} (h : decodeNext inp = .fin) : decAll inp = some [] := by
  rw [decodeNext_fin h]; exact decAll_nil

theorem decAll_err {inp : List Nat} (h : decodeNext inp = .err) : decAll inp = none := by
  unfold decAll
  split
  · rename_i h'; rw [h] at h'; cases h'
  · rfl
  · rename_i h'; rw [h] at h'; cases h'

theorem decAll_step {inp : List Nat} {cp : Nat} {rest : List Nat} (h : decodeNext inp = .ch cp rest) :
    decAll inp = (decAll rest).map (cp :: ·) := by
  rw [decAll]
  split
  · rename_i h'; rw [h] at h'; cases h'
  · rename_i h'; rw [h] at h'; cases h'
  · rename_i c r h'; rw [h] at h'; cases h'; rfl

/-- first byte of a character: itself for ASCII, a lead byte `≥ 192` otherwise -/
theorem head_of_char {inp : List Nat} {cp : Nat} {rest : List Nat} (h : decodeNext inp = .ch cp rest) :
    (cp < 128 → inp.head? = some cp) ∧ (cp ≥ 128 → ∃ L, inp.head? = some L ∧ L ≥ 192) := by
  obtain ⟨_, hs⟩ := decodeNext_sound h
  subst hs
  unfold utf8Enc
  constructor
  · intro hlt; simp [hlt]
  · intro hge
    have h1 : ¬ cp < 128 := by omega
    simp only [h1, if_false]
    split
    · exact ⟨192 + cp / 64, by simp, by omega⟩
    · split
      · exact ⟨224 + cp / 4096, by simp, by omega⟩
      · exact ⟨240 + cp / 262144, by simp, by omega⟩

theorem hclass_of_decAll {rest : List Nat} {cps : List Nat} (h : decAll rest = some cps) :
    hclass rest.head? = hclass (collapse cps).head? := by
  cases hd : decodeNext rest with
  | fin =>
    have := decAll_fin hd
    rw [this] at h; cases h
    rw [decodeNext_fin hd]; rfl
  | err => rw [decAll_err hd] at h; cases h
  | ch cp r =>
    rw [decAll_step hd] at h
    cases hr : decAll r with
    | none => simp [hr] at h
    | some l =>
      simp only [hr, Option.map_some, Option.some.injEq] at h
      subst h
      have hh := head_of_char hd
      by_cases hlt : cp < 128
      · rw [hh.1 hlt, collapse_cons]
        have : sym cp = cp := by simp [sym]; omega
        simp [this]
      · obtain ⟨L, hL, hge⟩ := hh.2 (by omega)
        rw [hL, collapse_cons]
        have : sym cp = 128 := by simp [sym]; omega
        simp [this, hclass]; omega

/-- the scanner's variables and the recogniser's state; inside quotes `prev` plays no role in mode 5321 rules -/
def SInv6 (prev : Option Nat) (quote qpair : Bool) (st : St) (hd : Option Nat) : Prop :=
  if quote then (if qpair then st = inPair else ∃ p, st = inQuote p)
  else qpair = false ∧ UInv6 prev st hd

theorem runFrom_nil_unq6 {prev : Option Nat} {st : St} (h : UInv6 prev st none) : runFrom .m6531 st [] = true := by
  cases h with
  | start _ h => exact absurd rfl h
  | afterDot _ h _ => exact absurd rfl h
  | afterQuote _ _ => simp [runFrom]
  | inAtom _ _ _ => simp [runFrom]

/-- stepping the recogniser over the symbol of the current character -/
theorem rhs_step {inp : List Nat} {cp : Nat} {rest : List Nat} (hd : decodeNext inp = .ch cp rest) (st : St) :
    (∃ cps, decAll inp = some cps ∧ runFrom .m6531 st (collapse cps) = true) ↔
      (∃ cps', decAll rest = some cps' ∧ runFrom .m6531 st (sym cp :: collapse cps') = true) := by
  rw [decAll_step hd]
  constructor
  · rintro ⟨cps, h1, h2⟩
    cases hr : decAll rest with
    | none => simp [hr] at h1
    | some l =>
      simp only [hr, Option.map_some, Option.some.injEq] at h1
      subst h1
      exact ⟨l, rfl, by simpa [collapse_cons] using h2⟩
  · rintro ⟨cps', h1, h2⟩
    exact ⟨cp :: cps', by simp [h1], by simpa [collapse_cons] using h2⟩

theorem rhs_of_step {rest : List Nat} {st st' : St} {x : Nat} (hs : ∀ nx, stepSt .m6531 st x nx = some st') :
    (∃ cps', decAll rest = some cps' ∧ runFrom .m6531 st (x :: collapse cps') = true) ↔
      (∃ cps', decAll rest = some cps' ∧ runFrom .m6531 st' (collapse cps') = true) := by
  constructor <;> rintro ⟨c, h1, h2⟩ <;> refine ⟨c, h1, ?_⟩
  · rw [runFrom_cons, hs] at h2; exact h2
  · rw [runFrom_cons, hs]; exact h2

theorem rhs_of_nostep {rest : List Nat} {st : St} {x : Nat} (hs : ∀ nx, stepSt .m6531 st x nx = none) :
    ¬ (∃ cps', decAll rest = some cps' ∧ runFrom .m6531 st (x :: collapse cps') = true) := by
  rintro ⟨c, _, h2⟩
  rw [runFrom_cons, hs] at h2; simp at h2

theorem loc6531_sim : ∀ (n : Nat) (inp : List Nat), inp.length ≤ n → ∀ (prev : Option Nat) (quote qpair : Bool) (st : St),
    SInv6 prev quote qpair st inp.head? →
    (loc6531Loop {} prev quote qpair inp = 0 ↔
      ∃ cps, decAll inp = some cps ∧ runFrom .m6531 st (collapse cps) = true) := by
  intro n
  induction n with
  | zero =>
    intro inp hlen prev quote qpair st hinv
    have : inp = [] := List.length_eq_zero_iff.mp (by omega)
    subst this
    rw [loc6531Loop.eq_def]
    simp only [decodeNext, locFin_zero, decAll_nil, Option.some.injEq, exists_eq_left']
    unfold SInv6 at hinv
    cases quote with
    | true =>
      simp only [if_true] at hinv
      cases qpair with
      | true => simp at hinv; subst hinv; simp [collapse, runFrom]
      | false => simp at hinv; obtain ⟨p, rfl⟩ := hinv; simp [collapse, runFrom]
    | false =>
      simp only [Bool.false_eq_true, if_false] at hinv
      simp [collapse, runFrom_nil_unq6 hinv.2]
  | succ n ih =>
    intro inp hlen prev quote qpair st hinv
    cases hd : decodeNext inp with
    | fin =>
      have : inp = [] := decodeNext_fin hd
      subst this
      exact ih [] (by simp) prev quote qpair st hinv
    | err =>
      rw [loc6531Loop.eq_def]
      split
      · rename_i h'; rw [hd] at h'; cases h'
      · simp [decAll_err hd]
      · rename_i h'; rw [hd] at h'; cases h'
    | ch c rest =>
      have hlen' : rest.length ≤ n := by have := decodeNext_length hd; omega
      have hhead := head_of_char hd
      rw [rhs_step hd, loc6531Loop.eq_def]
      split
      · rename_i h'; rw [hd] at h'; cases h'
      · rename_i h'; rw [hd] at h'; cases h'
      · rename_i c' rest' h'
        rw [hd] at h'
        cases h'
        simp only [Bool.false_eq_true, Bool.not_false, Bool.true_and, Bool.false_and, if_false]
        unfold SInv6 at hinv
        by_cases hhi : c > 127
        · -- a non-ASCII character
          simp only [hhi, if_true]
          have hsym : sym c = 128 := by simp [sym]; omega
          obtain ⟨L, hL, hLge⟩ := hhead.2 (by omega)
          rw [hsym, hL]
          cases quote with
          | false =>
            simp only [Bool.false_eq_true, if_false] at hinv
            obtain ⟨rfl, hu⟩ := hinv
            simp only [Bool.false_eq_true, if_false]
            have haL : atext .m6531 L = true := by simp [atext]; omega
            have hnext : SInv6 (some L) false false inAtom rest.head? := by
              simp [SInv6]; exact UInv6.inAtom L _ haL
            rw [hL] at hu
            cases hu with
            | start _ _ =>
              rw [rhs_of_step (st' := inAtom) (by intro nx; simp [stepSt, atext])]
              exact ih rest hlen' _ _ _ _ hnext
            | afterDot _ _ _ =>
              rw [rhs_of_step (st' := inAtom) (by intro nx; simp [stepSt, atext])]
              exact ih rest hlen' _ _ _ _ hnext
            | afterQuote _ hh => rcases hh with hh | hh <;> simp at hh; omega
            | inAtom p _ _ =>
              rw [rhs_of_step (st' := inAtom) (by intro nx; simp [stepSt, atext])]
              exact ih rest hlen' _ _ _ _ hnext
          | true =>
            simp only [if_true] at hinv
            cases qpair with
            | true =>
              simp only [if_true] at hinv ⊢
              subst hinv
              have : ¬ (∃ cps', decAll rest = some cps' ∧ runFrom .m6531 inPair (128 :: collapse cps') = true) :=
                rhs_of_nostep (by intro nx; simp [stepSt, okItem, printable])
              simp [this]
            | false =>
              simp only [Bool.false_eq_true, if_false] at hinv ⊢
              obtain ⟨p, rfl⟩ := hinv
              rw [rhs_of_step (st' := inQuote 128) (by intro nx; simp [stepSt, okItem, blocked])]
              exact ih rest hlen' _ _ _ _ (by simp [SInv6])
        · -- an ASCII character
          simp only [hhi, if_false]
          have hsym : sym c = c := by simp [sym]; omega
          have hc : inp.head? = some c := hhead.1 (by omega)
          rw [hsym, hc]
          by_cases hctl : isCntrl c = true
          · simp only [hctl, if_true]
            have hcc : c < 32 ∨ c = 127 := by simpa [isCntrl] using hctl
            have : ¬ (∃ cps', decAll rest = some cps' ∧ runFrom .m6531 st (c :: collapse cps') = true) := by
              apply rhs_of_nostep
              intro nx
              have ha : atext .m6531 c = false := by simp [atext, atextAscii]; omega
              have hch : okItem .m6531 (.ch c) = false := by simp [okItem, printable]; omega
              have hp : okItem .m6531 (.pair c) = false := by simp [okItem, printable]; omega
              have h34 : (c == 34) = false := by simp; omega
              have h46 : (c == 46) = false := by simp; omega
              have h92 : (c == 92) = false := by simp; omega
              cases st <;> simp [stepSt, ha, hch, hp, h34, h46, h92]
            simp [this]
          · have hctl' : isCntrl c = false := by simpa using hctl
            simp only [hctl', Bool.false_eq_true, if_false]
            have hpr : printable c = true := by simp [isCntrl] at hctl'; simp [printable]; omega
            have h0 : c ≠ 0 := by simp [isCntrl] at hctl'; omega
            cases quote with
            | false =>
              simp only [Bool.false_eq_true, if_false] at hinv
              obtain ⟨rfl, hu⟩ := hinv
              simp only [Bool.not_false, if_true]
              rw [hc] at hu
              -- the outcome of the unquoted step does not depend on which list stands for the rest
              cases hstep : unquotedStep [] prev c rest with
              | error e =>
                simp only
                have hne : e ≠ 0 := unq_err_ne_zero hstep
                simp only [hne, false_iff]
                rintro ⟨cps', h1, h2⟩
                have hsim := unq_sim6 prev st c rest (collapse cps') (hclass_of_decAll h1) hu h0 (by omega) hctl'
                rw [hstep] at hsim
                simp only at hsim
                rw [hsim] at h2; cases h2
              | ok q =>
                have hsimR := unq_sim6 prev st c rest rest rfl hu h0 (by omega) hctl'
                rw [hstep] at hsimR
                cases q with
                | true =>
                  simp only at hsimR ⊢
                  have hs : ∀ nx, stepSt .m6531 st c nx = some (inQuote 34) := by
                    intro nx; rw [stepSt_6531_next st c nx rest.head?]; exact hsimR.1
                  rw [rhs_of_step hs]
                  exact ih rest hlen' _ _ _ _ (by simp [SInv6])
                | false =>
                  simp only at hsimR ⊢
                  obtain ⟨st', hst, hu'⟩ := hsimR
                  have hs : ∀ nx, stepSt .m6531 st c nx = some st' := by
                    intro nx; rw [stepSt_6531_next st c nx rest.head?]; exact hst
                  rw [rhs_of_step hs]
                  exact ih rest hlen' _ _ _ _ (by simp [SInv6, hu'])
            | true =>
              simp only [if_true] at hinv
              simp only [Bool.not_true, Bool.false_eq_true, if_false]
              cases qpair with
              | true =>
                simp only [if_true] at hinv ⊢
                subst hinv
                rw [rhs_of_step (st' := inQuote c) (by intro nx; simp [stepSt, okItem, hpr])]
                exact ih rest hlen' _ _ _ _ (by simp [SInv6])
              | false =>
                simp only [Bool.false_eq_true, if_false] at hinv ⊢
                obtain ⟨p, rfl⟩ := hinv
                by_cases h34 : c = 34
                · subst h34
                  simp only [beq_self_eq_true, if_true]
                  by_cases hcl : closeOk rest = true
                  · simp only [hcl, if_true]
                    rw [rhs_of_step (st' := afterQuote) (by intro nx; simp [stepSt])]
                    refine ih rest hlen' _ _ _ _ ?_
                    simp only [SInv6, Bool.false_eq_true, if_false, true_and]
                    refine UInv6.afterQuote _ ?_
                    cases rest with
                    | nil => exact Or.inl rfl
                    | cons d ds => right; simpa [closeOk] using hcl
                  · simp only [hcl, Bool.false_eq_true, if_false]
                    have hne : (-(E.LPART_MISPLACED_QUOTE : Int) = 0) = False := by decide
                    rw [hne, false_iff]
                    rintro ⟨cps', h1, h2⟩
                    rw [runFrom_cons] at h2
                    have : ∀ nx, stepSt .m6531 (inQuote p) 34 nx = some afterQuote := by intro nx; simp [stepSt]
                    rw [this] at h2
                    simp only at h2
                    -- the recogniser needs '.' or the end after the closing quote; so does the scanner
                    have hcls := hclass_of_decAll h1
                    cases hS : collapse cps' with
                    | nil =>
                      rw [hS] at hcls
                      cases rest with
                      | nil => simp [closeOk] at hcl
                      | cons d ds => simp [hclass] at hcls
                    | cons x xs =>
                      rw [hS] at h2 hcls
                      rw [runFrom_cons] at h2
                      by_cases hx : x = 46
                      · subst hx
                        cases rest with
                        | nil => simp [hclass] at hcls
                        | cons d ds =>
                          simp [hclass] at hcls
                          subst hcls
                          simp [closeOk] at hcl
                      · have : ∀ nx, stepSt .m6531 afterQuote x nx = none := by intro nx; simp [stepSt, hx]
                        rw [this] at h2; simp at h2
                · have h34' : (c == 34) = false := by simpa using h34
                  simp only [h34', Bool.false_eq_true, if_false]
                  by_cases h92 : c = 92
                  · subst h92
                    simp only [beq_self_eq_true, if_true]
                    rw [rhs_of_step (st' := inPair) (by intro nx; simp [stepSt])]
                    exact ih rest hlen' _ _ _ _ (by simp [SInv6])
                  · have h92' : (c == 92) = false := by simpa using h92
                    simp only [h92', Bool.false_eq_true, if_false]
                    rw [rhs_of_step (st' := inQuote c) (by
                      intro nx
                      rw [stepSt_inQuote_ch _ _ _ _ h34 h92 (by intro h; cases h)]
                      simp [okItem, hpr, h34, h92, blocked])]
                    exact ih rest hlen' _ _ _ _ (by simp [SInv6])

/-- **mode 6531, default build** -/
theorem is6531Local_iff (s : List Nat) :
    is6531Local {} s = 0 ↔ ∃ cps, decAll s = some cps ∧ specLocal .m6531 (collapse cps) = true := by
  unfold is6531Local specLocal
  cases s with
  | nil =>
    simp only [List.isEmpty_nil, if_true, decAll_nil, Option.some.injEq, exists_eq_left']
    simp [collapse, runFrom]
  | cons c cs =>
    simp only [List.isEmpty_cons, Bool.false_eq_true, if_false]
    exact loc6531_sim _ (c :: cs) (Nat.le_refl _) none false false wordStart
      (by simp [SInv6]; exact UInv6.start _ (by simp))

end Eav
