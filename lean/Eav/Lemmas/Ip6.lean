import Eav.Lemmas.Ip4
/-!
# Step equations of the `is_ipv6` loop

The loop of `src/is_ipv4_ipv6.c:is_ipv6` seen one token at a time: end of input, `.`, `:`, a run of
hexadecimal digits, any other byte.  `after` is `"]\0"` in every call the library makes (the bytes at `end`).
-/
namespace Eav
open Eav.Spec

abbrev lit : List Nat := [93, 0]

theorem peek_lit (cs : List Nat) : peek cs lit = .ok (cs.headD 93) := by
  cases cs <;> rfl

theorem ipv6_nil (after : List Nat) (f nf : Nat) (run : List Nat) (sk : Nat) :
    ipv6Loop [] after f nf run sk = .ok (ipv6Fin f nf run.length) := by
  unfold ipv6Loop; rfl

theorem ipv6_skip (after : List Nat) (f nf : Nat) (run : List Nat) : ∀ (g rest : List Nat),
    ipv6Loop (g ++ rest) after f nf run g.length = ipv6Loop rest after f nf run 0
  | [], rest => rfl
  | c :: g, rest => by
    have := ipv6_skip after f nf run g rest
    simp only [List.cons_append, List.length_cons]
    rw [ipv6Loop]
    simp only [Nat.zero_lt_succ, if_true, Nat.add_sub_cancel, this]

theorem ipv6_dot (cs after : List Nat) (f nf : Nat) (run : List Nat) :
    ipv6Loop (46 :: cs) after f nf run 0 =
      if (decide (f < 2) || decide (f > 6)) = true then .ok false
      else if (nf == 0 && f != 6) = true then .ok false
      else ipv4Loop (run ++ 46 :: cs ++ after) (run ++ 46 :: cs) false 0 0 := by
  rw [ipv6Loop]
  simp

theorem ipv6_colon (cs : List Nat) (f nf : Nat) (run : List Nat) (h : f ≠ 0 ∨ run ≠ []) :
    ipv6Loop (58 :: cs) lit f nf run 0 =
      if f + 1 > 7 then .ok false
      else if cs.headD 93 = 58 then (if nf > 0 then .ok false else ipv6Loop cs lit (f + 1) (f + 1) [] 0)
      else ipv6Loop cs lit (f + 1) nf [] 0 := by
  rw [ipv6Loop]
  have hc : (f == 0 && run.length == 0) = false := by
    rcases h with h | h
    · have : (f == 0) = false := by simpa using h
      simp [this]
    · have : (run.length == 0) = false := by
        cases run with
        | nil => exact absurd rfl h
        | cons => rfl
      simp [this]
  simp only [hc, peek_lit]
  simp

theorem ipv6_colon_start (cs : List Nat) (nf : Nat) :
    ipv6Loop (58 :: cs) lit 0 nf [] 0 =
      if isAlnum (cs.headD 93) = true then .ok false
      else if cs.headD 93 = 58 then (if nf > 0 then .ok false else ipv6Loop cs lit 1 1 [] 0)
      else ipv6Loop cs lit 1 nf [] 0 := by
  rw [ipv6Loop]
  simp only [peek_lit]
  generalize cs.headD 93 = x
  cases h : isAlnum x <;> simp [Except.map, h]

theorem spanHex_run : ∀ (g rest : List Nat), g.all isHex = true → (∃ x xs, rest = x :: xs ∧ isHex x = false) →
    spanHex (g ++ rest) = some g.length
  | [], rest, _, ⟨x, xs, hr, hx⟩ => by subst hr; simp [spanHex, hx]
  | c :: g, rest, hg, hr => by
    simp only [List.all_cons, Bool.and_eq_true] at hg
    simp [spanHex, hg.1, spanHex_run g rest hg.2 hr]

theorem isHex_ne {c : Nat} (h : isHex c = true) : c ≠ 0 ∧ c ≠ 46 ∧ c ≠ 58 := by
  refine ⟨?_, ?_, ?_⟩ <;> (intro hc; subst hc; exact absurd h (by decide))

/-- a maximal run of 1–4 hexadecimal digits is consumed as one group -/
theorem ipv6_run (g rest : List Nat) (f nf : Nat) (run : List Nat) (hg : g.all isHex = true) (hne : g ≠ [])
    (hr : rest = [] ∨ ∃ x xs, rest = x :: xs ∧ isHex x = false) :
    ipv6Loop (g ++ rest) lit f nf run 0 = if g.length > 4 then .ok false else ipv6Loop rest lit f nf g 0 := by
  cases g with
  | nil => exact absurd rfl hne
  | cons c g' =>
    have hc : isHex c = true := by simp only [List.all_cons, Bool.and_eq_true] at hg; exact hg.1
    obtain ⟨h0, h46, h58⟩ := isHex_ne hc
    have hsp : spanHex (c :: (g' ++ rest) ++ lit) = some (g'.length + 1) := by
      have : c :: (g' ++ rest) ++ lit = (c :: g') ++ (rest ++ lit) := by simp
      rw [this, spanHex_run (c :: g') (rest ++ lit) hg]
      · rfl
      · rcases hr with rfl | ⟨x, xs, rfl, hx⟩
        · exact ⟨93, [0], rfl, by decide⟩
        · exact ⟨x, xs ++ lit, rfl, hx⟩
    simp only [List.cons_append]
    rw [ipv6Loop]
    have e0 : (c == 0) = false := by simpa using h0
    have e46 : (c == 46) = false := by simpa using h46
    have e58 : (c == 58) = false := by simpa using h58
    simp only [Nat.lt_irrefl, if_false, e0, e46, e58, Bool.false_eq_true, hsp]
    by_cases h4 : g'.length + 1 > 4
    · simp [h4]
    · have hz : ¬ (g'.length + 1 = 0) := by omega
      have ht : (c :: (g' ++ rest) ++ lit).take (g'.length + 1) = c :: g' := by
        have : c :: (g' ++ rest) ++ lit = (c :: g') ++ (rest ++ lit) := by simp
        rw [this]
        exact List.take_left (l₁ := c :: g')
      simp only [h4, if_false, List.length_cons, ht]
      simp only [beq_iff_eq, hz, if_false, Nat.add_sub_cancel]
      exact ipv6_skip lit f nf (c :: g') g' rest

/-- any other byte ends the scan with a rejection -/
theorem ipv6_other (c : Nat) (cs : List Nat) (f nf : Nat) (run : List Nat)
    (h0 : c ≠ 0) (h46 : c ≠ 46) (h58 : c ≠ 58) (hx : isHex c = false) :
    ipv6Loop (c :: cs) lit f nf run 0 = .ok false := by
  rw [ipv6Loop]
  have e0 : (c == 0) = false := by simpa using h0
  have e46 : (c == 46) = false := by simpa using h46
  have e58 : (c == 58) = false := by simpa using h58
  simp [e0, e46, e58, spanHex, hx]

/-- split a string at the end of its leading run of hexadecimal digits -/
theorem hex_split (cs : List Nat) : ∃ g rest, cs = g ++ rest ∧ g.all isHex = true ∧
    (rest = [] ∨ ∃ x xs, rest = x :: xs ∧ isHex x = false) := by
  induction cs with
  | nil => exact ⟨[], [], rfl, rfl, Or.inl rfl⟩
  | cons c cs ih =>
    by_cases hc : isHex c = true
    · obtain ⟨g, rest, h1, h2, h3⟩ := ih
      exact ⟨c :: g, rest, by simp [h1], by simp [hc, h2], h3⟩
    · exact ⟨[], c :: cs, rfl, rfl, Or.inr ⟨c, cs, rfl, by simpa using hc⟩⟩

end Eav
