import Eav.Lemmas.Ip6Upper
/-!
# `is_ipv6` accepts every RFC 5321 §4.1.3 address (lower bound)
-/
namespace Eav
open Eav.Spec

theorem h16_parts {g : List Nat} (h : h16 g = true) : g.all isHex = true ∧ g ≠ [] ∧ ¬ g.length > 4 := by
  simp only [h16, Bool.and_eq_true, decide_eq_true_eq] at h
  refine ⟨h.2, ?_, by omega⟩
  intro hg; subst hg; simp at h

theorem isDigit_isHex {c : Nat} (h : isDigit c = true) : isHex c = true := by
  simp [isHex, h]

theorem splitOn_decomp (c : Nat) : ∀ (t w w2 : List Nat) (ws : List (List Nat)), splitOn c t = w :: w2 :: ws →
    ∃ t', t = w ++ c :: t'
  | [], w, w2, ws, h => by simp [splitOn] at h
  | x :: xs, w, w2, ws, h => by
    by_cases hx : x = c
    · subst hx
      rw [splitOn_sep] at h
      simp only [List.cons.injEq] at h
      exact ⟨xs, by rw [← h.1]; rfl⟩
    · obtain ⟨w', ws', hs, hs'⟩ := splitOn_cons_ne xs hx
      rw [hs'] at h
      simp only [List.cons.injEq] at h
      obtain ⟨rfl, rfl⟩ := h
      obtain ⟨t', ht⟩ := splitOn_decomp c xs w' w2 ws hs
      exact ⟨t', by rw [ht]; rfl⟩

theorem quad_decomp {t : List Nat} (h : v4Snum t = true) :
    ∃ w t', t = w ++ 46 :: t' ∧ w ≠ [] ∧ w.all isDigit = true ∧ w.length ≤ 3 ∧ v4 t = true := by
  unfold v4Snum at h
  simp only [Bool.and_eq_true, beq_iff_eq] at h
  obtain ⟨hlen, hall⟩ := h
  have hv4 : v4 t = true := by
    unfold v4
    simp only [Bool.and_eq_true, beq_iff_eq]
    refine ⟨hlen, ?_⟩
    rw [List.all_eq_true] at hall ⊢
    intro o ho
    have := hall o ho
    simp only [snum, Bool.and_eq_true] at this
    exact this.1
  cases hs : splitOn 46 t with
  | nil => rw [hs] at hlen; simp at hlen
  | cons w ws =>
    cases ws with
    | nil => rw [hs] at hlen; simp at hlen
    | cons w2 ws =>
      obtain ⟨t', ht⟩ := splitOn_decomp 46 t w w2 ws hs
      rw [hs] at hall
      simp only [List.all_cons, Bool.and_eq_true, snum, decOctet, decide_eq_true_eq] at hall
      refine ⟨w, t', ht, ?_, hall.1.1.1.2, hall.1.2, hv4⟩
      intro hw; subst hw; simp at hall

theorem isGroups_pos {n : Nat} {l : List Nat} (h : IsGroups n l) : 1 ≤ n := by
  cases h <;> omega

theorem isGroups_head {n : Nat} {l : List Nat} (h : IsGroups n l) (rest : List Nat) : (l ++ rest).headD 93 ≠ 58 := by
  have key : ∀ g : List Nat, h16 g = true → ∀ r, (g ++ r).headD 93 ≠ 58 := by
    intro g hg r
    obtain ⟨ha, hne, _⟩ := h16_parts hg
    cases g with
    | nil => exact absurd rfl hne
    | cons c g' =>
      simp only [List.all_cons, Bool.and_eq_true] at ha
      simp only [List.cons_append, List.headD_cons]
      exact (isHex_ne ha.1).2.2
  cases h with
  | one hg => exact key _ hg _
  | cons hg _ => rw [List.append_assoc]; exact key _ hg _

theorem isTail_head {n : Nat} {s : List Nat} (h : IsTail quad5321 n s) : s.headD 93 ≠ 58 := by
  have key : ∀ g : List Nat, h16 g = true → ∀ r, (g ++ r).headD 93 ≠ 58 := by
    intro g hg r
    obtain ⟨ha, hne, _⟩ := h16_parts hg
    cases g with
    | nil => exact absurd rfl hne
    | cons c g' =>
      simp only [List.all_cons, Bool.and_eq_true] at ha
      simp only [List.cons_append, List.headD_cons]
      exact (isHex_ne ha.1).2.2
  cases h with
  | one hg => have := key _ hg []; simpa using this
  | cons hg _ => exact key _ hg _
  | quad hq =>
    simp only [quad5321, Bool.and_eq_true] at hq
    obtain ⟨w, t', rfl, hne, hd, _, _⟩ := quad_decomp hq.1
    cases w with
    | nil => exact absurd rfl hne
    | cons c w' =>
      simp only [List.all_cons, Bool.and_eq_true] at hd
      simp only [List.cons_append, List.headD_cons]
      exact (isHex_ne (isDigit_isHex hd.1)).2.2

theorem lower_tail {n : Nat} {s : List Nat} (h : IsTail quad5321 n s) : NulFree s → ∀ (f nf : Nat),
    (nf = 0 ∧ f + n = 8 ∨ 0 < nf ∧ 2 ≤ f ∧ f + n ≤ 8) → ipv6Loop s lit f nf [] 0 = .ok true := by
  induction h with
  | @one g hg =>
    intro _ f nf hc
    obtain ⟨ha, hne, h4⟩ := h16_parts hg
    have := ipv6_run g [] f nf [] ha hne (Or.inl rfl)
    rw [List.append_nil] at this
    rw [this, if_neg h4, ipv6_nil]
    congr 1
    have hl : (g.length == 0) = false := by
      cases g with
      | nil => exact absurd rfl hne
      | cons => rfl
    unfold ipv6Fin
    rcases hc with ⟨rfl, hf⟩ | ⟨hnf, hf, _⟩
    · have : f = 7 := by omega
      subst this; simp [hl]
    · have h2 : ¬ f < 2 := by omega
      have : (nf == 0) = false := by simp; omega
      simp [h2, hl, this]
  | @quad t hq =>
    intro hn f nf hc
    simp only [quad5321, Bool.and_eq_true] at hq
    obtain ⟨w, t', ht, hne, hd, hl3, hv4⟩ := quad_decomp hq.1
    subst ht
    have ha : w.all isHex = true := by
      rw [List.all_eq_true] at hd ⊢
      exact fun c hc => isDigit_isHex (hd c hc)
    rw [ipv6_run w (46 :: t') f nf [] ha hne (Or.inr ⟨46, t', rfl, by decide⟩), if_neg (by omega), ipv6_dot]
    have c1 : (decide (f < 2) || decide (f > 6)) = false := by
      simp only [Bool.or_eq_false_iff, decide_eq_false_iff_not]; omega
    have c2 : (nf == 0 && f != 6) = false := by
      rcases hc with ⟨rfl, hf⟩ | ⟨hnf, _, _⟩
      · have : f = 6 := by omega
        subst this; rfl
      · have : (nf == 0) = false := by simp; omega
        simp [this]
    simp only [c1, c2, Bool.false_eq_true, if_false]
    have e : w ++ 46 :: t' ++ lit = (w ++ 46 :: t') ++ lit := by simp
    rw [e]
    have := isIpv4_literal (w ++ 46 :: t') hn
    unfold isIpv4 at this
    rw [this, hv4, hq.2]
    rfl
  | @cons g s' n' hg ht ih =>
    intro hn f nf hc
    obtain ⟨ha, hne, h4⟩ := h16_parts hg
    rw [ipv6_run g (58 :: s') f nf [] ha hne (Or.inr ⟨58, s', rfl, by decide⟩), if_neg h4,
      ipv6_colon s' f nf g (Or.inr hne)]
    have hf : ¬ f + 1 > 7 := by
      have : 1 ≤ n' := by cases ht <;> omega
      omega
    rw [if_neg hf, if_neg (isTail_head ht)]
    exact ih (fun d hd => hn d (by simp [hd])) (f + 1) nf (by omega)

theorem lower_groups {nl : Nat} {l : List Nat} (h : IsGroups nl l) : ∀ (r : List Nat) (f : Nat), f + nl + 1 ≤ 7 →
    r.headD 93 ≠ 58 → ipv6Loop (l ++ 58 :: 58 :: r) lit f 0 [] 0 = ipv6Loop r lit (f + nl + 1) (f + nl) [] 0 := by
  induction h with
  | @one g hg =>
    intro r f hf hr
    obtain ⟨ha, hne, h4⟩ := h16_parts hg
    rw [ipv6_run g (58 :: 58 :: r) f 0 [] ha hne (Or.inr ⟨58, _, rfl, by decide⟩), if_neg h4,
      ipv6_colon (58 :: r) f 0 g (Or.inr hne), if_neg (by omega)]
    simp only [List.headD_cons, if_true, Nat.lt_irrefl, if_false]
    rw [ipv6_colon r (f + 1) (f + 1) [] (Or.inl (by omega)), if_neg (by omega), if_neg hr]
  | @cons g s n hg hs ih =>
    intro r f hf hr
    obtain ⟨ha, hne, h4⟩ := h16_parts hg
    have e : g ++ 58 :: s ++ 58 :: 58 :: r = g ++ 58 :: (s ++ 58 :: 58 :: r) := by simp
    rw [e, ipv6_run g (58 :: (s ++ 58 :: 58 :: r)) f 0 [] ha hne (Or.inr ⟨58, _, rfl, by decide⟩), if_neg h4,
      ipv6_colon _ f 0 g (Or.inr hne), if_neg (by omega), if_neg (isGroups_head hs _)]
    rw [ih r (f + 1) (by omega) hr]
    have e1 : f + 1 + n + 1 = f + (n + 1) + 1 := by omega
    have e2 : f + 1 + n = f + (n + 1) := by omega
    rw [e1, e2]

/-- **lower bound**: every RFC 5321 §4.1.3 address is accepted by `is_ipv6` inside a literal -/
theorem isIpv6_lower (s : List Nat) (hn : NulFree s) (h : IsV6_5321 s) : isIpv6 s lit = .ok true := by
  unfold isIpv6
  rcases h with ht | ⟨l, r, nl, nr, rfl, hl, hr, hle⟩
  · exact lower_tail ht hn 0 0 (Or.inl ⟨rfl, by omega⟩)
  · have hnr : NulFree r := fun d hd => hn d (by simp [hd])
    have hr58 : r.headD 93 ≠ 58 := by
      rcases hr with ⟨rfl, _⟩ | ht
      · decide
      · exact isTail_head ht
    rcases hl with ⟨rfl, rfl⟩ | hg
    · simp only [List.nil_append]
      rw [ipv6_colon_start]
      simp only [List.headD_cons]
      rw [if_neg (by decide)]
      simp only [if_true, Nat.lt_irrefl, if_false]
      rw [ipv6_colon r 1 1 [] (Or.inl (by omega)), if_neg (by omega), if_neg hr58]
      rcases hr with ⟨rfl, _⟩ | ht
      · rw [ipv6_nil]; rfl
      · exact lower_tail ht hnr 2 1 (Or.inr ⟨by omega, by omega, by omega⟩)
    · have hp := isGroups_pos hg
      rw [lower_groups hg r 0 (by omega) hr58]
      rcases hr with ⟨rfl, _⟩ | ht
      · rw [ipv6_nil]
        congr 1
        unfold ipv6Fin
        simp
        omega
      · exact lower_tail ht hnr _ _ (Or.inr ⟨by omega, by omega, by omega⟩)

end Eav
