import Eav.Domain
import Eav.Spec.Host
import Eav.Lemmas.Str
/-!
Loop invariant of `is_ascii_domain`: the scan from a position with `label_length = ll` accepts iff the
rest of the input completes the current label and continues with well-formed labels.
-/
namespace Eav
open Spec

theorem letDig_eq_labelChar (us : Bool) (c : Nat) : letDig us c = labelChar us c := rfl

/-- the rest `l` of a label of which `ll` characters have been consumed -/
def okCont (us : Bool) (ll : Nat) (l : List Nat) : Bool :=
  decide (1 ≤ ll + l.length) && decide (ll + l.length ≤ 63) && l.all (fun c => labelChar us c || c == 45)
    && (ll != 0 || l.head? != some 45) && l.getLast? != some 45

def restOk (us : Bool) (ll : Nat) (cs : List Nat) : Bool :=
  match splitDots cs with
  | l0 :: rest => okCont us ll l0 && rest.all (okLabel us)
  | [] => false

theorem okCont_zero (us : Bool) (l : List Nat) : okCont us 0 l = okLabel us l := by
  simp [okCont, okLabel, letDig_eq_labelChar]

theorem labelChar_ne_dot {us : Bool} {c : Nat} (h : labelChar us c = true) : c ≠ 46 := by
  simp [labelChar, isAlnum, isDigit, isAlpha, isUpper, isLower] at h; omega

theorem labelChar_ne_hyphen {us : Bool} {c : Nat} (h : labelChar us c = true) : c ≠ 45 := by
  simp [labelChar, isAlnum, isDigit, isAlpha, isUpper, isLower] at h; omega

theorem splitDots_cons_ne {c : Nat} {cs : List Nat} (h : c ≠ 46) :
    ∃ l ls, splitDots cs = l :: ls ∧ splitDots (c :: cs) = (c :: l) :: ls := by
  have := splitDots_ne_nil cs
  cases hs : splitDots cs with
  | nil => exact absurd hs this
  | cons l ls => exact ⟨l, ls, rfl, by simp [splitDots, h, hs]⟩

theorem restOk_nil (us : Bool) (ll : Nat) : restOk us ll [] = (decide (1 ≤ ll) && decide (ll ≤ 63)) := by
  rw [Bool.eq_iff_iff]; simp [restOk, splitDots, okCont]

theorem domFin_ok (ll : Nat) (nn : Bool) : (domFin ll nn = 0) ↔ (ll ≠ 0 ∧ nn = true) := by
  unfold domFin
  by_cases h : ll = 0
  · simp [h]
  · cases nn <;> simp [h]

/-- once the running label has reached 63 characters the loop cannot accept any more bytes of it
(the C code tests the length on alphanumerics only; a hyphen is never last, so the test still comes) -/
theorem overlong (us : Bool) (cs : List Nat) : ∀ (after : List Nat) (ll : Nat) (nn : Bool),
    63 ≤ ll → cs ≠ [] → cs.head? ≠ some 46 → (∀ c ∈ cs, c ≠ 0) →
    (after.head? = some 0 ∨ after.head? = some 46) →
    domLoop us cs after ll nn ≠ .ok 0 := by
  induction cs with
  | nil => intro _ _ _ _ h; exact absurd rfl h
  | cons c cs ih =>
    intro after ll nn hll _ hhead hnul hafter
    have hc0 : c ≠ 0 := hnul c (by simp)
    have hc46 : c ≠ 46 := by simpa using hhead
    unfold domLoop
    simp only [beq_iff_eq, hc0, if_false]
    by_cases hlc : labelChar us c = true
    · have : ll + 1 > 63 := by omega
      simp [hlc, this]
    · rw [if_neg hlc]
      simp only [hc46, if_false]
      by_cases hhy : c = 45
      · subst hhy
        have h1 : ¬ (ll + 1 = 1) := by omega
        simp only [h1, if_true, if_false]
        cases cs with
        | nil =>
          cases after with
          | nil => simp at hafter
          | cons a as =>
            simp at hafter
            rcases hafter with rfl | rfl <;> simp [peek, bind, Except.bind]
        | cons d ds =>
          have hd0 : d ≠ 0 := hnul d (by simp)
          simp only [peek, bind, Except.bind]
          by_cases hdd : d = 46
          · simp [hdd]
          · have hcond : (d == 0 || d == 46) = false := by simp [hd0, hdd]
            simp only [hcond, Bool.false_eq_true, if_false]
            exact ih after (ll+1) true (by omega) (by simp) (by simpa using hdd)
              (fun x hx => hnul x (by simp [hx])) hafter
      · simp [hhy]

theorem domLoop_ok (us : Bool) (cs : List Nat) : ∀ (after : List Nat) (ll : Nat) (nn : Bool),
    (∀ c ∈ cs, c ≠ 0) → (after.head? = some 0 ∨ after.head? = some 46) → ll ≤ 63 →
    (domLoop us cs after ll nn = .ok 0 ↔
      (restOk us ll cs = true ∧ (nn = true ∨ allNumeric cs = false))) := by
  induction cs with
  | nil =>
    intro after ll nn _ _ hll
    simp only [domLoop, Except.ok.injEq, domFin_ok, restOk_nil, allNumeric, List.all_nil]
    simp
    omega
  | cons c cs ih =>
    intro after ll nn hnul hafter hll
    have hc0 : c ≠ 0 := hnul c (by simp)
    have hnul' : ∀ d ∈ cs, d ≠ 0 := fun d hd => hnul d (by simp [hd])
    unfold domLoop
    simp only [beq_iff_eq, hc0, if_false]
    by_cases hlc : labelChar us c = true
    · -- label character
      have hdot := labelChar_ne_dot hlc
      have hhy := labelChar_ne_hyphen hlc
      obtain ⟨l, ls, hs, hs'⟩ := splitDots_cons_ne (cs := cs) hdot
      simp only [hlc, if_true]
      by_cases hlen : ll + 1 > 63
      · simp [hlen, restOk, hs', okCont]; omega
      · simp only [hlen, if_false]
        rw [ih after (ll+1) _ hnul' hafter (by omega)]
        simp only [restOk, hs, hs', okCont, allNumeric, List.all_cons, List.length_cons, hlc,
          List.head?_cons, Bool.true_or, Bool.true_and]
        have hgl : (c :: l).getLast? = some 45 ↔ l.getLast? = some 45 := by
          cases l with
          | nil => simp [hhy]
          | cons a l => simp [List.getLast?_cons_cons]
        simp [hgl, hdot, hhy]
        have e : ll + 1 + l.length = ll + (l.length + 1) := by omega
        rw [e]
        cases hd : isDigit c <;> simp
    · rw [if_neg hlc]
      by_cases hdot : c = 46
      · -- delimiter
        subst hdot
        have hs' : splitDots (46 :: cs) = [] :: splitDots cs := by simp [splitDots]
        by_cases h0 : ll = 0
        · simp [h0, restOk, hs', okCont]
        · simp only [h0, if_true, if_false]
          rw [ih after 0 nn hnul' hafter (by omega)]
          obtain ⟨l, ls, hs⟩ : ∃ l ls, splitDots cs = l :: ls := by
            cases h : splitDots cs with
            | nil => exact absurd h (splitDots_ne_nil cs)
            | cons l ls => exact ⟨l, ls, rfl⟩
          simp [restOk, hs', hs, okCont, okLabel, allNumeric, isDigit, letDig_eq_labelChar]
          intros; omega
      · simp only [hdot, if_false]
        by_cases hhy : c = 45
        · subst hhy
          obtain ⟨l, ls, hs, hs'⟩ := splitDots_cons_ne (c := 45) (cs := cs) (by decide)
          by_cases h0 : ll = 0
          · simp [h0, restOk, hs', okCont]
          · have h1 : ¬ (ll + 1 = 1) := by omega
            simp only [h1, if_false]
            cases cs with
            | nil =>
              simp [splitDots] at hs
              obtain ⟨rfl, rfl⟩ := hs
              have : peek [] after = .ok 0 ∨ peek [] after = .ok 46 := by
                cases after with
                | nil => simp at hafter
                | cons a as => simp at hafter; rcases hafter with rfl | rfl <;> simp [peek]
              rcases this with h | h <;> simp [h, bind, Except.bind, restOk, hs', okCont]
            | cons d ds =>
              have hd0 : d ≠ 0 := hnul' d (by simp)
              simp only [peek, bind, Except.bind, hd0, beq_iff_eq, false_or]
              by_cases hdd : d = 46
              · subst hdd
                simp [splitDots] at hs
                obtain ⟨rfl, rfl⟩ := hs
                simp [restOk, hs', okCont]
              · have hcond : (d == 0 || d == 46) = false := by simp [hd0, hdd]
                simp only [if_true, hcond, Bool.false_eq_true, if_false]
                have hl : l ≠ [] := by
                  obtain ⟨l', ls', h1, h2⟩ := splitDots_cons_ne (c := d) (cs := ds) hdd
                  rw [h2] at hs; simp at hs; intro h; simp [h] at hs
                have hgl : (45 :: l).getLast? = l.getLast? := by
                  cases l with
                  | nil => exact absurd rfl hl
                  | cons a l => simp [List.getLast?_cons_cons]
                have hlpos : 1 ≤ l.length := by
                  cases l with
                  | nil => exact absurd rfl hl
                  | cons a l => simp
                by_cases hlen : ll + 1 > 63
                · have hno : restOk us ll (45 :: d :: ds) = false := by
                    simp [restOk, hs', okCont]; intros; omega
                  have hov := overlong us (d :: ds) after (ll+1) true (by omega) (by simp)
                    (by simpa using hdd) hnul' hafter
                  simp [hno, hov]
                · rw [ih after (ll+1) true hnul' hafter (by omega)]
                  have e : ll + 1 + l.length = ll + (l.length + 1) := by omega
                  simp [restOk, hs, hs', okCont, allNumeric, isDigit, hgl, h0, e, labelChar, isAlnum, isAlpha, isUpper, isLower]
        · have hs' : restOk us ll (c :: cs) = false := by
            obtain ⟨l, ls, hs, hs'⟩ := splitDots_cons_ne (c := c) (cs := cs) hdot
            simp [restOk, hs', okCont, hlc, hhy]
          simp [hhy, hs']

end Eav
