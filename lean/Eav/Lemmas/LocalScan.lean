import Eav.Local
import Eav.Spec.Local
import Eav.Lemmas.LocalGrammar
/-!
# The C-shaped scanners accept exactly what the recogniser `Spec.runFrom` accepts

Simulation between the scanner's variables `(cp[-1], quote, qpair)` and the recogniser's state.
-/
namespace Eav
open Spec Spec.St

/-- outside quotes: how the scanner's look-behind byte determines the recogniser's state, together with
what the scanner has already verified about the rest of the input -/
inductive UInv (m : LMode) : Option Nat → St → List Nat → Prop
  | start (cs : List Nat) : cs ≠ [] → UInv m none wordStart cs
  | afterDot (cs : List Nat) : cs ≠ [] → cs.head? ≠ some 46 → UInv m (some 46) wordStart cs
  | afterQuote (cs : List Nat) : closeOk cs = true → UInv m (some 34) afterQuote cs
  | inAtom (p : Nat) (cs : List Nat) : atext m p = true → UInv m (some p) inAtom cs

theorem runFrom_wordStart_nil (m : LMode) : runFrom m wordStart [] = false := by simp [runFrom]

theorem runFrom_wordStart_dot (m : LMode) (cs : List Nat) : runFrom m wordStart (46 :: cs) = false := by
  simp [runFrom_cons, stepSt, atext, atextAscii, special]

theorem not_atext_special {m : LMode} {c : Nat} (h : specials.contains c = true) : atext m c = false := by
  simp [specials] at h
  rcases h with h | h | h | h | h | h | h | h | h | h | h | h <;> subst h <;> cases m <;> decide

theorem special_ne {c : Nat} (h : specials.contains c = true) : c ≠ 34 ∧ c ≠ 46 := by
  simp [specials] at h; omega

/-- a byte that is none of DQUOTE, dot, special, control, NUL, nor above 127 is an atom character -/
theorem atext_of_plain {m : LMode} {c : Nat} (h0 : c ≠ 0) (h127 : c ≤ 127) (hctl : isCntrl c = false)
    (h34 : c ≠ 34) (h46 : c ≠ 46) (hs : specials.contains c = false) : atext m c = true := by
  simp [isCntrl] at hctl
  simp [specials] at hs
  simp [atext, atextAscii, special]
  left
  omega

/-- one step outside quotes -/
theorem unq_sim (m : LMode) (prev : Option Nat) (st : St) (c : Nat) (cs : List Nat)
    (hinv : UInv m prev st (c :: cs)) (h0 : c ≠ 0) (h127 : c ≤ 127) (hctl : isCntrl c = false) :
    match unquotedStep [] prev c cs with
    | .error _ => runFrom m st (c :: cs) = false
    | .ok true => stepSt m st c cs.head? = some (inQuote 34) ∧ c = 34
    | .ok false => ∃ st', stepSt m st c cs.head? = some st' ∧ UInv m (some c) st' cs := by
  unfold unquotedStep
  by_cases h34 : c = 34
  · subst h34
    simp only [beq_self_eq_true, if_true]
    cases hinv with
    | start _ _ => simp [stepSt]
    | afterDot _ _ _ => simp [stepSt]
    | afterQuote _ _ => simp [runFrom_cons, stepSt]
    | inAtom p _ hp =>
      have := atext_ne hp
      have hp46 : (p == 46) = false := by simpa using this.2.1
      simp [hp46, runFrom_cons, stepSt, atext, atextAscii, special]
  · have h34' : (c == 34) = false := by simpa using h34
    simp only [h34', Bool.false_eq_true, if_false]
    by_cases h46 : c = 46
    · subst h46
      simp only [beq_self_eq_true, if_true]
      cases hinv with
      | start _ _ => simp [runFrom_wordStart_dot]
      | afterDot _ _ hh => simp at hh
      | afterQuote _ _ =>
        cases cs with
        | nil => simp [runFrom_cons, stepSt, runFrom_wordStart_nil]
        | cons d ds =>
          by_cases hd : d = 46
          · subst hd; simp [runFrom_cons, stepSt, atext, atextAscii, special]
          · simp [hd, stepSt]
            exact UInv.afterDot _ (by simp) (by simpa using hd)
      | inAtom p _ hp =>
        cases cs with
        | nil => simp [runFrom_cons, stepSt, runFrom_wordStart_nil]
        | cons d ds =>
          by_cases hd : d = 46
          · subst hd; simp [runFrom_cons, stepSt, atext, atextAscii, special]
          · simp [hd, stepSt]
            exact UInv.afterDot _ (by simp) (by simpa using hd)
    · have h46' : (c == 46) = false := by simpa using h46
      simp only [h46', Bool.false_eq_true, if_false]
      by_cases hs : specials.contains c = true
      · have hna : atext m c = false := not_atext_special hs
        simp only [hs, List.contains_nil, Bool.or_false, if_true]
        cases hinv with
        | start _ _ => simp [runFrom_cons, stepSt, h34', hna]
        | afterDot _ _ _ => simp [runFrom_cons, stepSt, h34', hna]
        | afterQuote _ _ => simp [runFrom_cons, stepSt, h46']
        | inAtom p _ _ => simp [runFrom_cons, stepSt, h46', hna]
      · have hs' : specials.contains c = false := by simpa using hs
        have ha : atext m c = true := atext_of_plain h0 h127 hctl h34 h46 hs'
        simp only [hs', List.contains_nil, Bool.or_false, Bool.false_eq_true, if_false]
        cases hinv with
        | start _ _ => exact ⟨inAtom, by simp [stepSt, h34', ha], UInv.inAtom c cs ha⟩
        | afterDot _ _ _ => exact ⟨inAtom, by simp [stepSt, h34', ha], UInv.inAtom c cs ha⟩
        | afterQuote _ hcl => simp [closeOk] at hcl; exact absurd hcl h46
        | inAtom p _ _ => exact ⟨inAtom, by simp [stepSt, h46', ha], UInv.inAtom c cs ha⟩

/-- in the ASCII modes no state has a transition on a byte above 127 -/
theorem step_high (m : LMode) (hm : m ≠ .m6531) (st : St) (c : Nat) (nx : Option Nat) (h : c > 127) :
    stepSt m st c nx = none := by
  have h34 : (c == 34) = false := by simp; omega
  have h46 : (c == 46) = false := by simp; omega
  have h92 : (c == 92) = false := by simp; omega
  have h13 : (c == 13) = false := by simp; omega
  have h10 : (c == 10) = false := by simp; omega
  have h32 : (c == 32) = false := by simp; omega
  have h9 : (c == 9) = false := by simp; omega
  have ha : atext m c = false := by
    cases m <;> simp [atext, atextAscii] at hm ⊢ <;> omega
  have hch : okItem m (.ch c) = false := by
    cases m <;> simp [okItem, ascii, printable] at hm ⊢ <;> omega
  have hp : okItem m (.pair c) = false := by
    cases m <;> simp [okItem, ascii, printable] at hm ⊢ <;> omega
  cases st <;> simp [stepSt, h34, h46, h92, h13, h10, h32, h9, ha, hch, hp]

/-- the scanner's variables and the recogniser's state -/
def SInv (m : LMode) (prev : Option Nat) (quote qpair : Bool) (st : St) (cs : List Nat) : Prop :=
  if quote then
    if qpair then st = inPair else ∃ p, prev = some p ∧ st = inQuote p
  else qpair = false ∧ UInv m prev st cs

theorem locFin_zero (q : Bool) : locFin q = 0 ↔ q = false := by
  cases q <;> simp [locFin]

theorem runFrom_nil_unq {m : LMode} {prev : Option Nat} {st : St} (h : UInv m prev st []) : runFrom m st [] = true := by
  cases h with
  | start _ h => exact absurd rfl h
  | afterDot _ h _ => exact absurd rfl h
  | afterQuote _ _ => simp [runFrom]
  | inAtom _ _ _ => simp [runFrom]

/-! ### RFC 5321 -/

theorem loc5321_sim : ∀ (cs : List Nat) (prev : Option Nat) (quote qpair : Bool) (st : St),
    NulFree cs → SInv .m5321 prev quote qpair st cs →
    (loc5321Loop prev quote qpair cs = 0 ↔ runFrom .m5321 st cs = true) := by
  intro cs
  induction cs with
  | nil =>
    intro prev quote qpair st _ hinv
    simp only [loc5321Loop, locFin_zero]
    unfold SInv at hinv
    cases quote with
    | true =>
      simp only [if_true] at hinv
      cases qpair with
      | true => simp at hinv; subst hinv; simp [runFrom]
      | false => simp at hinv; obtain ⟨p, _, rfl⟩ := hinv; simp [runFrom]
    | false =>
      simp only [Bool.false_eq_true, if_false] at hinv
      simp [runFrom_nil_unq hinv.2]
  | cons c cs ih =>
    intro prev quote qpair st hnf hinv
    have h0 : c ≠ 0 := hnf c (by simp)
    have hnf' : NulFree cs := fun d hd => hnf d (by simp [hd])
    have h0' : (c == 0) = false := by simpa using h0
    unfold loc5321Loop
    simp only [h0', Bool.false_eq_true, if_false]
    by_cases hhi : c > 127
    · simp only [hhi, if_true]
      rw [runFrom_cons, step_high .m5321 (by decide) st c _ hhi]
      simp
    · simp only [hhi, if_false]
      by_cases hctl : isCntrl c = true
      · simp only [hctl, if_true]
        -- a control character has no transition in mode 5321
        have hc : c < 32 ∨ c = 127 := by simpa [isCntrl] using hctl
        have : ∀ nx, stepSt .m5321 st c nx = none := by
          intro nx
          have ha : atext .m5321 c = false := by simp [atext, atextAscii]; omega
          have hch : okItem .m5321 (.ch c) = false := by simp [okItem, printable]; omega
          have hp : okItem .m5321 (.pair c) = false := by simp [okItem, printable]; omega
          have h34 : (c == 34) = false := by simp; omega
          have h46 : (c == 46) = false := by simp; omega
          have h92 : (c == 92) = false := by simp; omega
          cases st <;> simp [stepSt, ha, hch, hp, h34, h46, h92]
        rw [runFrom_cons, this]; simp
      · have hctl' : isCntrl c = false := by simpa using hctl
        simp only [hctl', Bool.false_eq_true, if_false]
        unfold SInv at hinv
        cases quote with
        | false =>
          simp only [Bool.false_eq_true, if_false] at hinv
          obtain ⟨rfl, hu⟩ := hinv
          simp only [Bool.not_false, if_true]
          have hsim := unq_sim .m5321 prev st c cs hu h0 (by omega) hctl'
          cases hstep : unquotedStep [] prev c cs with
          | error e =>
            rw [hstep] at hsim
            simp only at hsim ⊢
            rw [hsim]
            -- every error code of the unquoted branch is non-zero
            have : e ≠ 0 := by
              unfold unquotedStep at hstep
              repeat' split at hstep
              all_goals first | (cases hstep; decide) | cases hstep
            simp [this]
          | ok q =>
            rw [hstep] at hsim
            cases q with
            | true =>
              simp only at hsim ⊢
              rw [runFrom_cons, hsim.1]
              exact ih (some c) true false (inQuote 34) hnf' (by simp [SInv, hsim.2])
            | false =>
              simp only at hsim ⊢
              obtain ⟨st', hst, hu'⟩ := hsim
              rw [runFrom_cons, hst]
              exact ih (some c) false false st' hnf' (by simp [SInv, hu'])
        | true =>
          simp only [if_true] at hinv
          simp only [Bool.not_true, Bool.false_eq_true, if_false]
          have hpr : printable c = true := by
            simp [isCntrl] at hctl'; simp [printable]; omega
          cases qpair with
          | true =>
            simp only [if_true] at hinv ⊢
            subst hinv
            rw [runFrom_cons]
            have : stepSt .m5321 inPair c cs.head? = some (inQuote c) := by simp [stepSt, okItem, hpr]
            rw [this]
            exact ih (some c) true false (inQuote c) hnf' (by simp [SInv])
          | false =>
            simp only [Bool.false_eq_true, if_false] at hinv ⊢
            obtain ⟨p, rfl, rfl⟩ := hinv
            by_cases h34 : c = 34
            · subst h34
              simp only [beq_self_eq_true, if_true]
              rw [runFrom_cons]
              have : stepSt .m5321 (inQuote p) 34 cs.head? = some afterQuote := by simp [stepSt]
              rw [this]
              by_cases hcl : closeOk cs = true
              · simp only [hcl, if_true]
                exact ih (some 34) false false afterQuote hnf' (by simp [SInv]; exact UInv.afterQuote cs hcl)
              · simp only [hcl, Bool.false_eq_true, if_false]
                have hne : (-(E.LPART_MISPLACED_QUOTE : Int) = 0) = False := by decide
                rw [hne, false_iff]
                -- after the closing quote the recogniser needs '.' or the end
                cases cs with
                | nil => simp [closeOk] at hcl
                | cons d ds =>
                  have hd : d ≠ 46 := by simpa [closeOk] using hcl
                  have hd' : (d == 46) = false := by simpa using hd
                  simp [runFrom_cons, stepSt, hd']
            · have h34' : (c == 34) = false := by simpa using h34
              simp only [h34', Bool.false_eq_true, if_false]
              by_cases h92 : c = 92
              · subst h92
                simp only [beq_self_eq_true, if_true]
                rw [runFrom_cons]
                have : stepSt .m5321 (inQuote p) 92 cs.head? = some inPair := by simp [stepSt]
                rw [this]
                exact ih (some 92) true true inPair hnf' (by simp [SInv])
              · have h92' : (c == 92) = false := by simpa using h92
                simp only [h92', Bool.false_eq_true, if_false]
                rw [runFrom_cons]
                have : stepSt .m5321 (inQuote p) c cs.head? = some (inQuote c) := by
                  rw [stepSt_inQuote_ch _ _ _ _ h34 h92 (by intro h; cases h)]
                  simp [okItem, hpr, h34, h92, blocked]
                rw [this]
                exact ih (some c) true false (inQuote c) hnf' (by simp [SInv])

/-- **mode 5321**: `is_5321_local` accepts exactly the strings of the grammar -/
theorem is5321Local_iff (s : List Nat) (hn : NulFree s) : is5321Local s = 0 ↔ specLocal .m5321 s = true := by
  unfold is5321Local specLocal
  cases s with
  | nil => simp [runFrom]
  | cons c cs =>
    simp only [List.isEmpty_cons, Bool.false_eq_true, if_false]
    exact loc5321_sim (c :: cs) none false false wordStart hn (by simp [SInv]; exact UInv.start _ (by simp))

/-! ### shared facts for modes 822 and 5322 (control characters allowed inside quotes) -/

theorem step_ctl_unq (m : LMode) (prev : Option Nat) (st : St) (c : Nat) (cs : List Nat) (nx : Option Nat)
    (hu : UInv m prev st (c :: cs)) (hctl : isCntrl c = true) : stepSt m st c nx = none := by
  have hc : c < 32 ∨ c = 127 := by simpa [isCntrl] using hctl
  have ha : atext m c = false := by cases m <;> simp [atext, atextAscii] <;> omega
  have h34 : (c == 34) = false := by simp; omega
  have h46 : (c == 46) = false := by simp; omega
  cases hu <;> simp [stepSt, ha, h34, h46]

theorem unq_err_ne_zero {prev : Option Nat} {c : Nat} {cs : List Nat} {e : Int}
    (hstep : unquotedStep [] prev c cs = .error e) : e ≠ 0 := by
  unfold unquotedStep at hstep
  repeat' split at hstep
  all_goals first | (cases hstep; decide) | cases hstep

theorem wsq_list (p : Nat) : Eav.wsq.contains p = Spec.wsq p := by
  simp [Eav.wsq, Spec.wsq]
  rw [Bool.eq_iff_iff]; simp; omega

theorem blanks_list (p : Nat) : Eav.blanks.contains p = Spec.blank p := by
  simp [Eav.blanks, Spec.blank]
  rw [Bool.eq_iff_iff]; simp; omega

/-! ### RFC 822 -/

theorem loc822_sim (e : Nat) : ∀ (n : Nat) (cs : List Nat), cs.length ≤ n → ∀ (prev : Option Nat) (quote qpair : Bool) (st : St),
    NulFree cs → SInv .m822 prev quote qpair st cs →
    (loc822Loop e prev quote qpair cs = 0 ↔ runFrom .m822 st cs = true) := by
  intro n
  induction n with
  | zero =>
    intro cs hlen prev quote qpair st _ hinv
    have : cs = [] := List.length_eq_zero_iff.mp (by omega)
    subst this
    simp only [loc822Loop, locFin_zero]
    unfold SInv at hinv
    cases quote with
    | true =>
      simp only [if_true] at hinv
      cases qpair with
      | true => simp at hinv; subst hinv; simp [runFrom]
      | false => simp at hinv; obtain ⟨p, _, rfl⟩ := hinv; simp [runFrom]
    | false =>
      simp only [Bool.false_eq_true, if_false] at hinv
      simp [runFrom_nil_unq hinv.2]
  | succ n ih =>
    intro cs hlen prev quote qpair st hnf hinv
    cases cs with
    | nil => exact (ih [] (by simp) prev quote qpair st hnf hinv)
    | cons c cs =>
    have hlen' : cs.length ≤ n := by simp at hlen; omega
    have h0 : c ≠ 0 := hnf c (by simp)
    have hnf' : NulFree cs := fun d hd => hnf d (by simp [hd])
    have h0' : (c == 0) = false := by simpa using h0
    unfold loc822Loop
    simp only [h0', Bool.false_eq_true, if_false]
    by_cases hhi : c > 127
    · simp only [hhi, if_true]
      rw [runFrom_cons, step_high .m822 (by decide) st c _ hhi]
      simp
    · simp only [hhi, if_false]
      have hasc : ascii c = true := by simp [ascii]; omega
      unfold SInv at hinv
      cases quote with
      | false =>
        simp only [Bool.false_eq_true, if_false] at hinv
        obtain ⟨rfl, hu⟩ := hinv
        simp only [Bool.not_false, if_true, Bool.true_and]
        by_cases hctl : isCntrl c = true
        · simp only [hctl, if_true]
          rw [runFrom_cons, step_ctl_unq .m822 prev st c cs _ hu hctl]; simp
        · have hctl' : isCntrl c = false := by simpa using hctl
          simp only [hctl', Bool.false_eq_true, if_false]
          have hsim := unq_sim .m822 prev st c cs hu h0 (by omega) hctl'
          cases hstep : unquotedStep [] prev c cs with
          | error er =>
            rw [hstep] at hsim
            simp only at hsim ⊢
            rw [hsim]
            simp [unq_err_ne_zero hstep]
          | ok q =>
            rw [hstep] at hsim
            cases q with
            | true =>
              simp only at hsim ⊢
              rw [runFrom_cons, hsim.1]
              exact ih cs hlen' (some c) true false (inQuote 34) hnf' (by simp [SInv, hsim.2])
            | false =>
              simp only at hsim ⊢
              obtain ⟨st', hst, hu'⟩ := hsim
              rw [runFrom_cons, hst]
              exact ih cs hlen' (some c) false false st' hnf' (by simp [SInv, hu'])
      | true =>
        simp only [if_true] at hinv
        simp only [Bool.not_true, Bool.false_eq_true, if_false]
        cases qpair with
        | true =>
          simp only [if_true] at hinv ⊢
          subst hinv
          rw [runFrom_cons]
          have : stepSt .m822 inPair c cs.head? = some (inQuote c) := by simp [stepSt, okItem, hasc]
          rw [this]
          exact ih cs hlen' (some c) true false (inQuote c) hnf' (by simp [SInv])
        | false =>
          simp only [Bool.false_eq_true, if_false] at hinv ⊢
          obtain ⟨p, rfl, rfl⟩ := hinv
          by_cases h34 : c = 34
          · subst h34
            simp only [beq_self_eq_true, if_true]
            rw [runFrom_cons]
            have : stepSt .m822 (inQuote p) 34 cs.head? = some afterQuote := by simp [stepSt]
            rw [this]
            by_cases hcl : closeOk cs = true
            · simp only [hcl, if_true]
              exact ih cs hlen' (some 34) false false afterQuote hnf' (by simp [SInv]; exact UInv.afterQuote cs hcl)
            · simp only [hcl, Bool.false_eq_true, if_false]
              have hne : (-(E.LPART_MISPLACED_QUOTE : Int) = 0) = False := by decide
              rw [hne, false_iff]
              cases cs with
              | nil => simp [closeOk] at hcl
              | cons d ds =>
                have hd : d ≠ 46 := by simpa [closeOk] using hcl
                have hd' : (d == 46) = false := by simpa using hd
                simp [runFrom_cons, stepSt, hd']
          · have h34' : (c == 34) = false := by simpa using h34
            simp only [h34', Bool.false_eq_true, if_false]
            by_cases h92 : c = 92
            · subst h92
              simp only [beq_self_eq_true, if_true]
              rw [runFrom_cons]
              have : stepSt .m822 (inQuote p) 92 cs.head? = some inPair := by simp [stepSt]
              rw [this]
              exact ih cs hlen' (some 92) true true inPair hnf' (by simp [SInv])
            · have h92' : (c == 92) = false := by simpa using h92
              simp only [h92', Bool.false_eq_true, if_false]
              by_cases h13 : c = 13
              · subst h13
                simp only [beq_self_eq_true, if_true]
                rw [runFrom_cons]
                have hst : ∀ nx, stepSt .m822 (inQuote p) 13 nx = some fold1 := by intro nx; simp [stepSt]
                rw [hst]
                dsimp only
                have hneF : (-(E.LPART_INVALID_FOLDING : Int) = 0) = False := by decide
                cases cs with
                | nil => simp [runFrom, hneF]
                | cons c1 cs1 =>
                  cases cs1 with
                  | nil =>
                    simp only
                    have hr : runFrom .m822 fold1 [c1] = false := by
                      rw [runFrom_cons]
                      by_cases hc1 : c1 = 10
                      · subst hc1; simp [stepSt, runFrom]
                      · simp [stepSt, hc1]
                    rw [hr]
                    split <;> simp [locFin]
                    all_goals decide
                  | cons c2 rest =>
                    simp only
                    have hnfr : NulFree rest := fun d hd => hnf' d (by simp [hd])
                    have hlenr : rest.length ≤ n := by simp at hlen'; omega
                    by_cases hf : (c1 == 10 && (c2 == 9 || c2 == 32)) = true
                    · simp only [hf, if_true]
                      simp only [Bool.and_eq_true, beq_iff_eq, Bool.or_eq_true] at hf
                      obtain ⟨rfl, hw⟩ := hf
                      rw [runFrom_cons]
                      have h1 : ∀ nx, stepSt .m822 fold1 10 nx = some fold2 := by intro nx; simp [stepSt]
                      rw [h1]; dsimp only; rw [runFrom_cons]
                      have h2 : ∀ nx, stepSt .m822 fold2 c2 nx = some (inQuote c2) := by
                        intro nx; rcases hw with rfl | rfl <;> simp [stepSt]
                      rw [h2]
                      exact ih rest hlenr (some c2) true false (inQuote c2) hnfr (by simp [SInv])
                    · simp only [hf, Bool.false_eq_true, if_false, hneF, false_iff]
                      simp only [Bool.and_eq_true, beq_iff_eq, Bool.or_eq_true, not_and, not_or] at hf
                      rw [runFrom_cons]
                      by_cases hc1 : c1 = 10
                      · subst hc1
                        have h1 : ∀ nx, stepSt .m822 fold1 10 nx = some fold2 := by intro nx; simp [stepSt]
                        rw [h1]; dsimp only; rw [runFrom_cons]
                        have hw := hf rfl
                        have : ∀ nx, stepSt .m822 fold2 c2 nx = none := by
                          intro nx; simp [stepSt, hw.1, hw.2]
                        rw [this]; simp
                      · have : ∀ nx, stepSt .m822 fold1 c1 nx = none := by intro nx; simp [stepSt, hc1]
                        rw [this]; simp
              · have h13' : (c == 13) = false := by simpa using h13
                simp only [h13', Bool.false_eq_true, if_false]
                rw [runFrom_cons]
                have : stepSt .m822 (inQuote p) c cs.head? = some (inQuote c) := by
                  rw [stepSt_inQuote_ch _ _ _ _ h34 h92 (fun _ => h13)]
                  simp [okItem, hasc, h34, h92, h13, blocked]
                rw [this]
                exact ih cs hlen' (some c) true false (inQuote c) hnf' (by simp [SInv])

/-- **mode 822**: `is_822_local` accepts exactly the strings of the grammar, whatever the byte at `*end` -/
theorem is822Local_iff (s : List Nat) (e : Nat) (hn : NulFree s) : is822Local s e = 0 ↔ specLocal .m822 s = true := by
  unfold is822Local specLocal
  cases s with
  | nil => simp [runFrom]
  | cons c cs =>
    simp only [List.isEmpty_cons, Bool.false_eq_true, if_false]
    exact loc822_sim e _ (c :: cs) (Nat.le_refl _) none false false wordStart hn (by simp [SInv]; exact UInv.start _ (by simp))

/-! ### RFC 5322 -/

theorem loc5322_sim : ∀ (cs : List Nat) (prev : Option Nat) (quote qpair : Bool) (st : St),
    NulFree cs → SInv .m5322 prev quote qpair st cs →
    (loc5322Loop prev quote qpair cs = 0 ↔ runFrom .m5322 st cs = true) := by
  intro cs
  induction cs with
  | nil =>
    intro prev quote qpair st _ hinv
    simp only [loc5322Loop, locFin_zero]
    unfold SInv at hinv
    cases quote with
    | true =>
      simp only [if_true] at hinv
      cases qpair with
      | true => simp at hinv; subst hinv; simp [runFrom]
      | false => simp at hinv; obtain ⟨p, _, rfl⟩ := hinv; simp [runFrom]
    | false =>
      simp only [Bool.false_eq_true, if_false] at hinv
      simp [runFrom_nil_unq hinv.2]
  | cons c cs ih =>
    intro prev quote qpair st hnf hinv
    have h0 : c ≠ 0 := hnf c (by simp)
    have hnf' : NulFree cs := fun d hd => hnf d (by simp [hd])
    have h0' : (c == 0) = false := by simpa using h0
    unfold loc5322Loop
    simp only [h0', Bool.false_eq_true, if_false]
    by_cases hhi : c > 127
    · simp only [hhi, if_true]
      rw [runFrom_cons, step_high .m5322 (by decide) st c _ hhi]
      simp
    · simp only [hhi, if_false]
      have hasc : ascii c = true := by simp [ascii]; omega
      unfold SInv at hinv
      cases quote with
      | false =>
        simp only [Bool.false_eq_true, if_false] at hinv
        obtain ⟨rfl, hu⟩ := hinv
        simp only [Bool.not_false, if_true, Bool.true_and]
        by_cases hctl : isCntrl c = true
        · simp only [hctl, if_true]
          rw [runFrom_cons, step_ctl_unq .m5322 prev st c cs _ hu hctl]; simp
        · have hctl' : isCntrl c = false := by simpa using hctl
          simp only [hctl', Bool.false_eq_true, if_false]
          have hsim := unq_sim .m5322 prev st c cs hu h0 (by omega) hctl'
          cases hstep : unquotedStep [] prev c cs with
          | error er =>
            rw [hstep] at hsim
            simp only at hsim ⊢
            rw [hsim]
            simp [unq_err_ne_zero hstep]
          | ok q =>
            rw [hstep] at hsim
            cases q with
            | true =>
              simp only at hsim ⊢
              rw [runFrom_cons, hsim.1]
              exact ih (some c) true false (inQuote 34) hnf' (by simp [SInv, hsim.2])
            | false =>
              simp only at hsim ⊢
              obtain ⟨st', hst, hu'⟩ := hsim
              rw [runFrom_cons, hst]
              exact ih (some c) false false st' hnf' (by simp [SInv, hu'])
      | true =>
        simp only [if_true] at hinv
        simp only [Bool.not_true, Bool.false_eq_true, if_false]
        cases qpair with
        | true =>
          simp only [if_true] at hinv ⊢
          subst hinv
          rw [runFrom_cons]
          have : stepSt .m5322 inPair c cs.head? = some (inQuote c) := by simp [stepSt, okItem, hasc]
          rw [this]
          exact ih (some c) true false (inQuote c) hnf' (by simp [SInv])
        | false =>
          simp only [Bool.false_eq_true, if_false] at hinv ⊢
          obtain ⟨p, rfl, rfl⟩ := hinv
          by_cases h34 : c = 34
          · subst h34
            simp only [beq_self_eq_true, if_true]
            rw [runFrom_cons]
            have : stepSt .m5322 (inQuote p) 34 cs.head? = some afterQuote := by simp [stepSt]
            rw [this]
            by_cases hcl : closeOk cs = true
            · simp only [hcl, if_true]
              exact ih (some 34) false false afterQuote hnf' (by simp [SInv]; exact UInv.afterQuote cs hcl)
            · simp only [hcl, Bool.false_eq_true, if_false]
              have hne : (-(E.LPART_MISPLACED_QUOTE : Int) = 0) = False := by decide
              rw [hne, false_iff]
              cases cs with
              | nil => simp [closeOk] at hcl
              | cons d ds =>
                have hd : d ≠ 46 := by simpa [closeOk] using hcl
                have hd' : (d == 46) = false := by simpa using hd
                simp [runFrom_cons, stepSt, hd']
          · have h34' : (c == 34) = false := by simpa using h34
            simp only [h34', Bool.false_eq_true, if_false]
            by_cases h92 : c = 92
            · subst h92
              simp only [beq_self_eq_true, if_true]
              rw [runFrom_cons]
              have : stepSt .m5322 (inQuote p) 92 cs.head? = some inPair := by simp [stepSt]
              rw [this]
              exact ih (some 92) true true inPair hnf' (by simp [SInv])
            · have h92' : (c == 92) = false := by simpa using h92
              simp only [h92', Bool.false_eq_true, if_false]
              have hok : okItem .m5322 (.ch c) = true := by simp [okItem, hasc, h34, h92]
              have hstep : stepSt .m5322 (inQuote p) c cs.head? =
                  if blocked .m5322 p c cs.head? then none else some (inQuote c) := by
                rw [stepSt_inQuote_ch _ _ _ _ h34 h92 (by intro h; cases h)]
                simp [hok]
              have hneW : (-(E.LPART_UNQUOTED_FWS : Int) = 0) = False := by decide
              rw [runFrom_cons, hstep]
              have hcont : blocked .m5322 p c cs.head? = false →
                  (loc5322Loop (some c) true false cs = 0 ↔
                    (match (if blocked .m5322 p c cs.head? = true then none else some (inQuote c)) with
                      | some st' => runFrom .m5322 st' cs | none => false) = true) := by
                intro hb
                rw [hb]
                exact ih (some c) true false (inQuote c) hnf' (by simp [SInv])
              simp only [blanks_list, wsq_list]
              by_cases hbl : Spec.blank c = true
              · simp only [hbl, if_true]
                by_cases hp : Spec.wsq p = true
                · simp only [hp, if_true]
                  exact hcont (by simp [blocked, hp])
                · have hp' : Spec.wsq p = false := by simpa using hp
                  simp only [hp', Bool.false_eq_true, if_false]
                  cases cs with
                  | nil =>
                    simp [loc5322Loop, locFin, blocked, hbl, hp']
                  | cons d ds =>
                    simp only [wsq_list]
                    by_cases hd : Spec.wsq d = true
                    · simp only [hd, if_true]
                      exact hcont (by simp [blocked, hd])
                    · have hd' : Spec.wsq d = false := by simpa using hd
                      simp [hd', hneW, blocked, hbl, hp']
              · have hbl' : Spec.blank c = false := by simpa using hbl
                simp only [hbl', Bool.false_eq_true, if_false]
                exact hcont (by simp [blocked, hbl'])

/-- **mode 5322**: `is_5322_local` accepts exactly the strings of the grammar -/
theorem is5322Local_iff (s : List Nat) (hn : NulFree s) : is5322Local s = 0 ↔ specLocal .m5322 s = true := by
  unfold is5322Local specLocal
  cases s with
  | nil => simp [runFrom]
  | cons c cs =>
    simp only [List.isEmpty_cons, Bool.false_eq_true, if_false]
    exact loc5322_sim (c :: cs) none false false wordStart hn (by simp [SInv]; exact UInv.start _ (by simp))

end Eav
