import Eav.Spec.Local
/-!
# The executable recogniser `specLocal` accepts exactly the declarative language `IsLocal`

For every mode: `specLocal m s = true ↔ IsLocal m s` (`word *("." word)`, words being atoms or quoted
strings with the mode's quoted content, RFC 822 folding, and the RFC 5322 blank rule).
-/
namespace Eav.Spec
open St

theorem join_cons (w : List Nat) (ws : List (List Nat)) (h : ws ≠ []) :
    join (w :: ws) = w ++ 46 :: join ws := by
  cases ws with
  | nil => exact absurd rfl h
  | cons w' ws => rfl

def AfterQ (m : LMode) (s : List Nat) : Prop := s = [] ∨ ∃ r, s = 46 :: r ∧ IsLocal m r

/-- the rest of a quoted string and what follows it, `prev` being the raw byte before it -/
def QRest (m : LMode) (prev : Nat) (s : List Nat) : Prop :=
  ∃ (items : List QItem) (t : List Nat), (∀ it ∈ items, okItem m it = true) ∧ s = flat items ++ 34 :: t ∧
    AfterQ m t ∧ (m = .m5322 → wsOk prev items = true)

/-- language accepted from each state -/
def Lang (m : LMode) : St → List Nat → Prop
  | wordStart, s => IsLocal m s
  | inAtom, s => ∃ a, (∀ b ∈ a, atext m b = true) ∧ (s = a ∨ ∃ r, s = a ++ 46 :: r ∧ IsLocal m r)
  | afterQuote, s => AfterQ m s
  | inQuote prev, s => QRest m prev s
  | inPair, s => ∃ b s', s = b :: s' ∧ okItem m (.pair b) = true ∧ QRest m b s'
  | fold1, s => m = .m822 ∧ ∃ w s', s = 10 :: w :: s' ∧ (w = 32 ∨ w = 9) ∧ QRest m w s'
  | fold2, s => m = .m822 ∧ ∃ w s', s = w :: s' ∧ (w = 32 ∨ w = 9) ∧ QRest m w s'

theorem local_of_word (m : LMode) (w t : List Nat) (hw : IsWord m w) (ht : AfterQ m t) : IsLocal m (w ++ t) := by
  rcases ht with rfl | ⟨r, rfl, ws, hne, hall, rfl⟩
  · exact ⟨[w], by simp, by simpa using hw, by simp [join]⟩
  · refine ⟨w :: ws, by simp, ?_, ?_⟩
    · intro x hx; simp at hx; rcases hx with rfl | hx
      · exact hw
      · exact hall x hx
    · rw [join_cons w ws hne]

theorem local_inv (m : LMode) (s : List Nat) (h : IsLocal m s) : ∃ w t, IsWord m w ∧ AfterQ m t ∧ s = w ++ t := by
  obtain ⟨ws, hne, hall, rfl⟩ := h
  cases ws with
  | nil => exact absurd rfl hne
  | cons w ws =>
    refine ⟨w, ?_⟩
    cases ws with
    | nil => exact ⟨[], hall w (by simp), Or.inl rfl, by simp [join]⟩
    | cons w' ws =>
      refine ⟨46 :: join (w' :: ws), hall w (by simp), Or.inr ⟨_, rfl, w' :: ws, by simp, ?_, rfl⟩, rfl⟩
      intro x hx; exact hall x (by simp at hx ⊢; exact Or.inr hx)

theorem atext_ne {m : LMode} {b : Nat} (h : atext m b = true) : b ≠ 34 ∧ b ≠ 46 ∧ b ≠ 92 := by
  simp [atext, atextAscii, special] at h
  rcases h with h | h <;> omega

theorem okCh_ne {m : LMode} {b : Nat} (h : okItem m (.ch b) = true) : b ≠ 34 ∧ b ≠ 92 ∧ (m = .m822 → b ≠ 13) := by
  cases m <;> simp [okItem, ascii, printable] at h ⊢ <;> omega

theorem okFold_mode {m : LMode} {w : Nat} (h : okItem m (.fold w) = true) : m = .m822 ∧ (w = 32 ∨ w = 9) := by
  cases m <;> simp [okItem] at h ⊢
  exact h

theorem head_flat (items : List QItem) (t : List Nat) : (flat items ++ 34 :: t).head? = some (nextRaw items) := by
  cases items with
  | nil => simp [flat, nextRaw]
  | cons it rest => cases it <;> simp [flat, nextRaw, QItem.bytes]

theorem word_ne_nil {m : LMode} {w : List Nat} (h : IsWord m w) : w ≠ [] := by
  rcases h with ⟨h, _⟩ | ⟨items, _, rfl, _⟩
  · exact h
  · simp

theorem stepSt_inQuote_ch (m : LMode) (prev b : Nat) (next : Option Nat) (h34 : b ≠ 34) (h92 : b ≠ 92)
    (h13 : m = .m822 → b ≠ 13) :
    stepSt m (.inQuote prev) b next =
      if okItem m (.ch b) then (if blocked m prev b next then none else some (.inQuote b)) else none := by
  have hf : (m == LMode.m822 && b == 13) = false := by
    cases hm : (m == LMode.m822) with
    | false => simp
    | true => simp at hm; simp [h13 hm]
  simp [stepSt, h34, h92, hf]

theorem sound (m : LMode) : ∀ (s : List Nat) (st : St), runFrom m st s = true → Lang m st s := by
  intro s
  induction s with
  | nil =>
    intro st h
    cases st <;> simp [runFrom] at h
    · exact ⟨[], by simp, Or.inl rfl⟩
    · exact Or.inl rfl
  | cons b bs ih =>
    intro st h
    cases st with
    | wordStart =>
      simp only [runFrom, stepSt] at h
      by_cases hq : b = 34
      · subst hq
        simp at h
        obtain ⟨items, t, hok, rfl, ht, hws⟩ := ih (inQuote 34) h
        have : IsLocal m ((34 :: flat items ++ [34]) ++ t) :=
          local_of_word m _ t (Or.inr ⟨items, hok, rfl, hws⟩) ht
        simpa [Lang] using this
      · have hq' : (b == 34) = false := by simpa using hq
        simp only [hq', Bool.false_eq_true, if_false] at h
        by_cases ha : atext m b = true
        · simp only [ha, if_true] at h
          obtain ⟨a, haa, hs⟩ := ih inAtom h
          have hw : IsWord m (b :: a) := Or.inl ⟨by simp, by intro x hx; simp at hx; rcases hx with rfl | hx; exact ha; exact haa x hx⟩
          rcases hs with hs | ⟨r, rfl, hr⟩
          · rw [hs]; have := local_of_word m (b :: a) [] hw (Or.inl rfl); simpa [Lang] using this
          · have := local_of_word m (b :: a) (46 :: r) hw (Or.inr ⟨r, rfl, hr⟩); simpa [Lang] using this
        · simp [ha] at h
    | inAtom =>
      simp only [runFrom, stepSt] at h
      by_cases hd : b = 46
      · subst hd; simp at h
        exact ⟨[], by simp, Or.inr ⟨bs, by simp, ih wordStart h⟩⟩
      · have hd' : (b == 46) = false := by simpa using hd
        simp only [hd', Bool.false_eq_true, if_false] at h
        by_cases ha : atext m b = true
        · simp only [ha, if_true] at h
          obtain ⟨a, haa, hs⟩ := ih inAtom h
          refine ⟨b :: a, by intro x hx; simp at hx; rcases hx with rfl | hx; exact ha; exact haa x hx, ?_⟩
          rcases hs with hs | ⟨r, rfl, hr⟩
          · exact Or.inl (by rw [hs])
          · exact Or.inr ⟨r, by simp, hr⟩
        · simp [ha] at h
    | afterQuote =>
      simp only [runFrom, stepSt] at h
      by_cases hd : b = 46
      · subst hd; simp at h
        exact Or.inr ⟨bs, rfl, ih wordStart h⟩
      · have hd' : (b == 46) = false := by simpa using hd
        simp [hd'] at h
    | inQuote prev =>
      simp only [runFrom] at h
      by_cases hq : b = 34
      · subst hq; simp [stepSt] at h
        exact ⟨[], bs, by simp, by simp [flat], ih afterQuote h, fun _ => rfl⟩
      · by_cases hb : b = 92
        · subst hb; simp [stepSt] at h
          obtain ⟨c, s', rfl, hc, items, t, hok, rfl, ht, hws⟩ := ih inPair h
          exact ⟨QItem.pair c :: items, t, by intro it hit; simp at hit; rcases hit with rfl | hit; exact hc; exact hok it hit,
            by simp [flat, QItem.bytes], ht, fun hm => by simpa [wsOk] using hws hm⟩
        · by_cases hf : m = .m822 ∧ b = 13
          · obtain ⟨hm, rfl⟩ := hf
            subst hm
            simp [stepSt] at h
            obtain ⟨_, w, s', rfl, hw, items, t, hok, rfl, ht, hws⟩ := ih fold1 h
            refine ⟨QItem.fold w :: items, t, ?_, by simp [flat, QItem.bytes], ht, fun hm => by cases hm⟩
            intro it hit; simp at hit; rcases hit with rfl | hit
            · rcases hw with rfl | rfl <;> simp [okItem]
            · exact hok it hit
          · have h13 : m = .m822 → b ≠ 13 := fun hm hb13 => hf ⟨hm, hb13⟩
            rw [stepSt_inQuote_ch m prev b bs.head? hq hb h13] at h
            by_cases hok : okItem m (.ch b) = true
            · simp only [hok, if_true] at h
              by_cases hbl : blocked m prev b bs.head? = true
              · simp [hbl] at h
              · simp only [hbl, Bool.false_eq_true, if_false] at h
                obtain ⟨items, t, hoks, hbs, ht, hws⟩ := ih (inQuote b) h
                refine ⟨QItem.ch b :: items, t, ?_, by simp [flat, QItem.bytes, hbs], ht, ?_⟩
                · intro it hit; simp at hit; rcases hit with rfl | hit; exact hok; exact hoks it hit
                · intro hm
                  subst hm
                  have hh := head_flat items t
                  rw [← hbs] at hh
                  simp only [wsOk, Bool.and_eq_true, Bool.or_eq_true, Bool.not_eq_true']
                  refine ⟨?_, hws rfl⟩
                  by_cases hb1 : blank b = true
                  · by_cases hp : wsq prev = true
                    · exact Or.inl (Or.inr hp)
                    · by_cases hn : wsq (nextRaw items) = true
                      · exact Or.inr hn
                      · exfalso; apply hbl
                        simp [blocked, hh, hb1, hp, hn]
                  · exact Or.inl (Or.inl (by simpa using hb1))
            · simp [hok] at h
    | inPair =>
      simp only [runFrom, stepSt] at h
      by_cases hp : okItem m (.pair b) = true
      · simp only [hp, if_true] at h
        exact ⟨b, bs, rfl, hp, ih (inQuote b) h⟩
      · simp [hp] at h
    | fold1 =>
      simp only [runFrom, stepSt] at h
      by_cases hb : (m == LMode.m822 && b == 10) = true
      · simp only [hb, if_true] at h
        simp only [Bool.and_eq_true, beq_iff_eq] at hb
        obtain ⟨hm, rfl⟩ := hb
        obtain ⟨_, w, s', rfl, hw, hq⟩ := ih fold2 h
        exact ⟨hm, w, s', rfl, hw, hq⟩
      · simp [hb] at h
    | fold2 =>
      simp only [runFrom, stepSt] at h
      by_cases hb : (m == LMode.m822 && (b == 32 || b == 9)) = true
      · simp only [hb, if_true] at h
        have hq := ih (inQuote b) h
        simp only [Bool.and_eq_true, beq_iff_eq, Bool.or_eq_true] at hb
        exact ⟨hb.1, b, bs, rfl, hb.2, hq⟩
      · simp [hb] at h

theorem runFrom_cons (m : LMode) (st : St) (b : Nat) (bs : List Nat) :
    runFrom m st (b :: bs) = (match stepSt m st b bs.head? with | some st' => runFrom m st' bs | none => false) := rfl

theorem complete (m : LMode) : ∀ (s : List Nat) (st : St), Lang m st s → runFrom m st s = true := by
  intro s
  induction s with
  | nil =>
    intro st h
    cases st with
    | wordStart =>
      obtain ⟨w, t, hw, _, he⟩ := local_inv m _ h
      have := word_ne_nil hw
      cases w with
      | nil => exact absurd rfl this
      | cons x xs => simp at he
    | inAtom => simp [runFrom]
    | afterQuote => simp [runFrom]
    | inQuote prev =>
      obtain ⟨items, t, _, he, _⟩ := h
      have : (flat items ++ 34 :: t) ≠ [] := by simp
      exact absurd he.symm this
    | inPair =>
      obtain ⟨b, s', he, _⟩ := h
      simp at he
    | fold1 =>
      obtain ⟨_, w, s', he, _⟩ := h
      simp at he
    | fold2 =>
      obtain ⟨_, w, s', he, _⟩ := h
      simp at he
  | cons b bs ih =>
    intro st h
    cases st with
    | wordStart =>
      obtain ⟨w, t, hw, ht, he⟩ := local_inv m _ h
      rcases hw with ⟨hne, hat⟩ | ⟨items, hok, rfl, hws⟩
      · -- atom
        cases w with
        | nil => exact absurd rfl hne
        | cons x a =>
          simp at he
          obtain ⟨rfl, rfl⟩ := he
          have hx := hat b (by simp)
          have hn := atext_ne hx
          have h34 : (b == 34) = false := by simpa using hn.1
          simp only [runFrom, stepSt, h34, Bool.false_eq_true, if_false, hx, if_true]
          apply ih inAtom
          refine ⟨a, fun y hy => hat y (by simp [hy]), ?_⟩
          rcases ht with rfl | ⟨r, rfl, hr⟩
          · exact Or.inl (by simp)
          · exact Or.inr ⟨r, rfl, hr⟩
      · -- quoted
        simp at he
        obtain ⟨rfl, rfl⟩ := he
        simp only [runFrom, stepSt, beq_self_eq_true, if_true]
        apply ih (inQuote 34)
        exact ⟨items, t, hok, by simp, ht, hws⟩
    | inAtom =>
      obtain ⟨a, haa, hs⟩ := h
      cases a with
      | nil =>
        rcases hs with hs | ⟨r, hs, hr⟩
        · simp at hs
        · simp at hs
          obtain ⟨rfl, rfl⟩ := hs
          simp only [runFrom, stepSt, beq_self_eq_true, if_true]
          exact ih wordStart hr
      | cons x a =>
        have hx := haa x (by simp)
        have hn := atext_ne hx
        have hb : b = x := by
          rcases hs with hs | ⟨r, hs, _⟩ <;> simp at hs <;> exact hs.1
        subst hb
        have h46 : (b == 46) = false := by simpa using hn.2.1
        simp only [runFrom, stepSt, h46, Bool.false_eq_true, if_false, hx, if_true]
        apply ih inAtom
        refine ⟨a, fun y hy => haa y (by simp [hy]), ?_⟩
        rcases hs with hs | ⟨r, hs, hr⟩
        · simp at hs; exact Or.inl hs
        · simp at hs; exact Or.inr ⟨r, hs, hr⟩
    | afterQuote =>
      rcases h with h | ⟨r, he, hr⟩
      · simp at h
      · simp at he
        obtain ⟨rfl, rfl⟩ := he
        simp only [runFrom, stepSt, beq_self_eq_true, if_true]
        exact ih wordStart hr
    | inQuote prev =>
      obtain ⟨items, t, hok, he, ht, hws⟩ := h
      cases items with
      | nil =>
        simp [flat] at he
        obtain ⟨rfl, rfl⟩ := he
        simp only [runFrom, stepSt, beq_self_eq_true, if_true]
        exact ih afterQuote ht
      | cons it items =>
        have hit := hok it (by simp)
        have hok' : ∀ i ∈ items, okItem m i = true := fun i hi => hok i (by simp [hi])
        cases it with
        | ch c =>
          simp [flat, QItem.bytes] at he
          obtain ⟨rfl, rfl⟩ := he
          have hn := okCh_ne hit
          simp only [runFrom]
          rw [stepSt_inQuote_ch m prev b _ hn.1 hn.2.1 hn.2.2]
          have hh : (List.flatMap QItem.bytes items ++ 34 :: t).head? = some (nextRaw items) := head_flat items t
          have hbl : blocked m prev b (List.flatMap QItem.bytes items ++ 34 :: t).head? = false := by
            rw [hh]
            by_cases hm : m = .m5322
            · have := hws hm
              simp only [wsOk, Bool.and_eq_true, Bool.or_eq_true, Bool.not_eq_true'] at this
              rcases this.1 with (h1 | h1) | h1 <;> simp [blocked, h1]
            · have : (m == LMode.m5322) = false := by simpa using hm
              simp [blocked, this]
          simp only [hit, if_true, hbl, Bool.false_eq_true, if_false]
          refine ih (inQuote b) ⟨items, t, hok', by simp [flat], ht, fun hm => ?_⟩
          have := hws hm
          simp only [wsOk, Bool.and_eq_true] at this
          exact this.2
        | pair c =>
          simp [flat, QItem.bytes] at he
          obtain ⟨rfl, rfl⟩ := he
          simp only [runFrom, stepSt]
          simp
          exact ih inPair ⟨c, _, rfl, hit, items, t, hok', by simp [flat], ht, fun hm => by simpa [wsOk] using hws hm⟩
        | fold w =>
          obtain ⟨hm, hw⟩ := okFold_mode hit
          subst hm
          simp [flat, QItem.bytes] at he
          obtain ⟨rfl, rfl⟩ := he
          rw [runFrom_cons]
          have hst : ∀ nx, stepSt LMode.m822 (inQuote prev) 13 nx = some fold1 := by intro nx; simp [stepSt]
          rw [hst]
          exact ih fold1 ⟨rfl, w, _, rfl, hw, items, t, hok', by simp [flat], ht, fun hm => by cases hm⟩
    | inPair =>
      obtain ⟨c, s', he, hc, hq⟩ := h
      simp at he
      obtain ⟨rfl, rfl⟩ := he
      simp only [runFrom, stepSt, hc, if_true]
      exact ih (inQuote b) hq
    | fold1 =>
      obtain ⟨hm, w, s', he, hw, hq⟩ := h
      simp at he
      obtain ⟨rfl, rfl⟩ := he
      subst hm
      rw [runFrom_cons]
      have hst : ∀ nx, stepSt LMode.m822 fold1 10 nx = some fold2 := by intro nx; simp [stepSt]
      rw [hst]
      exact ih fold2 ⟨rfl, w, s', rfl, hw, hq⟩
    | fold2 =>
      obtain ⟨hm, w, s', he, hw, hq⟩ := h
      simp at he
      obtain ⟨rfl, rfl⟩ := he
      subst hm
      simp only [runFrom, stepSt]
      have : (b == 32 || b == 9) = true := by rcases hw with rfl | rfl <;> simp
      simp [this]
      exact ih (inQuote b) hq

/-- **the recogniser decides the grammar** -/
theorem specLocal_iff (m : LMode) (s : List Nat) : specLocal m s = true ↔ IsLocal m s :=
  ⟨sound m s wordStart, complete m s wordStart⟩

end Eav.Spec
