import Eav.Lemmas.Local6531
/-!
# `is_6531_local` as written (`loc6531LoopC`: dot tests on the previous character) equals the form that shares
`unquotedStep` with the other scanners (`loc6531Loop`: dot tests on the next byte) — return codes included
-/
namespace Eav
open Eav.Spec

theorem unquotedStep6_eq {ex : List Nat} {prev : Option Nat} {c : Nat} {cs : List Nat} (h : c ≠ 46) :
    unquotedStep6 ex prev c cs = unquotedStep ex prev c cs := by
  have h' : (c == 46) = false := by simpa using h
  unfold unquotedStep6 unquotedStep
  simp only [h', Bool.false_eq_true, if_false]

/-- in an unquoted position a dot is never followed by a dot: the look-ahead scanner has already stopped -/
def DotInv (prev : Option Nat) (q : Bool) (inp : List Nat) : Prop :=
  q = false → prev = some 46 → inp.head? ≠ some 46

theorem loc6531C_eq_loop (b : LBuild) : ∀ (n : Nat) (inp : List Nat), inp.length ≤ n →
    ∀ (prev : Option Nat) (q qp : Bool), DotInv prev q inp →
    loc6531LoopC b prev q qp inp = loc6531Loop b prev q qp inp := by
  intro n
  induction n with
  | zero =>
    intro inp h prev q qp _
    have : inp = [] := List.length_eq_zero_iff.mp (by omega)
    subst this
    rw [loc6531LoopC.eq_def, loc6531Loop.eq_def]; simp [decodeNext]
  | succ n ih =>
    intro inp h prev q qp hinv
    rw [loc6531LoopC.eq_def, loc6531Loop.eq_def]
    cases hd : decodeNext inp with
    | fin => rfl
    | err => rfl
    | ch c rest =>
      have hl : rest.length ≤ n := by have := decodeNext_length hd; omega
      obtain ⟨hlo, hhi⟩ := head_of_char hd
      simp only
      by_cases h46 : c = 46
      · subst h46
        have hhead : inp.head? = some 46 := hlo (by omega)
        have e1 : ¬ (46 : Nat) > 127 := by omega
        have e2 : isCntrl 46 = false := by decide
        have e3 : ((46 : Nat) == 34) = false := by decide
        have e4 : ((46 : Nat) == 92) = false := by decide
        have e5 : blanks.contains 46 = false := by decide
        simp only [e1, if_false, e2, Bool.and_false, Bool.false_eq_true, e3, e4, e5, hhead]
        cases q with
        | true =>
          have IH := fun qp' => ih rest hl (some 46) true qp' (fun h => by cases h)
          simp only [Bool.not_true, Bool.false_eq_true, if_false, IH]
        | false =>
          simp only [Bool.not_false, if_true]
          -- by the invariant the previous character is not a dot
          have hprev : prev ≠ some 46 := fun hp => hinv rfl hp hhead
          have hp' : (prev == some 46) = false := by simpa using hprev
          unfold unquotedStep6 unquotedStep
          simp only [e3, Bool.false_eq_true, if_false, beq_self_eq_true, if_true, hp']
          by_cases hm : (prev == none || rest.isEmpty) = true
          · simp only [hm, if_true]
          · simp only [hm, Bool.false_eq_true, if_false]
            by_cases hnext : (rest.head? == some 46) = true
            · -- `..`: the look-ahead form stops here, the C form at the next character
              simp only [hnext, if_true]
              have hr : rest.head? = some 46 := by simpa using hnext
              obtain ⟨rest', hrest⟩ : ∃ rest', rest = 46 :: rest' := by
                cases rest with
                | nil => simp at hr
                | cons x xs => simp at hr; exact ⟨xs, by rw [hr]⟩
              subst hrest
              rw [loc6531LoopC.eq_def]
              have hd2 : decodeNext (46 :: rest') = .ch 46 rest' := by simp [decodeNext]
              split
              · rename_i h'; rw [hd2] at h'; cases h'
              · rename_i h'; rw [hd2] at h'; cases h'
              · rename_i c2 r2 h'
                rw [hd2] at h'; cases h'
                simp only [e1, if_false, e2, Bool.and_false, Bool.false_eq_true, Bool.not_false, if_true]
                unfold unquotedStep6
                simp only [e3, Bool.false_eq_true, if_false, beq_self_eq_true, if_true]
            · simp only [hnext, Bool.false_eq_true, if_false]
              have hr : rest.head? ≠ some 46 := by simpa using hnext
              exact ih rest hl (some 46) false qp (fun _ _ => hr)
      · -- any other character: the two step functions coincide, and the next position satisfies the invariant
        have hne : inp.head? ≠ some 46 := by
          intro hh
          by_cases hlt : c < 128
          · have := hlo hlt; rw [this] at hh; exact h46 (by simpa using hh)
          · obtain ⟨L, hL, hge⟩ := hhi (by omega)
            rw [hL] at hh
            simp only [Option.some.injEq] at hh
            omega
        have IH := fun q' qp' => ih rest hl inp.head? q' qp' (fun _ hp => absurd hp hne)
        simp only [unquotedStep6_eq h46, IH]

/-- **the scanner as written is the scanner the theorems are about** -/
theorem is6531LocalC_eq (b : LBuild) (s : List Nat) : is6531LocalC b s = is6531Local b s := by
  unfold is6531LocalC is6531Local
  split
  · rfl
  · exact loc6531C_eq_loop b _ s (Nat.le_refl _) none false false (fun _ h => by cases h)

end Eav
