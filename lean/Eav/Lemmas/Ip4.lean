import Eav.Ip
import Eav.Spec.Ip
/-!
# `is_ipv4` ≡ "four decimal octets, single dots" — exact, for every NUL-free byte string

`ipv4Loop_eq` is the loop invariant: from any reachable state the loop returns what the specification
says about the remaining bytes.  The Postfix "bad initial octet" test (`start[strspn(start, "0.")]`) reads on
past `end`; in every call the library makes the byte at `end` is `]` or a later byte of the same literal, never
NUL, so a first octet of value zero is rejected (`hw`).
-/
namespace Eav
open Eav.Spec

theorem splitOn_ne_nil (c : Nat) (l : List Nat) : splitOn c l ≠ [] := by
  induction l with
  | nil => simp [splitOn]
  | cons x xs ih =>
    unfold splitOn
    split
    · simp
    · split <;> simp

theorem splitOn_sep (c : Nat) (xs : List Nat) : splitOn c (c :: xs) = [] :: splitOn c xs := by
  simp [splitOn]

theorem splitOn_cons_ne {c x : Nat} (xs : List Nat) (h : x ≠ c) :
    ∃ w ws, splitOn c xs = w :: ws ∧ splitOn c (x :: xs) = (x :: w) :: ws := by
  cases hs : splitOn c xs with
  | nil => exact absurd hs (splitOn_ne_nil c xs)
  | cons w ws =>
    refine ⟨w, ws, rfl, ?_⟩
    have : (x == c) = false := by simpa using h
    simp [splitOn, this, hs]

def decStep (acc d : Nat) : Nat := acc * 10 + (d - 48)
def decFrom (bv : Nat) (w : List Nat) : Nat := w.foldl decStep bv

theorem decVal_eq (w : List Nat) : decVal w = decFrom 0 w := by
  unfold decVal decFrom; rfl
theorem decFrom_cons (bv c : Nat) (w : List Nat) : decFrom bv (c :: w) = decFrom (bv * 10 + (c - 48)) w := by
  unfold decFrom; rw [List.foldl_cons]; unfold decStep; rfl
theorem decFrom_ge (w : List Nat) : ∀ (bv : Nat), bv ≤ decFrom bv w := by
  induction w with
  | nil => intro bv; exact Nat.le_refl _
  | cons c w ih =>
    intro bv
    rw [decFrom_cons]
    have h := ih (bv * 10 + (c - 48))
    omega
@[simp] theorem decFrom_nil (bv : Nat) : decFrom bv [] = bv := rfl

/-- what the specification says about the bytes still to be read, given the octet parser's state -/
def v4Rest (cs : List Nat) (inByte : Bool) (bv bc : Nat) : Bool :=
  match splitOn 46 cs with
  | [] => false
  | w :: ws =>
    let cur := if inByte then w.all isDigit && decide (decFrom bv w ≤ 255) else decOctet w
    let val := if inByte then decFrom bv w else decVal w
    let bc' := if inByte then bc else bc + 1
    cur && ws.all decOctet && (bc' + ws.length == 4) && (!(bc' == 1 && !ws.isEmpty) || val != 0)

theorem ipv4Loop_eq (whole : List Nat) (hw : ∃ b, byteAfterZeroDots whole = .ok b ∧ b ≠ 0) :
    ∀ (cs : List Nat), NulFree cs → ∀ (inByte : Bool) (bv bc : Nat),
    (inByte = true → bv ≤ 255 ∧ 1 ≤ bc) → (inByte = false → cs ≠ [] ∨ bc = 0) →
    ipv4Loop whole cs inByte bv bc = .ok (v4Rest cs inByte bv bc)
  | [], _, inByte, bv, bc, h1, h2 => by
    cases inByte with
    | true =>
      have := (h1 rfl).1
      simp [ipv4Loop, v4Rest, splitOn, this]
    | false =>
      have : bc = 0 := by simpa using h2 rfl
      subst this
      simp [ipv4Loop, v4Rest, splitOn, decOctet]
  | c :: cs, hn, inByte, bv, bc, h1, h2 => by
    have hc0 : (c == 0) = false := by simpa using hn c (by simp)
    have hn' : NulFree cs := fun d hd => hn d (by simp [hd])
    unfold ipv4Loop
    simp only [hc0, Bool.false_eq_true, if_false]
    by_cases hd : isDigit c = true
    · have hne : c ≠ 46 := by
        intro h; subst h; exact absurd hd (by decide)
      obtain ⟨w, ws, hs, hs'⟩ := splitOn_cons_ne (c := 46) cs hne
      simp only [hd, if_true]
      cases inByte with
      | true =>
        obtain ⟨hb, hbc⟩ := h1 rfl
        simp only [if_true]
        by_cases hgt : bv * 10 + (c - 48) > 255
        · simp only [hgt, if_true]
          have : ¬ decFrom bv (c :: w) ≤ 255 := by
            rw [decFrom_cons]; have := decFrom_ge w (bv * 10 + (c - 48)); omega
          simp [v4Rest, hs', this]
        · simp only [hgt, if_false]
          rw [ipv4Loop_eq whole hw cs hn' true _ bc (fun _ => ⟨by omega, hbc⟩) (fun h => by cases h)]
          simp [v4Rest, hs, hs', decFrom_cons, hd]
      | false =>
        simp only [Bool.false_eq_true, if_false]
        by_cases hgt : 0 * 10 + (c - 48) > 255
        · simp only [hgt, if_true]
          have : ¬ decVal (c :: w) ≤ 255 := by
            rw [decVal_eq, decFrom_cons]; have := decFrom_ge w (0 * 10 + (c - 48)); omega
          simp [v4Rest, hs', decOctet, this]
        · simp only [hgt, if_false]
          rw [ipv4Loop_eq whole hw cs hn' true _ (bc + 1) (fun _ => ⟨by omega, by omega⟩) (fun h => by cases h)]
          simp [v4Rest, hs, hs', decOctet, decVal_eq, decFrom_cons, hd]
    · simp only [hd, Bool.false_eq_true, if_false]
      by_cases h46 : c = 46
      · subst h46
        simp only [beq_self_eq_true, if_true]
        cases inByte with
        | false => simp [v4Rest, splitOn_sep, decOctet]
        | true =>
          obtain ⟨hb, hbc⟩ := h1 rfl
          simp only [Bool.not_true, Bool.false_or]
          cases cs with
          | nil => simp [v4Rest, splitOn, decOctet]
          | cons d ds =>
            have hd0 : d ≠ 0 := hn' d (by simp)
            have hh : ((d :: ds).head? == some 0) = false := by simpa using hd0
            simp only [List.isEmpty_cons, hh, Bool.or_self, Bool.false_eq_true, if_false]
            cases hs : splitOn 46 (d :: ds) with
            | nil => exact absurd hs (splitOn_ne_nil _ _)
            | cons w2 ws2 =>
              by_cases hz : (bc == 1 && bv == 0) = true
              · obtain ⟨b, hb1, hb2⟩ := hw
                have hb3 : (b != 0) = true := by simpa using hb2
                simp only [hz, if_true, hb1, bind, Except.bind, hb3]
                simp only [Bool.and_eq_true, beq_iff_eq] at hz
                simp [v4Rest, splitOn_sep, hs, hz.1, hz.2]
              · simp only [hz, Bool.false_eq_true, if_false]
                rw [ipv4Loop_eq whole hw (d :: ds) hn' false bv bc (fun h => by cases h) (fun _ => Or.inl (by simp))]
                have hz' : ¬ (bc = 1 ∧ bv = 0) := by simpa using hz
                have hdec : decide (decFrom bv [] ≤ 255) = true := decide_eq_true hb
                simp only [v4Rest, splitOn_sep, hs, if_true, Bool.false_eq_true, if_false, hdec, decFrom_nil,
                  List.all_nil, Bool.true_and, List.all_cons, List.length_cons, List.isEmpty_cons, Bool.not_false, Bool.and_true]
                have hbcne : (bc + 1 == 1) = false := by
                  simp only [beq_eq_false_iff_ne, ne_eq]; omega
                have hzz : (!(bc == 1) || bv != 0) = true := by
                  by_cases h1' : bc = 1
                  · have : bv ≠ 0 := fun h0 => hz' ⟨h1', h0⟩
                    simp [this]
                  · simp [h1']
                have e : bc + 1 + ws2.length = bc + (ws2.length + 1) := by omega
                simp only [hbcne, Bool.false_and, Bool.not_false, Bool.true_or, Bool.and_true, hzz, e]
                simp [hb]
      · have h46' : (c == 46) = false := by simpa using h46
        simp only [h46', Bool.false_eq_true, if_false]
        obtain ⟨w, ws, hs, hs'⟩ := splitOn_cons_ne (c := 46) cs h46
        cases inByte <;> simp [v4Rest, hs', decOctet, hd]

theorem byteAfterZeroDots_bracket : ∀ (s : List Nat), NulFree s → ∃ b, byteAfterZeroDots (s ++ [93, 0]) = .ok b ∧ b ≠ 0
  | [], _ => ⟨93, by decide, by decide⟩
  | c :: cs, hn => by
    simp only [List.cons_append, byteAfterZeroDots]
    split
    · exact byteAfterZeroDots_bracket cs (fun d hd => hn d (by simp [hd]))
    · exact ⟨c, rfl, hn c (by simp)⟩

/-- **`is_ipv4` inside a literal, exactly**: four decimal octets `0..255` separated by single dots, the first
octet not zero; no fault -/
theorem isIpv4_literal (s : List Nat) (hn : NulFree s) :
    isIpv4 s [93, 0] = .ok (v4 s && firstOctetNonZero s) := by
  unfold isIpv4
  rw [ipv4Loop_eq _ (byteAfterZeroDots_bracket s hn) s hn false 0 0 (fun h => by cases h) (fun _ => Or.inr rfl)]
  congr 1
  unfold v4Rest v4 firstOctetNonZero
  cases hs : splitOn 46 s with
  | nil => exact absurd hs (splitOn_ne_nil _ _)
  | cons w ws =>
    simp only [Bool.false_eq_true, if_false, List.all_cons, List.length_cons]
    rw [Bool.eq_iff_iff]
    simp only [Bool.and_eq_true, Bool.or_eq_true, Bool.not_eq_true', beq_iff_eq, bne_iff_ne, ne_eq, Bool.and_eq_false_iff,
      beq_eq_false_iff_ne, Bool.not_eq_false']
    constructor
    · rintro ⟨⟨⟨a, b⟩, c⟩, d⟩
      refine ⟨⟨by omega, a, b⟩, ?_⟩
      rcases d with d | d
      · rcases d with d | d
        · exact absurd trivial d
        · have : ws = [] := by simpa using d
          subst this; simp at c
      · exact d
    · rintro ⟨⟨a, b, c⟩, d⟩
      exact ⟨⟨⟨b, c⟩, by omega⟩, Or.inr d⟩

end Eav
