import Eav.Utf8
import Eav.Spec.Utf8
/-!
# The decoder accepts exactly well-formed UTF-8

`decodeNext s = .ch cp rest` iff `cp` is a Unicode scalar value and `s` is its shortest-form encoding
followed by `rest`: no overlong forms, no surrogates, nothing above U+10FFFF, no stray or missing
continuation bytes.
-/
namespace Eav
open Spec

theorem decodeNext_sound {s : List Nat} {cp : Nat} {rest : List Nat} (h : decodeNext s = .ch cp rest) :
    validScalar cp = true ∧ s = utf8Enc cp ++ rest := by
  cases s with
  | nil => simp [decodeNext] at h
  | cons c cs =>
    by_cases h1 : c < 128
    · simp only [decodeNext, h1, if_true, Dec.ch.injEq] at h
      obtain ⟨rfl, rfl⟩ := h
      exact ⟨by simp [validScalar]; omega, by simp [utf8Enc, h1]⟩
    · by_cases h2 : c < 192
      · simp [decodeNext, h1, h2] at h
      · by_cases h3 : c < 224
        · -- two bytes
          cases cs with
          | nil => simp [decodeNext, h1, h2, h3] at h
          | cons c1 r =>
            simp only [decodeNext, h1, h2, h3, if_true, if_false] at h
            by_cases hc : isCont c1 = true
            · simp only [hc, if_true] at h
              by_cases hv : c % 32 * 64 + c1 % 64 ≥ 128
              · simp only [hv, if_true, Dec.ch.injEq] at h
                obtain ⟨rfl, rfl⟩ := h
                simp only [isCont, Bool.and_eq_true, decide_eq_true_eq] at hc
                refine ⟨by simp [validScalar]; omega, ?_⟩
                unfold utf8Enc
                have e1 : ¬ (c % 32 * 64 + c1 % 64 < 128) := by omega
                have e2 : c % 32 * 64 + c1 % 64 < 2048 := by omega
                simp only [e1, e2, if_true, if_false, List.cons_append, List.nil_append, List.cons.injEq, and_true]
                constructor <;> omega
              · simp [hv] at h
            · simp [hc] at h
        · by_cases h4 : c < 240
          · -- three bytes
            cases cs with
            | nil => simp [decodeNext, h1, h2, h3, h4] at h
            | cons c1 r1 =>
              cases r1 with
              | nil => simp [decodeNext, h1, h2, h3, h4] at h
              | cons c2 r =>
                simp only [decodeNext, h1, h2, h3, h4, if_true, if_false] at h
                by_cases hc : (isCont c1 && isCont c2) = true
                · simp only [hc, if_true] at h
                  by_cases hv : c % 16 * 4096 + c1 % 64 * 64 + c2 % 64 ≥ 2048 ∧
                      (c % 16 * 4096 + c1 % 64 * 64 + c2 % 64 < 55296 ∨ c % 16 * 4096 + c1 % 64 * 64 + c2 % 64 > 57343)
                  · simp only [hv, if_true, Dec.ch.injEq] at h
                    obtain ⟨rfl, rfl⟩ := h
                    simp only [isCont, Bool.and_eq_true, decide_eq_true_eq] at hc
                    refine ⟨by simp [validScalar]; omega, ?_⟩
                    unfold utf8Enc
                    have e1 : ¬ (c % 16 * 4096 + c1 % 64 * 64 + c2 % 64 < 128) := by omega
                    have e2 : ¬ (c % 16 * 4096 + c1 % 64 * 64 + c2 % 64 < 2048) := by omega
                    have e3 : c % 16 * 4096 + c1 % 64 * 64 + c2 % 64 < 65536 := by omega
                    simp only [e1, e2, e3, if_true, if_false, List.cons_append, List.nil_append, List.cons.injEq, and_true]
                    refine ⟨?_, ?_, ?_⟩ <;> omega
                  · simp [hv] at h
                · simp [hc] at h
          · by_cases h5 : c < 248
            · -- four bytes
              cases cs with
              | nil => simp [decodeNext, h1, h2, h3, h4, h5] at h
              | cons c1 r1 =>
                cases r1 with
                | nil => simp [decodeNext, h1, h2, h3, h4, h5] at h
                | cons c2 r2 =>
                  cases r2 with
                  | nil => simp [decodeNext, h1, h2, h3, h4, h5] at h
                  | cons c3 r =>
                    simp only [decodeNext, h1, h2, h3, h4, h5, if_true, if_false] at h
                    by_cases hc : (isCont c1 && isCont c2 && isCont c3) = true
                    · simp only [hc, if_true] at h
                      by_cases hv : c % 8 * 262144 + c1 % 64 * 4096 + c2 % 64 * 64 + c3 % 64 ≥ 65536 ∧
                          c % 8 * 262144 + c1 % 64 * 4096 + c2 % 64 * 64 + c3 % 64 ≤ 1114111
                      · simp only [hv, if_true, Dec.ch.injEq] at h
                        obtain ⟨rfl, rfl⟩ := h
                        simp only [isCont, Bool.and_eq_true, decide_eq_true_eq] at hc
                        refine ⟨by simp [validScalar]; omega, ?_⟩
                        unfold utf8Enc
                        have e1 : ¬ (c % 8 * 262144 + c1 % 64 * 4096 + c2 % 64 * 64 + c3 % 64 < 128) := by omega
                        have e2 : ¬ (c % 8 * 262144 + c1 % 64 * 4096 + c2 % 64 * 64 + c3 % 64 < 2048) := by omega
                        have e3 : ¬ (c % 8 * 262144 + c1 % 64 * 4096 + c2 % 64 * 64 + c3 % 64 < 65536) := by omega
                        simp only [e1, e2, e3, if_false, List.cons_append, List.nil_append, List.cons.injEq, and_true]
                        refine ⟨?_, ?_, ?_, ?_⟩ <;> omega
                      · simp [hv] at h
                    · simp [hc] at h
            · simp [decodeNext, h1, h2, h3, h4, h5] at h

theorem decodeNext_complete (cp : Nat) (rest : List Nat) (h : validScalar cp = true) :
    decodeNext (utf8Enc cp ++ rest) = .ch cp rest := by
  simp only [validScalar, Bool.and_eq_true, decide_eq_true_eq, Bool.not_eq_true', Bool.and_eq_false_iff,
    decide_eq_false_iff_not] at h
  unfold utf8Enc
  by_cases h1 : cp < 128
  · simp only [h1, if_true, List.cons_append, List.nil_append, decodeNext]
  · by_cases h2 : cp < 2048
    · simp only [h1, h2, if_true, if_false, List.cons_append, List.nil_append, decodeNext]
      have a1 : ¬ (192 + cp / 64 < 128) := by omega
      have a2 : ¬ (192 + cp / 64 < 192) := by omega
      have a3 : 192 + cp / 64 < 224 := by omega
      have a4 : isCont (128 + cp % 64) = true := by simp [isCont]; omega
      have a5 : (192 + cp / 64) % 32 * 64 + (128 + cp % 64) % 64 = cp := by omega
      simp only [a1, a2, a3, a4, a5, if_true, if_false]
      simp; omega
    · by_cases h3 : cp < 65536
      · simp only [h1, h2, h3, if_true, if_false, List.cons_append, List.nil_append, decodeNext]
        have a1 : ¬ (224 + cp / 4096 < 128) := by omega
        have a2 : ¬ (224 + cp / 4096 < 192) := by omega
        have a3 : ¬ (224 + cp / 4096 < 224) := by omega
        have a4 : 224 + cp / 4096 < 240 := by omega
        have a5 : (isCont (128 + cp / 64 % 64) && isCont (128 + cp % 64)) = true := by simp [isCont]; omega
        have a6 : (224 + cp / 4096) % 16 * 4096 + (128 + cp / 64 % 64) % 64 * 64 + (128 + cp % 64) % 64 = cp := by omega
        simp only [a1, a2, a3, a4, a5, a6, if_true, if_false]
        have a7 : cp ≥ 2048 ∧ (cp < 55296 ∨ cp > 57343) := by omega
        simp [a7]
      · simp only [h1, h2, h3, if_false, List.cons_append, List.nil_append, decodeNext]
        have a1 : ¬ (240 + cp / 262144 < 128) := by omega
        have a2 : ¬ (240 + cp / 262144 < 192) := by omega
        have a3 : ¬ (240 + cp / 262144 < 224) := by omega
        have a4 : ¬ (240 + cp / 262144 < 240) := by omega
        have a4' : 240 + cp / 262144 < 248 := by omega
        have a5 : (isCont (128 + cp / 4096 % 64) && isCont (128 + cp / 64 % 64) && isCont (128 + cp % 64)) = true := by
          simp [isCont]; omega
        have a6 : (240 + cp / 262144) % 8 * 262144 + (128 + cp / 4096 % 64) % 64 * 4096 + (128 + cp / 64 % 64) % 64 * 64
            + (128 + cp % 64) % 64 = cp := by omega
        simp only [a1, a2, a3, a4, a4', a5, a6, if_true, if_false]
        have a7 : cp ≥ 65536 ∧ cp ≤ 1114111 := by omega
        simp [a7]

/-- decode a whole string with the model decoder -/
def decAll (s : List Nat) : Option (List Nat) :=
  match h : decodeNext s with
  | .fin => some []
  | .err => none
  | .ch cp rest => (decAll rest).map (cp :: ·)
termination_by s.length
decreasing_by exact decodeNext_length h

theorem decAll_nil : decAll [] = some [] := by
  unfold decAll
  split <;> simp_all [decodeNext]

theorem decodeNext_fin {s : List Nat} (h : decodeNext s = .fin) : s = [] := by
  cases s with
  | nil => rfl
  | cons c cs =>
    unfold decodeNext at h
    simp only at h
    repeat' split at h
    all_goals cases h

theorem utf8Enc_ne_nil (cp : Nat) : utf8Enc cp ≠ [] := by
  unfold utf8Enc; repeat' split
  all_goals simp

/-- **the decoder accepts exactly the encodings of sequences of scalar values** -/
theorem decAll_iff (s : List Nat) (cps : List Nat) : decAll s = some cps ↔ IsUtf8Of cps s := by
  induction cps generalizing s with
  | nil =>
    constructor
    · intro h
      unfold decAll at h
      split at h
      · rename_i hf; exact ⟨by simp, by simp [decodeNext_fin hf]⟩
      · cases h
      · rename_i c rest hd0
        cases hd : decAll rest <;> simp [hd] at h
    · rintro ⟨_, rfl⟩
      exact decAll_nil
  | cons cp cps ih =>
    constructor
    · intro h
      unfold decAll at h
      split at h
      · simp at h
      · cases h
      · rename_i c rest hd
        cases hr : decAll rest with
        | none => simp [hr] at h
        | some l =>
          simp only [hr, Option.map_some, Option.some.injEq, List.cons.injEq] at h
          obtain ⟨rfl, rfl⟩ := h
          obtain ⟨hv, hs⟩ := decodeNext_sound hd
          obtain ⟨hall, hrest⟩ := (ih rest).mp hr
          refine ⟨?_, by rw [hs, hrest]; simp⟩
          intro x hx
          simp only [List.mem_cons] at hx
          rcases hx with rfl | hx
          · exact hv
          · exact hall x hx
    · rintro ⟨hall, hs⟩
      have hv := hall cp (by simp)
      have hs' : s = utf8Enc cp ++ cps.flatMap utf8Enc := by simpa using hs
      have hd := decodeNext_complete cp (cps.flatMap utf8Enc) hv
      rw [← hs'] at hd
      unfold decAll
      split
      · rename_i hf; rw [hd] at hf; cases hf
      · rename_i hf; rw [hd] at hf; cases hf
      · rename_i c rest hf
        rw [hd] at hf
        cases hf
        have := (ih (cps.flatMap utf8Enc)).mpr ⟨fun x hx => hall x (by simp [hx]), rfl⟩
        simp [this]

end Eav
