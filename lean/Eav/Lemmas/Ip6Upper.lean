import Eav.Lemmas.Ip6
/-!
# `is_ipv6` accepts only RFC 4291 textual addresses (upper bound)
-/
namespace Eav
open Eav.Spec

theorem ok_inj {a b : Bool} (h : (Except.ok a : Except Fault Bool) = .ok b) : a = b := by cases h; rfl

theorem ipv6Fin_len0 (f nf : Nat) (h : nf = 0 ∨ nf < f) : ipv6Fin (f + 1) nf 0 = true → nf = f ∧ 1 ≤ f := by
  unfold ipv6Fin
  intro hh
  by_cases h1 : f + 1 < 2
  · simp [h1] at hh
  · simp only [h1, if_false, beq_self_eq_true, Bool.true_and, Nat.add_sub_cancel] at hh
    by_cases h2 : nf = f
    · exact ⟨h2, by omega⟩
    · have : (nf != f) = true := by simpa using h2
      simp [this] at hh

theorem v4_dot_false (xs : List Nat) : v4 (46 :: xs) = false := by
  simp [v4, splitOn_sep, decOctet]

theorem isIpv4_of_loop {run cs : List Nat} (hn : NulFree (run ++ 46 :: cs))
    (h : ipv4Loop (run ++ 46 :: cs ++ lit) (run ++ 46 :: cs) false 0 0 = .ok true) : v4 (run ++ 46 :: cs) = true := by
  have e : run ++ 46 :: cs ++ lit = (run ++ 46 :: cs) ++ lit := by simp
  rw [e] at h
  have := isIpv4_literal (run ++ 46 :: cs) hn
  unfold isIpv4 at this
  rw [this] at h
  simp only [Except.ok.injEq, Bool.and_eq_true] at h
  exact h.1

theorem h16_of_run {g : List Nat} (hg : g.all isHex = true) (hne : g ≠ []) (h4 : ¬ g.length > 4) : h16 g = true := by
  have : 1 ≤ g.length := by
    cases g with
    | nil => exact absurd rfl hne
    | cons => simp
  simp [h16, hg, this]; omega

theorem headD_eq_58 {xs : List Nat} (h : xs.headD 93 = 58) : ∃ r, xs = 58 :: r := by
  cases xs with
  | nil => simp at h
  | cons x r => simp at h; exact ⟨r, by rw [h]⟩

theorem head?_ne_of_headD {xs : List Nat} (h : ¬ xs.headD 93 = 58) : xs.head? ≠ some 58 := by
  cases xs with
  | nil => simp
  | cons x r => simpa using h

theorem upper_aux : ∀ (n : Nat) (cs : List Nat), cs.length ≤ n → NulFree cs → cs.head? ≠ some 58 →
    ∀ (f nf : Nat), f ≤ 7 → (nf = 0 ∨ nf < f) → ipv6Loop cs lit f nf [] 0 = .ok true →
    (nf = 0 → IsTail v4 (8 - f) cs ∨ ∃ l r nl nr, cs = l ++ 58 :: 58 :: r ∧ IsGroups nl l ∧
        (r = [] ∧ nr = 0 ∨ IsTail v4 nr r) ∧ f + nl + nr ≤ 7)
    ∧ (0 < nf → cs = [] ∨ ∃ nr, IsTail v4 nr cs ∧ f + nr ≤ 8) := by
  intro n
  induction n with
  | zero =>
    intro cs hl _ _ f nf _ hnf h
    have : cs = [] := List.length_eq_zero_iff.mp (by omega)
    subst this
    rw [ipv6_nil] at h
    refine ⟨fun h0 => ?_, fun _ => Or.inl rfl⟩
    subst h0
    exfalso
    cases f with
    | zero => simp [ipv6Fin] at h
    | succ f => have := ipv6Fin_len0 f 0 (Or.inl rfl) (ok_inj h); omega
  | succ n ih =>
    intro cs hl hn hh f nf hf hnf h
    obtain ⟨g, rest, hcs, hg, hr⟩ := hex_split cs
    subst hcs
    by_cases hge : g = []
    · -- no hexadecimal digit here
      subst hge
      simp only [List.nil_append] at h hh hn hl ⊢
      rcases hr with rfl | ⟨x, xs, rfl, hx⟩
      · rw [ipv6_nil] at h
        refine ⟨fun h0 => ?_, fun _ => Or.inl rfl⟩
        subst h0
        exfalso
        cases f with
        | zero => simp [ipv6Fin] at h
        | succ f => have := ipv6Fin_len0 f 0 (Or.inl rfl) (ok_inj h); omega
      · exfalso
        have h58 : x ≠ 58 := by simpa using hh
        have h0 : x ≠ 0 := hn x (by simp)
        by_cases h46 : x = 46
        · subst h46
          rw [ipv6_dot] at h
          split at h
          · cases h
          · split at h
            · cases h
            · have := isIpv4_of_loop (run := []) (by simpa using hn) h
              simp [v4_dot_false] at this
        · rw [ipv6_other x xs f nf [] h0 h46 h58 hx] at h; cases h
    · rw [ipv6_run g rest f nf [] hg hge hr] at h
      by_cases h4 : g.length > 4
      · simp [h4] at h
      · simp only [h4, if_false] at h
        have hh16 := h16_of_run hg hge h4
        have hglen : 1 ≤ g.length := by
          cases g with
          | nil => exact absurd rfl hge
          | cons => simp
        rcases hr with rfl | ⟨x, xs, rfl, hx⟩
        · -- the address ends with this group
          rw [ipv6_nil] at h
          simp only [List.append_nil]
          have hfin : 2 ≤ f ∧ (nf = 0 → f = 7) := by
            unfold ipv6Fin at h
            by_cases h1 : f < 2
            · simp [h1] at h
            · have hl0 : (g.length == 0) = false := by simp; omega
              simp only [h1, if_false, hl0, Bool.false_and, Bool.false_eq_true] at h
              refine ⟨by omega, fun h0 => ?_⟩
              subst h0
              by_cases h7 : f = 7
              · exact h7
              · have : (f != 7) = true := by simpa using h7
                simp [this] at h
          refine ⟨fun h0 => Or.inl ?_, fun _ => Or.inr ⟨1, IsTail.one hh16, by omega⟩⟩
          have := hfin.2 h0
          subst this
          exact IsTail.one hh16
        · have h0 : x ≠ 0 := hn x (by simp)
          by_cases h46 : x = 46
          · -- dotted-quad tail
            subst h46
            rw [ipv6_dot] at h
            split at h
            · cases h
            · rename_i hc1
              split at h
              · cases h
              · rename_i hc2
                have hv4 := isIpv4_of_loop hn h
                have hc1' : 2 ≤ f ∧ f ≤ 6 := by
                  simp only [Bool.or_eq_true, decide_eq_true_eq, not_or] at hc1; omega
                refine ⟨fun hz => Or.inl ?_, fun _ => Or.inr ⟨2, IsTail.quad hv4, by omega⟩⟩
                subst hz
                have : f = 6 := by
                  simp only [beq_self_eq_true, Bool.true_and, bne_iff_ne, ne_eq, Decidable.not_not] at hc2
                  exact hc2
                subst this
                exact IsTail.quad hv4
          · by_cases h58 : x = 58
            · subst h58
              rw [ipv6_colon xs f nf g (Or.inr hge)] at h
              by_cases hf7 : f + 1 > 7
              · simp [hf7] at h
              · simp only [hf7, if_false] at h
                by_cases hdc : xs.headD 93 = 58
                · -- `::`
                  obtain ⟨r, rfl⟩ := headD_eq_58 hdc
                  simp only [List.headD_cons, if_true] at h
                  by_cases hnf0 : nf > 0
                  · simp [hnf0] at h
                  · simp only [hnf0, if_false] at h
                    have hnf0' : nf = 0 := by omega
                    subst hnf0'
                    rw [ipv6_colon r (f + 1) (f + 1) [] (Or.inl (by omega))] at h
                    by_cases hf8 : f + 1 + 1 > 7
                    · simp [hf8] at h
                    · simp only [hf8, if_false] at h
                      by_cases hdc2 : r.headD 93 = 58
                      · rw [if_pos hdc2] at h; simp at h
                      · simp only [hdc2, if_false] at h
                        have hnr : NulFree r := fun d hd => hn d (by simp [hd])
                        have hlr : r.length ≤ n := by simp at hl; omega
                        have := (ih r hlr hnr (head?_ne_of_headD hdc2) (f + 1 + 1) (f + 1) (by omega) (Or.inr (by omega)) h).2 (by omega)
                        refine ⟨fun _ => Or.inr ⟨g, r, 1, ?_⟩, fun h => absurd h (by omega)⟩
                        rcases this with rfl | ⟨nr, ht, hle⟩
                        · exact ⟨0, rfl, IsGroups.one hh16, Or.inl ⟨rfl, rfl⟩, by omega⟩
                        · exact ⟨nr, rfl, IsGroups.one hh16, Or.inr ht, by omega⟩
                · -- single colon, another group follows
                  simp only [hdc, if_false] at h
                  have hnx : NulFree xs := fun d hd => hn d (by simp [hd])
                  have hlx : xs.length ≤ n := by simp at hl; omega
                  have IH := ih xs hlx hnx (head?_ne_of_headD hdc) (f + 1) nf (by omega) (by omega) h
                  refine ⟨fun hz => ?_, fun hp => ?_⟩
                  · rcases IH.1 hz with ht | ⟨l, r, nl, nr, rfl, hgl, hrr, hle⟩
                    · left
                      have e : 8 - f = 8 - (f + 1) + 1 := by omega
                      rw [e]
                      exact IsTail.cons hh16 ht
                    · right
                      exact ⟨g ++ 58 :: l, r, nl + 1, nr, by simp, IsGroups.cons hh16 hgl, hrr, by omega⟩
                  · rcases IH.2 hp with rfl | ⟨nr, ht, hle⟩
                    · exfalso
                      rw [ipv6_nil] at h
                      have := ipv6Fin_len0 f nf hnf (ok_inj h)
                      omega
                    · exact Or.inr ⟨nr + 1, IsTail.cons hh16 ht, by omega⟩
            · rw [ipv6_other x xs f nf g h0 h46 h58 hx] at h; cases h

theorem isHex_alnum {c : Nat} (h : isHex c = true) : isAlnum c = true := by
  simp only [isHex, isAlnum, isAlpha, isUpper, isLower, isDigit, Bool.or_eq_true, Bool.and_eq_true, decide_eq_true_eq] at h ⊢
  omega

/-- **upper bound**: what `is_ipv6` accepts inside a literal is an RFC 4291 textual address -/
theorem isIpv6_upper (s : List Nat) (hn : NulFree s) (h : isIpv6 s lit = .ok true) : IsV6_4291 s := by
  unfold isIpv6 at h
  unfold IsV6_4291 IsV6
  by_cases hc : s.head? = some 58
  · obtain ⟨r', rfl⟩ : ∃ r', s = 58 :: r' := by
      cases s with
      | nil => simp at hc
      | cons x r => simp at hc; exact ⟨r, by rw [hc]⟩
    rw [ipv6_colon_start] at h
    by_cases ha : isAlnum (r'.headD 93) = true
    · rw [if_pos ha] at h; cases h
    · rw [if_neg ha] at h
      have hnr' : NulFree r' := fun d hd => hn d (by simp [hd])
      by_cases hdc : r'.headD 93 = 58
      · obtain ⟨r, rfl⟩ := headD_eq_58 hdc
        simp only [List.headD_cons, if_true, Nat.lt_irrefl, if_false] at h
        rw [ipv6_colon r 1 1 [] (Or.inl (by omega))] at h
        simp only [show ¬ (1 + 1 > 7) by omega, if_false] at h
        by_cases hdc2 : r.headD 93 = 58
        · rw [if_pos hdc2] at h; cases h
        · simp only [hdc2, if_false] at h
          have hnr : NulFree r := fun d hd => hnr' d (by simp [hd])
          have := (upper_aux _ r (Nat.le_refl _) hnr (head?_ne_of_headD hdc2) 2 1 (by omega) (Or.inr (by omega)) h).2 (by omega)
          right
          rcases this with rfl | ⟨nr, ht, hle⟩
          · exact ⟨[], [], 0, 0, rfl, Or.inl ⟨rfl, rfl⟩, Or.inl ⟨rfl, rfl⟩, by omega⟩
          · exact ⟨[], r, 0, nr, rfl, Or.inl ⟨rfl, rfl⟩, Or.inr ht, by omega⟩
      · -- a single leading colon followed by something that is neither a letter, a digit nor a colon
        exfalso
        simp only [hdc, if_false] at h
        obtain ⟨g, rest, hcs, hg, hr⟩ := hex_split r'
        subst hcs
        cases g with
        | cons c g' =>
          have : isHex c = true := by simp only [List.all_cons, Bool.and_eq_true] at hg; exact hg.1
          exact ha (by simpa using isHex_alnum this)
        | nil =>
          simp only [List.nil_append] at h hdc hnr'
          rcases hr with rfl | ⟨x, xs, rfl, hx⟩
          · rw [ipv6_nil] at h; simp [ipv6Fin] at h
          · have h58 : x ≠ 58 := by simpa using hdc
            have h0 : x ≠ 0 := hnr' x (by simp)
            by_cases h46 : x = 46
            · subst h46; rw [ipv6_dot] at h; simp at h
            · rw [ipv6_other x xs 1 0 [] h0 h46 h58 hx] at h; cases h
  · have := (upper_aux _ s (Nat.le_refl _) hn hc 0 0 (by omega) (Or.inl rfl) h).1 rfl
    rcases this with ht | ⟨l, r, nl, nr, rfl, hgl, hrr, hle⟩
    · exact Or.inl ht
    · exact Or.inr ⟨l, r, nl, nr, rfl, Or.inr hgl, hrr, by omega⟩

end Eav
