import Eav.Model
import Eav.Cost
import Eav.CostEmail
import Eav.Gen.Enums
/-!
Line-protocol driver for the model (`lean_exe eavdrv`): reads the op file written by the C harness
(ops + recorded IDN conversions), prints one canonical result line per op, in the same format
as `harness/drive.c`.  Also evaluates the executable specifications (`spec` ops).
-/
open Eav

def hexVal (c : Char) : Nat :=
  if c.toNat ≤ 57 then c.toNat - 48 else (c.toNat ||| 32) - 97 + 10

def unhex (s : String) : List Nat :=
  if s == "-" then [] else
  let rec go : List Char → List Nat
    | a :: b :: rest => (hexVal a * 16 + hexVal b) :: go rest
    | _ => []
  go s.toList

def hexOf (l : List Nat) : String :=
  if l.isEmpty then "-" else
  String.mk (l.flatMap fun b => [hexDigit (b / 16), hexDigit (b % 16)])

def showInt (i : Int) : String := toString i

def bit (b : Bool) : String := if b then "1" else "0"

def modeOf (s : String) : Mode :=
  if s == "822" then .m822 else if s == "5321" then .m5321 else if s == "5322" then .m5322 else .m6531

def rfcOf (s : String) : Int :=
  if s == "822" then 0 else if s == "5321" then 1 else if s == "5322" then 2 else if s == "6531" then 3
  else s.toInt?.getD 99

def showFault (f : Fault) : String := "FAULT " ++ f.toString

def showExceptInt : Except Fault Int → String
  | .ok v => showInt v
  | .error f => showFault f

def showExceptBool : Except Fault Bool → String
  | .ok v => bit v
  | .error f => showFault f

def showOptBytes (extra : Bool) (o : Option (List Nat)) : String :=
  if !extra then "" else
  match o with
  | some l => " =" ++ hexOf l
  | none => " NULL"

def showResult (b : Build) (r : Result) : String :=
  showInt r.rc ++ " " ++ showInt (if r.rc == -2 then r.idnRc else 0) ++ " " ++ bit r.isIpv4 ++ bit r.isIpv6 ++ bit r.isDomain
    ++ showOptBytes b.extra r.lpart ++ showOptBytes b.extra r.domain

def showMsg (strerr : Int → String) : Msg → String
  | .table i => "m" ++ toString i
  | .idn rc => "idn:" ++ strerr rc
  | .null => "NULL"

/-- parse the trailing ` @ rc hex` records appended by the harness -/
def parseConvs : List String → List Conv
  | "@" :: rc :: out :: rest =>
    { rc := rc.toInt?.getD 0, out := if out == "-" then none else if out == "=" then some [] else some (unhex out) } :: parseConvs rest
  | _ => []

def noConv : Conv := { rc := 99999, out := none }

/-- history script: ops separated by `;`, conversion records per `e` op separated by `|` -/
def runHistory (be : Backend) (b : Build) (script : String) (convGroups : List (List Conv)) : String := Id.run do
  -- two independent objects: an op prefixed with `2` addresses the second one
  let mut st : State := {}
  let mut st2 : State := {}
  let mut outs : Array String := #[]
  let mut groups := convGroups
  let mut dead := false
  let mut dead2 := false
  let mut failNext := false      -- idnkit stand-in: the next `idn_resconf_create` fails (set by `y`, consumed by the call)
  for op0 in script.splitOn ";" do
    let two := op0.get 0 == '2'
    let op := if two then (op0.drop 1).toString else op0
    if (if two then dead2 else dead) then
      outs := outs.push "-"
      continue
    let c := op.get 0
    let arg := (op.drop 1).toString
    if c == 'x' then
      outs := outs.push "x"
      continue
    if c == 'y' then
      if be == .idnkit then failNext := true
      outs := outs.push "y"
      continue
    if c == 'v' then
      -- the record the object holds now (`eav->result`), as the caller can read it between calls
      let cur := if two then st2 else st
      outs := outs.push (match cur.obj with
        | some e => (match e.result with | some r => "v" ++ showResult b r | none => "v-")
        | none => showFault .uninit)
      continue
    let mop : Option Op :=
      if c == 'i' then some .init
      else if c == 'r' then some (.setRfc (rfcOf arg))
      else if c == 't' then some (.setTld (arg == "1"))
      else if c == 'k' then some (.setMask (arg.toNat?.getD 0))
      else if c == 's' then (if failNext then some (.setupFail 12) else some .setup)
      else if c == 'm' then some .errstr
      else if c == 'f' then some .free
      else if c == 'e' then
        let g := groups.head?.getD []
        some (.isEmail (unhex arg) (g.head?.getD noConv))
      else none
    if c == 'e' then groups := groups.drop 1
    if c == 's' && failNext then
      -- the creation is attempted (and the injected failure consumed) only by the 6531 arm of an object that has no context yet
      match (if two then st2 else st).obj with
      | some e => if e.rfc == 3 && !e.initialized then failNext := false
      | none => pure ()
    match mop with
    | none => outs := outs.push "?"
    | some o =>
      match step be b (if two then st2 else st) o with
      | .error f =>
        outs := outs.push (showFault f)
        if two then dead2 := true else dead := true
      | .ok (s, out) =>
        if two then st2 := s else st := s
        let txt := match out with
          | .unit => String.singleton c
          | .rc v => "s" ++ showInt v
          | .msg m => "m" ++ showMsg (fun rc => "#" ++ showInt rc) m
          | .verdict ret ec m r => "e" ++ showInt ret ++ " " ++ toString ec ++ " " ++ showMsg (fun rc => "#" ++ showInt rc) m ++ " " ++ showResult b r
        outs := outs.push txt
  if be == .idnkit then
    outs := outs.push ("R" ++ toString (st.resconfCreated + st2.resconfCreated) ++ "," ++ toString (st.resconfDestroyed + st2.resconfDestroyed) ++ ","
      ++ toString (st.resconfLive + st2.resconfLive) ++ ",0")
  return ";".intercalate outs.toList

def splitGroups (toks : List String) : List (List String) :=
  let rec go (cur : List String) : List String → List (List String)
    | [] => [cur.reverse]
    | "|" :: rest => cur.reverse :: go [] rest
    | t :: rest => go (t :: cur) rest
  go [] toks

def handle (be : Backend) (b : Build) (toks : List String) : String :=
  match toks with
  | ["L", m, s, a] =>
    let s := unhex s; let a := unhex a
    let rc := match modeOf m with
      | .m822 => (match a.head? with | some e => .ok (is822Local s e) | none => .error Fault.oob)
      | .m5321 => .ok (is5321Local s)
      | .m5322 => .ok (is5322Local s)
      | .m6531 => .ok (is6531LocalC b.l s)   -- the scanner as written; `is6531LocalC_eq` ties it to the form the theorems use
    "L " ++ showExceptInt rc
  | ["D", s, a] => "D " ++ showExceptInt (isAsciiDomain b.underscore (unhex s) (unhex a))
  | ["4", s, a] => "4 " ++ showExceptBool (isIpv4 (unhex s) (unhex a))
  | ["6", s, a] => "6 " ++ showExceptBool (isIpv6 (unhex s) (unhex a))
  | ["A", s, a] => "A " ++ showExceptBool (isIpaddr (unhex s) (unhex a))
  | ["S", s] => "S " ++ showExceptBool (isSpecialDomain (unhex s))
  | ["T", s] => "T " ++ showInt (isTld (unhex s))
  -- work counters of `Eav/Cost.lean` (bytes examined), compared with measured instruction counts by C06
  | ["c4", s, a] => "c4 " ++ toString (isIpv4T (unhex s) (unhex a)).2
  | ["c6", s, a] => "c6 " ++ toString (isIpv6T (unhex s) (unhex a)).2
  | ["cS", s] => "cS " ++ toString (specialTicks (unhex s))
  | ["cT", s] => "cT " ++ toString (tldTicks Gen.tldTable (unhex s))
  | "cE" :: m :: t :: s :: rest =>
    let c := (parseConvs rest).head?.getD noConv
    "cE " ++ toString (emailTicks b (fun _ => c) (modeOf m) (unhex s) (t == "1"))
  | "U" :: t :: s :: rest =>
    let c := (parseConvs rest).head?.getD noConv
    match isUtf8Domain b (fun _ => c) (unhex s) (t == "1") with
    | .ok (rc, irc) => "U " ++ showInt rc ++ " " ++ showInt (if rc == -2 then irc else 0)
    | .error f => "U " ++ showFault f
  | "E" :: m :: t :: s :: rest =>
    let c := (parseConvs rest).head?.getD noConv
    match isEmail b (fun _ => c) (modeOf m) (unhex s) (t == "1") with
    | .ok r => "E " ++ showResult b r
    | .error f => "E " ++ showFault f
  | "C" :: m :: t :: s :: rest =>
    let c := (parseConvs rest).head?.getD noConv
    match isEmail b (fun _ => c) (modeOf m) (unhex s) (t == "1") with
    | .ok r => "C " ++ showInt r.rc ++ " " ++ showInt (if r.rc == -2 then r.idnRc else 0)
    | .error f => "C " ++ showFault f
  | "P" :: m :: t :: k :: s :: rest =>
    let c := (parseConvs rest).head?.getD noConv
    let ops : List Op := [.init, .setRfc (rfcOf m), .setTld (t == "1"), .setMask (k.toNat?.getD 0), .setup]
    match run be b {} ops with
    | .error f => "P " ++ showFault f
    | .ok (st, outs) =>
      match outs.getLast? with
      | some (.rc 0) =>
        (match step be b st (.isEmail (unhex s) c) with
         | .ok (st2, .verdict ret ec msg r) =>
           (match eavFree be st2 with
            | .ok st3 =>
              if st3.liveResults != 0 then "P LEAK" else
              "P " ++ showInt ret ++ " " ++ toString ec ++ " " ++ showMsg (fun rc => "#" ++ showInt rc) msg ++ " " ++ showResult b r
            | .error f => "P " ++ showFault f)
         | .ok _ => "P ?"
         | .error f => "P " ++ showFault f)
      | some (.rc v) =>
        (match eavErrstr st with
         | .ok msg => "P setup" ++ showInt v ++ " " ++ showMsg (fun rc => "#" ++ showInt rc) msg
         | .error f => "P " ++ showFault f)
      | _ => "P ?"
  | ["Y", k, rc] =>
    let r : Result := { rc := rc.toInt?.getD 0 }
    (match Eav.verdictOf (k.toNat?.getD 0) r with
     | .ok (ret, ec, _) => "Y " ++ showInt ret ++ " " ++ toString ec
     | .error f => "Y " ++ showFault f)
  | "H" :: script :: rest =>
    let groups := (splitGroups rest).map parseConvs
    -- the first group precedes the first `|` marker and is always empty
    "H " ++ runHistory be b script (groups.drop 1)
  | ["sL", m, s] =>
    let lm := if m == "822" then Spec.LMode.m822 else if m == "5321" then .m5321 else if m == "5322" then .m5322 else .m6531
    "sL " ++ bit (Spec.specLocalBytes lm (unhex s))
  | ["sU", s] => "sU " ++ bit (Spec.decodeAll (unhex s)).isSome
  | ["sD", us, s] => "sD " ++ bit (Spec.specHost (us == "1") (unhex s))
  | ["sI", s] =>
    let d := unhex s
    "sI " ++ bit (Spec.literalUpper d) ++ bit (Spec.literalLower d) ++ bit (Spec.literalIsV4 d)
  | ["sS", s] => "sS " ++ bit (Spec.reserved (unhex s))
  | ["sT", s] => "sT " ++ (match Spec.csvClass Gen.csvPuny (unhex s) with | some c => toString c | none => "-26")
  | ["Ft", f] => "Ft " ++ " ".intercalate ((cliLines (unhex f)).map hexOf)
  | ["Fs", t] => "Fs " ++ hexOf (sanitize (unhex t))
  | "Fm" :: rest =>
    -- the whole tool: `Fm <file|~>… | <address> <rc> <out> | …` (files as arguments, `~` = unreadable; then what the IDN
    -- library answered while each address was validated)
    (match splitGroups rest with
     | files :: convs =>
       let args : List (Option (List Nat)) := files.map fun f => if f == "~" then none else some (unhex f)
       let table : List (List Nat × Conv) := convs.filterMap fun g =>
         match g with
         | [a, rc, out] => some (unhex a, { rc := rc.toInt?.getD 0, out := if out == "-" then none else if out == "=" then some [] else some (unhex out) })
         | _ => none
       let convOf : List Nat → Conv := fun a => match table.find? (fun p => p.1 == a) with | some p => p.2 | none => noConv
       let bytes : String → List Nat := fun s => s.toUTF8.toList.map (·.toNat)
       let texts : Texts := { errors := fun i => bytes ((Gen.errorsRuntime[i]?).getD "?"),
                              strerr := fun rc => bytes ("<<idn:" ++ toString rc ++ ">>") }
       (match cliMain be b convOf texts args with
        | .error f => "Fm " ++ showFault f
        | .ok r =>
          "Fm " ++ toString r.exit ++ " " ++ bit (r.final.liveResults == 0 && r.final.resconfLive == 0)
            ++ String.join (r.files.map fun o => " ; " ++ hexOf o.stdout ++ " " ++ toString o.passed ++ " " ++ toString o.failed))
     | [] => "Fm BADOP")
  | "G" :: _ => "G -"        -- giant inputs are judged by the check's own oracle, not by the model (a 4 GiB list is out of reach)
  | t :: _ => t ++ " BADOP"
  | [] => ""

partial def loop (h : IO.FS.Stream) (out : IO.FS.Stream) (be : Backend) (b : Build) : IO Unit := do
  let line ← h.getLine
  if line.isEmpty then return ()
  let toks := (line.trimAscii.toString.splitOn " ").filter (· ≠ "")
  match toks with
  | ["B", r20, r5322, us, extra] =>
    loop h out be { rfc20 := r20 == "1", rfc5322 := r5322 == "1", underscore := us == "1", extra := extra == "1" }
  | ["B", r20, r5322, us, extra, bk] =>
    let be' := if bk == "idn" then Backend.idn else if bk == "idnkit" then Backend.idnkit else Backend.idn2
    loop h out be' { rfc20 := r20 == "1", rfc5322 := r5322 == "1", underscore := us == "1", extra := extra == "1" }
  | [] => loop h out be b
  | _ =>
    if toks.head? == some "#" then loop h out be b else do
    out.putStrLn (handle be b toks)
    loop h out be b

def main (args : List String) : IO Unit := do
  match args with
  | [inp, outp] =>
    let hin ← IO.FS.Handle.mk inp .read
    let hout ← IO.FS.Handle.mk outp .write
    loop (IO.FS.Stream.ofHandle hin) (IO.FS.Stream.ofHandle hout) .idn2 {}
    hout.flush
  | _ => do
    let stdin ← IO.getStdin
    let stdout ← IO.getStdout
    loop stdin stdout .idn2 {}
