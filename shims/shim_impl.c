/* One converter behind the three IDN APIs: everything forwards to idn2_to_ascii_8z (which the
 * harness wraps for recording / fault injection).  Counters let the harness compare idnkit
 * resource handling with the model's ledger. */
#include <stdlib.h>
#include <string.h>
#include <strings.h>
#include <idn2.h>
#undef idna_to_ascii_lz
#undef idna_to_ascii_8z
#undef idna_strerror

long verif_resconf_created, verif_resconf_destroyed, verif_resconf_live, verif_resconf_bad_destroy;
int verif_resconf_fail_next;          /* the harness sets it: the next idn_resconf_create reports a failure (as idnkit does without memory) */
struct verif_idn_resconf { int live; };

int idna_to_ascii_lz (const char *input, char **output, int flags)
{
    (void) flags;
    int rc = idn2_to_ascii_8z (input, output, IDN2_NONTRANSITIONAL);
    /* RFC 3490 ToASCII leaves an all-ASCII label as it is: libidn hands such names back in the caller's letter case
     * (libidn2 lower-cases them).  Reproduced here, so that code relying on lower-case output is exercised. */
    if (rc == IDN2_OK && *output != NULL && strlen (*output) == strlen (input)) {
        int ascii = 1;
        for (const unsigned char *p = (const unsigned char *) input; *p; p++) if (*p >= 0x80) ascii = 0;
        if (ascii && strcasecmp (*output, input) == 0) memcpy (*output, input, strlen (input));
    }
    return rc;
}
int idna_to_ascii_8z (const char *input, char **output, int flags) { return idna_to_ascii_lz (input, output, flags); }
const char *idna_strerror (int rc) { return idn2_strerror (rc); }

int idn_resconf_initialize (void) { return 0; }
int idn_resconf_create (struct verif_idn_resconf **ctx)
{
    if (verif_resconf_fail_next) { verif_resconf_fail_next = 0; return 12; }      /* idn_nomemory; *ctx is left untouched */
    *ctx = malloc (sizeof **ctx);
    (*ctx)->live = 1;
    /* relaxed atomics: the counters are also updated from the threads of the TSan harness */
    __atomic_fetch_add (&verif_resconf_created, 1, __ATOMIC_RELAXED); __atomic_fetch_add (&verif_resconf_live, 1, __ATOMIC_RELAXED);
    return 0;
}
void idn_resconf_destroy (struct verif_idn_resconf *ctx)
{
    if (ctx == NULL || !ctx->live) { __atomic_fetch_add (&verif_resconf_bad_destroy, 1, __ATOMIC_RELAXED); return; }
    ctx->live = 0;
    free (ctx);
    __atomic_fetch_add (&verif_resconf_destroyed, 1, __ATOMIC_RELAXED); __atomic_fetch_sub (&verif_resconf_live, 1, __ATOMIC_RELAXED);
}
const char *idn_result_tostring (int r) { return idn2_strerror (r); }
int idn_res_encodename (struct verif_idn_resconf *ctx, int actions, const char *from, char *to, size_t tolen)
{
    (void) ctx; (void) actions;
    char *out = NULL;
    int rc = idn2_to_ascii_8z (from, &out, IDN2_NONTRANSITIONAL);
    if (rc != IDN2_OK) { if (out) free (out); return rc; }
    size_t n = strlen (out);
    if (n + 1 > tolen) { free (out); return IDN2_TOO_BIG_DOMAIN; }
    memcpy (to, out, n + 1);
    free (out);
    return 0;
}
