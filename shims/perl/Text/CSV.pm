package Text::CSV;
# Minimal stand-in for Text::CSV (not installed in this sandbox, nothing can be fetched): just what
# util/gentld.pl and util/gen_utf8_pass_test.pl use - new(), getline() on RFC 4180 input with quoted
# fields, doubled quotes and embedded newlines, error_diag().
use strict;
use warnings;

sub new { my ($class, $opts) = @_; return bless { %{ $opts || {} } }, $class; }
sub error_diag { return ""; }

sub getline {
    my ($self, $io) = @_;
    my $line = <$io>;
    return undef unless defined $line;
    # a quoted field may contain newlines: keep reading while the number of quotes is odd
    while ((() = $line =~ /"/g) % 2 == 1) {
        my $more = <$io>;
        last unless defined $more;
        $line .= $more;
    }
    $line =~ s/\r?\n\z//;
    my @fields;
    my $pos = 0;
    my $len = length $line;
    while ($pos <= $len) {
        my $field = "";
        if ($pos < $len && substr($line, $pos, 1) eq '"') {
            $pos++;
            while ($pos < $len) {
                my $ch = substr($line, $pos, 1);
                if ($ch eq '"') {
                    if ($pos + 1 < $len && substr($line, $pos + 1, 1) eq '"') { $field .= '"'; $pos += 2; next; }
                    $pos++;
                    last;
                }
                $field .= $ch;
                $pos++;
            }
        } else {
            while ($pos < $len && substr($line, $pos, 1) ne ',') { $field .= substr($line, $pos, 1); $pos++; }
        }
        push @fields, $field;
        if ($pos < $len && substr($line, $pos, 1) eq ',') { $pos++; next; }
        last;
    }
    return \@fields;
}
1;
