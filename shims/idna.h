/* Shim of GNU libidn's <idna.h> (the library is not installed in this sandbox).  Only what
 * partial/idn/ uses.  The functions are implemented in shim_impl.c on top of one converter
 * (libidn2, or the scripted fault injector of the harness).  Do NOT include <idn2.h> here:
 * it defines idna_* compatibility macros. */
#ifndef VERIF_SHIM_IDNA_H
#define VERIF_SHIM_IDNA_H
enum { IDNA_SUCCESS = 0 };
extern int idna_to_ascii_lz (const char *input, char **output, int flags);
extern int idna_to_ascii_8z (const char *input, char **output, int flags);   /* same converter: the harness's strings are UTF-8 */
extern int idna_to_ascii_4z (const unsigned int *input, char **output, int flags);
extern const char *idna_strerror (int rc);
#endif
