/* Shim of idnkit's <idn/api.h> (not installed in this sandbox).  Only what partial/idnkit/ and
 * include/eav.h use; implemented in shim_impl.c on top of one converter. */
#ifndef VERIF_SHIM_IDN_API_H
#define VERIF_SHIM_IDN_API_H
#include <stddef.h>
typedef int idn_result_t;
enum { idn_success = 0 };
typedef struct verif_idn_resconf *idn_resconf_t;
typedef int idn_action_t;
#define IDN_ENCODE_REGIST 0x1
extern idn_result_t idn_resconf_initialize (void);
extern idn_result_t idn_resconf_create (idn_resconf_t *ctx);
extern void idn_resconf_destroy (idn_resconf_t ctx);
extern const char *idn_result_tostring (idn_result_t r);
extern idn_result_t idn_res_encodename (idn_resconf_t ctx, idn_action_t actions,
                                        const char *from, char *to, size_t tolen);
#endif
