/* Translator back end: prints, as JSON, the data the Lean development is generated from, taken
 * from the library as compiled from the current working tree: enum values, limits, the whole
 * tld_list[], errors[] (through eav_errstr), the fields eav_init sets (on a 0xA5-filled object).
 */
#include <stdio.h>
#include <stdlib.h>
#include <string.h>
#include <stddef.h>
#include <eav.h>
#include <eav/auto_tld.h>
#include <eav/private.h>
#include "enum_names.h"     /* generated: ENUM_ROWS */

static void jstr (const char *s)
{
    putchar ('"');
    for (; *s; s++) {
        unsigned char c = (unsigned char) *s;
        if (c == '"' || c == '\\') printf ("\\%c", c);
        else if (c < 32 || c > 126) printf ("\\u%04x", c);
        else putchar (c);
    }
    putchar ('"');
}

static eav_result_t *cb_marker (const char *e, size_t l, bool t) { (void) e; (void) l; (void) t; return NULL; }

int main (void)
{
    printf ("{\n \"enums\": {");
    struct { const char *n; long v; } rows[] = { ENUM_ROWS };
    for (size_t i = 0; i < sizeof rows / sizeof rows[0]; i++)
        printf ("%s\n  \"%s\": %ld", i ? "," : "", rows[i].n, rows[i].v);
    printf ("\n },\n \"limits\": {\"VALID_HOSTNAME_LEN\": %d, \"VALID_LABEL_LEN\": %d, \"VALID_LPART_LEN\": %d, \"DOMAIN_SIZE\": %d},\n",
            VALID_HOSTNAME_LEN, VALID_LABEL_LEN, VALID_LPART_LEN, DOMAIN_SIZE);

    printf (" \"tld_list\": [");
    int first = 1;
    for (const tld_t *t = tld_list; t->domain != NULL; t++) {
        printf ("%s\n  [", first ? "" : ","); first = 0;
        jstr (t->domain);
        printf (", %zu, %d]", t->length, t->type);
    }
    printf ("\n ],\n \"errors\": [");
    eav_t e; memset (&e, 0, sizeof e);
    for (int i = 0; i < EEAV_MAX; i++) {
        printf ("%s", i ? ", " : "");
        if (i == EEAV_IDN_ERROR) { e.errcode = i; e.idnmsg = "<idnmsg>"; jstr (eav_errstr (&e)); continue; }
        e.errcode = i;
        const char *m = eav_errstr (&e);
        if (m) jstr (m); else printf ("null");
    }
    printf ("],\n");

    /* eav_init on a poisoned object: which fields does it set, and to what */
    eav_t *p = malloc (sizeof *p);
    memset (p, 0xA5, sizeof *p);
    eav_init (p);
    unsigned char *b = (unsigned char *) p;
#define FIELD(f) do { int set = 0; for (size_t k = 0; k < sizeof p->f; k++) if (b[offsetof (eav_t, f) + k] != 0xA5) set = 1; \
        printf ("%s\n  \"" #f "\": {\"set\": %s, \"size\": %zu}", firstf ? "" : ",", set ? "true" : "false", sizeof p->f); firstf = 0; } while (0)
    int firstf = 1;
    printf (" \"init_fields\": {");
    FIELD(rfc); FIELD(allow_tld); FIELD(tld_check); FIELD(utf8); FIELD(errcode); FIELD(idnmsg);
    FIELD(initialized); FIELD(utf8_cb); FIELD(ascii_cb); FIELD(result);
    printf ("\n },\n");
    printf (" \"init_values\": {\"rfc\": %d, \"allow_tld\": %d, \"tld_check\": %d, \"utf8\": %d, \"errcode\": %d, "
            "\"idnmsg_null\": %d, \"initialized\": %d, \"utf8_cb_null\": %d, \"ascii_cb_null\": %d, \"result_null\": %d},\n",
            (int) p->rfc, p->allow_tld, (int) p->tld_check, (int) p->utf8, p->errcode,
            p->idnmsg == NULL, (int) p->initialized, p->utf8_cb == NULL, p->ascii_cb == NULL, p->result == NULL);

    /* eav_setup: which callback each mode selects */
    printf (" \"setup\": [");
    int modes[] = { EAV_RFC_822, EAV_RFC_5321, EAV_RFC_5322, EAV_RFC_6531, -1, 4, 7, 1000 };
    for (size_t i = 0; i < sizeof modes / sizeof modes[0]; i++) {
        eav_t q; eav_init (&q);
        q.ascii_cb = cb_marker; q.utf8_cb = (eav_utf8_f) cb_marker;
        q.rfc = (EAV_RFC) modes[i];
        int rc = eav_setup (&q);
        const char *a = q.ascii_cb == is_822_email ? "is_822_email" : q.ascii_cb == is_5321_email ? "is_5321_email"
                      : q.ascii_cb == is_5322_email ? "is_5322_email" : q.ascii_cb == cb_marker ? "unchanged" : "other";
        const char *u = q.utf8_cb == (eav_utf8_f) is_6531_email ? "is_6531_email" : q.utf8_cb == (eav_utf8_f) cb_marker ? "unchanged" : "other";
        printf ("%s\n  {\"rfc\": %d, \"rc\": %d, \"utf8\": %d, \"ascii_cb\": \"%s\", \"utf8_cb\": \"%s\", \"errcode\": %d}",
                i ? "," : "", modes[i], rc, (int) q.utf8, a, u, q.errcode);
        eav_free (&q);
    }
    printf ("\n ],\n");

    /* the bytes each local-part scanner refuses as "special" outside quotes: probed on the compiled code
     * ("a<c>b@"), so that the order and the spelling of the `case` labels do not matter */
    printf (" \"specials\": {");
    struct { const char *n; int (*f) (const char *, const char *); } sc[] = {
        { "src/is_822_local.c", is_822_local }, { "src/is_5321_local.c", is_5321_local },
        { "src/is_5322_local.c", is_5322_local }, { "src/is_6531_local.c", is_6531_local } };
    for (size_t i = 0; i < 4; i++) {
        printf ("%s\n  \"%s\": [", i ? "," : "", sc[i].n);
        int firsts = 1;
        for (int c = 1; c < 128; c++) {
            char buf[5] = { 'a', (char) c, 'b', '@', 0 };
            if (sc[i].f (buf, buf + 3) == -EEAV_LPART_SPECIAL) { printf ("%s%d", firsts ? "" : ", ", c); firsts = 0; }
        }
        printf ("]");
    }
    printf ("\n }\n}\n");
    free (p);
    return 0;
}
