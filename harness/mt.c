/* C14 runtime half: N threads, each with its own eav_t (and the stateless per-part validators on
 * SHARED read-only strings), must obtain exactly the outcomes of a single thread.  Built with
 * -fsanitize=thread: any conflicting unsynchronised access inside the library is reported by TSan
 * whatever schedule was taken.  usage: mt <addresses-hex-file> <threads> <rounds>  */
#define _GNU_SOURCE
#include <stdio.h>
#include <stdlib.h>
#include <string.h>
#include <pthread.h>
#include <sched.h>
#include <locale.h>
#include <unistd.h>
#include <sys/wait.h>
#include <eav.h>

static char **addr; static size_t *alen; static size_t naddr;
static const int modes[4] = { EAV_RFC_822, EAV_RFC_5321, EAV_RFC_5322, EAV_RFC_6531 };

typedef struct { int ret, errcode, rc, flags, lrc, drc, sp; } outcome_t;

static size_t total (void) { return naddr * 4 * 2; }

static void run_all (outcome_t *out, unsigned seed)
{
    eav_t eav;
    eav_init (&eav);
    size_t k = 0;
    for (int m = 0; m < 4; m++)
        for (int t = 0; t < 2; t++) {
            eav.rfc = modes[m]; eav.tld_check = t;
            eav_setup (&eav);
            for (size_t i = 0; i < naddr; i++, k++) {
                outcome_t *o = &out[k];
                o->ret = eav_is_email (&eav, addr[i], alen[i]);
                o->errcode = eav.errcode;
                o->rc = eav.result->rc;
                o->flags = eav.result->is_ipv4 * 4 + eav.result->is_ipv6 * 2 + eav.result->is_domain;
                (void) eav_errstr (&eav);
                const char *at = strrchr (addr[i], '@');
                const char *end = addr[i] + alen[i];
                o->lrc = at ? (m == 0 ? is_822_local (addr[i], at) : m == 1 ? is_5321_local (addr[i], at)
                              : m == 2 ? is_5322_local (addr[i], at) : is_6531_local (addr[i], at)) : 99;
                o->drc = at ? is_ascii_domain (at + 1, end) : 99;
                o->sp = (at && at + 1 < end) ? is_special_domain (at + 1, end) + 2 * (is_tld (at + 1, end) > 0) : 9;
                if ((seed + k) % 7 == 0) sched_yield ();
            }
        }
    eav_free (&eav);
}

typedef struct { outcome_t *out; unsigned seed; int rounds; const outcome_t *ref; long bad; } job_t;

/* phase gates: relaxed atomics only, so that the gate itself orders nothing (a pthread barrier would hand every thread
 * the clock of a faster thread that has already reached the next barrier, and hide a first-use race from TSan) */
static int arrived[4]; static int nthr;

/* first use of each mode's code by all threads at the same moment: what a lazily initialised table or cache cannot survive */
static void first_use (int m)
{
    static const char probe[] = "a(b)c@x";
    (void) (m == 0 ? is_822_local (probe, probe + 5) : m == 1 ? is_5321_local (probe, probe + 5)
            : m == 2 ? is_5322_local (probe, probe + 5) : is_6531_local (probe, probe + 5));
    eav_t eav;
    eav_init (&eav);
    eav.rfc = modes[m]; eav.tld_check = 1;
    eav_setup (&eav);
    for (size_t i = 0; i < naddr && i < 6; i++) {
        const char *at = strrchr (addr[i], '@');
        (void) eav_is_email (&eav, addr[i], alen[i]);
        if (at) (void) (m == 0 ? is_822_local (addr[i], at) : m == 1 ? is_5321_local (addr[i], at)
                        : m == 2 ? is_5322_local (addr[i], at) : is_6531_local (addr[i], at));
    }
    eav_free (&eav);
}

static void *worker (void *p)
{
    job_t *j = p;
    for (int m = 0; m < 4; m++) {
        __atomic_fetch_add (&arrived[m], 1, __ATOMIC_RELAXED);
        while (__atomic_load_n (&arrived[m], __ATOMIC_RELAXED) < nthr) sched_yield ();
        first_use (m);
    }
    for (int r = 0; r < j->rounds; r++) {
        run_all (j->out, j->seed + r);
        for (size_t k = 0; k < total (); k++)
            if (memcmp (&j->out[k], &j->ref[k], sizeof (outcome_t)) != 0) j->bad++;
    }
    return NULL;
}

int main (int argc, char **argv)
{
    if (argc < 4) return 2;
    FILE *f = fopen (argv[1], "r");
    int nthreads = atoi (argv[2]), rounds = atoi (argv[3]);
    char *line = NULL; size_t cap = 0; ssize_t n;
    while ((n = getline (&line, &cap, f)) > 0) {
        if (line[n - 1] == '\n') line[--n] = 0;
        size_t l = (line[0] == '-') ? 0 : n / 2;
        addr = realloc (addr, (naddr + 1) * sizeof *addr);
        alen = realloc (alen, (naddr + 1) * sizeof *alen);
        addr[naddr] = malloc (l + 1);
        for (size_t i = 0; i < l; i++) { unsigned v; sscanf (line + 2 * i, "%2x", &v); addr[naddr][i] = (char) v; }
        addr[naddr][l] = 0; alen[naddr] = l; naddr++;
    }
    free (line); fclose (f);
    /* the single-threaded reference is computed in a child process, so that nothing the library initialises lazily
     * is already initialised when the threads start (a first-use race would otherwise be hidden) */
    outcome_t *ref = calloc (total (), sizeof *ref);
    int pfd[2];
    /* VERIF_LOCALE=<name>: the application has selected a locale before it starts its threads */
    if (getenv ("VERIF_LOCALE") != NULL && setlocale (LC_ALL, getenv ("VERIF_LOCALE")) == NULL
        && setlocale (LC_CTYPE, getenv ("VERIF_LOCALE")) == NULL) return 7;
    if (pipe (pfd) != 0) return 3;
    pid_t pid = fork ();
    if (pid == 0) {
        close (pfd[0]);
        run_all (ref, 0);
        size_t left = total () * sizeof *ref; const char *p = (const char *) ref;
        while (left > 0) { ssize_t w = write (pfd[1], p, left); if (w <= 0) _exit (4); p += w; left -= (size_t) w; }
        _exit (0);
    }
    close (pfd[1]);
    {
        size_t left = total () * sizeof *ref; char *p = (char *) ref;
        while (left > 0) { ssize_t r = read (pfd[0], p, left); if (r <= 0) return 5; p += r; left -= (size_t) r; }
        int st = 0; waitpid (pid, &st, 0);
        if (!WIFEXITED (st) || WEXITSTATUS (st) != 0) return 6;
    }
    nthr = nthreads;
    pthread_t *th = calloc (nthreads, sizeof *th);
    job_t *jobs = calloc (nthreads, sizeof *jobs);
    for (int i = 0; i < nthreads; i++) {
        jobs[i].out = calloc (total (), sizeof (outcome_t));
        jobs[i].seed = i * 31u; jobs[i].rounds = rounds; jobs[i].ref = ref;
        pthread_create (&th[i], NULL, worker, &jobs[i]);
    }
    long bad = 0;
    for (int i = 0; i < nthreads; i++) { pthread_join (th[i], NULL); bad += jobs[i].bad; }
    printf ("threads=%d rounds=%d calls=%zu mismatches=%ld\n", nthreads, rounds, (size_t) nthreads * rounds * total (), bad);
    return bad ? 1 : 0;
}
