/* Correspondence harness: runs the real libeav (built from a scratch copy of /repo's working
 * tree, ASan+UBSan) on a line protocol and prints one canonical result line per op.
 * Every byte string is placed in an exactly-sized heap block so that ASan sees any read
 * outside [first byte, last byte of `after`].  IDN conversions are intercepted with
 * -Wl,--wrap=idn2_to_ascii_8z: each real conversion is recorded (and appended to the op in the
 * file handed to the Lean driver, which uses it as the oracle), or replaced by a scripted fault.
 *
 * usage: drive <ops-in> <results-out> <lean-ops-out>
 */
#define _GNU_SOURCE
#include <stdio.h>
#include <sys/mman.h>
#include <locale.h>
#include <stdlib.h>
#include <string.h>
#include <strings.h>
#include <stdint.h>
#include <stdbool.h>
#include <unistd.h>
#include <sys/wait.h>
#include <idn2.h>
#include <eav.h>
#include <eav/auto_tld.h>

extern void __lsan_do_leak_check(void);
extern int __lsan_do_recoverable_leak_check(void);

/* ---- IDN interception ---- */
static char convlog[1 << 16];
static size_t convlog_len;
static long conv_calls, conv_live;           /* conv_live: output blocks handed out (freed by the library) */
static int inject_rc = 0;                    /* 0 = no injection */
static int inject_with_buf = 0;
static long inject_at = -1;                  /* conversion index (within op) to fault, -1 = all */
static long op_conv_index;
static int last_idn_rc;

extern int __real_idn2_to_ascii_8z (const char *input, char **output, int flags);

static void hexcat (const unsigned char *p, size_t n)
{
    static const char hx[] = "0123456789abcdef";
    if (n == 0) { convlog[convlog_len++] = '='; return; }      /* an empty string: not the same as no buffer ('-') */
    for (size_t i = 0; i < n && convlog_len + 3 < sizeof convlog; i++) {
        convlog[convlog_len++] = hx[p[i] >> 4];
        convlog[convlog_len++] = hx[p[i] & 15];
    }
}

/* what the converter must be asked about: the domain part of the address under test, byte for byte */
static const char *g_expect_dom = NULL;
static int g_convin_bad = 0;
static char g_convin_hex[128];
static void expect_domain_of (const char *email) { const char *at = strrchr (email, '@'); g_expect_dom = at ? at + 1 : NULL; }

int __wrap_idn2_to_ascii_8z (const char *input, char **output, int flags)
{
    int rc;
    bool faulted = false;
    conv_calls++;
    if (g_expect_dom != NULL && input != NULL && strcmp (input, g_expect_dom) != 0 && !g_convin_bad) {
        g_convin_bad = 1;
        size_t n = strlen (input), k = 0;
        for (size_t i = 0; i < n && k + 2 < sizeof g_convin_hex; i++) k += (size_t) snprintf (g_convin_hex + k, sizeof g_convin_hex - k, "%02x", (unsigned char) input[i]);
        g_convin_hex[k] = 0;
    }
    if (inject_rc != 0 && (inject_at < 0 || inject_at == op_conv_index)) {
        rc = inject_rc;
        faulted = true;
        if (inject_with_buf) *output = strdup ("xn--injected");
        /* otherwise leave *output untouched, as libidn2 does on error */
    } else {
        rc = __real_idn2_to_ascii_8z (input, output, flags);
    }
    op_conv_index++;
    last_idn_rc = rc;
    convlog_len += snprintf (convlog + convlog_len, sizeof convlog - convlog_len, " @ %d ", rc);
    if ((rc == IDN2_OK || (faulted && inject_with_buf)) && *output != NULL)
        hexcat ((unsigned char *) *output, strlen (*output));
    else
        convlog[convlog_len++] = '-';
    convlog[convlog_len] = 0;
    return rc;
}


/* ---- giant inputs: prefix ++ pattern* ++ suffix of total length len, NUL-terminated, built from one 2 MiB file mapped over and over (costs
 * a few pages of memory whatever the length); the pattern length must divide 4096 ---- */
static char *giant_make (const unsigned char *pre, size_t prel, const unsigned char *pat, size_t patl, const unsigned char *suf, size_t sufl,
                         size_t len, size_t *total_out)
{
    size_t chunk = (size_t) 2 << 20;
    const char *td = getenv ("TMPDIR");
    char path[512];
    snprintf (path, sizeof path, "%s/verif_giant_XXXXXX", td && *td ? td : "/tmp");
    int fd = mkstemp (path);
    if (fd < 0) return NULL;
    unlink (path);
    char *buf = malloc (chunk);
    for (size_t i = 0; i < chunk; i++) buf[i] = (char) pat[i % patl];
    if (write (fd, buf, chunk) != (ssize_t) chunk) { free (buf); close (fd); return NULL; }
    free (buf);
    size_t total = ((len + chunk) / chunk + 1) * chunk;
    char *base = mmap (NULL, total, PROT_NONE, MAP_PRIVATE | MAP_ANONYMOUS | MAP_NORESERVE, -1, 0);
    if (base == MAP_FAILED) { close (fd); return NULL; }
    for (size_t off = 0; off < total; off += chunk)
        if (mmap (base + off, chunk, PROT_READ | PROT_WRITE, MAP_PRIVATE | MAP_FIXED, fd, 0) == MAP_FAILED) { close (fd); munmap (base, total); return NULL; }
    close (fd);
    memcpy (base, pre, prel);
    memcpy (base + len - sufl, suf, sufl);
    base[len] = 0;
    *total_out = total;
    return base;
}

/* ---- helpers ---- */
static int hexval (int c) { return c <= '9' ? c - '0' : (c | 32) - 'a' + 10; }

/* decode a hex token ("-" = empty) into a fresh exact-size block; returns length */
static unsigned char *unhex (const char *tok, size_t *len)
{
    if (tok[0] == '-') { *len = 0; return malloc (1); }
    size_t n = strlen (tok) / 2;
    unsigned char *p = malloc (n ? n : 1);
    for (size_t i = 0; i < n; i++)
        p[i] = (unsigned char) (hexval (tok[2 * i]) * 16 + hexval (tok[2 * i + 1]));
    *len = n;
    return p;
}

/* s ++ after in one exact-size heap block */
/* VERIF_ROMEM=1: input strings live in READ-ONLY pages, right in front of an inaccessible page: a write into the caller's string,
 * or a read of even one byte past its last byte, is a SIGSEGV on the op that did it */
static int g_romem = 0;
static struct { char *p; char *base; size_t total; } g_maps[8];
static char *ro_make (const unsigned char *src, size_t n)
{
    long pg = sysconf (_SC_PAGESIZE);
    size_t dpages = (n + (size_t) pg - 1) / (size_t) pg; if (dpages == 0) dpages = 1;
    size_t total = (dpages + 1) * (size_t) pg;
    char *base = mmap (NULL, total, PROT_READ | PROT_WRITE, MAP_PRIVATE | MAP_ANONYMOUS, -1, 0);
    if (base == MAP_FAILED) { perror ("mmap"); exit (2); }
    char *p = base + dpages * (size_t) pg - n;
    memcpy (p, src, n);
    mprotect (base, dpages * (size_t) pg, PROT_READ);
    mprotect (base + dpages * (size_t) pg, (size_t) pg, PROT_NONE);
    for (int i = 0; i < 8; i++) if (g_maps[i].p == NULL) { g_maps[i].p = p; g_maps[i].base = base; g_maps[i].total = total; break; }
    return p;
}
static void jfree (char *p)
{
    for (int i = 0; i < 8; i++) if (g_maps[i].p == p && p != NULL) { munmap (g_maps[i].base, g_maps[i].total); g_maps[i].p = NULL; return; }
    free (p);
}

static char *joined (const char *ts, const char *ta, size_t *ls)
{
    size_t la;
    unsigned char *s = unhex (ts, ls), *a = unhex (ta, &la);
    char *p = malloc (*ls + la ? *ls + la : 1);
    memcpy (p, s, *ls);
    memcpy (p + *ls, a, la);
    free (s); free (a);
    if (g_romem) { char *q = ro_make ((unsigned char *) p, *ls + la); jfree (p); return q; }
    return p;
}

static void puthex (FILE *f, const unsigned char *p, size_t n)
{
    if (n == 0) { fputc ('-', f); return; }
    for (size_t i = 0; i < n; i++) fprintf (f, "%02x", p[i]);
}

static const char *msgs[EEAV_MAX];
static int *g_msg_rc;        /* run_history: per-object record of the last conversion result */
static void init_msgs (void)
{
    eav_t e; memset (&e, 0, sizeof e);
    for (int i = 0; i < EEAV_MAX; i++) {
        if (i == EEAV_IDN_ERROR) { msgs[i] = NULL; continue; }
        e.errcode = i; msgs[i] = eav_errstr (&e);
    }
}
/* canonical id of a message: index in errors[] if it is that very string, "idn:<text>" otherwise */
static void putmsg (FILE *f, const char *m)
{
    if (m == NULL) { fputs ("NULL", f); return; }
    for (int i = 0; i < EEAV_MAX; i++)
        if (msgs[i] == m) { fprintf (f, "m%d", i); return; }
    /* the code whose text this should be: the last conversion result seen by the object the message is asked of */
    int want = g_msg_rc ? *g_msg_rc : last_idn_rc;
    if (strcmp (m, idn2_strerror (want)) == 0) { fprintf (f, "idn:#%d", want); return; }
    fputs ("idn:?", f);
    puthex (f, (const unsigned char *) m, strlen (m));
}

static void put_result (FILE *f, const eav_result_t *r)
{
    fprintf (f, "%d %d %d%d%d", r->rc, r->rc == -EEAV_IDN_ERROR ? (int) r->idn_rc : 0,
             r->is_ipv4, r->is_ipv6, r->is_domain);
#ifdef EAV_EXTRA
    fputc (' ', f);
    if (r->lpart) { fputc ('=', f); puthex (f, (unsigned char *) r->lpart, strlen (r->lpart)); } else fputs ("NULL", f);
    fputc (' ', f);
    if (r->domain) { fputc ('=', f); puthex (f, (unsigned char *) r->domain, strlen (r->domain)); } else fputs ("NULL", f);
#endif
}

/* the three IDN back ends behind one calling convention */
#ifdef HAVE_IDNKIT
static idn_resconf_t g_ctx;
extern long verif_resconf_created, verif_resconf_destroyed, verif_resconf_live, verif_resconf_bad_destroy;
extern int verif_resconf_fail_next;
static eav_result_t *email6531 (const char *e, size_t l, bool t) { return is_6531_email (g_ctx, IDN_ENCODE_REGIST, e, l, t); }
static int utf8dom (int *r, const char *s, const char *e, bool t) { return is_utf8_domain (g_ctx, IDN_ENCODE_REGIST, r, s, e, t); }
#define BACKEND "idnkit"
#else
static eav_result_t *email6531 (const char *e, size_t l, bool t) { return is_6531_email (e, l, t); }
static int utf8dom (int *r, const char *s, const char *e, bool t) { return is_utf8_domain (r, s, e, t); }
#ifdef HAVE_LIBIDN
#define BACKEND "idn"
#else
#define BACKEND "idn2"
#endif
#endif

typedef eav_result_t *(*email_f) (const char *, size_t, bool);
static email_f mode_fn (int mode)
{
    switch (mode) {
    case 822: return is_822_email;
    case 5321: return is_5321_email;
    case 5322: return is_5322_email;
    default: return email6531;
    }
}
static int mode_rfc (int mode)
{
    switch (mode) {
    case 822: return EAV_RFC_822;
    case 5321: return EAV_RFC_5321;
    case 5322: return EAV_RFC_5322;
    case 6531: return EAV_RFC_6531;
    default: return mode;          /* raw value: invalid modes for eav_setup */
    }
}

/* a callback that reports a chosen rc, for the policy table */
static int fake_rc;
static eav_result_t *fake_cb (const char *e, size_t l, bool t)
{
    (void) e; (void) l; (void) t;
    eav_result_t *r = calloc (1, sizeof *r);
    r->rc = fake_rc;
    return r;
}

/* ---- history interpreter: ops separated by ';'
 *   i           eav_init (on a fresh 0xA5-filled heap eav_t if none is live)
 *   r<n>        eav.rfc = mode n (822/5321/5322/6531 or a raw int)
 *   t<0|1>      eav.tld_check
 *   k<mask>     eav.allow_tld
 *   s           eav_setup        -> "s<rc>"
 *   e<hex>      eav_is_email     -> "e<ret> <errcode> <msg> <result>"
 *   m           eav_errstr       -> "m<msg>"
 *   f           eav_free
 *   x<rc>,<buf> inject IDN fault for the following conversions (x0 = off)
 */
/* when a sanitizer stops the process, what was produced so far must be on disk: the last complete line of the
 * result file then names the last op that returned, and the op after it is the one that faulted */
static FILE *g_out, *g_lean;
extern void __sanitizer_set_death_callback (void (*) (void)) __attribute__ ((weak));
static void flush_results (void)
{
    if (g_out) fflush (g_out);
    if (g_lean) fflush (g_lean);
}

static void run_history (FILE *out, char *script)
{
    eav_t *eav1 = malloc (sizeof *eav1), *eav2 = malloc (sizeof *eav2);
    memset (eav1, 0xA5, sizeof *eav1);
    memset (eav2, 0xA5, sizeof *eav2);
    char *save = NULL;
    int first = 1;
    int obj_rc[2] = { last_idn_rc, last_idn_rc };
#ifdef HAVE_IDNKIT
    verif_resconf_fail_next = 0;          /* an injected failure that no call consumed does not leak into the next history */
#endif
    for (char *op = strtok_r (script, ";", &save); op; op = strtok_r (NULL, ";", &save)) {
        if (!first) fputc (';', out);
        first = 0;
        /* two independent objects: an op prefixed with `2` addresses the second one */
        eav_t *eav = eav1;
        g_msg_rc = &obj_rc[0];
        if (op[0] == '2') { eav = eav2; op++; g_msg_rc = &obj_rc[1]; }
        switch (op[0]) {
        case 'i': eav_init (eav); fputc ('i', out); break;
        case 'r': eav->rfc = (EAV_RFC) mode_rfc (atoi (op + 1)); fputc ('r', out); break;
        case 't': eav->tld_check = op[1] == '1'; fputc ('t', out); break;
        case 'k': eav->allow_tld = atoi (op + 1); fputc ('k', out); break;
        case 's': {
            int src = eav_setup (eav);
            if (src == -EEAV_IDN_ERROR) *g_msg_rc = 12;        /* the stand-in's failing idn_resconf_create: idn_result_tostring (12) */
            fprintf (out, "s%d", src);
        } break;
        case 'm': fputc ('m', out); putmsg (out, eav_errstr (eav)); break;
        case 'f': eav_free (eav); fputc ('f', out); break;
        case 'y':           /* idnkit: the next idn_resconf_create fails (no effect in the other back ends: they create nothing) */
#ifdef HAVE_IDNKIT
            verif_resconf_fail_next = 1;
#endif
            fputc ('y', out); break;
        case 'v': fputc ('v', out); if (eav->result) put_result (out, eav->result); else fputc ('-', out); break;   /* the record the object holds now */
        case 'x': {
            inject_rc = atoi (op + 1);
            char *c = strchr (op, ',');
            inject_with_buf = c ? atoi (c + 1) : 0;
            inject_at = -1;
            fputc ('x', out);
        } break;
        case 'e': {
            convlog_len += snprintf (convlog + convlog_len, sizeof convlog - convlog_len, " |");
            size_t n; unsigned char *raw = unhex (op + 1, &n);
            char *em = malloc (n + 1); memcpy (em, raw, n); em[n] = 0; free (raw);
            if (g_romem) { char *q = ro_make ((unsigned char *) em, n + 1); free (em); em = q; }
            expect_domain_of (em);
            int ret = eav_is_email (eav, em, n);
            g_expect_dom = NULL;
            *g_msg_rc = last_idn_rc;
            fprintf (out, "e%d %d ", ret, eav->errcode);
            putmsg (out, eav_errstr (eav));
            fputc (' ', out);
            put_result (out, eav->result);
            jfree (em);
        } break;
        default: fputc ('?', out);
        }
    }
    /* the script is responsible for ending with `f`; LeakSanitizer checks the rest */
#ifdef HAVE_IDNKIT
    fprintf (out, ";R%ld,%ld,%ld,%ld", verif_resconf_created, verif_resconf_destroyed, verif_resconf_live, verif_resconf_bad_destroy);
    verif_resconf_created = verif_resconf_destroyed = verif_resconf_live = verif_resconf_bad_destroy = 0;
#endif
    free (eav1); free (eav2);
    inject_rc = 0;
    g_msg_rc = NULL;
}

int main (int argc, char **argv)
{
    if (argc < 4) { fprintf (stderr, "usage: drive ops results leanops\n"); return 2; }
    FILE *in = fopen (argv[1], "r"), *out = fopen (argv[2], "w"), *lean = fopen (argv[3], "w");
    g_out = out; g_lean = lean;
    if (__sanitizer_set_death_callback) __sanitizer_set_death_callback (flush_results);
    if (!in || !out || !lean) { perror ("open"); return 2; }
    /* VERIF_LOCALE=<name>: the process runs in that locale, as an application that called setlocale would */
    if (getenv ("VERIF_LOCALE") != NULL && setlocale (LC_ALL, getenv ("VERIF_LOCALE")) == NULL
        && setlocale (LC_CTYPE, getenv ("VERIF_LOCALE")) == NULL) { fprintf (stderr, "setlocale failed\n"); return 3; }
    g_romem = getenv ("VERIF_ROMEM") != NULL;
    init_msgs ();
    /* build header for the model */
    int rfc20 = 0, rfc5322 = 0, us = 0, extra = 0;
#ifdef RFC6531_FOLLOW_RFC20
    rfc20 = 1;
#endif
#ifdef RFC6531_FOLLOW_RFC5322
    rfc5322 = 1;
#endif
#ifdef LABELS_ALLOW_UNDERSCORE
    us = 1;
#endif
#ifdef EAV_EXTRA
    extra = 1;
#endif
    fprintf (lean, "B %d %d %d %d %s\n", rfc20, rfc5322, us, extra, BACKEND);
#ifdef HAVE_IDNKIT
    idn_resconf_create (&g_ctx);
    verif_resconf_created = verif_resconf_destroyed = verif_resconf_live = 0;
#endif

    char *line = NULL; size_t cap = 0; ssize_t n;
    long lineno = 0;
    while ((n = getline (&line, &cap, in)) > 0) {
        lineno++;
        if (line[n - 1] == '\n') line[--n] = 0;
        if (n == 0 || line[0] == '#') continue;
        char *copy = strdup (line);
        char *tok[8]; int nt = 0; char *save = NULL;
        for (char *t = strtok_r (line, " ", &save); t && nt < 8; t = strtok_r (NULL, " ", &save)) tok[nt++] = t;
        convlog_len = 0; convlog[0] = 0; op_conv_index = 0;
        fprintf (out, "%s ", tok[0]);
        size_t ls;
        if (!strcmp (tok[0], "L") && nt == 4) {
            int mode = atoi (tok[1]);
            char *p = joined (tok[2], tok[3], &ls);
            int rc = mode == 822 ? is_822_local (p, p + ls) : mode == 5321 ? is_5321_local (p, p + ls)
                   : mode == 5322 ? is_5322_local (p, p + ls) : is_6531_local (p, p + ls);
            fprintf (out, "%d", rc); jfree (p);
        } else if (!strcmp (tok[0], "D") && nt == 3) {
            char *p = joined (tok[1], tok[2], &ls);
            fprintf (out, "%d", is_ascii_domain (p, p + ls)); jfree (p);
        } else if (!strcmp (tok[0], "4") && nt == 3) {
            char *p = joined (tok[1], tok[2], &ls);
            fprintf (out, "%d", is_ipv4 (p, p + ls)); jfree (p);
        } else if (!strcmp (tok[0], "6") && nt == 3) {
            char *p = joined (tok[1], tok[2], &ls);
            fprintf (out, "%d", is_ipv6 (p, p + ls)); jfree (p);
        } else if (!strcmp (tok[0], "A") && nt == 3) {
            char *p = joined (tok[1], tok[2], &ls);
            fprintf (out, "%d", is_ipaddr (p, p + ls)); jfree (p);
        } else if (!strcmp (tok[0], "S") && nt == 2) {
            char *p = joined (tok[1], "00", &ls);
            fprintf (out, "%d", is_special_domain (p, p + ls)); jfree (p);
        } else if (!strcmp (tok[0], "T") && nt == 2) {
            char *p = joined (tok[1], "00", &ls);
            fprintf (out, "%d", is_tld (p, p + ls)); jfree (p);
        } else if (!strcmp (tok[0], "U") && nt == 3) {
            char *p = joined (tok[2], "00", &ls);
            int r = 0;
            g_expect_dom = p;
            int rc = utf8dom (&r, p, p + ls, tok[1][0] == '1');
            fprintf (out, "%d %d", rc, rc == -EEAV_IDN_ERROR ? r : 0); jfree (p);
        } else if (!strcmp (tok[0], "E") && nt == 4) {
            char *p = joined (tok[3], "00", &ls);
            expect_domain_of (p);
            eav_result_t *r = mode_fn (atoi (tok[1])) (p, ls, tok[2][0] == '1');
            put_result (out, r);
            eav_result_free (r); jfree (p);
        } else if (!strcmp (tok[0], "P") && nt == 5) {
            /* full API on an uninitialised heap eav_t: init, settings, setup, is_email, errstr, free */
            char *p = joined (tok[4], "00", &ls);
            eav_t *eav = malloc (sizeof *eav); memset (eav, 0xA5, sizeof *eav);
            eav_init (eav);
            eav->rfc = (EAV_RFC) mode_rfc (atoi (tok[1]));
            eav->tld_check = tok[2][0] == '1';
            eav->allow_tld = atoi (tok[3]);
            int src = eav_setup (eav);
            if (src != 0) { fprintf (out, "setup%d ", src); putmsg (out, eav_errstr (eav)); }
            else {
                expect_domain_of (p);
                int ret = eav_is_email (eav, p, ls);
                fprintf (out, "%d %d ", ret, eav->errcode);
                putmsg (out, eav_errstr (eav));
                fputc (' ', out);
                put_result (out, eav->result);
            }
            eav_free (eav); free (eav); jfree (p);
        } else if (!strcmp (tok[0], "Y") && nt == 3) {
            /* policy: a callback reporting rc = tok[2] under mask tok[1]; abort() is observed in a child */
            int rcv = atoi (tok[2]);
            if (rcv <= 9) {
                eav_t eav; eav_init (&eav);
                eav.rfc = EAV_RFC_5321; eav_setup (&eav);
                eav.ascii_cb = fake_cb; eav.allow_tld = atoi (tok[1]); fake_rc = rcv;
                int ret = eav_is_email (&eav, "x", 1);
                fprintf (out, "%d %d", ret, eav.errcode);
                eav_free (&eav);
            } else {
                fflush (out); fflush (lean);
                pid_t pid = fork ();
                if (pid == 0) {
                    eav_t eav; eav_init (&eav);
                    eav.rfc = EAV_RFC_5321; eav_setup (&eav);
                    eav.ascii_cb = fake_cb; eav.allow_tld = atoi (tok[1]); fake_rc = rcv;
                    int ret = eav_is_email (&eav, "x", 1);
                    int ec = eav.errcode;
                    eav_free (&eav);
                    _exit (ret * 64 + ec);          /* ret in {0,1}, ec < 64 */
                }
                int st = 0; waitpid (pid, &st, 0);
                if (WIFEXITED (st)) fprintf (out, "%d %d", WEXITSTATUS (st) / 64, WEXITSTATUS (st) % 64);
                else fprintf (out, "FAULT abort");
            }
        } else if (!strcmp (tok[0], "C") && nt == 4) {
            /* C01 oracle: the decision composed from the PUBLIC per-part validators, written from the
             * property text (not from private_email.h) */
            int mode = atoi (tok[1]); bool tld = tok[2][0] == '1';
            char *p = joined (tok[3], "00", &ls);
            const char *end = p + ls;
            int rc, idn = 0;
            const char *at = NULL;
            for (const char *q = p; q < end; q++) if (*q == '@') at = q;
            if (ls == 0) rc = -EEAV_EMAIL_EMPTY;
            else if (at == NULL || at + 1 == end) rc = -EEAV_DOMAIN_EMPTY;
            else if (at - p > 64) rc = -EEAV_LPART_TOO_LONG;
            else {
                rc = mode == 822 ? is_822_local (p, at) : mode == 5321 ? is_5321_local (p, at)
                   : mode == 5322 ? is_5322_local (p, at) : is_6531_local (p, at);
                if (rc == 0) {
                    const char *d = at + 1;
                    if (*d != '[') {
                        if (mode == 6531) rc = utf8dom (&idn, d, end, tld);
                        else {
                            rc = is_ascii_domain (d, end);
                            if (rc == 0 && tld) {
                                if (is_special_domain (d, end)) rc = TLD_TYPE_SPECIAL;
                                else {
                                    const char *dot = strrchr (d, '.');
                                    rc = dot ? is_tld (dot + 1, end) : -EEAV_DOMAIN_NOT_FQDN;
                                }
                            }
                        }
                    } else {
                        const char *close = NULL;
                        for (const char *q = d; q < end; q++) if (*q == ']') close = q;
                        if (end - d <= 8) rc = -EEAV_IPADDR_INVALID;
                        else if (close == NULL) rc = -EEAV_IPADDR_BRACKET_UNPAIR;
                        else if (close + 1 != end) rc = -EEAV_IPADDR_INVALID;
                        else {
                            const char *a = d + 1;
                            int ok;
                            if (close - a >= 5 && strncasecmp (a, "IPv6:", 5) == 0) ok = is_ipv6 (a + 5, close);
                            else if (memchr (a, ':', close - a)) ok = is_ipv6 (a, close);
                            else ok = is_ipv4 (a, close);
                            rc = ok ? 0 : -EEAV_IPADDR_INVALID;
                        }
                    }
                }
            }
            fprintf (out, "%d %d", rc, rc == -EEAV_IDN_ERROR ? idn : 0);
            jfree (p);
        } else if (!strcmp (tok[0], "G") && nt == 6) {
            /* G <fn> <prefix> <pattern> <suffix> <len>: a per-part validator (or is_*_email, TLD checking off) on a giant input */
            size_t prel, patl, sufl, total = 0;
            unsigned char *pre = unhex (tok[2], &prel), *pat = unhex (tok[3], &patl), *suf = unhex (tok[4], &sufl);
            size_t len = strtoull (tok[5], NULL, 10);
            char *g = giant_make (pre, prel, pat, patl, suf, sufl, len, &total);
            if (g == NULL) fprintf (out, "NOMEM");
            else {
                const char *f = tok[1];
                int rc;
                if (!strcmp (f, "L822")) rc = is_822_local (g, g + len);
                else if (!strcmp (f, "L5321")) rc = is_5321_local (g, g + len);
                else if (!strcmp (f, "L5322")) rc = is_5322_local (g, g + len);
                else if (!strcmp (f, "L6531")) rc = is_6531_local (g, g + len);
                else if (!strcmp (f, "S")) rc = is_special_domain (g, g + len);
                else if (!strcmp (f, "D")) rc = is_ascii_domain (g, g + len);
                else if (!strcmp (f, "4")) rc = is_ipv4 (g, g + len);
                else if (!strcmp (f, "6")) rc = is_ipv6 (g, g + len);
                else if (!strcmp (f, "T")) rc = is_tld (g, g + len);
                else if (f[0] == 'E') { eav_result_t *r = mode_fn (atoi (f + 1)) (g, len, false); rc = r->rc; eav_result_free (r); }
                else rc = -9999;
                fprintf (out, "%d", rc);
                munmap (g, total);
            }
            free (pre); free (pat); free (suf);
        } else if (!strcmp (tok[0], "H") && nt == 2) {
            run_history (out, tok[1]);
        } else {
            fprintf (out, "BADOP");
        }
        if (g_convin_bad) fprintf (out, " CONVIN:%s", g_convin_hex);
        g_convin_bad = 0; g_expect_dom = NULL;
        fputc ('\n', out);
        fprintf (lean, "%s%s\n", copy, convlog);
        free (copy);
    }
    free (line);
    fclose (in); fclose (out); fclose (lean);
    return 0;
}
