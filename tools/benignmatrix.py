#!/usr/bin/env python3
"""benignmatrix.py <out.json> <patch.diff ...>: apply each harmless rewrite to the repository copy named by VERIF_REPO, run all twenty
checks (quick), undo it; a check that exits non-zero on such a tree is a false alarm to be explained"""
import json, os, re, subprocess, sys
HERE = os.path.dirname(os.path.abspath(__file__)); VERIF = os.path.dirname(HERE)
REPO = os.environ.get("VERIF_REPO", "/repo")
out = sys.argv[1]
res = {}
def sh(cmd, cwd=None):
    p = subprocess.run(cmd, shell=True, cwd=cwd, stdout=subprocess.PIPE, stderr=subprocess.STDOUT)
    return p.returncode, p.stdout.decode(errors="replace")
for patch in sys.argv[2:]:
    rc, o = sh("git apply --check %s" % patch, REPO)
    if rc != 0:
        res[patch] = {"error": "does not apply: " + o[-200:]}; continue
    sh("git apply %s" % patch, REPO)
    try:
        rc, o = sh("KEEP_LOGS=1 tools/runall.sh quick", VERIF)
        lines = [l for l in o.splitlines() if re.match(r"^C\d\d exit=", l)]
        bad = [l for l in lines if not l.split()[1] == "exit=0"]
        detail = {}
        m = re.search(r"logs in (\S+)", o)
        for l in bad:
            c = l.split()[0]
            if m and os.path.exists(os.path.join(m.group(1), c + ".log")):
                detail[c] = open(os.path.join(m.group(1), c + ".log"), errors="replace").read()[-1500:]
        res[patch] = dict(checks=len(lines), alarms=[l.split()[0] for l in bad], lines=bad, detail=detail)
        if m:
            import shutil
            shutil.rmtree(m.group(1), ignore_errors=True)        # the kept logs have been read: leave nothing under /tmp
    finally:
        sh("git checkout -- . && git clean -fdq", REPO)
    json.dump(res, open(out, "w"), indent=1)
    print(os.path.basename(os.path.dirname(patch)) or patch, res[patch].get("alarms"), flush=True)
