#!/bin/sh
# targeted: C06 (and the order/adjacency checks C07 C09 C16 C20) on the benign patches that touch is_tld / is_special_domain / is_ipv4_ipv6
export VERIF_REPO=$VP_RUN_REPO
cd lean && lake build eavdrv Eav >/dev/null 2>&1; cd ..
for p in benign/agents/C05-1 benign/agents/C06-2 benign/agents/C07-1 benign/agents/C09-1 benign/agents/C11-1 benign/rewrites-1.diff benign/rewrites-2.diff; do
  f=$p; [ -d $p ] && f=$p/patch.diff
  git -C $VERIF_REPO apply $PWD/$f || { echo "$p does-not-apply"; continue; }
  for c in C06 C07 C09 C16; do
    ./check $c --tier quick > /tmp/bc06_$c.log 2>&1; echo "$p $c exit=$? $(grep -c VIOLATION /tmp/bc06_$c.log) $(tail -1 /tmp/bc06_$c.log | sed 's/^.*: //')"
  done
  git -C $VERIF_REPO checkout -- . ; git -C $VERIF_REPO clean -fdq
done
