#!/usr/bin/env python3
"""seedmatrix.py <out.json> <prop>:<checks,...> ...   run every seed of /tmp/mut_<prop>/_seed/* (or /verif/seeded/<id>)
against the listed checks, in isolation: the patch is applied to the repository copy named by VERIF_REPO."""
import json, os, subprocess, sys, re, glob, time
out = sys.argv[1]
REPO = os.environ.get("VERIF_REPO", "/repo")
HERE = os.path.dirname(os.path.abspath(__file__)); VERIF = os.path.dirname(HERE)
results = {}
def sh(cmd, cwd=None):
    p = subprocess.run(cmd, shell=True, cwd=cwd, stdout=subprocess.PIPE, stderr=subprocess.STDOUT)
    return p.returncode, p.stdout.decode(errors="replace")
for spec in sys.argv[2:]:
    prop, checks = spec.split(":")
    only = None
    if "@" in prop:                      # C05@4,5 = only the seeds C05-4 and C05-5
        prop, o = prop.split("@")
        only = set(o.split(","))
    dirs = sorted(glob.glob("/tmp/mut_%s/_seed/[0-9]*" % prop)) + sorted(glob.glob(os.path.join(VERIF, "seeded", prop + "-*")))
    if only:
        dirs = [d for d in dirs if d.rsplit("-", 1)[-1] in only]
    for sd in dirs:
        patch = os.path.join(sd, "patch.diff")
        rc, o = sh("git apply --check %s" % patch, REPO)
        key = sd
        if rc != 0:
            results[key] = {"error": "does not apply: " + o[-200:]}
            continue
        sh("git apply %s" % patch, REPO)
        r = {}
        try:
            for c in checks.split(","):
                t = time.time()
                rc, o = sh("./check %s --tier quick" % c, VERIF)
                v = [l for l in o.splitlines() if l.startswith("VIOLATION") or l.startswith("KNOWN")]
                summ = [l for l in o.splitlines() if re.match(r"^C\d\d (quick|thorough):", l)]
                r[c] = dict(rc=rc, lines=v[:3], summary=summ[-1:] , secs=round(time.time() - t))
        finally:
            sh("git apply -R %s" % patch, REPO)
        results[key] = r
        json.dump(results, open(out, "w"), indent=1)
        print(key, {c: r[c]["rc"] for c in r}, flush=True)
json.dump(results, open(out, "w"), indent=1)
