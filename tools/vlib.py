"""Shared machinery of the libeav checks: scratch builds of /repo's working tree, translator + lake
build (P), correspondence runs (K: harness vs compiled Lean driver), evidence, violation protocol."""
import fcntl, hashlib, json, os, random, re, shutil, subprocess, sys, tempfile, time

HERE = os.path.dirname(os.path.abspath(__file__))
VERIF = os.path.dirname(HERE)
REPO = os.environ.get("VERIF_REPO", "/repo")
LEAN = os.path.join(VERIF, "lean")
SAN = "-O1 -g -fno-omit-frame-pointer -fsanitize=address,undefined -fno-sanitize-recover=all"
CC = "clang"

VARIANTS = {
    # name: (make options, extra defines for harness + library)
    "default": ([], []),
    "rfc20": (["RFC6531_FOLLOW_RFC20=ON"], ["-DRFC6531_FOLLOW_RFC20"]),
    "rfc5322": (["RFC6531_FOLLOW_RFC5322=ON"], ["-DRFC6531_FOLLOW_RFC5322"]),
    "underscore": (["LABELS_ALLOW_UNDERSCORE=ON"], ["-DLABELS_ALLOW_UNDERSCORE"]),
    "rfc20+rfc5322": (["RFC6531_FOLLOW_RFC20=ON", "RFC6531_FOLLOW_RFC5322=ON"], ["-DRFC6531_FOLLOW_RFC20", "-DRFC6531_FOLLOW_RFC5322"]),
    "rfc20+underscore": (["RFC6531_FOLLOW_RFC20=ON", "LABELS_ALLOW_UNDERSCORE=ON"], ["-DRFC6531_FOLLOW_RFC20", "-DLABELS_ALLOW_UNDERSCORE"]),
    "rfc5322+underscore": (["RFC6531_FOLLOW_RFC5322=ON", "LABELS_ALLOW_UNDERSCORE=ON"], ["-DRFC6531_FOLLOW_RFC5322", "-DLABELS_ALLOW_UNDERSCORE"]),
    "all3": (["RFC6531_FOLLOW_RFC20=ON", "RFC6531_FOLLOW_RFC5322=ON", "LABELS_ALLOW_UNDERSCORE=ON"],
             ["-DRFC6531_FOLLOW_RFC20", "-DRFC6531_FOLLOW_RFC5322", "-DLABELS_ALLOW_UNDERSCORE"]),
    "extra": (["INCLUDES=-DEAV_EXTRA"], ["-DEAV_EXTRA"]),
    # assertions compiled out, as in a release build
    "ndebug": (["INCLUDES=-DNDEBUG"], ["-DNDEBUG"]),
    # the default build, made in a tree in which all three options were built before (`make clean` in between): README's way to change options
    "rebuilt": ([], []),
    # plain `char` unsigned, as on arm / aarch64 / ppc / s390
    "uchar": (["INCLUDES=-funsigned-char"], ["-funsigned-char"]),
    "rfc5322+uchar": (["RFC6531_FOLLOW_RFC5322=ON", "INCLUDES=-funsigned-char"], ["-DRFC6531_FOLLOW_RFC5322", "-funsigned-char"]),
    # the EAV_EXTRA members in a release build (assertions compiled out)
    "extra+ndebug": (["INCLUDES=-DEAV_EXTRA -DNDEBUG"], ["-DEAV_EXTRA", "-DNDEBUG"]),
    # README's command line for systems without pkg-config data (`make FORCE_IDN=idn2 DEFS="-DHAVE_LIBIDN2" LIBS="-lidn2"`), with the options
    "rfc20+rfc5322+underscore@readme": (["DEFS=-DHAVE_LIBIDN2", "LIBS=-lidn2", "RFC6531_FOLLOW_RFC20=ON", "RFC6531_FOLLOW_RFC5322=ON", "LABELS_ALLOW_UNDERSCORE=ON"],
                                        ["-DRFC6531_FOLLOW_RFC20", "-DRFC6531_FOLLOW_RFC5322", "-DLABELS_ALLOW_UNDERSCORE"]),
}


def log(*a):
    print(*a, file=sys.stderr, flush=True)


class Scratch:
    """temporary directory outside /repo and /verif, removed on exit together with all build output"""

    def __init__(self):
        self.dir = None

    def __enter__(self):
        self.dir = tempfile.mkdtemp(prefix="eav-verif-")
        return self

    def __exit__(self, *exc):
        shutil.rmtree(self.dir, ignore_errors=True)

    def copy_repo(self, name):
        dst = os.path.join(self.dir, name)
        subprocess.check_call(["rsync", "-a", "--exclude", ".git", "--exclude", "*.o", "--exclude", "*.a", "--exclude", "*.so",
                               "--exclude", "*.bin", "--exclude", "bin/eav", REPO + "/", dst + "/"])
        return dst


class BuildError(Exception):
    pass


def build_variant(scr, name):
    """build libeav.a with the repository's own Makefile (so its option defaults are part of what is
    tested) under ASan+UBSan, then the harness against it; returns the path of the harness binary"""
    mk, defs = VARIANTS[name]
    d = scr.copy_repo("v_" + name.replace("+", "_"))
    if name == "rebuilt":
        subprocess.run(["make", "-C", d, "-j4", "libeav.a", "CC=" + CC, "CFLAGS=" + SAN, "FORCE_IDN=idn2"] + VARIANTS["all3"][0], stdout=subprocess.PIPE, stderr=subprocess.STDOUT)
        subprocess.run(["make", "-C", d, "clean"], stdout=subprocess.PIPE, stderr=subprocess.STDOUT)
    cmd = ["make", "-C", d, "-j4", "libeav.a", "CC=" + CC, "CFLAGS=" + SAN, "FORCE_IDN=idn2"] + mk
    p = subprocess.run(cmd, stdout=subprocess.PIPE, stderr=subprocess.STDOUT)
    if p.returncode != 0:
        raise BuildError("library does not build (%s):\n%s" % (name, p.stdout.decode(errors="replace")[-3000:]))
    exe = os.path.join(d, "drive")
    cmd = [CC] + SAN.split() + ["-std=gnu99", "-D_DEFAULT_SOURCE", "-D_XOPEN_SOURCE=700", "-DHAVE_LIBIDN2"] + defs + \
          ["-I" + os.path.join(d, "include"), "-I" + d, os.path.join(VERIF, "harness/drive.c"),
           os.path.join(d, "libeav.a"), "-lidn2", "-Wl,--wrap=idn2_to_ascii_8z", "-o", exe]
    p = subprocess.run(cmd, stdout=subprocess.PIPE, stderr=subprocess.STDOUT)
    if p.returncode != 0:
        raise BuildError("harness does not build (%s):\n%s" % (name, p.stdout.decode(errors="replace")[-3000:]))
    return exe


def build_backend(scr, be):
    """compile the sources of one IDN back end (partial/<be>) against the shim headers onto one converter"""
    extra = []
    if be.endswith("+extra"):
        be, extra = be[:-6], ["-DEAV_EXTRA"]
    d = scr.copy_repo("b_" + be + ("_x" if extra else ""))
    define = {"idn": "-DHAVE_LIBIDN", "idnkit": "-DHAVE_IDNKIT", "idn2": "-DHAVE_LIBIDN2"}[be]
    shim = os.path.join(VERIF, "shims")
    srcs = sorted(os.path.join(d, "src", x) for x in os.listdir(os.path.join(d, "src")) if x.endswith(".c"))
    srcs += sorted(os.path.join(d, "partial", be, x) for x in os.listdir(os.path.join(d, "partial", be)) if x.endswith(".c"))
    exe = os.path.join(d, "drive")
    cmd = [CC] + SAN.split() + ["-w", "-std=gnu99", "-D_DEFAULT_SOURCE", "-D_XOPEN_SOURCE=700", define] + extra + \
          (["-I" + shim] if be != "idn2" else []) + ["-I" + os.path.join(d, "include"), "-I" + d] + srcs + \
          [os.path.join(shim, "shim_impl.c"), os.path.join(VERIF, "harness/drive.c"), "-lidn2", "-Wl,--wrap=idn2_to_ascii_8z", "-o", exe]
    p = subprocess.run(cmd, stdout=subprocess.PIPE, stderr=subprocess.STDOUT)
    if p.returncode != 0:
        raise BuildError("back end %s does not build against the shim headers:\n%s" % (be, p.stdout.decode(errors="replace")[-3000:]))
    return exe


def build_plain(scr, kind):
    """library sources + a harness compiled directly (no Makefile): kind = tsan (harness/mt.c),
    plain (harness/drive.c without sanitizers, for valgrind/callgrind), cli (bin/*.c under ASan+UBSan)"""
    d = scr.copy_repo("p_" + kind)
    srcs = sorted(os.path.join(d, "src", x) for x in os.listdir(os.path.join(d, "src")) if x.endswith(".c"))
    srcs += sorted(os.path.join(d, "partial/idn2", x) for x in os.listdir(os.path.join(d, "partial/idn2")) if x.endswith(".c"))
    base = ["-std=gnu99", "-D_DEFAULT_SOURCE", "-D_XOPEN_SOURCE=700", "-DHAVE_LIBIDN2", "-I" + os.path.join(d, "include"), "-I" + d]
    if kind == "tsan":
        cmd = [CC, "-O1", "-g", "-fsanitize=thread"] + base + srcs + [os.path.join(VERIF, "harness/mt.c"), "-lidn2", "-lpthread"]
    elif kind == "tsan-extra":
        cmd = [CC, "-O1", "-g", "-fsanitize=thread", "-DEAV_EXTRA"] + base + srcs + [os.path.join(VERIF, "harness/mt.c"), "-lidn2", "-lpthread"]
    elif kind in ("tsan-idnkit", "tsan-idn"):
        # the other two back ends under ThreadSanitizer (their eav_setup / eav_free keep back-end state)
        be = kind.split("-")[1]
        shim = os.path.join(VERIF, "shims")
        bsrcs = sorted(os.path.join(d, "src", x) for x in os.listdir(os.path.join(d, "src")) if x.endswith(".c"))
        bsrcs += sorted(os.path.join(d, "partial", be, x) for x in os.listdir(os.path.join(d, "partial", be)) if x.endswith(".c"))
        cmd = [CC, "-O1", "-g", "-fsanitize=thread", "-w", "-std=gnu99", "-D_DEFAULT_SOURCE", "-D_XOPEN_SOURCE=700", "-DHAVE_IDNKIT" if be == "idnkit" else "-DHAVE_LIBIDN",
               "-I" + shim, "-I" + os.path.join(d, "include"), "-I" + d] + bsrcs + [os.path.join(shim, "shim_impl.c"), os.path.join(VERIF, "harness/mt.c"), "-lidn2", "-lpthread"]
    elif kind == "plain":
        cmd = ["gcc", "-O1", "-g"] + base + srcs + [os.path.join(VERIF, "harness/drive.c"), "-lidn2", "-Wl,--wrap=idn2_to_ascii_8z"]
    elif kind == "cli":
        # the real tool, built by the repository's Makefiles (shared library + bin/eav), under ASan+UBSan
        p = subprocess.run(["make", "-C", d, "-j4", "CC=" + CC, "CFLAGS=" + SAN, "LDFLAGS=-fsanitize=address,undefined", "FORCE_IDN=idn2"],
                           stdout=subprocess.PIPE, stderr=subprocess.STDOUT)
        exe = os.path.join(d, "bin/eav")
        if p.returncode != 0 or not os.path.exists(exe):
            raise BuildError("the eav tool does not build:\n" + p.stdout.decode(errors="replace")[-3000:])
        return exe
    elif kind == "cli-idnkit":
        # the real tool and library built by the repository's Makefiles for the idnkit back end; idnkit itself is not installed, so
        # IDNKIT_DIR points at a directory holding the stand-in header and a libidnkit.so made of shims/shim_impl.c
        kit = os.path.join(d, "_idnkit")
        os.makedirs(os.path.join(kit, "lib")); os.makedirs(os.path.join(kit, "include"))
        shim = os.path.join(VERIF, "shims")
        shutil.copytree(os.path.join(shim, "idn"), os.path.join(kit, "include", "idn"))
        p = subprocess.run([CC, "-shared", "-fPIC", "-O1", "-w", "-I" + shim, os.path.join(shim, "shim_impl.c"), "-lidn2", "-o", os.path.join(kit, "lib", "libidnkit.so")],
                           stdout=subprocess.PIPE, stderr=subprocess.STDOUT)
        if p.returncode != 0:
            raise BuildError("stand-in libidnkit does not build:\n" + p.stdout.decode(errors="replace")[-2000:])
        p = subprocess.run(["make", "-C", d, "-j4", "CC=" + CC, "CFLAGS=" + SAN, "LDFLAGS=-fsanitize=address,undefined", "FORCE_IDN=idnkit", "IDNKIT_DIR=" + kit],
                           stdout=subprocess.PIPE, stderr=subprocess.STDOUT)
        exe = os.path.join(d, "bin/eav")
        if p.returncode != 0 or not os.path.exists(exe):
            raise BuildError("the eav tool (idnkit back end) does not build:\n" + p.stdout.decode(errors="replace")[-3000:])
        return exe
    elif kind == "gcov":
        # one object per source so that the .gcno/.gcda files sit next to each other in d/cov
        cov = os.path.join(d, "cov")
        os.makedirs(cov, exist_ok=True)
        objs = []
        for sfile in srcs + [os.path.join(VERIF, "harness/drive.c")]:
            o = os.path.join(cov, os.path.basename(os.path.dirname(sfile)) + "_" + os.path.basename(sfile)[:-2] + ".o")
            p = subprocess.run(["gcc", "-O0", "-g", "--coverage"] + base + ["-c", sfile, "-o", o], stdout=subprocess.PIPE, stderr=subprocess.STDOUT)
            if p.returncode != 0:
                raise BuildError("gcov build fails:\n" + p.stdout.decode(errors="replace")[-3000:])
            objs.append(o)
        cmd = ["gcc", "--coverage"] + objs + ["-lidn2", "-Wl,--wrap=idn2_to_ascii_8z"]
    exe = os.path.join(d, kind + ".exe")
    p = subprocess.run(cmd + ["-o", exe], stdout=subprocess.PIPE, stderr=subprocess.STDOUT)
    if p.returncode != 0:
        raise BuildError("%s build fails:\n%s" % (kind, p.stdout.decode(errors="replace")[-3000:]))
    return exe


def build_variants(scr, names):
    from concurrent.futures import ThreadPoolExecutor
    with ThreadPoolExecutor(max_workers=8) as ex:
        futs = {n: (ex.submit(build_backend, scr, n[3:]) if n.startswith("be:") else ex.submit(build_plain, scr, n[2:]) if n.startswith("x:")
                    else ex.submit(build_variant, scr, n)) for n in names}
        return {n: f.result() for n, f in futs.items()}


# ----------------------------------------------------------------------------- Lean side

class LeanLock:
    def __enter__(self):
        self.f = open(os.path.join(LEAN, ".verif.lock"), "w")
        fcntl.flock(self.f, fcntl.LOCK_EX)
        return self

    def __exit__(self, *exc):
        fcntl.flock(self.f, fcntl.LOCK_UN)
        self.f.close()


FORBIDDEN = re.compile(r"\bsorry\b|\badmit\b|^\s*axiom\s|native_decide|bv_decide|implemented_by|\bunsafe\s|maxHeartbeats\s+0|\bpartial\s+def")


def strip_lean_comments(src):
    out, i, depth, n = [], 0, 0, len(src)
    while i < n:
        if src.startswith("/-", i):
            depth += 1; i += 2; continue
        if depth and src.startswith("-/", i):
            depth -= 1; i += 2; continue
        if depth:
            if src[i] == "\n":
                out.append("\n")
            i += 1; continue
        if src.startswith("--", i):
            while i < n and src[i] != "\n":
                i += 1
            continue
        out.append(src[i]); i += 1
    return "".join(out)


def audit_sources():
    """grep the library sources (not Main.lean's IO loop) for forbidden constructs, comments stripped"""
    hits = []
    for root, _, files in os.walk(os.path.join(LEAN, "Eav")):
        for fn in files:
            if fn.endswith(".lean"):
                p = os.path.join(root, fn)
                src = strip_lean_comments(open(p, encoding="utf-8").read())
                for ln, line in enumerate(src.splitlines(), 1):
                    if FORBIDDEN.search(line):
                        hits.append("%s:%d: %s" % (os.path.relpath(p, LEAN), ln, line.strip()[:120]))
    return hits


def lean_build(scr):
    """translator + lake build.  Returns dict(ok, extract_ok, log, failed_modules)."""
    repo_copy = scr.copy_repo("extract")
    t0 = time.time()
    with LeanLock():
        p = subprocess.run([sys.executable, os.path.join(HERE, "extract.py"), repo_copy, os.path.join(LEAN, "Eav/Gen")],
                           stdout=subprocess.PIPE, stderr=subprocess.STDOUT)
        ext_log = p.stdout.decode(errors="replace")
        if p.returncode != 0:
            # broken tie.  The driver is still built, from the last data that could be generated (the committed Gen files),
            # so that K and S can search for a concrete failing input.
            p1 = subprocess.run(["lake", "build", "eavdrv"], cwd=LEAN, stdout=subprocess.PIPE, stderr=subprocess.STDOUT)
            drv = os.path.join(scr.dir, "eavdrv")
            src = os.path.join(LEAN, ".lake/build/bin/eavdrv")
            if p1.returncode == 0 and os.path.exists(src):
                shutil.copy2(src, drv)
            return dict(ok=False, extract_ok=False, driver_ok=p1.returncode == 0, driver=drv, log=ext_log, failed=["tools/extract.py"],
                        wall=time.time() - t0)
        # 1. the model and its driver (what K and S run); 2. the whole library, i.e. every theorem (P)
        p1 = subprocess.run(["lake", "build", "eavdrv"], cwd=LEAN, stdout=subprocess.PIPE, stderr=subprocess.STDOUT)
        out1 = p1.stdout.decode(errors="replace")
        drv = os.path.join(scr.dir, "eavdrv")
        src = os.path.join(LEAN, ".lake/build/bin/eavdrv")
        if p1.returncode == 0 and os.path.exists(src):
            shutil.copy2(src, drv)
        p = subprocess.run(["lake", "build", "Eav"], cwd=LEAN, stdout=subprocess.PIPE, stderr=subprocess.STDOUT)
        out = p.stdout.decode(errors="replace")
        failed = re.findall(r"^- (\S+)$", out1 + out, flags=re.M)
        return dict(ok=p.returncode == 0 and p1.returncode == 0, driver_ok=p1.returncode == 0, extract_ok=True,
                    log=ext_log + (out1 if p1.returncode != 0 else "") + out, failed=failed, driver=drv, wall=time.time() - t0)


def print_axioms(theorems):
    """`#print axioms` for each theorem name; returns {name: [axioms]} (or {"name": None} if unknown)"""
    if not theorems:
        return {}
    mods = sorted({t[0] for t in theorems})
    src = "\n".join("import " + m for m in mods) + "\n" + "\n".join("#print axioms " + t[1] for t in theorems) + "\n"
    with tempfile.NamedTemporaryFile("w", suffix=".lean", dir=LEAN, delete=False) as f:
        f.write(src)
        path = f.name
    try:
        with LeanLock():
            p = subprocess.run(["lake", "env", "lean", path], cwd=LEAN, stdout=subprocess.PIPE, stderr=subprocess.STDOUT)
    finally:
        os.unlink(path)
    out = p.stdout.decode(errors="replace")
    res = {}
    for name in (t[1] for t in theorems):
        m = re.search(r"'%s' depends on axioms: \[(.*?)\]" % re.escape(name), out, flags=re.S)
        if m:
            res[name] = [a.strip() for a in m.group(1).replace("\n", " ").split(",")]
        elif re.search(r"'%s' does not depend on any axioms" % re.escape(name), out):
            res[name] = []
        else:
            res[name] = None
    return res, out


def gcov_report(exe):
    """branch/line coverage of the library sources after runs of the gcov build: {file: {...}}, totals"""
    cov = os.path.join(os.path.dirname(exe), "cov")
    gcnos = sorted(x for x in os.listdir(cov) if x.endswith(".gcno") and not x.startswith("harness_"))
    p = subprocess.run(["gcov", "-b", "-c"] + gcnos, cwd=cov, stdout=subprocess.PIPE, stderr=subprocess.STDOUT)
    out = p.stdout.decode(errors="replace")
    files = {}
    for m in re.finditer(r"File '([^']+)'\n((?:[^\n]+\n)+)", out):
        fn, body = m.group(1), m.group(2)
        if "/usr/" in fn or fn.endswith(".h") and "/include/eav/" not in fn:
            continue
        rec = {}
        for key, rx in (("lines", r"Lines executed:([\d.]+)% of (\d+)"), ("branches_executed", r"Branches executed:([\d.]+)% of (\d+)"),
                        ("branches_taken", r"Taken at least once:([\d.]+)% of (\d+)")):
            mm = re.search(rx, body)
            if mm:
                rec[key] = [float(mm.group(1)), int(mm.group(2))]
        files[os.path.relpath(fn, os.path.dirname(os.path.dirname(exe))) if os.path.isabs(fn) else fn] = rec
    missed, untaken = {}, {}
    for g in sorted(os.listdir(cov)):
        if g.endswith(".gcov"):
            src = None
            lines, br = [], []
            cur = None
            for line in open(os.path.join(cov, g), errors="replace"):
                if src is None:
                    mm = re.match(r"\s+-:\s+0:Source:(.*)", line)
                    if mm:
                        src = mm.group(1)
                mm = re.match(r"\s*(#####|-|\d+\*?):\s*(\d+):(.*)", line)
                if mm:
                    cur = "%s: %s" % (mm.group(2), mm.group(3).strip()[:80])
                    if mm.group(1) == "#####":
                        lines.append(cur)
                    continue
                mm = re.match(r"branch\s+(\d+) (never executed|taken 0)\b", line)
                if mm and cur and (not br or br[-1] != cur):
                    br.append(cur)
            key = (os.path.basename(os.path.dirname(src)) + "/" + os.path.basename(src)) if src else None
            if src and "/usr/" not in src and "harness" not in src:
                if lines:
                    missed[key] = lines[:40]
                if br:
                    untaken[key] = br[:60]
    tot = lambda k: (sum(v[k][0] * v[k][1] / 100.0 for v in files.values() if k in v), sum(v[k][1] for v in files.values() if k in v))
    totals = {}
    for k in ("lines", "branches_executed", "branches_taken"):
        a, b = tot(k)
        totals[k] = dict(covered=int(round(a)), total=b, percent=round(100.0 * a / b, 2) if b else None)
    return dict(files=files, totals=totals, unexecuted_lines=missed, lines_with_an_untaken_branch=untaken)


def make_locales(scr):
    """process locales an application may have selected before it calls the library: the installed UTF-8 one and a private single-byte
    (ISO-8859-1) one compiled with localedef into the scratch directory.  Returns a list of environment dicts for the harness."""
    out = []
    p = subprocess.run(["locale", "-a"], stdout=subprocess.PIPE, stderr=subprocess.DEVNULL)
    names = p.stdout.decode(errors="replace").split()
    for n in ("C.utf8", "C.UTF-8", "en_US.utf8", "en_US.UTF-8"):
        if n in names:
            out.append({"VERIF_LOCALE": n})
            break
    d = os.path.join(scr.dir, "locale")
    os.makedirs(os.path.join(d, "out"), exist_ok=True)
    U = lambda i: "<U%04X>" % i
    R = lambda xs: ";".join(U(i) for i in xs)
    cm = ["<code_set_name> ISO-8859-1", "<comment_char> %", "<escape_char> /", "<mb_cur_min> 1", "<mb_cur_max> 1", "CHARMAP"] + \
         ["%s /x%02x" % (U(i), i) for i in range(256)] + ["END CHARMAP"]
    up = list(range(65, 91)) + [i for i in range(0xC0, 0xDF) if i != 0xD7]
    lo = list(range(97, 123)) + [i for i in range(0xE0, 0xFF) if i != 0xF7]
    src = ["comment_char %", "escape_char /", "LC_CTYPE", "upper " + R(up), "lower " + R(lo + [0xDF, 0xFF]), "digit " + R(range(48, 58)),
           "space " + R([9, 10, 11, 12, 13, 32]), "cntrl " + R(list(range(0, 32)) + list(range(127, 160))),
           "punct " + R(list(range(33, 48)) + list(range(58, 65)) + list(range(91, 97)) + list(range(123, 127)) + list(range(0xA1, 0xC0)) + [0xD7, 0xF7]),
           "xdigit " + R(list(range(48, 58)) + list(range(65, 71)) + list(range(97, 103))), "blank " + R([9, 32]),
           "toupper " + ";".join("(%s,%s)" % (U(i), U(i - 32)) for i in lo), "tolower " + ";".join("(%s,%s)" % (U(i), U(i + 32)) for i in up), "END LC_CTYPE"]
    open(os.path.join(d, "ISO-8859-1"), "w").write("\n".join(cm) + "\n")
    open(os.path.join(d, "xx_XX"), "w").write("\n".join(src) + "\n")
    subprocess.run(["localedef", "-c", "-f", os.path.join(d, "ISO-8859-1"), "-i", os.path.join(d, "xx_XX"), os.path.join(d, "out", "xx_XX.ISO-8859-1")],
                   stdout=subprocess.DEVNULL, stderr=subprocess.DEVNULL)
    if os.path.exists(os.path.join(d, "out", "xx_XX.ISO-8859-1", "LC_CTYPE")):
        out.append({"VERIF_LOCALE": "xx_XX.ISO-8859-1", "LOCPATH": os.path.join(d, "out")})
    return out


# ----------------------------------------------------------------------------- running ops

def hx(b):
    if isinstance(b, str):
        b = b.encode("utf-8")
    return b.hex() if len(b) else "-"


class _Timed:
    def __init__(self, rc, out, err, timed_out):
        self.returncode, self.stdout, self.stderr, self.timed_out = rc, out or b"", err or b"", timed_out


def run_timed(cmd, timeout, **kw):
    """subprocess.run with a timeout that does not raise: a process that does not finish is killed and reported as timed_out (what it wrote
    so far is kept) - a check never hangs on a library that does"""
    kw.setdefault("stdout", subprocess.PIPE); kw.setdefault("stderr", subprocess.PIPE)
    try:
        p = subprocess.run(cmd, timeout=timeout, **kw)
        return _Timed(p.returncode, p.stdout, p.stderr, False)
    except subprocess.TimeoutExpired as e:
        return _Timed(-999, e.stdout, e.stderr, True)


OPS_TIMEOUT = 1500          # seconds for one harness process over a whole stream (normal: seconds to a minute)


def run_ops(scr, drive, driver, ops, tag="ops", env_extra=None):
    """run ops through the harness (restarting after a sanitizer abort) and through the model driver.
    Returns (c_lines, lean_lines, crashes) with c_lines[i] / lean_lines[i] the result for ops[i]."""
    # every fresh heap block is filled with 0xA5, so that a field the library forgets to initialise has a visible value
    env = dict(os.environ, LC_ALL="C", ASAN_OPTIONS="detect_leaks=1:abort_on_error=0:exitcode=99:allocator_may_return_null=1:max_malloc_fill_size=65536:malloc_fill_byte=165",
               UBSAN_OPTIONS="print_stacktrace=1:halt_on_error=1", LSAN_OPTIONS="exitcode=98")
    if env_extra:
        env.update(env_extra)
    c_lines = [None] * len(ops)
    lean_in = []
    crashes = []
    notrun = []
    start = 0
    k = 0
    while start < len(ops):
        fin = os.path.join(scr.dir, "%s_%d.in" % (tag, k))
        fout = os.path.join(scr.dir, "%s_%d.out" % (tag, k))
        flean = os.path.join(scr.dir, "%s_%d.lean" % (tag, k))
        with open(fin, "w") as f:
            f.write("\n".join(ops[start:]) + "\n")
        p = run_timed([drive, fin, fout, flean], OPS_TIMEOUT, env=env)
        if p.timed_out:
            # the library does not return on some op at or after the last line that reached the disk: find it by running the following
            # ops one at a time
            done = len(open(fout).read().split("\n")) - 1 if os.path.exists(fout) else 0
            hang = None
            for j in range(start + max(done, 0), min(len(ops), start + max(done, 0) + 400)):
                f1 = os.path.join(scr.dir, "%s_hang.in" % tag)
                with open(f1, "w") as f:
                    f.write(ops[j] + "\n")
                q = run_timed([drive, f1, f1 + ".out", f1 + ".lean"], 30, env=env)
                if q.timed_out:
                    hang = j; break
            crashes.append(dict(index=hang, op=ops[hang] if hang is not None else None, kind="hang",
                                stderr="the harness process did not finish within %d s%s" % (OPS_TIMEOUT, "; this op alone does not return within 30 s" if hang is not None else " (no single op reproduces it)")))
            # everything from the first unwritten line on is not run
            if os.path.exists(fout):
                for i, ln in enumerate(open(fout).read().split("\n")[:-1]):
                    c_lines[start + i] = ln
            lp = open(flean).read().split("\n")[:-1] if os.path.exists(flean) else []
            lean_in = lean_in or lp[:1]
            ndone = sum(1 for x in c_lines[start:] if x is not None)
            lean_in += lp[1:1 + ndone]
            notrun = list(range(start + ndone, len(ops)))
            lean_in += [ops[i] for i in notrun]
            if hang is not None:
                c_lines[hang] = ops[hang].split(" ")[0] + " FAULT"
            break
        got = open(fout).read().split("\n") if os.path.exists(fout) else []
        # a complete line ends with \n; the last element after split is '' or a partial line
        complete = got[:-1] if got else []
        lean_part = open(flean).read().split("\n")[:-1] if os.path.exists(flean) else []
        hdr = lean_part[:1]
        for i, ln in enumerate(complete):
            c_lines[start + i] = ln
        if p.returncode == 0 and len(complete) == len(ops) - start:
            lean_in = lean_in or hdr
            lean_in += lean_part[1:]
            break
        if p.returncode == 98 and len(complete) == len(ops) - start:
            # LeakSanitizer at exit: all ops ran, something was left allocated
            crashes.append(dict(index=None, kind="leak", stderr=p.stderr.decode(errors="replace")[-1500:]))
            lean_in = lean_in or hdr
            lean_in += lean_part[1:]
            break
        # crashed while executing op number start+len(complete)
        bad = start + len(complete)
        err = p.stderr.decode(errors="replace")
        kind = "asan" if "AddressSanitizer" in err else "ubsan" if "runtime error" in err else "signal%d" % p.returncode
        crashes.append(dict(index=bad, op=ops[bad] if bad < len(ops) else None, kind=kind, stderr=err[-1500:]))
        c_lines[bad] = ops[bad].split(" ")[0] + " FAULT"
        lean_in = lean_in or hdr
        lean_in += lean_part[1:1 + len(complete)]
        lean_in.append(ops[bad])            # no oracle data for the crashed op
        start = bad + 1
        k += 1
        if k > 50:
            # fifty concrete crashing inputs are enough: the remaining ops are not run (their lines are taken from the model below,
            # so that they add no noise), and the crashes recorded so far are reported
            notrun = list(range(start, len(ops)))
            lean_in += [ops[i] for i in notrun]
            crashes.append(dict(index=None, kind="gave-up", stderr="%d ops not run after 50 sanitizer aborts" % len(notrun)))
            break
    fl = os.path.join(scr.dir, tag + ".leanin")
    flo = os.path.join(scr.dir, tag + ".leanout")
    with open(fl, "w") as f:
        f.write("\n".join(lean_in) + "\n")
    p = subprocess.run([driver, fl, flo], stdout=subprocess.PIPE, stderr=subprocess.PIPE)
    if p.returncode != 0:
        raise RuntimeError("model driver failed: " + p.stderr.decode(errors="replace")[-500:])
    lean_lines = open(flo).read().split("\n")[:-1]
    if len(lean_lines) != len(ops) and notrun:
        # ops that were not run carry no recorded IDN answers: the model's lines after the give-up point are not meaningful
        lean_lines = (lean_lines + [""] * len(ops))[:len(ops)]
        for i in notrun:
            lean_lines[i] = "NOTRUN"
    if len(lean_lines) != len(ops):
        raise RuntimeError("model driver produced %d lines for %d ops" % (len(lean_lines), len(ops)))
    for i in notrun:
        c_lines[i] = lean_lines[i]
    for cr in crashes:
        if cr.get("kind") == "hang" and cr.get("index") is not None:
            c_lines[cr["index"]] = ops[cr["index"]].split(" ")[0] + " FAULT"
    return c_lines, lean_lines, crashes
