"""Per-property checks: which builds, which input streams, which observables (K), which executable
specification (S) and which theorems (P) decide each of C01..C20."""
import collections, hashlib, json, os, random, re, subprocess, sys, time
import vlib, gen
from vlib import VERIF, LEAN, hx

ALLOWED_AXIOMS = {"propext", "Classical.choice", "Quot.sound"}

# (module, fully qualified theorem) per property: the proof obligations of the property.
GENTIE = "Eav.Props.GenTie"
def _gt(*names):
    return [(GENTIE, GENTIE + "." + n) for n in names]

THEOREMS = {
    "C01": _gt("errEnum_eq", "rfcEnum_eq", "setup_eq", "limits_eq"),
    "C02": _gt("errEnum_eq", "specials_eq"),
    "C03": _gt("errEnum_eq", "specials_eq", "buildOpts_eq"),
    "C04": _gt("errEnum_eq", "limits_eq", "buildOpts_eq"),
    "C05": _gt("errEnum_eq"),
    "C06": _gt("init_sets_all", "init_fields", "limits_eq", "lenFilter_eq"),
    "C07": _gt("errEnum_eq", "tldTypeEnum_eq"),
    "C08": _gt("errEnum_eq", "tldTypeEnum_eq", "tldBitEnum_eq", "init_values"),
    "C09": _gt("reserved_eq", "example_eq", "exampleLabel_eq", "lenFilter_eq", "tldTypeEnum_eq"),
    "C10": _gt("errEnum_eq"),
    "C11": _gt("tldTypeEnum_eq"),
    "C12": _gt("errEnum_eq", "specials_eq"),
    "C13": _gt("init_values", "setup_eq", "init_sets_all"),
    "C14": _gt("no_mutable_globals", "externals_mt_safe"),
    "C15": _gt("errEnum_eq", "errors_tags", "errors_runtime", "errors_nonempty", "errors_distinct", "setup_eq"),
    "C16": _gt("errEnum_eq", "tldTypeEnum_eq"),
    "C17": _gt("buildOpts_eq", "specials_eq"),
    "C18": _gt("setup_eq", "init_values"),
    "C19": _gt("errEnum_eq"),
    "C20": _gt("init_values"),
}

TRUSTED = [
    "Lean 4.33 kernel; axioms limited to propext, Classical.choice, Quot.sound (audited with #print axioms on every run); no sorry/admit/native_decide/bv_decide/own axioms (grepped on every run)",
    "tools/extract.py + harness/dump.c: that Eav/Gen/*.lean equals the enums, tables, initialisers, case lists, Makefile defaults and symbol tables of the tree it was run on",
    "correspondence check (harness/drive.c under ASan+UBSan vs the compiled Lean driver): the control flow of the scanners and of eav_* is modelled by hand and tied to the C code by differential testing over the generated inputs only",
    "the statements in lean/Eav/Props and the specifications in lean/Eav/Spec, to be read against the property text",
    "clang 14 / ASan / UBSan / LSan; libidn2 2.3.3 as the IDN oracle (its answers are recorded and replayed into the model); the \"C\" locale for <ctype.h> and strncasecmp",
]


def imports_of(module):
    path = os.path.join(LEAN, module.replace(".", "/") + ".lean")
    if not os.path.exists(path):
        return []
    out = []
    for line in open(path, encoding="utf-8"):
        m = re.match(r"^import\s+(\S+)", line)
        if m and m.group(1).startswith("Eav"):
            out.append(m.group(1))
    return out


def closure(mods):
    seen, todo = set(), list(mods)
    while todo:
        m = todo.pop()
        if m in seen:
            continue
        seen.add(m)
        todo += imports_of(m)
    return seen


class Ctx:
    def __init__(self, prop, tier, seed, scr):
        self.prop, self.tier, self.seed, self.scr = prop, tier, seed, scr
        self.rng = random.Random(seed * 1000003 + int(prop[1:]))
        self.drives = {}
        self.lean = None
        self.p_fail = []          # theorems / modules that no longer check
        self.k_fail = []          # model-vs-implementation disagreements
        self.s_fail = []          # spec-vs-implementation: concrete witnesses
        self.crashes = []
        self.evals = 0
        self.nontrivial = set()
        self.samples = []
        self.streams = collections.OrderedDict()
        self.hist = collections.Counter()
        self.notes = []
        self.obligations = 0
        self.discharged = 0
        self.axioms = {}
        self.extra_cov = {}

    # ------------------------------------------------------------------ builds
    def prepare(self, variants=None):
        variants = variants or VARIANTS_OF.get(self.prop, {}).get(self.tier, ["default"])
        from concurrent.futures import ThreadPoolExecutor
        with ThreadPoolExecutor(max_workers=2) as ex:
            fl = ex.submit(vlib.lean_build, self.scr)
            fv = ex.submit(vlib.build_variants, self.scr, variants)
            self.lean = fl.result()
            self.drives = fv.result()
        self.check_proofs()

    def check_proofs(self):
        thms = THEOREMS.get(self.prop, [])
        self.obligations = len(thms)
        lb = self.lean
        if not lb["extract_ok"]:
            self.p_fail.append(dict(what="translator", detail=lb["log"][-1500:]))
            return
        hits = vlib.audit_sources()
        if hits:
            self.p_fail.append(dict(what="forbidden construct in the Lean sources", detail=hits[:10]))
        needed = closure({m for m, _ in thms})
        failed = set(lb.get("failed", []))
        bad_mods = sorted(needed & failed)
        if not lb["ok"] and not os.path.exists(lb.get("driver", "")):
            self.p_fail.append(dict(what="model does not build", detail=lb["log"][-2500:]))
        if bad_mods:
            # which theorem broke? take the error lines
            errs = re.findall(r"^error: (\S+?):(\d+):\d+: (.*)$", lb["log"], flags=re.M)
            self.p_fail.append(dict(what="modules no longer check: " + ", ".join(bad_mods),
                                    detail=["%s:%s %s" % e for e in errs[:8]], modules=bad_mods))
        ok_thms = [t for t in thms if t[0] not in failed and not (closure({t[0]}) & failed)]
        if ok_thms:
            ax, raw = vlib.print_axioms(ok_thms)
            for m, t in ok_thms:
                a = ax.get(t)
                if a is None:
                    self.p_fail.append(dict(what="theorem missing: " + t, detail=raw[-800:]))
                elif not set(a) <= ALLOWED_AXIOMS:
                    self.p_fail.append(dict(what="theorem %s depends on axioms %s" % (t, a)))
                else:
                    self.discharged += 1
                    self.axioms[t] = a

    def drive(self, v="default"):
        return self.drives[v]

    # ------------------------------------------------------------------ K and S
    def run(self, name, variant, ops):
        """run model ops through harness and model; returns (c_lines, lean_lines)"""
        c, l, crashes = vlib.run_ops(self.scr, self.drive(variant), self.lean["driver"], ops, tag=name.replace("/", "_") + "_" + variant.replace("+", "_"))
        for cr in crashes:
            cr["stream"], cr["variant"] = name, variant
            self.crashes.append(cr)
        return c, l

    def K(self, name, variant, ops, project=None, nontrivial=None):
        c, l = self.run(name, variant, ops)
        norm = lambda s: re.sub(r"FAULT.*", "FAULT", s or "")
        bad = 0
        for op, a, b in zip(ops, c, l):
            a, b = norm(a), norm(b)
            pa, pb = (project(op, a), project(op, b)) if project else (a, b)
            if pa != pb:
                bad += 1
                if len(self.k_fail) < 20:
                    self.k_fail.append(dict(stream=name, variant=variant, op=op, impl=a, model=b))
            self.hist[(name, a.split(" ", 2)[1] if " " in a else a)] += 1
            if nontrivial is None or nontrivial(op, a):
                self.nontrivial.add(op)
        self.evals += len(ops)
        st = self.streams.setdefault(name + "@" + variant, dict(ops=0, k_mismatch=0))
        st["ops"] += len(ops); st["k_mismatch"] += bad
        if ops and len(self.samples) < 12:
            k = self.rng.randrange(len(ops))
            self.samples.append(dict(stream=name, variant=variant, op=ops[k], impl=c[k], model=l[k]))
        return c

    def spec(self, ops):
        """evaluate spec ops with the compiled Lean driver"""
        if not ops:
            return []
        fi = os.path.join(self.scr.dir, "spec_%d.in" % len(self.streams))
        fo = fi[:-3] + ".out"
        with open(fi, "w") as f:
            f.write("\n".join(ops) + "\n")
        p = subprocess.run([self.lean["driver"], fi, fo], stdout=subprocess.PIPE, stderr=subprocess.PIPE)
        if p.returncode != 0:
            raise RuntimeError("driver failed on spec ops: " + p.stderr.decode()[-300:])
        return open(fo).read().split("\n")[:-1]

    def S(self, what, **witness):
        if len(self.s_fail) < 200:
            self.s_fail.append(dict(what=what, **witness))

    def broken(self, what, detail):
        self.p_fail.append(dict(what=what, detail=detail))

    def note(self, s):
        self.notes.append(s)

    # ------------------------------------------------------------------ verdict
    def finish(self, wall):
        known = json.load(open(os.path.join(VERIF, "known_findings.json")))
        open_f = [k for k in known.get("open", []) if k["property"] == self.prop]
        rc = 0
        lines = []
        rdir = os.path.join(VERIF, "replays", self.prop)

        def write_replay(obj):
            os.makedirs(rdir, exist_ok=True)
            blob = json.dumps(obj, indent=1, sort_keys=True, ensure_ascii=False)
            path = os.path.join(rdir, hashlib.sha1(blob.encode()).hexdigest()[:12] + ".json")
            with open(path, "w") as f:
                f.write(blob + "\n")
            return os.path.relpath(path, VERIF)

        # crashes of the real code are concrete failing inputs
        for cr in self.crashes:
            self.S("the library faults (%s)" % cr["kind"], op=cr.get("op"), variant=cr.get("variant"), stderr=cr.get("stderr", "")[-600:])
        unlisted = []
        for s in self.s_fail:
            key = s.get("op") or s.get("input") or s["what"]
            hit = [k for k in open_f if k.get("witness") == key]
            if hit:
                lines.append("KNOWN-FINDING: property=%s %s" % (self.prop, hit[0].get("what", s["what"])))
            else:
                unlisted.append(s)
        seen_kf = set()
        lines = [x for x in lines if not (x in seen_kf or seen_kf.add(x))]
        if unlisted:
            rc = 1
            groups = collections.OrderedDict()
            for s in unlisted:
                groups.setdefault(s["what"], []).append(s)
            for what, ss in list(groups.items())[:6]:
                rp = write_replay(dict(property=self.prop, kind="failing-input", what=what, witness=ss[0], more=len(ss) - 1,
                                       tier=self.tier, seed=self.seed,
                                       model_disagreements=self.k_fail[:3], proofs_broken=[p["what"] for p in self.p_fail][:5]))
                lines.append("VIOLATION property=%s replay=%s" % (self.prop, rp))
        elif self.p_fail or self.k_fail:
            rc = 1
            rp = write_replay(dict(property=self.prop, kind="no-failing-input-found",
                                   no_longer_checks=[p["what"] for p in self.p_fail] + (["K:" + k["stream"] for k in self.k_fail[:5]]),
                                   proof_details=self.p_fail[:5], model_disagreements=self.k_fail[:10], tier=self.tier, seed=self.seed,
                                   searched="%d evaluations of the executable specification against the implementation, none failing" % self.evals))
            lines.append("VIOLATION property=%s replay=%s no-failing-input-found" % (self.prop, rp))
        for ln in lines:
            print(ln)
        ev = dict(property_id=self.prop, tier=self.tier, seed=self.seed, level="proof",
                  coverage=dict(obligations=max(self.obligations, 1), discharged=self.discharged,
                                checker_cmd="cd /verif/lean && lake build && lake env lean <file with `#print axioms` for each obligation> (run by ./check %s)" % self.prop,
                                trusted_base=TRUSTED + TRUSTED_EXTRA.get(self.prop, []),
                                theorems={t: a for t, a in self.axioms.items()},
                                evaluations=self.evals, distinct_nontrivial=len(self.nontrivial),
                                rule=RULES.get(self.prop, "distinct op lines whose result is not one of the first-check rejections"),
                                samples=self.samples[:12], streams=self.streams,
                                result_histogram={"%s:%s" % k: v for k, v in sorted(self.hist.items(), key=lambda kv: -kv[1])[:60]},
                                correspondence_mismatches=len(self.k_fail), spec_failures=len(self.s_fail), crashes=len(self.crashes),
                                proofs_broken=[p["what"] for p in self.p_fail], notes=self.notes, **self.extra_cov),
                  assumptions=ASSUME.get(self.prop, []) + ["inputs are NUL-free byte strings stored NUL-terminated, length == strlen; \"C\" locale; malloc does not fail"],
                  wall_s=round(wall, 2), violations=0 if rc == 0 else max(1, len(unlisted)))
        os.makedirs(os.path.join(VERIF, "evidence"), exist_ok=True)
        with open(os.path.join(VERIF, "evidence", self.prop + ".json"), "w") as f:
            json.dump(ev, f, indent=1, ensure_ascii=False, default=str)
        vlib.log("%s %s: %d evals, %d K mismatches, %d S failures, %d crashes, P %d/%d, %.1fs -> exit %d" %
                 (self.prop, self.tier, self.evals, len(self.k_fail), len(self.s_fail), len(self.crashes), self.discharged, self.obligations, wall, rc))
        return rc


RULES = {}
ASSUME = {}
TRUSTED_EXTRA = {}
VARIANTS_OF = {
    "C04": {"quick": ["default", "underscore"], "thorough": ["default", "underscore"]},
    "C16": {"quick": ["default", "extra"], "thorough": ["default", "extra"]},
    "C06": {"quick": ["default", "extra"], "thorough": ["default", "extra", "all3"]},
    "C17": {"quick": ["default", "rfc20", "rfc5322", "underscore"],
            "thorough": ["default", "rfc20", "rfc5322", "underscore", "rfc20+rfc5322", "rfc20+underscore", "rfc5322+underscore", "all3"]},
}
MODES = (822, 5321, 5322, 6531)


def accept_bit(line):
    """projection 'decision' for L / D ops: rc == 0"""
    parts = line.split(" ")
    return parts[0] + (" acc" if len(parts) > 1 and parts[1] == "0" else " rej") if "FAULT" not in line else line


# ===================================================================== C02
def c02(ctx):
    strs = gen.local_strings(ctx.tier, ctx.rng, utf8=False)
    strs = list(dict.fromkeys(strs))
    for m in (822, 5321, 5322):
        ops = ["L %d %s %s" % (m, hx(s), hx(gen.AT)) for s in strs]
        c = ctx.K("local%d" % m, "default", ops, project=lambda op, ln: accept_bit(ln),
                  nontrivial=lambda op, ln: not ln.endswith(" -4"))
        sp = ctx.spec(["sL %d %s" % (m, hx(s)) for s in strs])
        for s, cl, sl in zip(strs, c, sp):
            if 0 in s:
                continue
            if (cl == "L 0") != (sl == "sL 1"):
                ctx.S("mode %d local part decided against the grammar word *(\".\" word)" % m, op="L %d %s %s" % (m, hx(s), hx(gen.AT)),
                      input=repr(s), impl=cl, spec=sl)
    # the byte at *end may be read by the 822 folding test: the decision must not depend on it
    fold = [s for s in strs if b"\r\n" in s][:3000]
    for endb in (b" \0", b"\t\0", b"\0"):
        ops = ["L 822 %s %s" % (hx(s), hx(endb)) for s in fold]
        c = ctx.K("local822-end", "default", ops, project=lambda op, ln: accept_bit(ln))
        sp = ctx.spec(["sL 822 %s" % hx(s) for s in fold])
        for s, cl, sl in zip(fold, c, sp):
            if (cl == "L 0") != (sl == "sL 1"):
                ctx.S("mode 822 decision depends on the byte after the local part", op="L 822 %s %s" % (hx(s), hx(endb)), input=repr(s), impl=cl, spec=sl)
RULES["C02"] = "distinct (mode, local part) pairs whose result is not EEAV_LPART_EMPTY; bounded-exhaustive over a 14-class alphabet, every byte value in 130 contexts, byte pairs, folding/blank families, grammar-directed random with mutations"


# ===================================================================== C03
def c03(ctx):
    strs = gen.local_strings(ctx.tier, ctx.rng, utf8=True)
    strs += gen.utf8_in_context(gen.utf8_sequences(ctx.tier, ctx.rng))
    strs = list(dict.fromkeys(strs))
    ops = ["L 6531 %s %s" % (hx(s), hx(gen.AT)) for s in strs]
    c = ctx.K("local6531", "default", ops, project=lambda op, ln: accept_bit(ln), nontrivial=lambda op, ln: not ln.endswith(" -4"))
    sp = ctx.spec(["sL 6531 %s" % hx(s) for s in strs])
    for s, cl, sl in zip(strs, c, sp):
        if 0 in s:
            continue
        if (cl == "L 0") != (sl == "sL 1"):
            ctx.S("mode 6531 local part decided against strict UTF-8 + the RFC 5321 grammar", op="L 6531 %s %s" % (hx(s), hx(gen.AT)), input=repr(s), impl=cl, spec=sl)
    # pure ASCII: 6531 and 5321 decide identically
    asc = [s for s in strs if all(b < 128 for b in s)]
    c5 = ctx.K("local5321-ascii", "default", ["L 5321 %s %s" % (hx(s), hx(gen.AT)) for s in asc], project=lambda op, ln: accept_bit(ln))
    c6 = {s: cl for s, cl in zip(strs, c)}
    for s, a in zip(asc, c5):
        if 0 in s:
            continue
        if (a == "L 0") != (c6[s] == "L 0"):
            ctx.S("modes 6531 and 5321 disagree on a pure-ASCII local part", op="L 6531 %s %s" % (hx(s), hx(gen.AT)), input=repr(s), m5321=a, m6531=c6[s])
    # a.X.b for non-ASCII X
    xs = [chr(cp).encode() for cp in list(range(0x80, 0x800, 7)) + list(range(0x800, 0xD800, 251)) + list(range(0xE000, 0x10000, 257)) + list(range(0x10000, 0x110000, 4099))]
    ops = ["L 6531 %s %s" % (hx(b"a." + x + b".b"), hx(gen.AT)) for x in xs]
    c = ctx.K("a.X.b", "default", ops, project=lambda op, ln: accept_bit(ln))
    for x, cl in zip(xs, c):
        if cl != "L 0":
            ctx.S("a.X.b rejected for a non-ASCII character X", op="L 6531 %s %s" % (hx(b"a." + x + b".b"), hx(gen.AT)), impl=cl)
RULES["C03"] = "distinct local parts not rejected as empty; all 1-2 byte sequences over 0x80-0xFF, 3-byte and 4-byte covers in atom/quoted/escaped/between-dots position, bounded-exhaustive mixes of structure characters with multi-byte characters"


# ===================================================================== C04
def c04(ctx):
    strs = list(dict.fromkeys(gen.domain_strings(ctx.tier, ctx.rng)))
    for v, us in (("default", 0), ("underscore", 1)):
        ops = ["D %s 00" % hx(s) for s in strs]
        c = ctx.K("domain", v, ops, project=lambda op, ln: accept_bit(ln), nontrivial=lambda op, ln: not ln.endswith(" -16"))
        sp = ctx.spec(["sD %d %s" % (us, hx(s)) for s in strs])
        for s, cl, sl in zip(strs, c, sp):
            if 0 in s:
                continue
            if (cl == "D 0") != (sl == "sD 1"):
                ctx.S("host name decided against the LDH / 63 / 253 / not-all-numeric rules (underscore=%d)" % us, op="D %s 00" % hx(s), variant=v, input=repr(s), impl=cl, spec=sl)
    # the byte at *end: pins the look-ahead of the hyphen test (model and code must agree; no spec claim)
    sub = [s for s in strs if s.endswith(b"-") or s.endswith(b"-.")][:2000]
    for after in (b"x\0", b".\0", b"-\0"):
        ctx.K("domain-after", "default", ["D %s %s" % (hx(s), hx(after)) for s in sub])
    # mode 6531: the same rules on the A-label the IDN library produced
    idn = [s.encode() for s in gen.IDN_SAMPLES] + strs[:3000:3]
    ops = ["U 0 %s" % hx(s) for s in idn if s and 0 not in s]
    c, l = ctx.run("utf8domain", "default", ops)
    ctx.evals += len(ops)
    lean_in = open(os.path.join(ctx.scr.dir, "utf8domain_default.leanin")).read().split("\n")[1:]
    alabels = []
    for op, cl, li in zip(ops, c, lean_in):
        m = re.search(r" @ (-?\d+) (\S+)", li)
        if cl.startswith("U 0") and m and m.group(1) == "0" and m.group(2) != "-":
            alabels.append((op, bytes.fromhex(m.group(2))))
    sp = ctx.spec(["sD 0 %s" % hx(a) for _, a in alabels])
    for (op, a), sl in zip(alabels, sp):
        if sl != "sD 1":
            ctx.S("mode 6531 accepted a domain whose A-label violates the host-name rules", op=op, alabel=repr(a))
    for op, a, b in zip(ops, c, l):
        if a != b:
            ctx.k_fail.append(dict(stream="utf8domain", variant="default", op=op, impl=a, model=b))
RULES["C04"] = "distinct domains not rejected as empty; exhaustive over {letter,digit,-,.,_,!} to length 7 (8 thorough), every label length 0-70 in first/middle/last position, totals 236-263 with 0-2 trailing dots, every byte value in 6 contexts, random label mixes; default and LABELS_ALLOW_UNDERSCORE builds"


PROPS = collections.OrderedDict()
PROPS["C02"] = c02
PROPS["C03"] = c03
PROPS["C04"] = c04


def replay(ctx, path):
    obj = json.load(open(path))
    w = obj.get("witness", {})
    op = w.get("op")
    if not op:
        print("replay names no input:", json.dumps(obj.get("no_longer_checks")))
        ctx.broken("replay", "no concrete input in replay file")
        return
    v = w.get("variant") or "default"
    ctx.prepare([v])
    c, l = ctx.run("replay", v, [op])
    print("op:", op)
    print("implementation:", c[0])
    print("model:         ", l[0])
    print("recorded:      ", {k: w[k] for k in w if k not in ("op",)})
    ctx.evals += 1
    ctx.S("replayed " + obj.get("what", ""), op=op, impl=c[0])
