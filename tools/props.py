"""Per-property checks: which builds, which input streams, which observables (K), which executable
specification (S) and which theorems (P) decide each of C01..C20."""
import collections, hashlib, json, os, random, re, subprocess, sys, time
import vlib, gen
from vlib import VERIF, LEAN, hx

ALLOWED_AXIOMS = {"propext", "Classical.choice", "Quot.sound"}

# (module, fully qualified theorem) per property: the proof obligations of the property.
GENTIE = "Eav.Props.GenTie"
TIE_MODULE = {}
for _mod, _names in {
    "Enums": ["errEnum_eq", "tldTypeEnum_eq", "tldBitEnum_eq", "rfcEnum_eq", "limits_eq"],
    "Errors": ["errors_tags", "errors_runtime", "errors_nonempty", "errors_distinct"],
    "Special": ["reserved_eq", "example_eq", "exampleLabel_eq", "lenFilter_eq"],
    "Scanners": ["specials_eq"],
    "Build": ["buildOpts_eq"],
    "Init": ["init_sets_all", "init_fields", "init_values", "setup_eq"],
    "Globals": ["no_mutable_globals", "externals_mt_safe"],
}.items():
    for _n in _names:
        TIE_MODULE[_n] = "Eav.Props.Tie." + _mod


def _gt(*names):
    return [(TIE_MODULE[n], GENTIE + "." + n) for n in names]

THEOREMS = {
    "C01": _gt("errEnum_eq", "rfcEnum_eq", "setup_eq", "limits_eq") + [("Eav.Props.C01", "Eav.Props.C01." + n) for n in
            ("splitLast_iff", "email_iff", "always_rejected", "rc_nonpos_off", "setup_selects_mode", "eavIsEmail_spec", "localOf_nonpos",
             "invalid_local_any_domain", "valid_local_domain_decides", "literal_branch_mode_free")],
    "C02": _gt("errEnum_eq", "specials_eq") + [("Eav.Props.C02", "Eav.Props.C02." + n) for n in
            ("local_iff_5321", "local_iff_822", "local_iff_5322", "no_high_byte", "no_leading_dot")] + [("Eav.Props.C01", "Eav.Props.C01.invalid_local_any_domain")] +
           [("Eav.Lemmas.LocalGrammar", "Eav.Spec.specLocal_iff"), ("Eav.Lemmas.LocalScan", "Eav.is5321Local_iff"),
            ("Eav.Lemmas.LocalScan", "Eav.is822Local_iff"), ("Eav.Lemmas.LocalScan", "Eav.is5322Local_iff")],
    "C03": _gt("errEnum_eq", "specials_eq", "buildOpts_eq") + [("Eav.Props.C03", "Eav.Props.C03." + n) for n in
            ("utf8_iff", "local6531_iff", "invalid_utf8_rejected", "ascii_agrees_5321", "nonascii_between_dots")] + [("Eav.Props.C01", "Eav.Props.C01.invalid_local_any_domain")] +
           [("Eav.Lemmas.Utf8", "Eav.decodeNext_sound"), ("Eav.Lemmas.Utf8", "Eav.decodeNext_complete"), ("Eav.Lemmas.Utf8", "Eav.decAll_iff"),
            ("Eav.Lemmas.Local6531", "Eav.is6531Local_iff"), ("Eav.Lemmas.LocalGrammar", "Eav.Spec.specLocal_iff"),
            ("Eav.Lemmas.Local6531C", "Eav.is6531LocalC_eq")],
    "C04": _gt("errEnum_eq", "limits_eq", "buildOpts_eq") + [("Eav.Props.C04", "Eav.Props.C04." + n) for n in
            ("host_iff", "isAsciiDomain_iff_spec", "specHost_iff", "host6531_sound", "isAsciiDomain_nonpos")] + [("Eav.Lemmas.Domain", "Eav.domLoop_ok")],
    "C05": _gt("errEnum_eq") + [("Eav.Props.C05", n) for n in
            ("Eav.isIpv4_literal", "Eav.isIpv6_upper", "Eav.isIpv6_lower")] + [("Eav.Props.C05", "Eav.Props.C05." + n) for n in
            ("literal_upper", "literal_lower", "literal_family", "literal_every_mode", "literal_accepted_record",
             "literalUpper_iff", "literalLower_iff", "literal_sandwich", "email_literal")] + [("Eav.Lemmas.IpSpec", "Eav.v6_4291_iff"), ("Eav.Lemmas.IpSpec", "Eav.v6_5321_iff")],
    "C06": _gt("init_sets_all", "init_fields", "limits_eq", "lenFilter_eq") + [("Eav.Props.C06", "Eav.Props.C06." + n) for n in
            ("isAsciiDomain_ok", "isIpv4_ok", "isIpv6_ok", "checkIp_ok", "isSpecialDomain_ok", "checkTld_ok", "isUtf8Domain_ok", "isEmail_ok", "step_isEmail_ok")] +
           [("Eav.Props.C13", "Eav.Props.C13." + n) for n in ("run_inv", "free_releases", "lifecycle_releases")] +
           [("Eav.Props.C16", "Eav.Props.C16.no_abort"), ("Eav.Props.C09", "Eav.Props.C09.copyLabel_take"), ("Eav.Props.C15", "Eav.Props.C15.errcode_lt_max")] +
           [("Eav.Props.C06Cost", "Eav.Props.C06.Cost." + n) for n in ("isIpv4_linear", "isIpv6_linear", "specialTicks_linear", "tldTicks_le", "table_weight", "isTld_const")] +
           [("Eav.Props.C06CostEmail", "Eav.Props.C06.Cost." + n) for n in ("isAsciiDomainT_fst", "isAsciiDomainT_le", "checkTldTicks_le", "checkIpTicks_le", "hostTicks_le", "emailTicks_linear")],
    "C07": _gt("errEnum_eq", "tldTypeEnum_eq") + [("Eav.Props.C07", "Eav.Props.C07." + n) for n in
            ("tldScan_eq_lookup", "isTld_eq_lookup", "whole_label", "case_insensitive", "isTld_eq_csv")] +
           [("Eav.Props.C07Api", "Eav.Props.C07." + n) for n in ("classified_by_last_label", "class_ignores_prefix", "single_label_not_fqdn", "api_record_any_mask")] +
           [("Eav.Props.C11", "Eav.Props.C11." + n) for n in ("table_eq_gen", "lengths_and_types", "names_lower_alabel", "names_distinct")],
    "C08": _gt("errEnum_eq", "tldTypeEnum_eq", "tldBitEnum_eq", "init_values") + [("Eav.Props.C08", "Eav.Props.C08." + n) for n in
            ("policyArm_eq", "policy_iff", "own_bit_only", "negative_rc_any_mask", "zero_rc_any_mask", "mask_irrelevant_unless_class",
             "abort_only_outside_classes", "init_defaults")],
    "C09": _gt("reserved_eq", "example_eq", "exampleLabel_eq", "lenFilter_eq", "tldTypeEnum_eq") + [("Eav.Props.C09", "Eav.Props.C09." + n) for n in
            ("walkers", "skip_to_last_two", "checkTable_iff", "filter_ok", "tail_decision", "special_iff", "special_iff_host", "copyLabel_take")] +
           [("Eav.Props.C09Api", "Eav.Props.C09." + n) for n in ("no_special_row", "isTld_ne_special", "special_class_iff_reserved", "tld_off_no_class")] +
           [("Eav.Props.C09Email", "Eav.Props.C09." + n) for n in ("email_special_sound", "email_special_only_reserved")],
    "C10": _gt("errEnum_eq") + [("Eav.Props.C10", "Eav.Props.C10." + n) for n in
            ("same_conversion_same_outcome", "isAsciiDomain_lower", "ascii_domain_agree", "checkTld_lower", "utf8_as_ascii", "ascii_modes_agree",
             "refusal_is_idn_error")] + [("Eav.Props.C19", "Eav.Props.C19.idn_failure_rejected")],
    "C11": _gt("tldTypeEnum_eq") + [("Eav.Props.C11", "Eav.Props.C11." + n) for n in
            ("table_eq_gen", "names_sorted", "names_distinct", "names_lower_alabel", "lengths_and_types", "same_rows", "ascii_rows_equal",
             "types_equal", "domains_txt_eq")] + [("Eav.Props.C07", "Eav.Props.C07.isTld_eq_csv")],
    "C12": _gt("errEnum_eq", "specials_eq") + [("Eav.Props.C12", "Eav.Props.C12." + n) for n in
            ("unquoted_same", "isLocal_mono", "local_incl", "hostPart_shared", "domain_verdict_shared", "incl_5321_822")],
    "C13": _gt("init_values", "setup_eq", "init_sets_all") + [("Eav.Props.C13", "Eav.Props.C13." + n) for n in
            ("inv_init", "isEmail_outcome", "errstr_latest", "failed_setup_keeps_mode", "inv_setup", "free_releases", "reinit_ok",
             "inv_settings", "run_inv", "lifecycle_releases", "failed_create_keeps_mode", "failed_create_invisible", "setupFail_eq_setup", "inv_setupFail")],
    "C14": _gt("no_mutable_globals", "externals_mt_safe") + [("Eav.Props.C14", "Eav.Props.C14.sched_indep"), ("Eav.Props.C14", "Eav.Props.C14.shared_is_empty")],
    "C15": _gt("errEnum_eq", "errors_tags", "errors_runtime", "errors_nonempty", "errors_distinct", "setup_eq") +
           [("Eav.Props.C15", "Eav.Props.C15." + n) for n in
            ("localOf_range", "isAsciiDomain_range", "verdict_shape", "code_origin", "lpart_code_sound", "too_many_dots_sound", "domain_code_sound", "rc_lower", "errcode_lt_max")] +
           [("Eav.Props.C13", "Eav.Props.C13.errstr_latest"), ("Eav.Props.C13", "Eav.Props.C13.failed_setup_keeps_mode"),
            ("Eav.Props.C19", "Eav.Props.C19.idn_failure_contained")],
    "C16": _gt("errEnum_eq", "tldTypeEnum_eq") + [("Eav.Props.C16", "Eav.Props.C16." + n) for n in
            ("checkIp_flags", "isTld_range", "checkTld_range", "rc_shape", "no_abort", "flags", "extra_strings")] +
           [("Eav.Props.C05", "Eav.Props.C05.email_literal")],
    "C17": _gt("buildOpts_eq", "specials_eq") + [("Eav.Props.C17", "Eav.Props.C17." + n) for n in
            ("ascii_locals_ignore_options", "locals_ignore_underscore", "domain_ignores_local_options", "underscore_iff", "underscore_monotone",
             "rfc5322_ascii", "utf8_necessary_all_builds", "rfc20_no_effect", "rfc20_exact", "defaults_off")],
    "C18": _gt("setup_eq", "init_values") + [("Eav.Props.C18", "Eav.Props.C18." + n) for n in
            ("setupAscii_agree", "setup6531_agree", "eavSetup_agree", "backends_agree")] +
           [("Eav.Props.C13", "Eav.Props.C13." + n) for n in ("inv_setup", "free_releases", "run_inv", "lifecycle_releases")],
    "C19": _gt("errEnum_eq") + [("Eav.Props.C19", "Eav.Props.C19." + n) for n in
            ("idn_failure_rejected", "idn_failure_verdict", "idn_failure_contained")] + [("Eav.Props.C13", "Eav.Props.C13.isEmail_outcome")],
    "C20": _gt("init_values") + [("Eav.Props.C20", "Eav.Props.C20." + n) for n in
            ("getlines_flatten", "getlinesAux_records", "sanitize_clean", "echo_unchanged", "trim_plain", "verdicts_le_lines", "getlinesAux_append_lf", "cliLines_append_lf")] +
           [("Eav.Props.C20Main", "Eav.Props.C20." + n) for n in
            ("step_isEmail_spec", "parseLines_spec", "specLines_blocks", "parseFiles_spec", "tool_setup", "cliMain_files", "cliMain_ok", "trimLine_none_iff", "verdict_count")] +
           [("Eav.Props.C20Spec", "Eav.Props.C20." + n) for n in ("accepted_shape", "verdict_pass_nonneg", "pass_sound", "fail_has_message")] +
           [("Eav.Props.C13", "Eav.Props.C13.isEmail_outcome"), ("Eav.Props.C13", "Eav.Props.C13.free_releases"), ("Eav.Props.C06", "Eav.Props.C06.step_isEmail_ok")],
}

# the model's functions are pure: that the code keeps no state between calls (no object with static or thread-local storage in a writable
# section of any object file, EAV_EXTRA and all back ends included) is an obligation of EVERY property, re-read from the objects on every run
for _p in THEOREMS:
    if (TIE_MODULE["no_mutable_globals"], GENTIE + ".no_mutable_globals") not in THEOREMS[_p]:
        THEOREMS[_p] = THEOREMS[_p] + _gt("no_mutable_globals")

TRUSTED = [
    "Lean 4.33 kernel; axioms limited to propext, Classical.choice, Quot.sound (audited with #print axioms on every run); no sorry/admit/native_decide/bv_decide/own axioms (grepped on every run)",
    "tools/extract.py + harness/dump.c: that Eav/Gen/*.lean equals the enums, tables, initialisers, case lists, Makefile defaults and symbol tables of the tree it was run on",
    "correspondence check (harness/drive.c under ASan+UBSan vs the compiled Lean driver): the control flow of the scanners and of eav_* is modelled by hand and tied to the C code by differential testing over the generated inputs only",
    "the statements in lean/Eav/Props and the specifications in lean/Eav/Spec, to be read against the property text",
    "clang 14 / ASan / UBSan / LSan; libidn2 2.3.3 as the IDN oracle (its answers are recorded and replayed into the model); the \"C\" locale for <ctype.h> and strncasecmp",
]


def cvhex(tok):
    """output field of a recorded conversion: `=` is the empty string (`-` is no buffer at all)"""
    return b"" if tok == "=" else bytes.fromhex(tok)


def imports_of(module):
    path = os.path.join(LEAN, module.replace(".", "/") + ".lean")
    if not os.path.exists(path):
        return []
    out = []
    for line in open(path, encoding="utf-8"):
        m = re.match(r"^import\s+(\S+)", line)
        if m and m.group(1).startswith("Eav"):
            out.append(m.group(1))
    return out


def closure(mods):
    seen, todo = set(), list(mods)
    while todo:
        m = todo.pop()
        if m in seen:
            continue
        seen.add(m)
        todo += imports_of(m)
    return seen


class Ctx:
    def __init__(self, prop, tier, seed, scr):
        self.prop, self.tier, self.seed, self.scr = prop, tier, seed, scr
        self.rng = random.Random(seed * 1000003 + int(prop[1:]))
        self.drives = {}
        self.lean = None
        self.p_fail = []          # theorems / modules that no longer check
        self.k_fail = []          # model-vs-implementation disagreements
        self.s_fail = []          # spec-vs-implementation: concrete witnesses
        self.crashes = []
        self.evals = 0
        self.nontrivial = set()
        self.samples = []
        self.streams = collections.OrderedDict()
        self.hist = collections.Counter()
        self.notes = []
        self.obligations = 0
        self.discharged = 0
        self.axioms = {}
        self.extra_cov = {}

    # ------------------------------------------------------------------ builds
    def prepare(self, variants=None):
        variants = variants or VARIANTS_OF.get(self.prop, {}).get(self.tier, ["default"])
        from concurrent.futures import ThreadPoolExecutor
        with ThreadPoolExecutor(max_workers=2) as ex:
            fl = ex.submit(vlib.lean_build, self.scr)
            fv = ex.submit(vlib.build_variants, self.scr, variants)
            self.lean = fl.result()
            self.drives = fv.result()
        self.check_proofs()

    def check_proofs(self):
        thms = THEOREMS.get(self.prop, [])
        self.obligations = len(thms)
        lb = self.lean
        if not lb["extract_ok"]:
            self.p_fail.append(dict(what="translator", detail=lb["log"][-1500:]))
            return
        hits = vlib.audit_sources()
        if hits:
            self.p_fail.append(dict(what="forbidden construct in the Lean sources", detail=hits[:10]))
        needed = closure({m for m, _ in thms})
        failed = set(lb.get("failed", []))
        bad_mods = sorted(needed & failed)
        if not lb.get("driver_ok", False):
            self.p_fail.append(dict(what="model does not build", detail=lb["log"][-2500:]))
        if bad_mods:
            # which theorem broke? take the error lines
            errs = re.findall(r"^error: (\S+?):(\d+):\d+: (.*)$", lb["log"], flags=re.M)
            self.p_fail.append(dict(what="modules no longer check: " + ", ".join(bad_mods),
                                    detail=["%s:%s %s" % e for e in errs[:8]], modules=bad_mods))
        ok_thms = [t for t in thms if t[0] not in failed and not (closure({t[0]}) & failed)]
        if ok_thms:
            ax, raw = vlib.print_axioms(ok_thms)
            for m, t in ok_thms:
                a = ax.get(t)
                if a is None:
                    self.p_fail.append(dict(what="theorem missing: " + t, detail=raw[-800:]))
                elif not set(a) <= ALLOWED_AXIOMS:
                    self.p_fail.append(dict(what="theorem %s depends on axioms %s" % (t, a)))
                else:
                    self.discharged += 1
                    self.axioms[t] = a
        # thorough tier: the compiled proofs of the property's modules are re-checked by leanchecker (independent of the elaborator)
        if self.tier != "quick" and ok_thms:
            rechecked = {}
            for mod in sorted({m for m, _ in ok_thms}):
                with vlib.LeanLock():
                    p = subprocess.run(["lake", "env", "leanchecker", mod], cwd=vlib.LEAN, stdout=subprocess.PIPE, stderr=subprocess.STDOUT)
                rechecked[mod] = (p.returncode == 0)
                if p.returncode != 0:
                    self.p_fail.append(dict(what="leanchecker rejects module " + mod, detail=p.stdout.decode(errors="replace")[-800:], modules=[mod]))
            self.extra_cov["leanchecker"] = rechecked

    def drive(self, v="default"):
        return self.drives[v]

    def locales(self):
        """environments for the harness: the process has selected a UTF-8 / a single-byte locale before calling the library"""
        if not hasattr(self, "_locales"):
            self._locales = vlib.make_locales(self.scr)
            self.extra_cov["locales_exercised"] = [e["VERIF_LOCALE"] for e in self._locales]
        return self._locales

    # ------------------------------------------------------------------ K and S
    def run(self, name, variant, ops, env=None):
        """run model ops through harness and model; returns (c_lines, lean_lines)"""
        c, l, crashes = vlib.run_ops(self.scr, self.drive(variant), self.lean["driver"], ops, tag=name.replace("/", "_").replace(":", "_") + "_" + variant.replace("+", "_").replace(":", "_"),
                                     env_extra=env)
        for cr in crashes:
            cr["stream"], cr["variant"] = name, variant
            self.crashes.append(cr)
        for op, ln in zip(ops, c):
            if ln and " CONVIN:" in ln:
                self.S("the IDN converter was asked about something else than the domain part of the address (the limits and rules apply to the whole domain as given)",
                       op=op, variant=variant, impl=ln, converter_input=ln.split(" CONVIN:")[1][:120])
        return c, l

    def K(self, name, variant, ops, project=None, nontrivial=None, env=None):
        c, l = self.run(name, variant, ops, env=env)
        norm = lambda s: re.sub(r"FAULT.*", "FAULT", s or "")
        bad = 0
        for op, a, b in zip(ops, c, l):
            a, b = norm(a), norm(b)
            pa, pb = (project(op, a), project(op, b)) if project else (a, b)
            if pa != pb:
                bad += 1
                if len(self.k_fail) < 20:
                    self.k_fail.append(dict(stream=name, variant=variant, op=op, impl=a, model=b))
            self.hist[(name, a.split(" ", 2)[1] if " " in a else a)] += 1
            try:
                nt = nontrivial is None or nontrivial(op, a)
            except Exception:          # a FAULT line has no fields to look at: a crash is never trivial
                nt = True
            if nt:
                self.nontrivial.add(op)
        self.evals += len(ops)
        st = self.streams.setdefault(name + "@" + variant, dict(ops=0, k_mismatch=0))
        st["ops"] += len(ops); st["k_mismatch"] += bad
        if ops and len(self.samples) < 12:
            k = self.rng.randrange(len(ops))
            self.samples.append(dict(stream=name, variant=variant, op=ops[k], impl=c[k], model=l[k]))
        return c

    def spec(self, ops):
        """evaluate spec ops with the compiled Lean driver"""
        if not ops:
            return []
        fi = os.path.join(self.scr.dir, "spec_%d.in" % len(self.streams))
        fo = fi[:-3] + ".out"
        with open(fi, "w") as f:
            f.write("\n".join(ops) + "\n")
        p = subprocess.run([self.lean["driver"], fi, fo], stdout=subprocess.PIPE, stderr=subprocess.PIPE)
        if p.returncode != 0:
            raise RuntimeError("driver failed on spec ops: " + p.stderr.decode()[-300:])
        return open(fo).read().split("\n")[:-1]

    def S(self, what, **witness):
        if len(self.s_fail) < 200:
            self.s_fail.append(dict(what=what, **witness))

    def broken(self, what, detail):
        self.p_fail.append(dict(what=what, detail=detail))

    def note(self, s):
        self.notes.append(s)

    # ------------------------------------------------------------------ verdict
    def finish(self, wall):
        known = json.load(open(os.path.join(VERIF, "known_findings.json")))
        open_f = [k for k in known.get("open", []) if k["property"] == self.prop]
        rc = 0
        lines = []
        rdir = os.path.join(VERIF, "replays", self.prop)

        def write_replay(obj):
            os.makedirs(rdir, exist_ok=True)
            blob = json.dumps(obj, indent=1, sort_keys=True, ensure_ascii=False)
            path = os.path.join(rdir, hashlib.sha1(blob.encode()).hexdigest()[:12] + ".json")
            with open(path, "w") as f:
                f.write(blob + "\n")
            return os.path.relpath(path, VERIF)

        # crashes of the real code are concrete failing inputs
        for cr in self.crashes:
            if cr["kind"] == "gave-up":
                self.note(cr["stderr"])
                continue
            self.S("the library faults (%s)" % cr["kind"], op=cr.get("op"), variant=cr.get("variant"), stderr=cr.get("stderr", "")[-600:])
        unlisted = []
        for s in self.s_fail:
            key = s.get("op") or s.get("input") or s["what"]
            hit = [k for k in open_f if k.get("witness") == key]
            if hit:
                lines.append("KNOWN-FINDING: property=%s %s" % (self.prop, hit[0].get("what", s["what"])))
            else:
                unlisted.append(s)
        seen_kf = set()
        lines = [x for x in lines if not (x in seen_kf or seen_kf.add(x))]
        if unlisted:
            rc = 1
            groups = collections.OrderedDict()
            for s in unlisted:
                groups.setdefault(s["what"], []).append(s)
            for what, ss in list(groups.items())[:6]:
                rp = write_replay(dict(property=self.prop, kind="failing-input", what=what, witness=ss[0], more=len(ss) - 1,
                                       tier=self.tier, seed=self.seed,
                                       model_disagreements=self.k_fail[:3], proofs_broken=[p["what"] for p in self.p_fail][:5]))
                lines.append("VIOLATION property=%s replay=%s" % (self.prop, rp))
        elif self.p_fail or self.k_fail:
            rc = 1
            rp = write_replay(dict(property=self.prop, kind="no-failing-input-found",
                                   no_longer_checks=[p["what"] for p in self.p_fail] + (["K:" + k["stream"] for k in self.k_fail[:5]]),
                                   proof_details=self.p_fail[:5], model_disagreements=self.k_fail[:10], tier=self.tier, seed=self.seed,
                                   searched="%d evaluations of the executable specification against the implementation, none failing" % self.evals))
            lines.append("VIOLATION property=%s replay=%s no-failing-input-found" % (self.prop, rp))
        for ln in lines:
            print(ln)
        ev = dict(property_id=self.prop, tier=self.tier, seed=self.seed, level="proof",
                  coverage=dict(obligations=max(self.obligations, 1), discharged=self.discharged,
                                checker_cmd="cd /verif/lean && lake build && lake env lean <file with `#print axioms` for each obligation> (run by ./check %s)" % self.prop,
                                trusted_base=TRUSTED + TRUSTED_EXTRA.get(self.prop, []),
                                theorems={t: a for t, a in self.axioms.items()},
                                evaluations=self.evals, distinct_nontrivial=len(self.nontrivial),
                                rule=RULES.get(self.prop, "distinct op lines whose result is not one of the first-check rejections"),
                                samples=self.samples[:12], streams=self.streams,
                                result_histogram={"%s:%s" % k: v for k, v in sorted(self.hist.items(), key=lambda kv: -kv[1])[:60]},
                                correspondence_mismatches=len(self.k_fail), spec_failures=len(self.s_fail), crashes=len(self.crashes),
                                proofs_broken=[p["what"] for p in self.p_fail], notes=self.notes, **self.extra_cov),
                  assumptions=ASSUME.get(self.prop, []) + ["inputs are NUL-free byte strings stored NUL-terminated, length == strlen; \"C\" locale; malloc does not fail"],
                  wall_s=round(wall, 2), violations=0 if rc == 0 else max(1, len(unlisted)))
        if not getattr(self, "replaying", False):          # a replay re-executes one input: it is not a run of the check
            os.makedirs(os.path.join(VERIF, "evidence"), exist_ok=True)
            with open(os.path.join(VERIF, "evidence", self.prop + ".json"), "w") as f:
                json.dump(ev, f, indent=1, ensure_ascii=False, default=str)
        vlib.log("%s %s: %d evals, %d K mismatches, %d S failures, %d crashes, P %d/%d, %.1fs -> exit %d" %
                 (self.prop, self.tier, self.evals, len(self.k_fail), len(self.s_fail), len(self.crashes), self.discharged, self.obligations, wall, rc))
        return rc


RULES = {}
ASSUME = {}
TRUSTED_EXTRA = {}
VARIANTS_OF = {
    "C19": {"quick": ["default", "underscore", "be:idn"], "thorough": ["default", "underscore", "be:idn", "be:idnkit"]},
    "C02": {"quick": ["default", "uchar"], "thorough": ["default", "uchar"]},
    "C03": {"quick": ["default", "uchar"], "thorough": ["default", "uchar"]},
    "C04": {"quick": ["default", "underscore"], "thorough": ["default", "underscore"]},
    "C05": {"quick": ["default", "be:idnkit", "uchar"], "thorough": ["default", "be:idnkit", "uchar"]},
    "C09": {"quick": ["default", "ndebug", "underscore"], "thorough": ["default", "ndebug", "underscore"]},
    "C13": {"quick": ["default", "be:idnkit", "be:idnkit+extra"], "thorough": ["default", "be:idnkit", "be:idn", "be:idnkit+extra", "be:idn+extra", "extra"]},
    "C15": {"quick": ["default", "be:idn", "underscore"], "thorough": ["default", "be:idn", "be:idnkit", "underscore"]},
    "C07": {"quick": ["default", "underscore", "be:idn", "uchar"], "thorough": ["default", "underscore", "be:idn", "be:idnkit", "uchar"]},
    "C16": {"quick": ["default", "extra", "be:idnkit+extra", "uchar", "extra+ndebug"], "thorough": ["default", "extra", "be:idnkit+extra", "be:idn+extra", "uchar", "extra+ndebug"]},
    "C17": {"quick": ["default", "rfc20", "rfc5322", "underscore", "rebuilt", "rfc5322+uchar", "rfc20+rfc5322+underscore@readme"],
            "thorough": ["default", "rfc20", "rfc5322", "underscore", "rfc20+rfc5322", "rfc20+underscore", "rfc5322+underscore", "all3", "rebuilt", "rfc5322+uchar",
                         "rfc20+rfc5322+underscore@readme"]},
    "C12": {"quick": ["default", "extra"], "thorough": ["default", "extra"]},
    "C01": {"quick": ["default"], "thorough": ["default"]},
}
MODES = (822, 5321, 5322, 6531)


# ---------------------------------------------------------------------------------------------------------------------------------------
# giant inputs (2 GiB and more): the properties quantify over byte strings of any length, the model counts in unbounded Nat, the C code in
# int / size_t / ptrdiff_t.  The harness builds prefix ++ pattern* ++ suffix from one 2 MiB file mapped over and over; the expected answer
# comes from the property text (these inputs are far too long for the model driver).
G31, G32 = 1 << 31, 1 << 32


def giant_items(kind, tier):
    """(op, predicate on the integer answer, what the property says) for the G ops of one family"""
    it = []
    rej = lambda rc: rc != 0
    if kind == "local-ascii":
        for fn in ("L822", "L5321", "L5322"):
            it.append(("G %s - 28 - %d" % (fn, G31), rej, "a local part made of 2^31 '(' is not valid in any mode"))
            it.append(("G %s 616263 28 - %d" % (fn, G32 + 3), rej, "'abc' followed by 2^32 '(' is not a valid local part"))
            it.append(("G %s 616263 ff - %d" % (fn, G32 + 3), rej, "'abc' followed by 2^32 octets 0xff is not a valid local part"))
            it.append(("G %s 61 2e - %d" % (fn, G31 + 1), rej, "'a' followed by 2^31 dots is not a valid local part"))
            if tier != "quick":
                it.append(("G %s - 61 - %d" % (fn, G31), lambda rc: rc == 0, "an atom of 2^31 letters is a valid local part (the 64-octet limit belongs to the address level)"))
                it.append(("G %s - 61 28 %d" % (fn, G32 + 2), rej, "an atom of 2^32+1 letters followed by '(' is not a valid local part"))
    if kind == "local-6531":
        it.append(("G L6531 - 28 - %d" % G31, rej, "a local part made of 2^31 '(' is not valid in mode 6531"))
        it.append(("G L6531 616263 ff - %d" % (G32 + 3), rej, "'abc' followed by 2^32 octets 0xff is not well-formed UTF-8"))
        it.append(("G L6531 616263 28 - %d" % (G32 + 3), rej, "'abc' followed by 2^32 '(' is not a valid local part"))
        it.append(("G L6531 c3a9 c3 - %d" % (G31 + 2), rej, "U+00E9 followed by 2^31 lead bytes 0xc3 is not well-formed UTF-8"))
        if tier != "quick":
            it.append(("G L6531 - 61 - %d" % G31, lambda rc: rc == 0, "an atom of 2^31 letters is a valid local part in mode 6531"))
            it.append(("G L6531 - c3a9 - %d" % G32, lambda rc: rc == 0, "an atom of 2^31 characters U+00E9 is a valid local part in mode 6531"))
            it.append(("G L6531 - 61 ff %d" % (G32 + 2), rej, "2^32+1 letters followed by the octet 0xff are not well-formed UTF-8"))
    if kind == "email-long-local":
        for m in ((5321,) if tier == "quick" else MODES):
            it.append(("G E%d - 61 40622e636f6d %d" % (m, G32 - 16 + 6), lambda rc: rc == -5, "a local part of 2^32-16 octets is 'too long' (and nothing else)"))
            it.append(("G E%d - 61 40622e636f6d %d" % (m, G31 + 6), lambda rc: rc == -5, "a local part of 2^31 octets is 'too long' (and nothing else)"))
    if kind == "domain":
        it.append(("G D - 612e - %d" % G31, lambda rc: rc == -21, "a name of 2^31 octets is too long"))
        it.append(("G D 612e 612e 61 %d" % (G32 + 201), lambda rc: rc == -21, "a name of 2^32+201 octets is too long (its length modulo 2^32 is not what counts)"))
    if kind == "special" and tier != "quick":
        it.append(("G S 612e 612e 74657374 %d" % (G32 + 4), lambda rc: rc == 1, "a name of 2^31 labels 'a' followed by the label 'test' is reserved"))
        it.append(("G S 74657374 2e61 - %d" % (G32 + 4), lambda rc: rc == 0, "'test' followed by 2^31 labels 'a' is not reserved"))
    return it


def run_giant(ctx, kinds, variant="default"):
    items = [x for k in kinds for x in giant_items(k, ctx.tier)]
    if not items:
        return
    c, _ = ctx.run("giant", variant, [x[0] for x in items])
    st = ctx.streams.setdefault("giant@" + variant, dict(ops=0, k_mismatch=0))
    for (op, pred, what), ln in zip(items, c):
        st["ops"] += 1
        ctx.evals += 1
        ans = (ln or "").split(" ")
        if len(ans) < 2 or ans[1] == "NOMEM":
            ctx.note("giant input could not be mapped: " + op)
            continue
        if ans[1] == "FAULT":
            continue                              # reported as a crash of the library with this op
        ctx.nontrivial.add(op)
        try:
            ok = pred(int(ans[1]))
        except ValueError:
            ok = False
        if not ok:
            ctx.S("giant input (prefix, repeated pattern, suffix, total length): " + what, op=op, variant=variant, impl=ln)


def accept_bit(line):
    """projection 'decision' for L / D ops: rc == 0"""
    parts = line.split(" ")
    return parts[0] + (" acc" if len(parts) > 1 and parts[1] == "0" else " rej") if "FAULT" not in line else line


# ===================================================================== C02
def c02(ctx):
    run_giant(ctx, ["local-ascii"])
    strs = gen.local_strings(ctx.tier, ctx.rng, utf8=False)
    strs = list(dict.fromkeys(strs))
    for m in (822, 5321, 5322):
        ops = ["L %d %s %s" % (m, hx(s), hx(gen.AT)) for s in strs]
        c = ctx.K("local%d" % m, "default", ops, project=lambda op, ln: accept_bit(ln),
                  nontrivial=lambda op, ln: not ln.endswith(" -4"))
        sp = ctx.spec(["sL %d %s" % (m, hx(s)) for s in strs])
        for s, cl, sl in zip(strs, c, sp):
            if 0 in s:
                continue
            if (cl == "L 0") != (sl == "sL 1"):
                ctx.S("mode %d local part decided against the grammar word *(\".\" word)" % m, op="L %d %s %s" % (m, hx(s), hx(gen.AT)),
                      input=repr(s), impl=cl, spec=sl)
            elif cl.startswith("L ") and not cl.endswith("FAULT") and int(cl[2:]) > 0:
                ctx.S("is_%d_local returns a positive code (callers read a positive code as a TLD class)" % m, op="L %d %s %s" % (m, hx(s), hx(gen.AT)), input=repr(s), impl=cl)
    # the same local parts through the high-level API, one eav_t switched through the three modes (both orders)
    sample = [s for s in strs if 0 < len(s) <= 64 and 0 not in s and b"@" not in s][:: (150 if ctx.tier == "quick" else 15)]
    direct = {}
    for m in (822, 5321, 5322):
        cl = ctx.K("local%d-direct" % m, "default", ["L %d %s %s" % (m, hx(s), hx(gen.AT)) for s in sample], project=lambda op, ln: accept_bit(ln))
        direct[m] = dict(zip(sample, cl))
    for order in ((822, 5321, 5322), (5322, 5321, 822), (5321, 822, 5322)):
        scripts = ["i;t0;" + ";".join("r%d;s;e%s" % (m, hx(s + b"@b.com")) for m in order) + ";f" for s in sample]
        hl = ctx.K("local-api", "default", ["H " + sc for sc in scripts], nontrivial=lambda op, ln: True)
        for s, sc, ln in zip(sample, scripts, hl):
            parts = ln[2:].split(";")
            for k, m in enumerate(order):
                e = parts[2 + 3 * k + 2]
                acc_api = e.startswith("e1")
                if acc_api != (direct[m][s] == "L 0"):
                    ctx.S("through eav_is_email, mode %d judges a local part differently than is_%d_local does" % (m, m), op="H " + sc, input=repr(s), api=e, direct=direct[m][s])
    # the local-part verdict stands whatever the domain is: in front of an address literal as well as in front of a host name
    lsub = [s for s in strs if 0 < len(s) <= 64 and 0 not in s and b"@" not in s][:: (40 if ctx.tier == "quick" else 6)]
    for m in (822, 5321, 5322):
        spl = ctx.spec(["sL %d %s" % (m, hx(s)) for s in lsub])
        for dom in (b"[192.0.2.1]", b"[IPv6:2001:db8::1]", b"b.com"):
            ce = ctx.K("local-before-%s%d" % ("literal" if dom.startswith(b"[") else "host", m), "default", ["E %d 0 %s" % (m, hx(s + b"@" + dom)) for s in lsub], nontrivial=lambda op, ln: True)
            for s, cl, sl in zip(lsub, ce, spl):
                if (fields(cl)[1] == "0") != (sl == "sL 1"):
                    ctx.S("mode %d: an address is decided against the grammar of its local part (domain %s)" % (m, dom.decode()), op="E %d 0 %s" % (m, hx(s + b"@" + dom)), input=repr(s), impl=cl, spec=sl)
    # the 64-octet seam through the API: a local part of exactly the maximum length whose LAST octet (or closing quote) decides
    seam = []
    for b_ in range(1, 256):
        if b_ != 0x40:
            seam += [b"a" * 63 + bytes([b_]), b"a." * 31 + b"a" + bytes([b_]), b'"' + b"a" * 62 + bytes([b_])]
    seam += [b'"' + b"a" * 62 + b'"', b'"' + b"a" * 61 + b'"', b'"' + b"a" * 63 + b'"', b'"' + b"a" * 60 + b'\\""', b'"' + b"a" * 61 + b'\\"', b'"' + b"a" * 60 + b'\\a"',
             b"a" * 62 + b".a", b"a" * 63 + b".", b"a" * 62 + b"..", b"a" * 64, b"a" * 65, b"a" * 63, b'"a"' + b".a" * 30 + b".", b'"a"' + b".a" * 30 + b'."']
    for m in (822, 5321, 5322):
        spl = ctx.spec(["sL %d %s" % (m, hx(s)) for s in seam])
        for dom in (b"b.com", b"[192.0.2.1]"):
            ce = ctx.K("local-seam%d" % m, "default", ["E %d 0 %s" % (m, hx(s + b"@" + dom)) for s in seam], nontrivial=lambda op, ln: True)
            for s, cl, sl in zip(seam, ce, spl):
                if (fields(cl)[1] == "0") != (sl == "sL 1" and len(s) <= 64):
                    ctx.S("mode %d: an address with a %d-octet local part is decided against the grammar of that local part" % (m, len(s)), op="E %d 0 %s" % (m, hx(s + b"@" + dom)), input=repr(s), impl=cl, spec=sl)
    # an application may have called setlocale(): the verdicts must not follow the process locale
    hb = [s for s in strs if 0 not in s and any(b >= 0x80 or b < 0x20 for b in s)][:: (6 if ctx.tier == "quick" else 1)] + \
         [b"caf\xe9", b'"caf\xe9"', b'"a\\\xe9"', b"a\x85b", b'"\x9f"', b"\xe9", b"a.\xe9.b"] + [bytes([b]) + b"a" for b in range(0x80, 0x100)]
    for loc in ctx.locales():
        for m in (822, 5321, 5322):
            cl_ = ctx.K("local%d@%s" % (m, loc["VERIF_LOCALE"]), "default", ["L %d %s %s" % (m, hx(s), hx(gen.AT)) for s in hb], project=lambda op, ln: accept_bit(ln), env=loc)
            spl = ctx.spec(["sL %d %s" % (m, hx(s)) for s in hb])
            for s, cl, sl in zip(hb, cl_, spl):
                if (cl == "L 0") != (sl == "sL 1"):
                    ctx.S("mode %d local part decided against the grammar when the process locale is %s" % (m, loc["VERIF_LOCALE"]), op="L %d %s %s" % (m, hx(s), hx(gen.AT)), input=repr(s), impl=cl, spec=sl, locale=loc["VERIF_LOCALE"])
    # plain `char` is unsigned on arm / ppc / s390: the same library source built with -funsigned-char decides the same
    for m in (822, 5321, 5322):
        cl_ = ctx.K("local%d@unsigned-char" % m, "uchar", ["L %d %s %s" % (m, hx(s), hx(gen.AT)) for s in hb], project=lambda op, ln: accept_bit(ln))
        spl = ctx.spec(["sL %d %s" % (m, hx(s)) for s in hb])
        for s, cl, sl in zip(hb, cl_, spl):
            if (cl == "L 0") != (sl == "sL 1"):
                ctx.S("mode %d local part decided against the grammar when the library is built with unsigned plain char (-funsigned-char)" % m, op="L %d %s %s" % (m, hx(s), hx(gen.AT)), variant="uchar", input=repr(s), impl=cl, spec=sl)
        ce = ctx.K("local-api%d@unsigned-char" % m, "uchar", ["E %d 0 %s" % (m, hx(s + b"@b.com")) for s in hb if b"@" not in s], nontrivial=lambda op, ln: True)
        for s, cl, sl in zip([s for s in hb if b"@" not in s], ce, [x for s_, x in zip(hb, spl) if b"@" not in s_]):
            if (fields(cl)[1] == "0") != (sl == "sL 1" and 1 <= len(s) <= 64):
                ctx.S("mode %d: address decided against the grammar of its local part when built with -funsigned-char" % m, op="E %d 0 %s" % (m, hx(s + b"@b.com")), variant="uchar", input=repr(s), impl=cl, spec=sl)
    # the byte at *end may be read by the 822 folding test: the decision must not depend on it
    fold = [s for s in strs if b"\r\n" in s][:3000]
    for endb in (b" \0", b"\t\0", b"\0"):
        ops = ["L 822 %s %s" % (hx(s), hx(endb)) for s in fold]
        c = ctx.K("local822-end", "default", ops, project=lambda op, ln: accept_bit(ln))
        sp = ctx.spec(["sL 822 %s" % hx(s) for s in fold])
        for s, cl, sl in zip(fold, c, sp):
            if (cl == "L 0") != (sl == "sL 1"):
                ctx.S("mode 822 decision depends on the byte after the local part", op="L 822 %s %s" % (hx(s), hx(endb)), input=repr(s), impl=cl, spec=sl)
    # S only: a NUL is not a printable character - a local part that contains one (address passed with its true length) is never accepted, whatever
    # stands behind the NUL
    nuls = [b"ab\0 (<>[]@example.com", b"ab\0\x80\xff@example.com", b"a\0..b.@example.com", b'a\0"@example.com', b"a\0b@foo.de", b"\0@foo.de", b"ab\0@foo.de",
            b'"a\0b"@foo.de', b"a.b\0c.d@[1.2.3.4]", b"a\0@b@foo.de", b"a\0\0@foo.de", b"x\0" + b"y" * 70 + b"@foo.de"]
    for m in (822, 5321, 5322):
        cn, _ = ctx.run("nul-in-local%d" % m, "default", ["E %d 0 %s" % (m, hx(x)) for x in nuls])
        ctx.evals += len(nuls)
        for x, ln in zip(nuls, cn):
            ctx.nontrivial.add("nul%d:" % m + hx(x))
            if fields(ln)[1] == "0":
                ctx.S("mode %d: an address whose local part contains a NUL (passed with its true length) is accepted" % m, op="E %d 0 %s" % (m, hx(x)), input=repr(x), impl=ln)
RULES["C02"] = "distinct (mode, local part) pairs whose result is not EEAV_LPART_EMPTY; bounded-exhaustive over a 14-class alphabet, every byte value in 130 contexts, byte pairs, folding/blank families, grammar-directed random with mutations"


# ===================================================================== C03
def c03(ctx):
    run_giant(ctx, ["local-6531"])
    strs = gen.local_strings(ctx.tier, ctx.rng, utf8=True)
    strs += gen.utf8_in_context(gen.utf8_sequences(ctx.tier, ctx.rng))
    strs = list(dict.fromkeys(strs))
    ops = ["L 6531 %s %s" % (hx(s), hx(gen.AT)) for s in strs]
    c = ctx.K("local6531", "default", ops, project=lambda op, ln: accept_bit(ln), nontrivial=lambda op, ln: not ln.endswith(" -4"))
    sp = ctx.spec(["sL 6531 %s" % hx(s) for s in strs])
    for s, cl, sl in zip(strs, c, sp):
        if 0 in s:
            continue
        if (cl == "L 0") != (sl == "sL 1"):
            ctx.S("mode 6531 local part decided against strict UTF-8 + the RFC 5321 grammar", op="L 6531 %s %s" % (hx(s), hx(gen.AT)), input=repr(s), impl=cl, spec=sl)
        elif cl.startswith("L ") and not cl.endswith("FAULT") and int(cl[2:]) > 0:
            ctx.S("is_6531_local returns a positive code (callers read a positive code as a TLD class: the address would be accepted)",
                  op="L 6531 %s %s" % (hx(s), hx(gen.AT)), input=repr(s), impl=cl)
    # the same decision seen through is_6531_email: L@b.com is accepted exactly when L is a valid local part of at most 64 octets
    sub = [s for s in strs[:: (9 if ctx.tier == "quick" else 2)] if 0 not in s and b"@" not in s]
    ce = ctx.K("email6531", "default", ["E 6531 0 %s" % hx(s + b"@b.com") for s in sub], nontrivial=lambda op, ln: True)
    spd = dict(zip(strs, sp))
    for s, cl in zip(sub, ce):
        want = spd[s] == "sL 1" and 1 <= len(s) <= 64
        if (fields(cl)[1] == "0") != want:
            ctx.S("is_6531_email decides L@b.com against strict UTF-8 + the RFC 5321 grammar for L", op="E 6531 0 %s" % hx(s + b"@b.com"), input=repr(s), impl=cl, spec=spd[s])
    # ... and in front of an address literal just the same (the domain kind must not select another local-part grammar)
    lsub = [s for s in sub if any(b >= 0x80 for b in s)][:: (4 if ctx.tier == "quick" else 1)] + [s for s in sub if all(b < 0x80 for b in s)][:: (40 if ctx.tier == "quick" else 4)]
    for dom in (b"[192.0.2.1]", b"[IPv6:2001:db8::1]"):
        ce = ctx.K("email6531-literal", "default", ["E 6531 0 %s" % hx(s + b"@" + dom) for s in lsub], nontrivial=lambda op, ln: True)
        for s, cl in zip(lsub, ce):
            want = spd[s] == "sL 1" and 1 <= len(s) <= 64
            if (fields(cl)[1] == "0") != want:
                ctx.S("is_6531_email decides L@%s against strict UTF-8 + the RFC 5321 grammar for L" % dom.decode(), op="E 6531 0 %s" % hx(s + b"@" + dom), input=repr(s), impl=cl, spec=spd[s])
    # unsigned plain char (arm / ppc / s390 ABI): same decisions
    hb6 = [s for s in strs if 0 not in s and any(b >= 0x80 for b in s)][:: (5 if ctx.tier == "quick" else 1)]
    cu = ctx.K("local6531@unsigned-char", "uchar", ["L 6531 %s %s" % (hx(s), hx(gen.AT)) for s in hb6], project=lambda op, ln: accept_bit(ln))
    for s, cl in zip(hb6, cu):
        if (cl == "L 0") != (spd[s] == "sL 1"):
            ctx.S("mode 6531 local part decided against strict UTF-8 + grammar when built with -funsigned-char", op="L 6531 %s %s" % (hx(s), hx(gen.AT)), variant="uchar", input=repr(s), impl=cl, spec=spd[s])
    # non-ASCII local parts through the API after every kind of (re-)configuration: mode 6531 stays mode 6531
    ua = [hx(x) for x in ("a.ü.b@example.com".encode(), "ящик@b.com".encode(), b"a@b.com")]
    hs = []
    for pre in ("i;s", "i;s;s", "i;r5321;s;r6531;s", "i;r5321;s;r6531;s;s", "i;s;k8;s", "i;s;t0;s", "i;r822;s;r6531;s;t0;s;k760;s", "i;s;r7;s", "i;r5322;s;r6531;s;r7;s"):
        hs.append(pre + ";" + ";".join("e" + a for a in ua) + ";f")
    check_histories(ctx, "utf8-after-setup", hs)
    # the process locale must not matter: every C1 control, the line/paragraph separators and a sample of everything else, in three positions
    xs_loc = [chr(cp).encode() for cp in list(range(0x80, 0xA0)) + [0xA0, 0xAD, 0x2028, 0x2029, 0x200B, 0xFEFF, 0xE9, 0x416, 0x4E2D, 0x1F600]]
    lstr = [f % x for x in xs_loc for f in (b"a.%s.b", b'"%s".b', b"a%sb")]
    for loc in ctx.locales():
        cl_ = ctx.K("local6531@%s" % loc["VERIF_LOCALE"], "default", ["L 6531 %s %s" % (hx(s), hx(gen.AT)) for s in lstr], project=lambda op, ln: accept_bit(ln), env=loc)
        spl = ctx.spec(["sL 6531 %s" % hx(s) for s in lstr])
        for s_, cl, sl in zip(lstr, cl_, spl):
            if (cl == "L 0") != (sl == "sL 1"):
                ctx.S("mode 6531 local part decided against strict UTF-8 + grammar when the process locale is %s" % loc["VERIF_LOCALE"], op="L 6531 %s %s" % (hx(s_), hx(gen.AT)), input=repr(s_), impl=cl, spec=sl, locale=loc["VERIF_LOCALE"])
    # the byte at *end must not take part: characters cut short at `end`, with a continuation byte right behind
    cut = []
    for ch in ("é", "№", "😀", "Ж", "中"):
        e = ch.encode()
        for k in range(1, len(e)):
            for pre in (b"", b"a", b"a.", b'"'):
                cut.append((pre + e[:k], e[k:] + b"@x\0"))
                cut.append((pre + e[:k], b"\x80\0"))
                cut.append((pre + e[:k], b"\xbf@\0"))
    cops = ["L 6531 %s %s" % (hx(a), hx(b)) for a, b in cut]
    cc = ctx.K("local6531-end", "default", cops, project=lambda op, ln: accept_bit(ln))
    for (a, b), cl in zip(cut, cc):
        if cl == "L 0":
            ctx.S("mode 6531 accepts a local part that ends inside a multi-byte character (the byte at *end was read)", op="L 6531 %s %s" % (hx(a), hx(b)), input=repr(a), impl=cl)
    # pure ASCII: 6531 and 5321 decide identically
    asc = [s for s in strs if all(b < 128 for b in s)]
    c5 = ctx.K("local5321-ascii", "default", ["L 5321 %s %s" % (hx(s), hx(gen.AT)) for s in asc], project=lambda op, ln: accept_bit(ln))
    c6 = {s: cl for s, cl in zip(strs, c)}
    for s, a in zip(asc, c5):
        if 0 in s:
            continue
        if (a == "L 0") != (c6[s] == "L 0"):
            ctx.S("modes 6531 and 5321 disagree on a pure-ASCII local part", op="L 6531 %s %s" % (hx(s), hx(gen.AT)), input=repr(s), m5321=a, m6531=c6[s])
    # a.X.b for non-ASCII X
    xs = [chr(cp).encode() for cp in list(range(0x80, 0x800, 7)) + list(range(0x800, 0xD800, 251)) + list(range(0xE000, 0x10000, 257)) + list(range(0x10000, 0x110000, 4099))]
    ops = ["L 6531 %s %s" % (hx(b"a." + x + b".b"), hx(gen.AT)) for x in xs]
    c = ctx.K("a.X.b", "default", ops, project=lambda op, ln: accept_bit(ln))
    for x, cl in zip(xs, c):
        if cl != "L 0":
            ctx.S("a.X.b rejected for a non-ASCII character X", op="L 6531 %s %s" % (hx(b"a." + x + b".b"), hx(gen.AT)), impl=cl)
RULES["C03"] = "distinct local parts not rejected as empty; all 1-2 byte sequences over 0x80-0xFF, 3-byte and 4-byte covers in atom/quoted/escaped/between-dots position, bounded-exhaustive mixes of structure characters with multi-byte characters"


# ===================================================================== C04
def c04(ctx):
    run_giant(ctx, ["domain"])
    strs = list(dict.fromkeys(gen.domain_strings(ctx.tier, ctx.rng)))
    for v, us in (("default", 0), ("underscore", 1)):
        ops = ["D %s 00" % hx(s) for s in strs]
        c = ctx.K("domain", v, ops, project=lambda op, ln: accept_bit(ln), nontrivial=lambda op, ln: not ln.endswith(" -16"))
        sp = ctx.spec(["sD %d %s" % (us, hx(s)) for s in strs])
        for s, cl, sl in zip(strs, c, sp):
            if 0 in s:
                continue
            if (cl == "D 0") != (sl == "sD 1"):
                ctx.S("host name decided against the LDH / 63 / 253 / not-all-numeric rules (underscore=%d)" % us, op="D %s 00" % hx(s), variant=v, input=repr(s), impl=cl, spec=sl)
    # the process locale must not matter (ISALNUM and friends are meant to be ASCII-only)
    hd = [b"caf\xe9.example.com", b"\xe9.com", b"a\xe9.com", b"a.b\xff", b"x\xc0y.org", b"\xb5.de", b"a-\xe9.com"] + [b"a" + bytes([b]) + b".com" for b in range(0x80, 0x100)]
    for loc in ctx.locales():
        cl_ = ctx.K("domain@%s" % loc["VERIF_LOCALE"], "default", ["D %s 00" % hx(d_) for d_ in hd], project=lambda op, ln: accept_bit(ln), env=loc)
        for d_, cl in zip(hd, cl_):
            if cl == "D 0":
                ctx.S("a host name with a byte >= 0x80 is accepted when the process locale is %s" % loc["VERIF_LOCALE"], op="D %s 00" % hx(d_), input=repr(d_), impl=cl, locale=loc["VERIF_LOCALE"])
    # the byte at *end: pins the look-ahead of the hyphen test (model and code must agree; no spec claim)
    sub = [s for s in strs if s.endswith(b"-") or s.endswith(b"-.")][:2000]
    for after in (b"x\0", b".\0", b"-\0"):
        ctx.K("domain-after", "default", ["D %s %s" % (hx(s), hx(after)) for s in sub])
    # mode 6531: the same rules on the A-label the IDN library produced
    idn = [s.encode() for s in gen.IDN_SAMPLES]
    for base in [b"example.com", "почта.рф".encode(), b"a", b"a.b", b"xn--p1ai.xn--p1ai", "例え.テスト".encode(), b"a-b.c"]:
        for tail in (b"", b".", b"..", b"...", "。".encode(), "。。".encode(), b". ", b".-"):
            idn += [base + tail, b"." + base + tail, base.replace(b".", b"..") + tail]
    idn += [s for s in strs if len(s) <= 5][:: (2 if ctx.tier == "quick" else 1)] + strs[:3000:3]
    for n in (62, 63, 64, 65):
        idn += [b"a" * n + b".com", b"x." + b"b" * n, ("é" * n + ".com").encode(), b"a" * n + b"-b.com"]
    for total in range(250, 258):
        d = (b"a" * 49 + b".") * 5
        idn += [d + b"b" * (total - len(d)), d + b"b" * (total - len(d)) + b"."]
    # longer than the limit, with a dot right after a valid prefix of 250..254 octets (a silently truncated copy would pass)
    for pre in range(250, 256):
        h = gen.long_host(pre)
        for tail in (b".com", b".c", b"..", b".-", b".!", b"." + b"b" * 40 + b".com", b".", "。com".encode()):
            idn += [h + tail, ("é" + h[1:].decode() + tail.decode(errors="ignore")).encode() if pre < 254 else h + tail]
    idn = list(dict.fromkeys(idn))
    # each refused / accepted domain once more right away (a remembered verdict must be the verdict), both tld settings
    rep = [s for s in idn if s and 0 not in s][:: (5 if ctx.tier == "quick" else 1)] + [b"a" * 64 + b".com", gen.long_host(254), b"b", b"-a.com"]
    rops = []
    for d_ in rep:
        rops += ["U 0 %s" % hx(d_), "U 0 %s" % hx(d_), "U 1 %s" % hx(d_), "U 1 %s" % hx(d_)]
    rc_ = ctx.K("utf8domain-repeated", "default", rops, nontrivial=lambda op, ln: True)
    for k in range(0, len(rops), 2):
        if rc_[k] != rc_[k + 1]:
            ctx.S("mode 6531 gives the same domain two different verdicts in two consecutive calls", op=rops[k + 1], first=rc_[k], second=rc_[k + 1])
    ops = ["U 0 %s" % hx(s) for s in idn if s and 0 not in s]
    c, l = ctx.run("utf8domain", "default", ops)
    ctx.evals += len(ops)
    lean_in = open(os.path.join(ctx.scr.dir, "utf8domain_default.leanin")).read().split("\n")[1:]
    alabels = []
    for op, cl, li in zip(ops, c, lean_in):
        m = re.search(r" @ (-?\d+) (\S+)", li)
        if cl.startswith("U 0") and m and m.group(1) == "0" and m.group(2) != "-":
            alabels.append((op, cvhex(m.group(2))))
    sp = ctx.spec(["sD 0 %s" % hx(a) for _, a in alabels])
    for (op, a), sl in zip(alabels, sp):
        if sl != "sD 1":
            ctx.S("mode 6531 accepted a domain whose A-label violates the host-name rules", op=op, alabel=repr(a))
    for op, a, b in zip(ops, c, l):
        if a != b:
            ctx.k_fail.append(dict(stream="utf8domain", variant="default", op=op, impl=a, model=b))
RULES["C04"] = "distinct domains not rejected as empty; exhaustive over {letter,digit,-,.,_,!} to length 7 (8 thorough), every label length 0-70 in first/middle/last position, totals 236-263 with 0-2 trailing dots, every byte value in 6 contexts, random label mixes; default and LABELS_ALLOW_UNDERSCORE builds"



def fields(line):
    return line.split(" ")


def table_names(ctx):
    """TLD names of the generated table (lower-case A-labels), read from the generated Lean file"""
    txt = open(os.path.join(LEAN, "Eav/Gen/TldTable.lean")).read()
    rows = re.findall(r"\(\[([0-9, ]+)\], (\d+), (\d+)\)", txt)
    return [(bytes(int(x) for x in r[0].split(",")), int(r[1]), int(r[2])) for r in rows]


# ===================================================================== C01
def c01(ctx):
    strs = list(dict.fromkeys(gen.email_strings(ctx.tier, ctx.rng)))
    # bracketed domains of every shape (tags with every byte value, trailers, families): the composition oracle decides them too
    strs += [b"a@" + d for d in gen.literal_domains("quick", ctx.rng)[:: (3 if ctx.tier == "quick" else 1)] if 0 not in d]
    strs = list(dict.fromkeys(strs))
    strs = [s for s in strs if 0 not in s]
    for m in MODES:
        for t in (0, 1):
            eops = ["E %d %d %s" % (m, t, hx(s)) for s in strs]
            cops = ["C %d %d %s" % (m, t, hx(s)) for s in strs]
            e = ctx.K("email%d" % m, "default", eops, nontrivial=lambda op, ln: fields(ln)[1] not in ("-3", "-16", "-5", "-4"))
            c = ctx.K("compose%d" % m, "default", cops)
            for s, el, cl in zip(strs, e, c):
                ef, cf = fields(el), fields(cl)
                if ef[1:3] != cf[1:3]:
                    ctx.S("high-level decision/error code differs from the composition of the public per-part validators",
                          op="E %d %d %s" % (m, t, hx(s)), input=repr(s), high_level=el, composed=cl)
                # always rejected
                if (len(s) == 0 or b"@" not in s or s.startswith(b"@") or s.endswith(b"@")) and ef[1] == "0":
                    ctx.S("empty string / missing '@' / empty local part / empty domain accepted", op="E %d %d %s" % (m, t, hx(s)), input=repr(s), impl=el)
                if t == 0 and not ef[1].startswith("F") and int(ef[1]) > 0:
                    ctx.S("with TLD checking off the result code is a TLD class (the caller's allow_tld mask would then decide an address that is valid)",
                          op="E %d %d %s" % (m, t, hx(s)), input=repr(s), impl=el)
                if t == 0 and b"@" in s:
                    l = s[:s.rindex(b"@")]
                    if len(l) > 64 and ef[1] == "0":
                        ctx.S("local part longer than 64 octets accepted", op="E %d %d %s" % (m, t, hx(s)), input=repr(s), impl=el)
            # mode wiring: eav_setup with rfc = m must apply m's rules
            pops = ["P %d %d %d %s" % (m, t, 2047 * 2, hx(s)) for s in strs[:: (3 if ctx.tier == "quick" else 1)]]
            pl = ctx.K("api%d" % m, "default", pops)
            emap = dict(zip(strs, e))
            for s, pln in zip(strs[:: (3 if ctx.tier == "quick" else 1)], pl):
                pf, ef = fields(pln), fields(emap[s])
                if pf[4:] != ef[1:]:
                    ctx.S("eav_is_email after eav_setup(rfc=%d) does not apply mode %d's rules" % (m, m), op="P %d %d %d %s" % (m, t, 4094, hx(s)), input=repr(s), api=pln, direct=emap[s])
    # the mode is the one CONFIRMED by eav_setup: writing eav.rfc afterwards without eav_setup changes nothing
    probes = [b"a@b.com", "ящик@example.com".encode(), "user@почта.рф".encode(), b'"a\tb"@b.com', b'"a b"@b.com', b"user@xn---abc.com"]
    scripts = []
    for m1 in MODES:
        for m2 in MODES:
            if m1 != m2:
                # both callbacks installed earlier, then mode m1 confirmed, then rfc := m2 without setup
                scripts.append("i;t0;r%d;s;r%d;s;r%d;" % (m2, m1, m2) + ";".join("e" + hx(p) for p in probes) + ";f")
    check_histories(ctx, "rfc-without-setup", scripts)
    # eav_free releases the result, the eav_t and its settings stay the caller's: a new eav_setup on it (no eav_init in between) confirms the
    # mode chosen then.  Only the libidn2 source set is asked: idnkit's eav_free leaves a destroyed context behind, re-use without eav_init
    # is outside its documented life cycle.
    scripts = []
    for m1 in MODES:
        for m2 in MODES:
            scripts.append("i;t0;r%d;s;e%s;f;r%d;s;" % (m1, hx(probes[0]), m2) + ";".join("e" + hx(p) for p in probes) + ";f")
            scripts.append("i;t0;r%d;s;f;r%d;s;" % (m1, m2) + ";".join("e" + hx(p) for p in probes) + ";f;f")
    check_histories(ctx, "setup-after-free", scripts)
    # an application may have called setlocale(): whole addresses with octets >= 0x80 and control octets in either half, under a UTF-8 and a
    # single-byte process locale, must get the decisions of the "C" locale (model) in every mode
    hb = [b"user@caf\xe9.example", b"user@\xfcber.example.org", b"user@example.\xe7om", b"caf\xe9@example.com", b'"caf\xe9"@example.com', b"a\x85b@example.com",
          b"user@a\x85b.com", b"user@\xb5.de", b"user@[1.2.3.\xb2]", b"user@[IPv6:\xb2::1]", b"user@x\xa0.com"] + \
         [b"u@a" + bytes([b_]) + b".com" for b_ in range(0x80, 0x100)] + [bytes([b_]) + b"@b.com" for b_ in range(0x80, 0x100, 3)]
    for loc in ctx.locales():
        for m in MODES:
            cl_ = ctx.K("email%d@%s" % (m, loc["VERIF_LOCALE"]), "default", ["E %d 0 %s" % (m, hx(s_)) for s_ in hb], env=loc, nontrivial=lambda op, ln: True)
            if m != 6531:
                for s_, ln in zip(hb, cl_):
                    if fields(ln)[1] == "0":
                        ctx.S("an address with an octet >= 0x80 is accepted in an ASCII mode when the process locale is %s" % loc["VERIF_LOCALE"],
                              op="E %d 0 %s" % (m, hx(s_)), input=repr(s_), impl=ln, locale=loc["VERIF_LOCALE"])
RULES["C01"] = "distinct (mode, tld_check, address) triples that pass basic_email_check (not empty, has '@', non-empty halves, local part <= 64); exhaustive over a 12-class alphabet to length 4 (5 thorough), 18 local parts x 29 domains, local length 60-69 x 0-3 '@', random"


# ===================================================================== C05
def c05(ctx):
    doms = list(dict.fromkeys(gen.literal_domains(ctx.tier, ctx.rng)))
    doms = [d for d in doms if 0 not in d]
    sp = ctx.spec(["sI %s" % hx(d) for d in doms])
    for v, m in [("default", m_) for m_ in MODES] + ([("uchar", 5321), ("uchar", 6531)] if "uchar" in ctx.drives else []):
        ops = ["E %d 0 %s" % (m, hx(b"a@" + d)) for d in doms]
        c = ctx.K("literal%d" % m, v, ops, project=lambda op, ln: " ".join(fields(ln)[:1] + [("acc" if fields(ln)[1] == "0" else "rej")] + fields(ln)[3:4]),
                  nontrivial=lambda op, ln: True)
        for d, cl, sl in zip(doms, c, sp):
            if not d.startswith(b"["):
                continue
            f = fields(cl)
            acc = f[1] == "0"
            up, lo, isv4 = sl[3] == "1", sl[4] == "1", sl[5] == "1"
            op = "E %d 0 %s" % (m, hx(b"a@" + d))
            if acc and not up:
                ctx.S("address literal accepted that is not exactly '[' IPv4 ']' or '[' [IPv6:] RFC-4291-address ']'", op=op, variant=v, input=repr(d), impl=cl)
            if lo and not acc:
                ctx.S("RFC 5321 address literal rejected", op=op, variant=v, input=repr(d), impl=cl)
            if acc and up:
                if (f[3] == "100") != isv4 or (f[3] == "010") != (not isv4):
                    ctx.S("is_ipv4/is_ipv6 does not report the family of the address present", op=op, variant=v, input=repr(d), impl=cl)
    # bracket contents with an embedded NUL and an explicit length covering the bytes behind it: never "exactly '[' addr ']'",
    # so never accepted (S only: the model's contract is NUL-free input)
    good = [b"1.2.3.4", b"255.255.255.255", b"IPv6:2001:db8::1", b"IPv6:::", b"IPv6:1:2:3:4:5:6:7:8", b"::1", b"1:2:3:4:5:6:1.2.3.4", b"IPv6:::ffff:1.2.3.4"]
    nul = []
    for a in good:
        for junk in (b"", b"junk", b"]", b"x]", b".5", b":1"):
            nul += [b"[" + a + b"\0" + junk + b"]", b"[" + a + b"]\0" + junk, b"[\0" + a + b"]", b"[" + a + b"\0]" + junk]
        for k in range(1, len(a)):
            nul.append(b"[" + a[:k] + b"\0" + a[k:] + b"]")
    nul = list(dict.fromkeys(nul))
    for m in MODES:
        ops = ["E %d 0 %s" % (m, hx(b"a@" + d)) for d in nul]
        c, _ = ctx.run("literal-nul%d" % m, "default", ops)
        ctx.evals += len(ops)
        for d, cl in zip(nul, c):
            ctx.nontrivial.add("E %d 0 %s" % (m, hx(b"a@" + d)))
            if fields(cl)[1] == "0":
                ctx.S("address literal accepted although the bytes between the brackets contain a NUL (not exactly '[' addr ']')", op="E %d 0 %s" % (m, hx(b"a@" + d)), input=repr(d), impl=cl)
    # the same literals through the idnkit source set, every one twice in a row (its result record is allocated by other code)
    lit2 = [d for d in doms if d.startswith(b"[")][:: (12 if ctx.tier == "quick" else 2)]
    ops2 = []
    for d in lit2:
        ops2 += ["E 6531 0 %s" % hx(b"a@" + d), "E 5321 0 %s" % hx(b"a@" + d)]
    ctx.K("literal-idnkit", "be:idnkit", ops2, nontrivial=lambda op, ln: True)
    # the per-part functions themselves (model correspondence; ']' and NUL after the address)
    a4 = list(dict.fromkeys(gen.ipv4_strings(ctx.tier, ctx.rng)))
    a6 = list(dict.fromkeys(gen.ipv6_shapes(ctx.tier, ctx.rng)))
    for after in (b"]\0", b"\0"):
        ctx.K("ipv4", "default", ["4 %s %s" % (hx(a), hx(after)) for a in a4 if 0 not in a])
        ctx.K("ipv6", "default", ["6 %s %s" % (hx(a), hx(after)) for a in a6 if 0 not in a])
        ctx.K("ipaddr", "default", ["A %s %s" % (hx(a), hx(after)) for a in (a4[:2000] + a6[:4000]) if 0 not in a])
RULES["C05"] = "distinct bracketed domains / addresses; octets 0-300 in each position, exhaustive over {1,0,.,a,:} and {1,a,g,:,.}, IPv6 shapes (0-8 groups either side of '::', widths, dotted-quad tails), 11 tags x 34 addresses x 7 trailers, malformed brackets; four modes"


# ===================================================================== C07
def c07(ctx):
    tbl = table_names(ctx)
    names = [r[0] for r in tbl]
    labels = list(dict.fromkeys(gen.tld_labels(names, ctx.tier, ctx.rng)))
    ctx.K("is_tld", "default", ["T %s" % hx(l) for l in labels])
    spc = ctx.spec(["sT %s" % hx(l) for l in labels])
    spr = ctx.spec(["sS %s" % hx(b"x." + l) for l in labels])
    pres = [b"x."] if ctx.tier == "quick" else [b"x.", b"a.b.", b"a.b.c.", b"com.org.net.x."]
    # second-level labels that merely END in (or contain) a reserved word: the TLD is still classified by the table
    glued = [b"counterexample.", b"forexample.", b"my-example.", b"a.b.my-example.", b"examples.", b"xexample.", b"example.x.", b"example.a.b.", b"EXAMPLE.x.y.", b"test.", b"localhost."]
    common = [l for l in (b"com", b"net", b"org", b"COM", b"Org", b"ru", b"museum", b"arpa", b"xn--p1ai", b"zz", b"comm") ]
    gd = [g + l for g in glued for l in common]
    gsp = ctx.spec(["sS %s" % hx(d) for d in gd])
    gcl = ctx.spec(["sT %s" % hx(d.rsplit(b".", 1)[-1]) for d in gd])
    for m in MODES:
        cg = ctx.K("tld-glued%d" % m, "default", ["E %d 1 %s" % (m, hx(b"a@" + d)) for d in gd], nontrivial=lambda op, ln: True)
        for d, cl, rs, lc in zip(gd, cg, gsp, gcl):
            f = fields(cl)
            want = "8" if rs == "sS 1" else lc.split(" ")[1]
            if f[1] != "-2" and f[1] != want:
                ctx.S("TLD class differs from the shipped table (a label that merely contains a reserved word is not reserved)", op="E %d 1 %s" % (m, hx(b"a@" + d)), domain=repr(d), impl=cl, expected_rc=want)
    for m in MODES:
        for pre in pres:
            sub = labels if (m == 5321 or ctx.tier != "quick") else labels[::4]
            ops = ["E %d 1 %s" % (m, hx(b"a@" + pre + l)) for l in sub]
            c = ctx.K("tld%d" % m, "default", ops, nontrivial=lambda op, ln: True)
            cls = dict(zip(labels, spc)); res = dict(zip(labels, spr))
            for l, cl in zip(sub, c):
                f = fields(cl)
                if f[1] in ("-2",):
                    continue                      # IDN library refused the label (6531): C10
                if int(f[1]) < 0 and int(f[1]) not in (-26, -23):
                    continue                      # not a valid host name
                if res[l] == "sS 1":
                    continue                      # reserved: C09
                want = cls[l].split(" ")[1]
                if f[1] != want:
                    ctx.S("TLD class differs from the shipped table (whole last label, case-insensitive)", op="E %d 1 %s" % (m, hx(b"a@" + pre + l)), label=repr(l), impl=cl, table=want)
        # single label: not fully qualified
        ops = ["E %d 1 %s" % (m, hx(b"a@" + l)) for l in labels[:3000]]
        c = ctx.K("tld-single%d" % m, "default", ops)
        spr1 = ctx.spec(["sS %s" % hx(l) for l in labels[:3000]])
        for l, cl, r in zip(labels[:3000], c, spr1):
            f = fields(cl)
            if r == "sS 1" or f[1] == "-2" or (int(f[1]) < 0 and int(f[1]) not in (-26, -23)):
                continue
            if f[1] != "-23":
                ctx.S("single-label non-reserved domain not rejected as not fully qualified", op="E %d 1 %s" % (m, hx(b"a@" + l)), impl=cl)
    # through eav_is_email: whatever classes the caller's allow_tld mask lists (all of them, more than all of them), the table still
    # decides - an unlisted last label and a single label are refused, a listed one is reported with its class
    al = [l for l in labels if l and 0 not in l][:: (25 if ctx.tier == "quick" else 3)] + [b"zz", b"comm", b"co", b"c", b"invalid1", b"com", b"arpa", b"museum"]
    acls = ctx.spec(["sT %s" % hx(l) for l in al]); ares = ctx.spec(["sS %s" % hx(b"x." + l) for l in al]); ares1 = ctx.spec(["sS %s" % hx(l) for l in al])
    for mask in (2044, 2046, 2047, 4094, 65535, 2147483647, 2040, 4):
        for m in ((5321, 6531) if ctx.tier == "quick" else MODES):
            for single in (False, True):
                ops = ["P %d 1 %d %s" % (m, mask, hx(b"a@" + (b"" if single else b"x.") + l)) for l in al]
                c = ctx.K("tld-api-mask", "default", ops, nontrivial=lambda op, ln: True)
                for l, op, cl, lc, r2, r1 in zip(al, ops, c, acls, ares, ares1):
                    f = fields(cl)
                    if f[1].startswith("setup") or "FAULT" in cl or len(f) < 5:
                        continue
                    rc_ = f[4]
                    if rc_ == "-2" or (int(rc_) < 0 and int(rc_) not in (-26, -23)) or (r1 if single else r2) == "sS 1":
                        continue                  # refused by the IDN library / not a host name / reserved name: other properties
                    want = "-23" if single else lc.split(" ")[1]
                    if rc_ != want:
                        ctx.S("eav_is_email with tld_check on and allow_tld=%d: the TLD is not classified by the shipped table" % mask, op=op, impl=cl, expected_rc=want)
                    elif int(want) < 0 and f[1] == "1":
                        ctx.S("eav_is_email with tld_check on accepts an unlisted / missing TLD (allow_tld=%d)" % mask, op=op, impl=cl)
    # the other IDN back ends (they may hand the name back in the caller's letter case), and long U-label hosts in front of the TLD
    cv = []
    for n in names[:: (60 if ctx.tier == "quick" else 6)] + [b"org", b"xn--p1ai", b"museum"]:
        cv += [n, n.upper(), n.capitalize(), n[:-1] + n[-1:].upper()]
    cv = list(dict.fromkeys(cv))
    cvs = ctx.spec(["sT %s" % hx(l) for l in cv])
    for v in [x for x in ctx.drives if x.startswith("be:")]:
        for m in (6531, 5321):
            cb = ctx.K("tld-case%d" % m, v, ["E %d 1 %s" % (m, hx(b"a@mail.iana." + l)) for l in cv], nontrivial=lambda op, ln: True)
            for l, cl, sl in zip(cv, cb, cvs):
                f = fields(cl)
                if f[1] != "-2" and f[1] != sl.split(" ")[1]:
                    ctx.S("back end %s: TLD class differs from the shipped table (case-insensitive, whole last label)" % v[3:], op="E %d 1 %s" % (m, hx(b"a@mail.iana." + l)), variant=v, impl=cl, table=sl)
    lu = [("ж" * 40 + "." + "я" * 40 + "." + "б" * 40 + "." + "ю" * 34 + ".").encode() + t for t in ("рф".encode(), "онлайн".encode(), b"com", b"museum", b"zz")]
    lus = ctx.spec(["sT %s" % hx(d.rsplit(b".", 1)[-1] if all(x < 128 for x in d.rsplit(b".", 1)[-1]) else b"xn--" + d.rsplit(b".", 1)[-1].decode().encode("punycode")) for d in lu])
    cl_ = ctx.K("tld-long-ulabel", "default", ["E 6531 1 %s" % hx(b"a@" + d) for d in lu], nontrivial=lambda op, ln: True)
    for d, cl, sl in zip(lu, cl_, lus):
        if fields(cl)[1] != "-2" and fields(cl)[1] != sl.split(" ")[1]:
            ctx.S("a long internationalised host name is not classified by its last label", op="E 6531 1 %s" % hx(b"a@" + d), impl=cl, table=sl)
    # plain `char` unsigned (arm / ppc / s390): every internationalised TLD of the table through its U-label, and U-label hosts on ASCII TLDs
    if "uchar" in ctx.drives:
        ut = []
        for name in names:
            if name.startswith(b"xn--"):
                try:
                    ut.append(("\u043f\u0440\u0438\u043c\u0435\u0440." + name[4:].decode("ascii").encode("ascii").decode("punycode")).encode())
                except Exception:
                    pass
        ut = ut[:: (3 if ctx.tier == "quick" else 1)] + ["\u043f\u043e\u0447\u0442\u0430.\u0440\u0444".encode(), "example-shop.\u0440\u0444".encode(), "bank.verm\u00f6gensberatung".encode(), "\u5728\u7ebf.\u5728\u7ebf".encode(),
                                                     "b\u00fccher.de".encode(), "\u043f\u043e\u0447\u0442\u0430.com".encode(), "b\u00fccher.museum".encode(), "b\u00fccher.zz".encode()]
        def lastA(d):
            lab = d.decode().rsplit(".", 1)[-1]
            return lab.encode() if all(ord(ch) < 128 for ch in lab) else b"xn--" + lab.encode("punycode")
        uts = ctx.spec(["sT %s" % hx(lastA(d)) for d in ut])
        cu8 = ctx.K("tld-ulabel-uchar", "uchar", ["E 6531 1 %s" % hx(b"a@" + d) for d in ut], nontrivial=lambda op, ln: True)
        for d, cl, sl in zip(ut, cu8, uts):
            f = fields(cl)
            if "FAULT" not in cl and f[1] != "-2" and f[1] != sl.split(" ")[1]:
                ctx.S("built with unsigned plain char (-funsigned-char), mode 6531 does not classify an internationalised domain by the A-label of its last label",
                      op="E 6531 1 %s" % hx(b"a@" + d), variant="uchar", domain=d.decode(), impl=cl, table=sl)
    # IDNA's other label separators (ideographic / fullwidth / halfwidth full stop) as the ONLY separators: the IDN library maps them to '.',
    # and the A-form it returns is what is classified (a domain that reaches the converter is never judged on the dots of its U-form)
    idot = []
    for sep in ("。", "．", "｡"):
        for t in ("com", "рф", "org", "中国", "museum", "zz", "ελ", "arpa"):
            idot += [("x" + sep + t).encode(), ("почта" + sep + t).encode(), ("a" + sep + "b" + sep + t).encode(), ("a.b" + sep + t).encode()]
    def alabel_(u):
        return u.encode() if all(ord(ch) < 128 for ch in u) else b"xn--" + u.encode("punycode")
    ids = ctx.spec(["sT %s" % hx(alabel_(re.split("[.。．｡]", d.decode())[-1])) for d in idot])
    ci = ctx.K("tld-idna-dots", "default", ["E 6531 1 %s" % hx(b"a@" + d) for d in idot], nontrivial=lambda op, ln: True)
    for d, cl, sl in zip(idot, ci, ids):
        f = fields(cl)
        if f[1] != "-2" and f[1] != sl.split(" ")[1]:
            ctx.S("mode 6531: a domain written with IDNA's other label separators is not classified by the last label of its A-form", op="E 6531 1 %s" % hx(b"a@" + d), domain=d.decode(), impl=cl, table=sl)
    # the LABELS_ALLOW_UNDERSCORE build: '_' is a letter of the label, never a label boundary - the whole last label is looked up
    names = [r[0] for r in tbl]
    pick = names[:: (40 if ctx.tier == "quick" else 5)] + [b"com", b"org", b"museum", b"xn--p1ai"]
    us = []
    for n in pick:
        us += [b"mail.shop_" + n, b"intranet_" + n, b"a.b.my_" + n.upper(), b"x." + n + b"_", b"x._" + n, b"x." + n + b"_" + n, b"a_b." + n]
    us = list(dict.fromkeys(us))
    lastcls = ctx.spec(["sT %s" % hx(d.rsplit(b".", 1)[-1]) for d in us])
    for m in (822, 5321, 5322):
        c = ctx.K("tld-underscore%d" % m, "underscore", ["E %d 1 %s" % (m, hx(b"a@" + d)) for d in us], nontrivial=lambda op, ln: True)
        for d, cl, lc in zip(us, c, lastcls):
            f = fields(cl)
            want = "-23" if b"." not in d else lc.split(" ")[1]
            if f[1] != want:
                ctx.S("LABELS_ALLOW_UNDERSCORE build: the TLD class is not that of the whole last label", op="E %d 1 %s" % (m, hx(b"a@" + d)), variant="underscore", impl=cl, expected_rc=want)
RULES["C07"] = "distinct (mode, domain) pairs; all 1591 table entries in 3 case variants, every proper prefix, one-character extensions, substitutions, random unlisted labels, 1-4 preceding labels, four modes"


# ===================================================================== C08
def c08(ctx):
    ops = ["Y %d %d" % (k, rc) for rc in range(-35, 13) for k in range(0, 2048)]
    c = ctx.K("policy", "default", ops, nontrivial=lambda op, ln: True)
    for op, cl in zip(ops, c):
        _, k, rc = op.split(" "); k = int(k); rc = int(rc)
        f = fields(cl)
        if 1 <= rc <= 9:
            want = 1 if (k & (1 << (rc + 1))) else 0
            if f[1] != str(want):
                ctx.S("acceptance is not 'the bit of the TLD class is set in allow_tld'", op=op, impl=cl)
            if want == 0 and f[2] != str(26 + rc):
                ctx.S("refused TLD class reported with the wrong error code", op=op, impl=cl)
        elif rc < 0 and f[1] != "0":
            ctx.S("negative result accepted under some mask", op=op, impl=cl)
        elif rc == 0 and f[1:3] != ["1", "0"]:
            ctx.S("result 0 not accepted", op=op, impl=cl)
    # real addresses: literals are not subject to the policy; tld_check off ignores mask, TLD and FQDN
    addrs = [b"a@b.com", b"a@b.ru", b"a@nic.aero", b"a@x.arpa", b"a@x.test", b"a@x.abarth", b"a@example.com", b"a@localhost", b"a@b", b"a@b.zz",
             b"a@[1.2.3.4]", b"a@[IPv6:::1]", "a@почта.рф".encode(), b"a@x.xn--p1ai", b"a@x.biz", b"a@x.edu", b"a@x.xn--kgbechtv"]
    # unlisted last labels, among them proper prefixes and one-letter extensions of listed ones: refused whatever the mask
    tbln = [r[0] for r in table_names(ctx)]
    unl = [b"or", b"comm", b"googl", b"museu", b"arp", b"nam", b"z", b"G", b"zz", b"co-m"] + [n[:-1] for n in tbln[::120] if len(n) > 2] + [n + b"x" for n in tbln[::150]]
    unl = [u for u in dict.fromkeys(unl) if u.lower() not in set(tbln) and u.lower() not in (b"test", b"example", b"invalid", b"localhost", b"onion")]
    unl_addrs = [b"a@mail." + u for u in unl]
    resv_addrs = [b"a@example.com", b"a@www.example.net", b"a@EXAMPLE.ORG", b"a@a.b.Example.Com", b"a@x.test", b"a@localhost", b"a@x.invalid", b"a@x.onion", b"a@x.example"]
    addrs = list(dict.fromkeys(addrs + unl_addrs + resv_addrs))
    addrs = list(dict.fromkeys(addrs + [b"a@mail.RU", b"A@IANA.ORG", b"a@x.Museum", b"a@x.XN--P1AI", b"a@x.BIZ", b"a@consulting.biz", b"a@x.name", b"a@x.pro"]))
    # names of the greatest length a host name can have (253 octets, 254 with the root dot) on listed, unlisted and reserved last labels, and short
    # rooted names: the model's answer under every mask
    def longest(tail):
        r = (254 if tail.endswith(b".") else 253) - 192 - len(tail)
        return b"a@" + b"a" * 63 + b"." + b"b" * 63 + b"." + b"c" * 63 + b"." + b"d" * r + tail
    addrs += [longest(t_) for t_ in (b".com", b".com.", b".zz", b".zz.", b".test", b".test.", b".example.org", b".example.org.", b".museum.", b".xn--p1ai.")] + \
             [b"a@b.com.", b"a@b.zz.", b"a@x.test.", b"a@example.com.", b"a@localhost."]
    # IDNA's other label separators as the only separators (the converter maps them to '.'): model's answer under every mask
    addrs += [("a@mail" + sep_ + t_).encode() for sep_ in ("\u3002", "\uff0e", "\uff61") for t_ in ("com", "org", "zz", "\u0440\u0444")] + ["a@example\u3002org".encode(), "a@x\u3002test".encode()]
    # the policy in force is the one set before the LAST eav_setup: one long-lived object re-configured again and again
    hs = []
    hadd = [hx(x) for x in (b"a@b.com", b"a@b.ru", b"a@x.biz", b"a@example.com", b"a@nic.aero", "a@почта.рф".encode())]
    for mode in (6531, 5321):
        for k1, k2 in ((760, 8), (8, 760), (0, 2046), (2046, 16), (760, 744)):
            hs.append("i;r%d;k%d;s;" % (mode, k1) + ";".join("e" + a for a in hadd) + ";k%d;s;" % k2 + ";".join("e" + a for a in hadd) + ";t0;s;e%s;t1;s;e%s;f" % (hadd[0], hadd[0]))
    check_histories(ctx, "policy-reconfigured", hs)
    # addresses on listed TLDs in several letter cases: expected class from the table
    lc_addrs = [b"a@mail.RU", b"A@IANA.ORG", b"a@x.Museum", b"a@x.BIZ", b"a@b.com", b"a@b.ru", b"a@nic.aero", b"a@x.arpa", b"a@x.biz", b"a@x.edu", b"a@x.Info", b"a@x.COM",
                # second-level names that merely end in / contain a reserved word: the class is the TLD's, and the TLD's bit governs them
                b"a@counterexample.com", b"a@forexample.net", b"a@my-example.org", b"a@xexample.com", b"a@a.b.counterexample.com", b"a@examples.com", b"a@example.com.ru",
                b"a@test.com", b"a@localhost.com", b"a@invalid.org", b"a@onion.net", b"a@example.biz", b"a@contest.ru", b"a@x-example.com"]
    lcs = ctx.spec(["sT %s" % hx(x.rsplit(b".", 1)[-1]) for x in lc_addrs])
    listed_cls = {hx(x): sl.split(" ")[1] for x, sl in zip(lc_addrs, lcs) if sl.split(" ")[1] not in ("-26",)}
    # ... and domains whose only separators are IDNA's other full stops: mode 6531 classifies them by the A-label of their last label
    idot_addrs = [x for x in addrs if any(sep_.encode() in x for sep_ in ("\u3002", "\uff0e", "\uff61")) and b"example" not in x and b"test" not in x]
    def _lastA(x):
        lab = re.split("[.\u3002\uff0e\uff61]", x.decode())[-1]
        return lab.encode() if all(ord(ch_) < 128 for ch_ in lab) else b"xn--" + lab.encode("punycode")
    idot_cls = {hx(x): sl.split(" ")[1] for x, sl in zip(idot_addrs, ctx.spec(["sT %s" % hx(_lastA(x)) for x in idot_addrs]))}
    addrs = list(dict.fromkeys(addrs + lc_addrs))
    masks = range(0, 2048, 1 if ctx.tier != "quick" else 37)
    for m in MODES:
        res = {}
        for t in (0, 1):
            ops = ["P %d %d %d %s" % (m, t, k, hx(a)) for a in addrs for k in masks]
            c = ctx.K("policy-api%d" % m, "default", ops, nontrivial=lambda op, ln: True)
            for op, cl in zip(ops, c):
                _, _, _, k, a = op.split(" ")
                res.setdefault((t, a), set()).add((fields(cl)[1], cl))
                f = fields(cl)
                rc = int(f[4])
                k = int(k)
                if t == 1 and 1 <= rc <= 9 and (f[1] == "1") != bool(k & (1 << (rc + 1))):
                    ctx.S("address accepted/refused against its class bit", op=op, impl=cl)
                if t == 1 and m == 6531 and a in idot_cls and rc != -2 and str(rc) != idot_cls[a]:
                    ctx.S("mode 6531: a domain written with IDNA's other label separators is not classified by the A-label of its last label (so no class bit governs it)", op=op, impl=cl, table_class=idot_cls[a])
                if t == 1 and a in listed_cls and rc != -2 and str(rc) != listed_cls[a]:
                    ctx.S("a listed TLD (any letter case) is not given its class, so its bit cannot govern it", op=op, impl=cl, table_class=listed_cls[a])
                if t == 1 and bytes.fromhex(a) in resv_addrs and rc != 8:
                    ctx.S("a reserved domain is not of class 'special' (its own bit, and no other, must govern it)", op=op, impl=cl)
                if t == 1 and bytes.fromhex(a) in unl_addrs and f[2] != "2" and (f[1] != "0" or f[2] != "26"):
                    ctx.S("an unlisted TLD is not refused as an invalid TLD (whatever the mask)", op=op, impl=cl)
        for (t, a), outs in res.items():
            if t == 0 and len(outs) != 1:
                ctx.S("with tld_check off the outcome depends on allow_tld", op="P %d 0 * %s" % (m, a), outcomes=sorted(x[1] for x in outs)[:4])
            if b"5b" == bytes.fromhex(a)[2:3].hex().encode() and len({x[0] for x in outs}) != 1:
                ctx.S("address literal subject to the TLD policy", op="P %d %d * %s" % (m, t, a), outcomes=sorted(x[1] for x in outs)[:4])
RULES["C08"] = "all 2^11 masks x every result code -35..12 through a caller-installed callback (complete), plus 17 real addresses x masks x four modes x tld on/off"


# ===================================================================== C09
def c09(ctx):
    run_giant(ctx, ["special"])
    doms = list(dict.fromkeys(gen.special_domains(ctx.tier, ctx.rng)))
    c = ctx.K("special", "default", ["S %s" % hx(d) for d in doms], nontrivial=lambda op, ln: True)
    sp = ctx.spec(["sS %s" % hx(d) for d in doms])
    sh = ctx.spec(["sD 0 %s" % hx(d) for d in doms])
    for d, cl, sl, hl in zip(doms, c, sp, sh):
        if hl != "sD 1" or d.endswith(b"."):
            continue
        if (cl == "S 1") != (sl == "sS 1"):
            ctx.S("reserved-domain recognition differs from RFC 2606/6761/7686 on whole labels", op="S %s" % hx(d), input=repr(d), impl=cl, spec=sl)
    for m in MODES:
        sub = doms if ctx.tier != "quick" else doms[::3]
        ops = ["E %d 1 %s" % (m, hx(b"a@" + d)) for d in sub]
        c = ctx.K("special-email%d" % m, "default", ops)
        spm = dict(zip(doms, sp)); shm = dict(zip(doms, sh))
        for d, cl in zip(sub, c):
            if shm[d] != "sD 1" or d.endswith(b"."):
                continue
            f = fields(cl)
            if f[1] == "-2":
                continue
            if (f[1] == "8") != (spm[d] == "sS 1"):
                ctx.S("address on a reserved domain not classified 'special' (or a non-reserved one classified so)", op="E %d 1 %s" % (m, hx(b"a@" + d)), input=repr(d), impl=cl, spec=spm[d])
    # (added) mode 6531: internationalised labels LEFT of the last two change nothing - the A-form ends in the same two labels
    ul = []
    for u in ("почта", "例え", "ελ", "münchen", "a", "xn--80a1acny"):
        for tail in (b"example.com", b"EXAMPLE.org", b"example.net", b"x.test", b"test", b"a.localhost", b"b.invalid", b"c.onion", b"d.example", b"example.co", b"examples.com",
                     b"counterexample.com", b"b.com", b"x.tests", b"example.comm", b"xexample.org"):
            ul += [u.encode() + b"." + tail, u.encode() + b"." + u.encode() + b"." + tail, b"a." + u.encode() + b".b." + tail]
    ul = list(dict.fromkeys(ul))
    usp = ctx.spec(["sS %s" % hx(b".".join([b"x" if any(c >= 0x80 for c in lab) else lab for lab in d.split(b".")])) for d in ul])
    cu = ctx.K("special-ulabel6531", "default", ["E 6531 1 %s" % hx(b"a@" + d) for d in ul], nontrivial=lambda op, ln: True)
    for d, cl, sl in zip(ul, cu, usp):
        f = fields(cl)
        if "FAULT" in cl or f[1] == "-2":
            continue
        if (f[1] == "8") != (sl == "sS 1"):
            ctx.S("mode 6531: a domain with internationalised labels in front is classified special / not special against the reserved-name rules (they are about its last two labels)",
                  op="E 6531 1 %s" % hx(b"a@" + d), domain=d.decode(), impl=cl, spec=sl)
    # (added) 'special' is said of the DOMAIN only: whatever the local part is (every byte value inside a quoted string, bare, escaped), class 8
    # comes out exactly for reserved domains - with TLD checking on, and never with it off
    lps = [b'"a' + bytes([b_]) + b'b"' for b_ in range(1, 256) if b_ != 0x40] + [b"a" + bytes([b_]) + b"b" for b_ in range(1, 256) if b_ != 0x40] + \
          [b'"a\\' + bytes([b_]) + b'"' for b_ in (1, 9, 10, 13, 32, 34, 92, 127, 128, 255)] + [b'"\n"', b'"\r\n "', b'"\r"', b'"a\n\nb"', b'"\n\r"', b"a", b'""', b'"a"."b\n"']
    ldoms = [b"b.com", b"example.com", b"x.test", b"mail.example.org", b"counterexample.com", b"[192.0.2.1]", b"localhost", b"b.zz"]
    lds = ctx.spec(["sS %s" % hx(d) for d in ldoms])
    for m in MODES:
        for t in (1, 0):
            ops = ["E %d %d %s" % (m, t, hx(l_ + b"@" + d)) for d in ldoms for l_ in lps]
            cl_ = ctx.K("special-any-local%d" % m, "default", ops, nontrivial=lambda op, ln: True)
            k = 0
            for d, rs in zip(ldoms, lds):
                for l_ in lps:
                    f = fields(cl_[k]); k += 1
                    if "FAULT" in cl_[k - 1]:
                        continue
                    if f[1] == "8" and (t == 0 or rs != "sS 1"):
                        ctx.S("an address is classified 'special' although its domain is not a reserved name%s" % (" (TLD checking is off)" if t == 0 else ""), op=ops[k - 1], local=repr(l_), domain=d.decode(), impl=cl_[k - 1])
    # (added) long domains: the reserved suffix at the end of 250..255-octet names, in the ASCII modes and in 6531
    tails = [b"example.com", b"EXAMPLE.NET", b"a.test", b"x.localhost", b"example.comm", b"a.tests", b"example.co", b"b.com", b"a.invalid"]
    longd = [gen.long_host(n - len(t) - 1, tld=b"zz")[:-3] + b"." + t for n in range(249, 261) for t in tails]
    longd = [d for d in longd if b".." not in d]
    lsp = ctx.spec(["sS %s" % hx(d) for d in longd])
    lho = ctx.spec(["sD 0 %s" % hx(d) for d in longd])
    for m in MODES:
        cl_ = ctx.K("special-long%d" % m, "default", ["E %d 1 %s" % (m, hx(b"a@" + d)) for d in longd], nontrivial=lambda op, ln: True)
        for d, cl, sp_, ho in zip(longd, cl_, lsp, lho):
            f = fields(cl)
            if ho == "sD 1" and f[1] != "-2" and (f[1] == "8") != (sp_ == "sS 1"):
                ctx.S("a long domain is classified special / not special against the reserved-name rules (its length must not matter)", op="E %d 1 %s" % (m, hx(b"a@" + d)), length=len(d), impl=cl, spec=sp_)
    # (added) a release build (-DNDEBUG): the same answers
    if "ndebug" in ctx.drives:
        nd = [d for d in doms[:: (6 if ctx.tier == "quick" else 1)] if 0 not in d]
        cn = ctx.K("special-ndebug", "ndebug", ["S %s" % hx(d) for d in nd], nontrivial=lambda op, ln: True)
        spn = ctx.spec(["sS %s" % hx(d) for d in nd])
        hon = ctx.spec(["sD 0 %s" % hx(d) for d in nd])
        for d, cl, sp_, ho in zip(nd, cn, spn, hon):
            if ho == "sD 1" and not d.endswith(b".") and (cl == "S 1") != (sp_ == "sS 1"):
                ctx.S("in a build with -DNDEBUG a domain is classified special / not special against the reserved-name rules", op="S %s" % hx(d), variant="ndebug", impl=cl, spec=sp_)
    # (added) the same domain validated twice in a row with TLD checking toggled in between (and the other way round), one object and two:
    # 'special' comes out exactly when TLD checking is on for THAT call
    hs = []
    for m in MODES:
        for d_ in (b"mail.example.com", b"hidden.service.onion", b"localhost", b"x.test", b"b.com", b"mail.nosuchtld", "\u043f\u043e\u0447\u0442\u0430.example.org".encode()):
            a1, a2 = hx(b"alice@" + d_), hx(b"bob@" + d_)
            hs += ["i;r%d;t0;s;e%s;t1;e%s;t0;e%s;f" % (m, a1, a2, a1), "i;r%d;t1;s;e%s;t0;e%s;t1;e%s;f" % (m, a1, a2, a2), "i;r%d;t0;s;e%s;t1;s;e%s;f" % (m, a1, a1)]
    check_histories(ctx, "tld-toggled", hs)
    two = []
    for d_ in (b"mail.example.com", b"x.onion", b"b.com", b"mail.nosuchtld"):
        a1 = hx(b"alice@" + d_)
        two += ["i;2i;t0;2t1;s;2s;e%s;2e%s;e%s;2e%s;f;2f" % (a1, a1, a1, a1), "i;2i;t1;2t0;k248;s;2s;e%s;2e%s;2e%s;e%s;f;2f" % (a1, a1, a1, a1)]
    check_two_objects(ctx, "tld-toggled-two-objects", two)
    # (added) a LABELS_ALLOW_UNDERSCORE build: '_' may occur in the labels further left; the reserved names are the same (direct calls and whole
    # addresses, all four modes)
    if "underscore" in ctx.drives:
        ud = [d for d in doms if 0 not in d and (b"_" in d or ctx.rng.random() < (0.08 if ctx.tier == "quick" else 0.5))]
        cu_ = ctx.K("special-underscore", "underscore", ["S %s" % hx(d) for d in ud], nontrivial=lambda op, ln: True)
        spu = ctx.spec(["sS %s" % hx(d) for d in ud])
        hou = ctx.spec(["sD 1 %s" % hx(d) for d in ud])
        for d, cl, sp_, ho in zip(ud, cu_, spu, hou):
            if ho == "sD 1" and not d.endswith(b".") and (cl == "S 1") != (sp_ == "sS 1"):
                ctx.S("in a LABELS_ALLOW_UNDERSCORE build a host name is classified special / not special against the reserved-name rules", op="S %s" % hx(d), variant="underscore", impl=cl, spec=sp_)
        uu = [d for d in ud if b"_" in d]
        for m in MODES:
            ce = ctx.K("special-underscore-email%d" % m, "underscore", ["E %d 1 %s" % (m, hx(b"a@" + d)) for d in uu], nontrivial=lambda op, ln: True)
            spm_ = dict(zip(ud, spu)); hom_ = dict(zip(ud, hou))
            for d, cl in zip(uu, ce):
                f = fields(cl)
                if "FAULT" in cl or hom_[d] != "sD 1" or d.endswith(b".") or f[1] == "-2":
                    continue
                if (f[1] == "8") != (spm_[d] == "sS 1"):
                    ctx.S("LABELS_ALLOW_UNDERSCORE build: address on a reserved domain with '_' in a label further left not classified 'special' (or a non-reserved one classified so)",
                          op="E %d 1 %s" % (m, hx(b"a@" + d)), variant="underscore", input=repr(d), impl=cl, spec=spm_[d])
RULES["C09"] = "distinct domains: each reserved suffix and each one-edit neighbour, case patterns, preceded by 0-3 labels of lengths 1-63 (quick: 1-11, 62, 63); direct is_special_domain calls and whole addresses in four modes"


# ===================================================================== C12
def c12(ctx):
    strs = [s for s in dict.fromkeys(gen.email_strings(ctx.tier, ctx.rng)) if 0 not in s]
    plain = []
    for s in strs:
        if all(b < 128 for b in s) and b"@" in s:
            l = s[:s.rindex(b"@")]
            if b'"' not in l and b"\\" not in l:
                plain.append(s)
    # local parts without quotes/backslashes from the C02 corpus, on two domains
    for l in gen.local_strings("quick", ctx.rng)[:: (40 if ctx.tier == "quick" else 4)]:
        if all(b < 128 for b in l) and b'"' not in l and b"\\" not in l and b"@" not in l and 0 not in l:
            plain.append(l + b"@b.com"); plain.append(l + b"@[1.2.3.4]")
    for w in gen.words([b"a", b".", b"1"], 6, 1):
        plain.append(w + b"@b.com")
    # domains with TWO defects, the size defect to the right of another one: the code is that of the first defect from the left in every mode
    for n in (64, 65, 100, 200):
        big = b"a" * n
        for pre in (b"sub_domain.", b"mail...", b".", b"b!.", b"a b.", b"-x.", b"x-.", b"1.2.", b"ok.", b"a..b."):
            for tl in (b".com", b"", b".", b".zz"):
                plain.append(b"user@" + pre + big + tl)
    for pre in (b"a_b.", b"..", b"a!.", b"x..y.", b"-."):
        plain += [b"user@" + pre + gen.long_host(260), b"user@" + pre + gen.long_host(254), b"user@" + pre + gen.long_host(250)]
    # rooted names (reserved, listed, unlisted): whatever a mode says about them, the four modes say the same
    rooted = [b"user@example.com.", b"user@host.test.", b"user@a.invalid.", b"user@b.com.", b"user@b.zz.", b"user@localhost.", b"user@x.example.org.", b"user@mail.b.museum.",
              b"user@EXAMPLE.NET.", b"user@a.b.c.onion.", b"user@com.", b"user@b.com.."]
    plain += rooted
    # local parts that contain an '@' themselves (the split is at the LAST one), with dots and blanks next to the inner '@'
    plain += [b"first.@last@example.org", b"a.@b@c.com", b".@a@b.com", b"a@.b@c.com", b"a.@@b.com", b"a..@b@c.com", b"a@b.@c.com", b"a@@b.com", b"a.b@c.d@e.com", b"a\t@b@c.com", b"a @b@c.com"]
    plain = list(dict.fromkeys(plain))
    # the same comparison in an EAV_EXTRA build (its extra code sits between the domain test and the TLD test)
    if "extra" in ctx.drives:
        subx = list(dict.fromkeys(rooted + plain[:: (8 if ctx.tier == "quick" else 2)]))
        for t in (0, 1):
            resx = {m: ctx.K("plain%d" % m, "extra", ["E %d %d %s" % (m, t, hx(s_)) for s_ in subx], nontrivial=lambda op, ln: fields(ln)[1] not in ("-3", "-16")) for m in MODES}
            for i, s_ in enumerate(subx):
                r = {m: fields(resx[m][i]) for m in MODES}
                if "FAULT" in "".join(resx[m][i] for m in MODES):
                    continue
                if len({r[m][1] for m in (822, 5321, 5322)}) != 1 or (r[6531][1] != r[5321][1] and r[6531][1] != "-2"):
                    ctx.S("EAV_EXTRA build: the four modes disagree (decision or code) on a quote-free pure-ASCII address", op="E 6531 %d %s" % (t, hx(s_)), variant="extra",
                          input=repr(s_), got={k: v[1] for k, v in r.items()})
    # one eav_t that has seen a refused eav_setup (unknown rfc value) before or after the mode was chosen: the four modes still agree, and each
    # gives what a fresh object gives
    hs = []
    for m in MODES:
        ads = ";".join("e" + hx(a_) for a_ in (b"user@iana.org", b"a.b@b.com", b"a..b@b.com", b"user@b.zz"))
        hs += ["i;t0;r9;s;m;r%d;s;%s;m;f" % (m, ads), "i;t1;r%d;s;r9;s;m;%s;m;f" % (m, ads), "i;t0;r9;s;r9;s;r%d;s;%s;f" % (m, ads)]
    check_histories(ctx, "refused-setup", hs)
    for t in (0, 1):
        res = {}
        for m in MODES:
            res[m] = ctx.K("plain%d" % m, "default", ["E %d %d %s" % (m, t, hx(s)) for s in plain], nontrivial=lambda op, ln: fields(ln)[1] not in ("-3", "-16"))
        for i, s in enumerate(plain):
            r = {m: fields(res[m][i]) for m in MODES}
            for m in (822, 5322):
                if r[m][1] != r[5321][1]:
                    ctx.S("ASCII modes disagree (decision or code) on a quote-free pure-ASCII address", op="E %d %d %s" % (m, t, hx(s)), input=repr(s), got={k: v[1] for k, v in r.items()})
            if r[6531][1] != r[5321][1] and r[6531][1] != "-2":
                ctx.S("mode 6531 disagrees with the ASCII modes on a quote-free pure-ASCII address (and not by an IDN error)", op="E 6531 %d %s" % (t, hx(s)), input=repr(s), got={k: v[1] for k, v in r.items()})
        # inclusion 5321 ⊆ 822 and shared domain verdict, on all addresses
        res = {m: ctx.K("all%d" % m, "default", ["E %d %d %s" % (m, t, hx(s)) for s in strs]) for m in (822, 5321, 5322)}
        for i, s in enumerate(strs):
            r = {m: fields(res[m][i]) for m in res}
            acc = lambda f: f[1] == "0" or int(f[1]) > 0
            if acc(r[5321]) and not acc(r[822]):
                ctx.S("address accepted in mode 5321 but rejected in mode 822", op="E 822 %d %s" % (t, hx(s)), input=repr(s), m5321=res[5321][i], m822=res[822][i])
        # fixed domain part, local part valid in all modes: same verdict, class and flags
        doms = sorted({s[s.rindex(b"@") + 1:] for s in strs if b"@" in s})
        for m in (822, 5321, 5322):
            res[m] = ctx.K("dom%d" % m, "default", ["E %d %d %s" % (m, t, hx(b"a@" + d)) for d in doms])
        for i, d in enumerate(doms):
            if not (res[822][i][2:] == res[5321][i][2:] == res[5322][i][2:]):
                ctx.S("ASCII modes report different domain verdict/class/flags for the same domain", op="E 822 %d %s" % (t, hx(b"a@" + d)), input=repr(d), got=[res[m][i] for m in (822, 5321, 5322)])
    # (added) S only: a NUL inside the local part, passed with the full length - whatever the library says, it says it in all four modes
    nuls = [b"a\0b@foo.de", b"\0@foo.de", b"ab\0@foo.de", b'"a\0b"@foo.de', b"a\0@b@foo.de", b"a\0b\0c@foo.de", b"a.b\0c.d@[1.2.3.4]"]
    outs = {}
    for m in MODES:
        cn, _ = ctx.run("nul-in-local%d" % m, "default", ["E %d 0 %s" % (m, hx(x)) for x in nuls])
        ctx.evals += len(nuls)
        outs[m] = cn
    for i, x in enumerate(nuls):
        got = {m: fields(outs[m][i])[1] for m in MODES}
        ctx.nontrivial.add("nul:" + hx(x))
        if len(set(got.values())) != 1:
            ctx.S("an address with a NUL inside the local part (explicit length) is decided differently by the four modes", op="E * 0 %s" % hx(x), input=repr(x), results=got)
RULES["C12"] = "distinct addresses passing basic_email_check; the C01 corpus restricted to pure-ASCII quote-free local parts plus the C02 corpus on two domains, in all four modes and tld on/off, compared pairwise"


# ===================================================================== C15 / C16 share a corpus
def diag_corpus(ctx):
    strs = [s for s in dict.fromkeys(gen.email_strings(ctx.tier, ctx.rng)) if 0 not in s]
    extra = []
    for l in gen.local_strings("quick", ctx.rng, utf8=True)[:: (25 if ctx.tier == "quick" else 3)]:
        if b"@" not in l and 0 not in l:
            extra.append(l + b"@b.com")
    for x in ("é", "Ж", "№", "中", "😀"):
        for fmt in ("a.%s.b", "%s.%s", "a.%s", "%s.b", "a..%s", "%s..b", '"%s"', '"\\%s"', '%s"q"', '"q"%s', "a%s.b%s"):
            extra.append((fmt.replace("%s", x)).encode() + b"@b.com")
    for d in gen.domain_strings("quick", ctx.rng)[:: (60 if ctx.tier == "quick" else 5)]:
        if b"@" not in d and 0 not in d:
            extra.append(b"a@" + d)
    for d in gen.literal_domains("quick", ctx.rng)[:: (8 if ctx.tier == "quick" else 1)]:
        if 0 not in d:
            extra.append(b"a@" + d)
    tbl = table_names(ctx)
    for r in tbl[:: (15 if ctx.tier == "quick" else 1)]:
        extra.append(b"a@x." + r[0])
    for d in gen.special_domains("quick", ctx.rng)[::50]:
        extra.append(b"a@" + d)
    for u in gen.IDN_SAMPLES:
        extra.append(b"a@" + u.encode())
    return list(dict.fromkeys(strs + extra))


def split_addr(s):
    if b"@" not in s:
        return None, None
    i = s.rindex(b"@")
    return s[:i], s[i + 1:]


def c15(ctx):
    run_giant(ctx, ["email-long-local"])
    strs = diag_corpus(ctx)
    tbl = {r[0] for r in table_names(ctx)}
    seen_codes = set()
    for m in MODES:
        lm = {822: "822", 5321: "5321", 5322: "5322", 6531: "6531"}[m]
        for t in (0, 1):
            ops = ["P %d %d %d %s" % (m, t, 8 | 16 | 32 | 64 | 128 | 512, hx(s)) for s in strs]
            c = ctx.K("diag%d" % m, "default", ops, nontrivial=lambda op, ln: fields(ln)[2] not in ("0", "3", "16"))
            locs = [split_addr(s)[0] or b"" for s in strs]
            spl = ctx.spec(["sL %s %s" % (lm, hx(l)) for l in locs])
            for s, cl, sl in zip(strs, c, spl):
                f = fields(cl)
                ret, ec, msg, rc = f[1], int(f[2]), f[3], int(f[4])
                seen_codes.add(ec)
                op = "P %d %d %d %s" % (m, t, 760, hx(s))
                L, D = split_addr(s)
                bad = None
                if (ret == "1") != (ec == 0):
                    bad = "eav_is_email returns 1 although an error is recorded (or 0 with 'no error')"
                elif ret == "0" and msg in ("NULL", "m0"):
                    bad = "rejection without a message"
                elif ec != 2 and msg != "m%d" % ec:
                    bad = "eav_errstr does not return the message of the recorded code"
                elif ec == 2 and msg != "idn:#%s" % f[5]:
                    bad = "IDN failure does not carry the IDN library's message for the returned code"
                elif rc < 0 and ec != -rc:
                    bad = "error code is not the code returned by the failing validator"
                elif ec == 3 and len(s) != 0: bad = "'empty email address' for a non-empty input"
                elif ec == 16 and not (L is None or D == b""): bad = "'domain is empty' although a domain is present"
                elif ec == 4 and L != b"": bad = "'local-part is empty' although it is not"
                elif ec == 5 and not (L is not None and len(L) > 64): bad = "'local-part is too long' at 64 octets or fewer"
                elif ec == 11 and b".." not in (L or b""): bad = "'too many dots' without '..' in the local part"
                elif ec in (6, 7, 8, 9, 10, 11, 12, 13, 14, 15) and sl == "sL 1": bad = "local-part error on a local part that is valid for the mode"
                elif ec == 6 and m != 6531 and all(b < 128 for b in (L or b"")): bad = "'non-ascii characters' on a pure-ASCII local part"
                elif ec == 6 and m == 6531 and all(b < 128 for b in (L or b"")): bad = "'non-ascii characters' on a pure-ASCII local part"
                elif ec == 8 and not any(b < 32 or b == 127 for b in (L or b"")): bad = "'control characters' without a control character"
                elif ec == 9 and b'"' not in (L or b""): bad = "'misplaced double quote' without a double quote"
                elif ec == 10 and b'"' not in (L or b""): bad = "'open double quote' without a double quote"
                elif ec == 12 and b"." not in (L or b""): bad = "'misplaced dot' without a dot"
                elif ec == 25 and D is not None and b"]" in D: bad = "'unpaired bracket' although a closing bracket is present"
                elif ec in (24, 25) and not (D or b"").startswith(b"["): bad = "ip-addr error on a domain that does not start with '['"
                elif ec == 23 and m != 6531 and b"." in (D or b"").rstrip(b"."): bad = "'not FQDN' on a multi-label domain"
                elif ec == 26 and m != 6531 and D and not D.endswith(b".") and D.rsplit(b".", 1)[-1].lower() in tbl: bad = "'invalid TLD' although the last label is in the table"
                elif ec == 21 and m != 6531 and len(D or b"") < 254: bad = "'domain is too long' below the limit"
                elif ec == 22 and m != 6531 and not all(b in b"0123456789." for b in (D or b"")): bad = "'all-numeric' on a domain with other characters"
                elif ec == 17 and m != 6531 and not any(len(x) > 63 for x in (D or b"").split(b".")): bad = "'label is too long' without a label above 63"
                if bad:
                    ctx.S(bad, op=op, input=repr(s), impl=cl)
    # eav_setup: 0 for the four modes, EEAV_INVALID_RFC otherwise, and errstr says so
    for v in [822, 5321, 5322, 6531, -1, 4, 5, 7, 100, 2147483647, -2147483648]:
        op = "H i;r%d;s;m;f" % v
        c = ctx.K("setup", "default", [op], nontrivial=lambda op, ln: True)[0]
        parts = c[2:].split(";")
        valid = v in (822, 5321, 5322, 6531)
        if valid and parts[2] != "s0":
            ctx.S("eav_setup fails for a defined mode", op=op, impl=c)
        if not valid and (parts[2] != "s1" or parts[3] != "mm1"):
            ctx.S("eav_setup with an undefined mode: wrong return code or eav_errstr does not report it", op=op, impl=c)
    # the other IDN back ends: an IDN failure is reported with the IDN code and that library's message for it
    idnbad = [b"user@ex\xff\xfeample.org", b"a@\xff.com", "a@☕.de".encode(), b"a@xn--a.com", b"a@ab--cd.com", ("a@" + "ж" * 70 + ".рф").encode(), "a@a\u200db.com".encode(), b"a@\xc3.com"]
    for v in [x for x in ctx.drives if x.startswith("be:")]:
        cb = ctx.K("idn-message", v, ["P 6531 %d 760 %s" % (t, hx(x)) for t in (0, 1) for x in idnbad], nontrivial=lambda op, ln: True)
        for cl in cb:
            f = fields(cl)
            if f[2] == "2" and f[3] != "idn:#%s" % f[5]:
                ctx.S("back end %s: an IDN failure does not carry the IDN library's message for the returned code" % v[3:], op="P 6531 * 760", variant=v, impl=cl)
            if f[2] == "2" and f[5] == "0":
                ctx.S("back end %s: an IDN failure is reported with IDN code 0 ('success')" % v[3:], op="P 6531 * 760", variant=v, impl=cl)
    # the message always describes the latest call: validations of every kind of outcome (IDN failures included, real and injected)
    # followed by a failed eav_setup, by eav_errstr, by a successful setup and another validation
    hg = HistGen(ctx.rng)
    scripts = []
    kinds = [b"a@b.com", b"a@x.test", "invalid@\u2615.de".encode(), b"a@\xff.com", b"a@[1.2.3.4]", b"bad", b"a@b", b'"a b"@b.ru', "ж@почта.рф".encode(), b"a@x.zzzz"]
    for a in kinds:
        for bad_rfc in (7, -1):
            for m0 in (6531, 5321):
                scripts.append("i;r%d;s;e%s;m;r%d;s;m;m;r%d;s;m;e%s;m;f" % (m0, hx(a), bad_rfc, m0, hx(b"a@b.com")))
                scripts.append("i;r%d;s;e%s;r%d;s;m;e%s;m;f" % (m0, hx(a), bad_rfc, hx(a)))
        for rc in IDN_RCS[::5]:
            scripts.append("i;s;x%d,1;e%s;m;x0;r7;s;m;r6531;s;e%s;m;f" % (rc, hx(a), hx(a)))
    for n in ([10, 40] if ctx.tier == "quick" else [10, 40, 100]):
        for _ in range(40 if ctx.tier == "quick" else 400):
            scripts.append(hg.random_history(n, H_ADDRS + kinds, inject=True))
    # every class allowed (and more bits set): a rejection followed by an acceptance on the same object - 1 is returned iff 'no error' is recorded
    for k_ in (2044, 2046, 2047, 4095, 1020):
        for bad_ in (b"user@host.nosuchtldxyz", b"a..b@b.com", "user@\u2665.de".encode(), b"user@b"):
            for m0 in (6531, 5321):
                scripts.append("i;r%d;k%d;s;e%s;m;e%s;m;e%s;m;e%s;m;f" % (m0, k_, hx(bad_), hx(b"user@gmail.com"), hx(bad_), hx(b"a@x.test")))
    check_histories(ctx, "errstr-history", list(dict.fromkeys(scripts)))
    # a LABELS_ALLOW_UNDERSCORE build: the domain codes name conditions that hold when '_' counts as a letter
    if "underscore" in ctx.drives:
        ud = [b"1_2.3_4", b"_1._2", b"2022_10_09.1", b"_", b"192_168.0.1", b"1_2", b"_._", b"a_b.3_4", b"1.2.3", b"12.34", b"a_", b"_a.com", b"x._y.org", b"1_.2-3", b"-_.com", b"_-.com", b"a_-b.com",
              b"_" * 63 + b".com", b"_" * 64 + b".com", b"1_" * 31 + b"1.com", b"9" * 63 + b"._"]
        hos = ctx.spec(["sD 1 %s" % hx(d_) for d_ in ud])
        for m in MODES:
            cu_ = ctx.K("underscore-codes%d" % m, "underscore", ["P %d 0 760 %s" % (m, hx(b"user@" + d_)) for d_ in ud], nontrivial=lambda op, ln: True)
            for d_, ln, ho in zip(ud, cu_, hos):
                f = fields(ln)
                if "FAULT" in ln:
                    continue
                ec_ = int(f[2])
                opx = "P %d 0 760 %s" % (m, hx(b"user@" + d_))
                if ec_ == 22 and not all(b_ in b"0123456789." for b_ in d_):
                    ctx.S("LABELS_ALLOW_UNDERSCORE build: 'domain is all-numeric' reported for a domain that has other characters than digits and dots", op=opx, variant="underscore", impl=ln)
                if m != 6531 and ho == "sD 1" and 16 <= ec_ <= 22:
                    ctx.S("LABELS_ALLOW_UNDERSCORE build: a domain error is reported for a host name that is valid with '_' as a letter", op=opx, variant="underscore", impl=ln)
                if m != 6531 and ho == "sD 1" and f[1] != "1":
                    ctx.S("LABELS_ALLOW_UNDERSCORE build: an address on a host name valid with '_' as a letter is refused (TLD checking off)", op=opx, variant="underscore", impl=ln)
    ctx.extra_cov["error_codes_produced"] = sorted(seen_codes)
    missing = sorted(set(range(0, 36)) - seen_codes - {1})
    ctx.extra_cov["error_codes_not_produced"] = missing
RULES["C15"] = "distinct (mode, tld, address) triples rejected by something other than the empty/missing-domain checks; corpora of C01-C10 in four modes; every produced code checked against its predicate"


def c16(ctx):
    strs = diag_corpus(ctx)
    strs = list(dict.fromkeys(strs + [b"a@" + d for d in gen.literal_domains("quick", ctx.rng) if 0 not in d and d.startswith(b"[")]))
    # long internationalised host names (long in UTF-8, short as A-labels): the EAV_EXTRA copy is the domain as given
    strs += [b"a@" + ((a_ * n1 + "." + b_ * n1 + "." + a_ * n1 + b_ + "." + t_).encode()) for a_, b_ in (("中", "国"), ("ж", "я")) for n1 in (30, 45) for t_ in ("com", "рф")]
    strs = list(dict.fromkeys(strs))
    spi = dict(zip(strs, ctx.spec(["sI %s" % hx(split_addr(s)[1] or b"") for s in strs])))
    for v in ["default", "extra"] + [x for x in ("uchar", "extra+ndebug") if x in ctx.drives] + [x for x in ctx.drives if x.startswith("be:")]:
        if v.startswith("be:") or v in ("uchar", "extra+ndebug"):
            strs_v = strs[:: (6 if ctx.tier == "quick" else 1)]
        else:
            strs_v = strs
        _all = strs
        strs = strs_v
        for m in MODES:
            for t in (0, 1):
                ops = ["E %d %d %s" % (m, t, hx(s)) for s in strs]
                c = ctx.K("result%d" % m, v, ops, nontrivial=lambda op, ln: fields(ln)[1] not in ("-3", "-16", "-5", "-4"))
                for s, cl in zip(strs, c):
                    f = fields(cl)
                    rc, flags = int(f[1]), f[3]
                    L, D = split_addr(s)
                    op = "E %d %d %s" % (m, t, hx(s))
                    bad = None
                    accepted_syntax = rc >= 0 or (-rc) in (23, 26)        # both halves syntactically valid
                    if flags.count("1") > 1: bad = "more than one of is_ipv4/is_ipv6/is_domain set"
                    elif rc >= 0 and flags.count("1") != 1: bad = "accepted address without exactly one form flag"
                    elif rc >= 0 and D.startswith(b"[") and flags[2] == "1": bad = "address literal reported as host name"
                    elif rc >= 0 and not D.startswith(b"[") and flags != "001": bad = "host-name domain not reported as is_domain"
                    elif rc >= 0 and D.startswith(b"[") and ((flags == "100") != (spi[s][5] == "1")): bad = "literal family flag does not match the address"
                    elif rc < 0 and (-rc) not in (23, 26) and flags != "000": bad = "flag set although the address is syntactically invalid"
                    elif t == 0 and rc > 0: bad = "TLD class reported with TLD checking off"
                    elif rc > 9: bad = "result code above the TLD classes"
                    if (v == "extra" or v.endswith("+extra") or v.startswith("extra+")) and not bad:
                        lp, dm = f[4], f[5]
                        if rc >= 0:
                            want_d = D[1:-1] if D.startswith(b"[") else D
                            if lp != "=" + hx(L) or dm != "=" + hx(want_d):
                                bad = "EAV_EXTRA lpart/domain do not reproduce the halves of the accepted address"
                        elif (-rc) not in (23, 26) and (lp != "NULL" or dm != "NULL"):
                            bad = "EAV_EXTRA lpart/domain not NULL for a syntactically invalid address"
                    if bad:
                        ctx.S(bad, op=op, variant=v, input=repr(s), impl=cl)
        strs = _all
    # the record of eav_t.result after each eav_is_email of a history: it describes THAT call (an over-long or otherwise refused address after an
    # accepted one, the empty address, every kind after every kind), in builds with and without the EAV_EXTRA fields
    kinds = [b"a@b.com", b"user.name@[192.0.2.1]", b"a@[IPv6:2001:db8::1]", "ж@почта.рф".encode(), b"a@\xff.com", b"a@x.test", b"bad", b"", b"a@b.zz", b"a@b", b"a@-b.com"] + LONG_ADDRS + \
            [b"a@" + b"b" * n for n in (1080, 1090, 1100, 2200)] + [b"a" * n + b"@b.com" for n in (1089, 1090, 4096)]
    hs = []
    for m in MODES:
        for a in kinds[:6]:
            for b_ in kinds:
                hs.append("i;r%d;s;e%s;e%s;e%s;f" % (m, hx(a), hx(b_), hx(a)))
    for v in ["default", "extra"] + [x for x in ctx.drives if x.startswith("be:")]:
        hv = hs if not v.startswith("be:") else hs[:: (3 if ctx.tier == "quick" else 1)]
        hc = check_histories(ctx, "record-history", hv, variant=v)
        for sc, cl in zip(hv, hc):
            parts = cl[2:].split(";")
            for i, kind, st in interpret_history(sc):
                if kind != "e" or i >= len(parts):
                    continue
                f = parts[i].split(" ")
                if len(f) < 6 or "FAULT" in parts[i]:
                    continue
                rc, flags = int(f[3]), f[5]
                addr = bytes.fromhex(st[3]) if st[3] not in ("", "-") else b""
                L, D = split_addr(addr)
                bad = None
                if flags.count("1") > 1: bad = "more than one of is_ipv4/is_ipv6/is_domain set"
                elif rc >= 0 and flags.count("1") != 1: bad = "accepted address without exactly one form flag"
                elif rc < 0 and (-rc) not in (23, 26) and flags != "000": bad = "flag set although the address is refused as syntactically invalid"
                elif (v == "extra" or v.endswith("+extra")) and len(f) >= 8:
                    lp, dm = f[6], f[7]
                    if rc >= 0 and (lp != "=" + hx(L) or dm != "=" + hx(D[1:-1] if D.startswith(b"[") else D)):
                        bad = "EAV_EXTRA lpart/domain do not reproduce the halves of the accepted address"
                    elif rc < 0 and (-rc) not in (23, 26) and (lp != "NULL" or dm != "NULL"):
                        bad = "EAV_EXTRA lpart/domain not NULL for a refused address"
                if bad:
                    ctx.S("eav_t.result after eav_is_email: " + bad, op="H " + sc, variant=v, step=i, impl=parts[i])
    # the record (its TLD class included) is a function of the call's own arguments: the same calls in another order give the same records
    nb = tld_neighbours(ctx, 200 if ctx.tier == "quick" else 20)
    for m in ((5321, 6531) if ctx.tier == "quick" else MODES):
        check_order_independent(ctx, "record-order%d" % m, "default", ["E %d 1 %s" % (m, hx(a)) for a in nb],
                                "the result record (TLD class in rc) of an address depends on the address validated before it")
RULES["C16"] = "distinct (mode, tld, address) triples passing basic_email_check; corpora of C01-C10, four modes, tld on/off, builds with and without EAV_EXTRA"


def tld_neighbours(ctx, step):
    """addresses in an order that puts a listed TLD right in front of its proper prefixes and one-letter extensions"""
    names = [r[0] for r in table_names(ctx)]
    out = []
    for n in [b"com", b"museum", b"info", b"org", b"xn--p1ai", b"active"] + names[::step]:
        out += [b"a@x." + n, b"a@x." + n[:-1], b"a@x." + n[:1], b"a@x." + n, b"a@x." + n + b"x", b"a@x." + n.upper()[:2], b"a@x." + n[:max(1, len(n) // 2)]]
    return [a for a in out if not a.endswith(b".")]


def check_order_independent(ctx, name, variant, ops, what):
    """each op gives the same line whatever was evaluated before it in the process: the list in order, reversed and shuffled"""
    fwd = ctx.K(name, variant, ops, nontrivial=lambda op, ln: True)
    rops = list(reversed(ops))
    rev = list(reversed(ctx.K(name + "-reversed", variant, rops, nontrivial=lambda op, ln: True)))
    idx = list(range(len(ops))); ctx.rng.shuffle(idx)
    shl = ctx.K(name + "-shuffled", variant, [ops[i] for i in idx], nontrivial=lambda op, ln: True)
    sh = [None] * len(ops)
    for pos, i in enumerate(idx):
        sh[i] = shl[pos]
    for k, (op, a, b, c_) in enumerate(zip(ops, fwd, rev, sh)):
        if not (a == b == c_):
            ctx.S(what, op=op, variant=variant, impl=a, previous_op=ops[k - 1] if k else None, same_call_in_reversed_order=b, same_call_in_shuffled_order=c_)
    return fwd


# ===================================================================== histories (C13, C19)
H_ADDRS = [b"a@b.com", b"a@x.test", b"a@[1.2.3.4]", "ж@почта.рф".encode(), b"a@\xff.com", b'"a b"@b.ru', b"a@b", b"bad",
           b"a@b.co", b"a@x.museum", b"a@x.muse", b"a@x.info", b"a@x.inf", b'"a\tb"@b.com', b"a@ab--cd.com", b"a@x.active", b"a@x.ac", "ж@b.com".encode()]
# long addresses: valid at the maximum lengths, and invalid ones whose beginning is valid (an object that keeps a buffer between calls has its seams here)
LONG_ADDRS = [b"a" * 64 + b"@" + gen.long_host(253), b"a" * 60 + b"@" + gen.long_host(190) + b".museum", b"a@" + gen.long_host(250) + b".com", b"a@" + b"b." * 300 + b"com",
              b"x" * 200 + b"@" + gen.long_host(100), ("ж" * 30 + "@" + ("я" * 40 + ".") * 4 + "рф").encode(), b"a@[IPv6:" + b"1:" * 600 + b"]", b"a@b.com" + b" " * 1200,
              b"a" * 64 + b"@" + gen.long_host(253)[:-3] + b"zzz"]
H_MASKS = [760, 8, 2046, 0]
IDN_RCS = [-100, -101, -102] + list(range(-209, -199)) + list(range(-314, -299)) + [1, 12345, -1]


class HistGen:
    """legal histories: `i` first; `e` only once a setup has succeeded since the last `i`; ends with `f`"""

    def __init__(self, rng):
        self.rng = rng

    def random_history(self, n, addrs, inject=False):
        ops = ["i"]
        confirmed = False
        rfc = 6531
        for _ in range(n):
            r = self.rng.random()
            if r < 0.12:
                rfc = self.rng.choice([822, 5321, 5322, 6531, 6531, 7, -1])
                ops.append("r%d" % rfc)
            elif r < 0.2:
                ops.append("t%d" % self.rng.randint(0, 1))
            elif r < 0.28:
                ops.append("k%d" % self.rng.choice(H_MASKS))
            elif r < 0.42:
                ops.append("s")
                if rfc in (822, 5321, 5322, 6531):
                    confirmed = True
            elif r < 0.48:
                ops.append("m")
            elif r < 0.5:
                ops.append("v")             # re-read the record the object holds (model: `e.result`)
            elif r < 0.55:
                ops += ["f", "i"]
                confirmed = False
                rfc = 6531
            elif inject and r < 0.65:
                ops.append(self.rng.choice(["x0", "x%d,%d" % (self.rng.choice(IDN_RCS), self.rng.randint(0, 1))]))
            elif confirmed:
                ops.append("e" + hx(self.rng.choice(addrs)))
            else:
                ops.append("s")
                if rfc in (822, 5321, 5322, 6531):
                    confirmed = True
        ops.append("f")
        return ";".join(ops)

    def exhaustive(self, depth, pool):
        """all sequences of `depth` pool ops (filtered for legality) after `i;s`"""
        import itertools
        out = []
        for seq in itertools.product(pool, repeat=depth):
            ops = ["i", "s"]
            confirmed, rfc, ok = True, 6531, True
            for o in seq:
                if o == "fi":
                    ops += ["f", "i"]; confirmed = False; rfc = 6531
                    continue
                if o[0] == "r":
                    rfc = int(o[1:])
                if o == "s" and rfc in (822, 5321, 5322, 6531):
                    confirmed = True
                if o[0] == "e" and not confirmed:
                    ok = False; break
                ops.append(o)
            if ok:
                out.append(";".join(ops + ["f"]))
        return out


def interpret_history(script, idnkit=False):
    """abstract state (confirmed mode, tld, mask) at each `e`, and whether a failed setup intervened before each `m`.
    idnkit: `y` makes the next creation of the resolver context fail - an eav_setup for 6531 on an object without a context is then refused
    and the mode confirmed before stays in force"""
    mode_confirmed, rfc, tld, mask = None, 6531, 1, 760
    out = []
    inj = None
    last = None        # what errstr should describe: ("e", idx) or ("setupfail",) or None
    failnext, has_ctx = False, False
    for i, o in enumerate(script.split(";")):
        if o == "i":
            mode_confirmed, rfc, tld, mask, last, has_ctx = None, 6531, 1, 760, ("init",), False
        elif o[0] == "r": rfc = int(o[1:])
        elif o[0] == "t": tld = int(o[1:])
        elif o[0] == "k": mask = int(o[1:])
        elif o == "y":
            failnext = failnext or idnkit
        elif o == "s":
            if rfc == 6531 and failnext and not has_ctx:
                failnext = False; last = ("createfail",)              # refused: nothing changes but the stored message
            elif rfc in (822, 5321, 5322, 6531):
                mode_confirmed = rfc; has_ctx = (rfc == 6531)
            else: last = ("setupfail",)
        elif o[0] == "x":
            inj = None if o == "x0" else o[1:]
        elif o[0] == "e":
            out.append((i, "e", (mode_confirmed, tld, mask, o[1:], inj)))
            last = ("e", i)
        elif o == "m":
            out.append((i, "m", last))
    return out


def check_histories(ctx, name, scripts, variant="default"):
    ops = ["H " + sc for sc in scripts]
    c = ctx.K(name, variant, ops, nontrivial=lambda op, ln: True)
    # fresh-object outcomes for every (mode, tld, mask, addr) met without injection
    need = {}
    idnkit = variant.startswith("be:idnkit")
    for sc in scripts:
        for i, kind, st in interpret_history(sc, idnkit):
            if kind == "e" and st[4] is None:
                need[st[:4]] = None
    keys = sorted(need, key=str)
    fresh = ctx.K(name + "-fresh", variant, ["P %d %d %d %s" % k for k in keys], nontrivial=lambda op, ln: True)
    for k, ln in zip(keys, fresh):
        need[k] = ln[2:]
    for sc, cl in zip(scripts, c):
        parts = cl[2:].split(";")
        outs = {}
        for i, kind, st in interpret_history(sc, idnkit):
            got = parts[i] if i < len(parts) else "?"
            if kind == "e":
                outs[i] = got
                if st[4] is None:
                    if got[1:] != need[st[:4]]:
                        ctx.S("eav_is_email outcome depends on the history of the eav_t, not only on (confirmed mode, tld_check, allow_tld, address)",
                              op="H " + sc, step=i, got=got, fresh=need[st[:4]])
                else:
                    rc = st[4].split(",")[0]
                    f = got.split(" ")
                    will_convert = st[0] == 6531 and f[3] not in ("-3", "-16", "-5") and not (-15 <= int(f[3]) <= -4) and int(f[3]) not in (-24, -25) and f[5] != "100" and f[5] != "010"
                    if f[3] == "-2" and not (f[0] == "e0" and f[1] == "2" and f[2] == "idn:#" + rc and f[4] == rc and f[5] == "000"):
                        ctx.S("IDN failure not contained: wrong return/code/message/flags", op="H " + sc, step=i, got=got)
                    if will_convert and f[3] != "-2":
                        ctx.S("the IDN library failed (injected code %s), yet the address is not rejected with the IDN error code" % rc, op="H " + sc, step=i, got=got)
                    if st[0] == 6531 and f[3] not in ("-2",) and f[5] == "001":
                        ctx.S("injected IDN failure, yet the domain was treated as valid", op="H " + sc, step=i, got=got)
            elif kind == "m":
                if st and st[0] == "e" and got[1:] != outs[st[1]].split(" ")[2]:
                    ctx.S("eav_errstr does not describe the most recent eav_is_email call", op="H " + sc, step=i, got=got, last=outs[st[1]])
                if st and st[0] == "setupfail" and got != "mm1":
                    ctx.S("eav_errstr after a failed eav_setup does not report the invalid RFC", op="H " + sc, step=i, got=got)
    return c


def interleavings(a, b, rng, limit):
    """interleavings of the op lists a (object 1) and b (object 2, ops prefixed with `2`), each keeping its own order: all of them when there are
    at most `limit`, a random sample otherwise"""
    import math
    total = math.comb(len(a) + len(b), len(a))
    out = set()
    if total <= limit:
        def rec(i, j, cur):
            if i == len(a) and j == len(b):
                out.add(";".join(cur)); return
            if i < len(a): rec(i + 1, j, cur + [a[i]])
            if j < len(b): rec(i, j + 1, cur + ["2" + b[j]])
        rec(0, 0, [])
    else:
        while len(out) < limit:
            i = j = 0; cur = []
            while i < len(a) or j < len(b):
                if j >= len(b) or (i < len(a) and rng.random() < len(a[i:]) / (len(a[i:]) + len(b[j:]))):
                    cur.append(a[i]); i += 1
                else:
                    cur.append("2" + b[j]); j += 1
            out.add(";".join(cur))
    return sorted(out)


def check_two_objects(ctx, name, scripts, variant="default"):
    """two eav_t objects used in one interleaved history: every call must give what it gives when its object is used alone"""
    proj = {}
    for sc in scripts:
        ops = sc.split(";")
        proj[sc] = (";".join(o for o in ops if not o.startswith("2")), ";".join(o[1:] for o in ops if o.startswith("2")))
    singles = sorted({p for pr in proj.values() for p in pr if p})
    cs = dict(zip(singles, ctx.K(name + "-alone", variant, ["H " + p for p in singles], nontrivial=lambda op, ln: True)))
    ci = ctx.K(name, variant, ["H " + sc for sc in scripts], nontrivial=lambda op, ln: True)
    for sc, ln in zip(scripts, ci):
        ops = sc.split(";")
        body = ln[2:]
        counters = None
        m = re.search(r";R(\d+),(\d+),(-?\d+),(\d+)$", body)
        if m:
            counters = tuple(map(int, m.groups())); body = body[:m.start()]
        got = body.split(";")
        pa, pb = proj[sc]
        exp_a = re.sub(r";R[-\d,]+$", "", cs[pa][2:]).split(";") if pa else []
        exp_b = re.sub(r";R[-\d,]+$", "", cs[pb][2:]).split(";") if pb else []
        ia = ib = 0
        for k, o in enumerate(ops):
            want = None
            if o.startswith("2"):
                want = exp_b[ib] if ib < len(exp_b) else None; ib += 1
            else:
                want = exp_a[ia] if ia < len(exp_a) else None; ia += 1
            g = got[k] if k < len(got) else "?"
            if want is not None and g != want:
                ctx.S("with two eav_t objects in use, a call on one of them gives something else than when that object is used alone",
                      op="H " + sc, variant=variant, step=k, call=o, got=g, alone=want)
                break
        if counters is not None:
            created, destroyed, live, bad = counters
            if live != 0 or bad != 0 or created != destroyed:
                ctx.S("idnkit: idn_resconf contexts created %d, destroyed %d, live %d, bad destroys %d after both objects were freed" % counters,
                      op="H " + sc, variant=variant, impl=ln)
    return ci


def two_object_scripts(ctx, idn_addr):
    a = hx(idn_addr); p = hx(b"a@b.com")
    seqs = [(["i", "s", "e" + a, "r822", "s", "e" + p, "f"], ["i", "s", "e" + a, "m", "e" + a, "f"]),
            (["i", "s", "r5321", "s", "r6531", "s", "e" + a, "f"], ["i", "s", "e" + a, "f", "i", "r822", "s", "e" + p, "f"]),
            (["i", "r5322", "s", "e" + p, "r6531", "s", "e" + a, "f"], ["i", "s", "e" + a, "r7", "s", "m", "e" + a, "f"])]
    # records of addresses refused before any scanning (empty, no '@', empty halves, long local part) and of ordinary ones, re-read (`v`) after the
    # OTHER object's call: a record belongs to its object
    e0, e1, e2, e3 = "e-", "e" + hx(b"postmaster"), "e" + hx(b"a" * 70 + b"@b.com"), "e" + hx(b"user@")
    seqs += [(["i", "s", e0, "v", e1, "v", "e" + p, "v", "f"], ["i", "s", e1, "v", e2, "v", e0, "v", "f"]),
             (["i", "r5321", "s", e3, "v", e0, "v", "f"], ["i", "r822", "s", "e" + p, "v", e2, "v", "f"])]
    out = []
    for x, y in seqs:
        out += interleavings(x, y, ctx.rng, 400 if ctx.tier == "quick" else 3000)
    return list(dict.fromkeys(out))


def c13(ctx):
    hg = HistGen(ctx.rng)
    pool = ["r822", "r5321", "r6531", "r7", "t0", "k8", "s", "m", "fi"] + ["e" + hx(a) for a in (H_ADDRS[0], H_ADDRS[8], H_ADDRS[3], H_ADDRS[4], H_ADDRS[13], b"", b"a@[1.2.3.4]")]
    scripts = hg.exhaustive(3 if ctx.tier == "quick" else 4, pool)
    if ctx.tier != "quick":
        scripts = scripts[:: 2]
    for n in ([10, 50, 200] if ctx.tier == "quick" else [10, 50, 200, 200, 1000]):
        for _ in range(40 if ctx.tier == "quick" else 400):
            scripts.append(hg.random_history(n, H_ADDRS + [b"", b"@", b"a@"] + (LONG_ADDRS if _ % 3 == 0 else [])))
    # every kind of outcome followed by the empty address and by addresses of the other kinds: each call's record is its own
    kinds = [b"a@b.com", b"a@[1.2.3.4]", b"a@[IPv6:::1]", "ж@почта.рф".encode(), b"a@\xff.com", b"a@x.test", b"bad", b"", b"a@b.zz"] + LONG_ADDRS
    for m in MODES:
        for a in kinds:
            for b in kinds:
                scripts.append("i;r%d;s;e%s;e%s;m;e%s;f" % (m, hx(a), hx(b), hx(a)))
    scripts = list(dict.fromkeys(scripts))
    check_histories(ctx, "history", scripts)
    # an address that overflows every integer parser, then ordinary literals (nothing such as errno may carry over)
    big = [b"a@[99999999999999999999.0.2.1]", b"a@[1.2.3.99999999999999999999999]", b"a@[IPv6:::ffff:99999999999999999999.1.1.1]"]
    okl = [b"a@[192.0.2.1]", b"a@[IPv6:::ffff:192.0.2.1]", b"a@[1.2.3.4]", b"a@b.com"]
    ex = []
    for m in MODES:
        for b_ in big:
            ex.append("i;r%d;s;e%s;" % (m, hx(b_)) + ";".join("e" + hx(o) for o in okl) + ";f;i;r%d;s;" % m + ";".join("e" + hx(o) for o in okl) + ";f")
    check_histories(ctx, "after-overflowing-octet", ex)
    # two objects side by side: nothing one of them does is visible through the other
    check_two_objects(ctx, "two-objects", two_object_scripts(ctx, "ж@почта.рф".encode()))
    for v in [x for x in ctx.drives if x.startswith("be:")]:
        check_two_objects(ctx, "two-objects", two_object_scripts(ctx, "ж@почта.рф".encode()), variant=v)
        check_histories(ctx, "history", [sc for sc in scripts if "x" not in sc][:: (7 if ctx.tier == "quick" else 1)], variant=v)
    # idnkit: the resolver context cannot be created (stand-in injection `y`): the refused eav_setup changes nothing - every validation after it is
    # that of the mode confirmed by the last SUCCESSFUL eav_setup, on a fresh object; contexts created = destroyed at the end
    if "be:idnkit" in ctx.drives:
        pr = [hx(x) for x in ("user@\u043f\u043e\u0447\u0442\u0430.\u0440\u0444".encode(), b"user@xn--80a1acny.xn--p1ai", b"user@b.com", "\u0436@b.com".encode(), b'"a b"@b.com', b"a@[1.2.3.4]", b"")]
        es = ";".join("e" + a_ for a_ in pr)
        ys = []
        for m0 in MODES:
            if m0 != 6531:
                ys += ["i;r%d;s;%s;r6531;y;s;%s;m;r6531;s;%s;f" % (m0, es, es, es), "i;r%d;y;s;%s;r6531;s;%s;r6531;s;%s;f" % (m0, es, es, es),
                       "i;t0;r%d;s;r6531;y;s;y;s;%s;r%d;s;%s;f" % (m0, es, m0, es), "i;r%d;s;r6531;y;s;r7;s;m;%s;f" % (m0, es)]
            else:
                ys += ["i;r6531;s;%s;y;s;%s;r5321;s;%s;r6531;s;%s;f" % (es, es, es, es), "i;r6531;s;r822;s;r6531;y;s;%s;r6531;s;%s;f" % (es, es)]
        for _ in range(40 if ctx.tier == "quick" else 400):
            n_ = ctx.rng.randint(3, 25)
            body = []
            for _k in range(n_):
                body.append(ctx.rng.choice(["y", "s", "s", "r6531", "r6531", "r5321", "r822", "r7", "t0", "t1", "m", "e" + ctx.rng.choice(pr), "e" + ctx.rng.choice(pr)]))
            ys.append("i;r5322;s;" + ";".join(body) + ";f")
        check_histories(ctx, "context-creation-fails", ys, variant="be:idnkit")
RULES["C13"] = "distinct legal call histories (init first, is_email only after a successful setup, free last): exhaustive sequences of 3 (4 thorough) operations from a pool of 13 after init+setup, random histories of length 10-200 (1000 thorough); every eav_is_email compared with a fresh object given the same settings; LeakSanitizer at exit"


def c19(ctx):
    hg = HistGen(ctx.rng)
    scripts = []
    dom = [b"a@b.com", "ж@почта.рф".encode(), b"a@x.test"]
    for rc in IDN_RCS:
        for buf in (0, 1):
            for a in dom:
                # single fault at each position of a run of validations
                for n, pos in ((1, 0), (3, 0), (3, 1), (3, 2), (6, 3)):
                    ops = ["i", "s"]
                    for k in range(n):
                        if k == pos:
                            ops += ["x%d,%d" % (rc, buf), "e" + hx(a), "m", "x0"]
                        else:
                            ops += ["e" + hx(a), "m"]
                    scripts.append(";".join(ops + ["f"]))
    for n in ([10, 50] if ctx.tier == "quick" else [10, 50, 50, 200]):
        for _ in range(60 if ctx.tier == "quick" else 600):
            scripts.append(hg.random_history(n, H_ADDRS, inject=True))
    scripts = list(dict.fromkeys(scripts))
    check_histories(ctx, "idnfault", scripts)
    # builds with LABELS_ALLOW_UNDERSCORE: a conversion failure is a failure for every name that went to the converter, '_' or not
    if "underscore" in ctx.drives:
        us_addrs = [b"a@my_host.com", b"a@_dmarc.example.org", b"a@a_b", b"a@x_.y_.museum", b"a@b.com", "ж@по_чта.рф".encode(), b"a@_._", b"a@my_host.c_m"]
        us = []
        for rc in IDN_RCS[:: (3 if ctx.tier == "quick" else 1)]:
            for buf in (0, 1):
                us.append("i;s;" + ";".join("x%d,%d;e%s;m;x0;e%s;m" % (rc, buf, hx(a), hx(a)) for a in us_addrs) + ";f")
        for _ in range(30 if ctx.tier == "quick" else 300):
            us.append(hg.random_history(20, us_addrs + H_ADDRS[:4], inject=True))
        check_histories(ctx, "idnfault-underscore", us, variant="underscore")
    # two objects failing in turn with different library errors: each keeps ITS message and code until its own next call
    idn_a = ["ж@почта.рф".encode(), b"a@b.com", "a@例え.テスト".encode()]
    two = []
    for r1, r2 in ((-205, -301), (-100, -209), (-304, 12345), (-201, -202)):
        for a1 in idn_a[:2]:
            for a2 in idn_a:
                two.append("i;2i;s;2s;x%d,0;e%s;2x%d,1;2e%s;m;2m;m;2x0;2e%s;m;2m;f;2f" % (r1, hx(a1), r2, hx(a2), hx(a2)))
                two.append("i;s;x%d,1;e%s;m;2i;2s;2x%d,0;2e%s;2m;m;2f;m;f" % (r1, hx(a1), r2, hx(a2)))
    for v in ["default"] + [x for x in ctx.drives if x.startswith("be:")]:
        check_two_objects(ctx, "idnfault-two-objects", two, variant=v)
    # failures the converter reports by itself (nothing injected): very long names, names it refuses for their content - whatever code it gives
    # when asked directly (here, through ctypes) is the code and message the library must report, and nothing is treated as a domain
    import ctypes, ctypes.util
    lib = ctypes.CDLL(ctypes.util.find_library("idn2") or "libidn2.so.0")
    lib.idn2_to_ascii_8z.argtypes = [ctypes.c_char_p, ctypes.POINTER(ctypes.c_void_p), ctypes.c_int]
    lib.idn2_free.argtypes = [ctypes.c_void_p]
    def direct_rc(d):
        out = ctypes.c_void_p()
        rc = lib.idn2_to_ascii_8z(d, ctypes.byref(out), 8)          # IDN2_NONTRANSITIONAL, as the library asks
        if rc == 0 and out.value:
            lib.idn2_free(out)
        return rc
    own = [b"a" * n for n in (64, 254, 255, 256, 1022, 1023, 1024, 1025, 1100, 4000)] + [(b"ab." * 2000)[:n] + b"com" for n in (252, 300, 1020, 1023, 1024, 1028, 4000)] + \
          [("ж" * n).encode() + b".com" for n in (57, 58, 70, 300, 600)] + [("\U00010330" * 50 + ".") .encode() * k + b"com" for k in (1, 4, 5, 6, 8)] + \
          [x.encode() for x in ("xn--a.com", "a\u200db.com", "ab--cd.com", "-a.com", "\u2665.de", "xn--.com", "a\u00ad\u00ad.\u00ad")] + [b"\xff.com", b"a\xc3.com"]
    pops = ["P 6531 %d 760 %s" % (t_, hx(b"u@" + d_)) for d_ in own for t_ in (0, 1)]
    pc = ctx.K("idn-own-failures", "default", pops, nontrivial=lambda op, ln: True)
    for op_, ln in zip(pops, pc):
        d_ = bytes.fromhex(op_.split(" ")[4])[2:]
        rc_ = direct_rc(d_)
        f = fields(ln)
        if "FAULT" in ln or rc_ == 0:
            continue
        if f[1:4] != ["0", "2", "idn:#%d" % rc_]:
            ctx.S("the IDN library refuses this domain with code %d when asked directly, but the address is not rejected with the IDN error and that code's message" % rc_,
                  op=op_, domain_octets=len(d_), impl=ln, converter_rc=rc_)
RULES["C19"] = "distinct histories with injected IDN failures: every libidn2 error code (and unknown codes) x with/without an output buffer x fault position in runs of 1-6 validations, random multi-fault histories of length 10-50 (200 thorough); LeakSanitizer at exit"


# ===================================================================== C17
def unquoted_has(s, chars):
    """does `s` contain one of `chars` outside a quoted string (quotes toggled by unescaped DQUOTE)"""
    q = esc = False
    for b in s:
        if q:
            if esc: esc = False
            elif b == 0x5c: esc = True
            elif b == 0x22: q = False
        else:
            if b == 0x22: q = True
            elif b in chars: return True
    return False


def c17(ctx):
    variants = VARIANTS_OF["C17"][ctx.tier]
    locs = [l for l in dict.fromkeys(gen.local_strings("quick", ctx.rng, utf8=True)[:: (4 if ctx.tier == "quick" else 1)]) if 0 not in l]
    rfc20 = b"#^`{|}~"
    locs += [b"a" + bytes([c]) + b"b" for c in rfc20] + [b'"' + bytes([c]) + b'"' for c in rfc20] + [b'"x".' + bytes([c]) for c in rfc20] + \
            [bytes([c]) for c in rfc20] + ["é".encode() + bytes([c]) for c in rfc20] + [b'"\\' + bytes([c]) + b'"' for c in rfc20]
    # quoted strings over backslash, blanks, quote and a letter, exhaustively: quoted-pairs next to (folding) white space
    locs += [b'"' + w + b'"' for w in gen.words([b"\\", b" ", b"\t", b"\r", b"\n", b'"', b"b"], 4 if ctx.tier == "quick" else 5, 1)]
    # every ASCII byte next to a blank inside quotes (what counts as white space there is SP / HTAB / CR / LF and nothing else)
    for c in range(1, 128):
        if c not in (0x22, 0x5c):
            x = bytes([c])
            locs += [b'"a ' + x + b'"', b'"' + x + b' a"', b'" ' + x + b' "', b'"a\t' + x + b'b"', b'"' + x + b'"', b'"a ' + x + b' b"', b'"\r\n ' + x + b'"']
    locs = list(dict.fromkeys(locs))
    doms = [d for d in dict.fromkeys(gen.domain_strings("quick", ctx.rng)[:: (6 if ctx.tier == "quick" else 1)]) if 0 not in d]
    mails = [e for e in dict.fromkeys(gen.email_strings("quick", ctx.rng)[:: (5 if ctx.tier == "quick" else 1)]) if 0 not in e]
    mails += [b"user@xn--abc.com", b"user@xn--0.com", b"user@mail.xn--bcher.example", b"user@ab--cd.com", b"user@xn--a.com", "user@почта.рф".encode(), b"user@a..b", b"user@-a.com"]
    for t in (b"com", b"museum", b"xn--p1ai", b"test", b"example.com", b"zz"):
        mails += [b"a@mail.shop_" + t, b"a@intranet_" + t, b"a@a_b." + t, b"a@_." + t, b"a@x._" + t, b"a@x." + t + b"_", b"a@x_y.z_w." + t, b"a@my_example.com", b"a@x.my_" + t]
    res = {}
    for v in variants:
        r = {}
        for m in MODES:
            r[("L", m)] = ctx.K("local%d" % m, v, ["L %d %s %s" % (m, hx(l), hx(gen.AT)) for l in locs], nontrivial=lambda op, ln: not ln.endswith(" -4"))
        r["D"] = ctx.K("domain", v, ["D %s 00" % hx(d) for d in doms])
        for m in MODES:
            for t in (0, 1):
                r[("E", m, t)] = ctx.K("email%d" % m, v, ["E %d %d %s" % (m, t, hx(e)) for e in mails])
        res[v] = r
    base = res["default"]
    # "the default build has all three off" also when the tree was built with the options before
    if "rebuilt" in res:
        for key, lines in res["rebuilt"].items():
            for i, (a, b) in enumerate(zip(base[key], lines)):
                if a != b:
                    src = locs if key[0] == "L" else doms if key == "D" else mails
                    ctx.S("a default build made after an option build (make clean in between) does not behave as the default build", op="%s ... %s" % (str(key), hx(src[i])), variant="rebuilt",
                          default=a, rebuilt=b)
                    break
    # an option build made where plain `char` is unsigned decides what the same option build decides where it is signed
    if "rfc5322+uchar" in res and "rfc5322" in res:
        for key, lines in res["rfc5322+uchar"].items():
            src = locs if key[0] == "L" else doms if key == "D" else mails
            for i, (a, b) in enumerate(zip(res["rfc5322"][key], lines)):
                if a != b:
                    opx = ("L %d %s %s" % (key[1], hx(src[i]), hx(gen.AT))) if key[0] == "L" else ("D %s 00" % hx(src[i])) if key == "D" else ("E %d %d %s" % (key[1], key[2], hx(src[i])))
                    ctx.S("the RFC6531_FOLLOW_RFC5322 build decides differently when plain char is unsigned (-funsigned-char): which addresses an option changes must not depend on the ABI",
                          op=opx, variant="rfc5322+uchar", signed_char=a, unsigned_char=b)
                    break
    variants = [v for v in variants if v != "rebuilt"]
    sp_us = ctx.spec(["sD 1 %s" % hx(d) for d in doms])
    sp_u8 = ctx.spec(["sU %s" % hx(l) for l in locs])
    for v in variants:
        if v == "default":
            continue
        has20, has5322, hasus = "rfc20" in v or v == "all3", "rfc5322" in v or v == "all3", "underscore" in v or v == "all3"
        r = res[v]
        # modes 822 / 5321 / 5322 local parts: untouched by every option
        for m in (822, 5321, 5322):
            for l, a, b in zip(locs, base[("L", m)], r[("L", m)]):
                if a != b:
                    ctx.S("a build option changes a local-part decision of mode %d" % m, op="L %d %s %s" % (m, hx(l), hx(gen.AT)), variant=v, default=a, option=b)
        for i, l in enumerate(locs):
            a, b = base[("L", 6531)][i], r[("L", 6531)][i]
            acc_a, acc_b = a == "L 0", b == "L 0"
            op = "L 6531 %s %s" % (hx(l), hx(gen.AT))
            pure = all(x < 128 for x in l)
            if has5322:
                # pure ASCII: as mode 5322 (of the same build) does, then minus the RFC 20 characters if that option is on too
                want = r[("L", 5322)][i] == "L 0"
                if has20:
                    want = want and not unquoted_has(l, rfc20)
                if pure and acc_b != want:
                    ctx.S("RFC6531_FOLLOW_RFC5322: mode 6531 does not judge a pure-ASCII local part as mode 5322 does", op=op, variant=v, m6531=b, m5322=r[("L", 5322)][i])
                if acc_b and sp_u8[i] != "sU 1":
                    ctx.S("RFC6531_FOLLOW_RFC5322 build accepts a local part that is not well-formed UTF-8", op=op, variant=v, impl=b)
            elif has20:
                want = acc_a and not unquoted_has(l, rfc20)
                if acc_b != want:
                    ctx.S("RFC6531_FOLLOW_RFC20 does not reject exactly the local parts with # ^ ` { | } ~ outside quotes", op=op, variant=v, default=a, option=b)
            elif a != b:
                ctx.S("LABELS_ALLOW_UNDERSCORE changes a mode-6531 local-part decision", op=op, variant=v, default=a, option=b)
        for i, d in enumerate(doms):
            a, b = base["D"][i], r["D"][i]
            if hasus:
                if (b == "D 0") != (sp_us[i] == "sD 1"):
                    ctx.S("LABELS_ALLOW_UNDERSCORE does not accept exactly the host names valid with '_' as a letter", op="D %s 00" % hx(d), variant=v, impl=b)
            elif a != b:
                ctx.S("a local-part option changes a host-name decision", op="D %s 00" % hx(d), variant=v, default=a, option=b)
        if hasus:
            # addresses whose host name needs the option: valid exactly when it is valid with '_' as a letter, and then classified by
            # the WHOLE last label (an underscore is not a label boundary), single labels are not fully qualified
            usm = [(i, e, e.rsplit(b"@", 1)[1]) for i, e in enumerate(mails) if b"@" in e and b"_" in e.rsplit(b"@", 1)[1] and not e.rsplit(b"@", 1)[1].startswith(b"[")]
            hostok = ctx.spec(["sD 1 %s" % hx(d) for _, _, d in usm])
            lastcls = ctx.spec(["sT %s" % hx(d.rstrip(b".").rsplit(b".", 1)[-1]) for _, _, d in usm])
            resv = ctx.spec(["sS %s" % hx(d) for _, _, d in usm])
            for (i, e, d), ho, lc, rs in zip(usm, hostok, lastcls, resv):
                if ho != "sD 1" or d.endswith(b"."):
                    continue
                want = "8" if rs == "sS 1" else ("-23" if b"." not in d else lc.split(" ")[1])
                for m in (822, 5321, 5322):
                    got = fields(r[("E", m, 1)][i])
                    loc_ok = fields(r[("E", m, 0)][i])[1] == "0"
                    if loc_ok and got[1] != want:
                        ctx.S("LABELS_ALLOW_UNDERSCORE build: a host name with '_' is not classified by its whole last label", op="E %d 1 %s" % (m, hx(e)), variant=v,
                              impl=r[("E", m, 1)][i], expected_rc=want)
        if not hasus:
            for t in (0, 1):
                for e, a, b in zip(mails, base[("E", 6531, t)], r[("E", 6531, t)]):
                    fa, fb = fields(a), fields(b)
                    dom_a = fa[1] == "-2" or (not fa[1].startswith("F") and -35 <= int(fa[1]) <= -16)
                    loc_b = (not fb[1].startswith("F")) and -15 <= int(fb[1]) <= -4
                    if dom_a and not loc_b and fa[1:3] != fb[1:3]:
                        ctx.S("a local-part option changes what mode 6531 says about the DOMAIN of an address", op="E 6531 %d %s" % (t, hx(e)), variant=v, default=a, option=b)
        for m in (822, 5321, 5322):
            for t in (0, 1):
                for e, a, b in zip(mails, base[("E", m, t)], r[("E", m, t)]):
                    if a != b and not (hasus and b"_" in e):
                        ctx.S("a build option changes an address decision of mode %d" % m, op="E %d %d %s" % (m, t, hx(e)), variant=v, default=a, option=b)
RULES["C17"] = "distinct (build, op) pairs; each non-default build compared op by op with the default build and with the model carrying the same options; local parts (incl. every RFC 20 character in atom, quoted, escaped position), host names, whole addresses, four modes"


# ===================================================================== C18
def c18(ctx):
    bes = ["be:idn2", "be:idn", "be:idnkit"]
    mails = diag_corpus(ctx)[:: (2 if ctx.tier == "quick" else 1)]
    mails += [b"a@" + d for d in idn_domains(ctx)[:: (3 if ctx.tier == "quick" else 1)] if 0 not in d and b"@" not in d]
    mails = list(dict.fromkeys(mails))
    hg = HistGen(ctx.rng)
    scripts = hg.exhaustive(2 if ctx.tier == "quick" else 3, ["r822", "r6531", "r7", "s", "m", "fi", "t0"] + ["e" + hx(a) for a in H_ADDRS[:4]])
    for n in (10, 50, 200):
        for _ in range(30 if ctx.tier == "quick" else 300):
            scripts.append(hg.random_history(n, H_ADDRS, inject=True))
    scripts = list(dict.fromkeys(scripts))
    pol = [b"a@consulting.biz", b"a@x.name", b"a@x.pro", b"a@b.com", b"a@b.ru", b"a@nic.aero", b"a@x.arpa", b"a@x.test", b"a@example.com", "a@почта.рф".encode(), b"a@x.museum"]
    polops = ["P %d 1 %d %s" % (m, k, hx(a)) for m in MODES for k in (760, 0, 2046, 8, 16, 32, 64, 128, 256, 512, 744, 728) for a in pol]
    polres = {be: ctx.K("policy", be, polops, nontrivial=lambda op, ln: True) for be in bes}
    for be in bes[1:]:
        for op, a, b in zip(polops, polres["be:idn2"], polres[be]):
            if a != b:
                ctx.S("back end %s applies the TLD policy differently than the libidn2 build" % be[3:], op=op, variant=be, idn2=a, other=b)
    out = {}
    for be in bes:
        r = {}
        for m in MODES:
            for t in (0, 1):
                r[(m, t)] = ctx.K("email%d" % m, be, ["P %d %d %d %s" % (m, t, 760, hx(e)) for e in mails], nontrivial=lambda op, ln: fields(ln)[2] not in ("3", "16"))
        r["H"] = ctx.K("history", be, ["H " + sc for sc in scripts], nontrivial=lambda op, ln: True)
        out[be] = r
    for be in bes[1:]:
        for key in out[be]:
            for i, (a, b) in enumerate(zip(out["be:idn2"][key], out[be][key])):
                if key == "H":
                    b0 = b.rsplit(";R", 1)[0]
                    if a != b0:
                        ctx.S("back end %s: a call history gives different outcomes than with libidn2" % be[3:], op="H " + scripts[i], variant=be, idn2=a, other=b0)
                elif a != b:
                    ctx.S("back end %s decides an address differently than the libidn2 build" % be[3:], op="P %d %d 760 %s" % (key[0], key[1], hx(mails[i])), variant=be, idn2=a, other=b)
    # the EAV_EXTRA records in each back end (their initialisation is per back end): accepted and rejected addresses in turn, every mode
    rej = [b"no-at-sign.example-host.org", b"a..b@x", b"", b"a@[1.2.3", b"a@b.com", b"bad@", b"a@[1.2.3.4]", "\u0436@\u043f\u043e\u0447\u0442\u0430.\u0440\u0444".encode(), b'"a b"@b.ru', b"a@-b.com",
           b"a" * 70 + b"@b.com", b"a@[IPv6:::1]", b"@b.com"]
    xouts = {}
    for v in [x for x in ctx.drives if x.endswith("+extra")]:
        xouts[v] = ctx.K("extra-record", v, ["P %d %d %d %s" % (m, t, 760, hx(x)) for m in MODES for t in (0, 1) for x in rej + mails[::40]], nontrivial=lambda op, ln: True)
    if "be:idn2+extra" in xouts:
        for v, lines in xouts.items():
            for i, (a, b_) in enumerate(zip(xouts["be:idn2+extra"], lines)):
                if a != b_:
                    ctx.S("EAV_EXTRA build of back end %s returns another record than the libidn2 build" % v[3:-6], op="P ... extra-record #%d" % i, variant=v, idn2=a, other=b_)
                    break
    # two objects side by side in each back end (a context shared between objects would be released under the other's feet)
    for be in bes:
        check_two_objects(ctx, "two-objects", two_object_scripts(ctx, "ж@почта.рф".encode()), variant=be)
    # idnkit: every context created by eav_setup is destroyed exactly once (scripts end with eav_free)
    for sc, ln in zip(scripts, out["be:idnkit"]["H"]):
        m = re.search(r";R(\d+),(\d+),(-?\d+),(\d+)$", ln)
        if not m:
            ctx.S("idnkit harness printed no resource counters", op="H " + sc, variant="be:idnkit", impl=ln)
            continue
        created, destroyed, live, bad = map(int, m.groups())
        if live != 0 or bad != 0 or created != destroyed:
            ctx.S("idnkit: idn_resconf contexts created %d, destroyed %d, live %d, bad destroys %d after eav_free" % (created, destroyed, live, bad),
                  op="H " + sc, variant="be:idnkit", impl=ln)
    # idnkit only: eav_setup for mode 6531 in which the creation of the resolver context FAILS (S only - the model's setup always succeeds).  A later
    # successful eav_setup for an ASCII mode makes the object what a fresh object set up for that mode is, in every back end; nothing is created,
    # nothing destroyed twice
    probe = [hx(x) for x in ("user@\u043f\u043e\u0447\u0442\u0430.\u0440\u0444".encode(), b"user@xn--80a1acny.xn--p1ai", b"user@b.com", b"a..b@b.com", b"user@b_c.com", b'"a b"@b.com')]
    es = ";".join("e" + a_ + ";m" for a_ in probe)
    for be in bes:
        withf, plain = [], []
        for m in (822, 5321, 5322):
            for t_ in (0, 1):
                withf += ["i;t%d;r6531;y;s;r%d;s;%s;f" % (t_, m, es), "i;t%d;r6531;y;s;r6531;y;s;r%d;s;%s;r%d;s;%s;f" % (t_, m, es, m, es)]
                plain += ["i;t%d;r%d;s;%s;f" % (t_, m, es), "i;t%d;r%d;s;%s;r%d;s;%s;f" % (t_, m, es, m, es)]
        cw = ctx.K("resolver-failure", be, ["H " + x for x in withf], nontrivial=lambda op, ln: True)
        cp = ctx.K("resolver-failure-ref", be, ["H " + x for x in plain], nontrivial=lambda op, ln: True)
        for sw, a, b in zip(withf, cw, cp):
            ctx.nontrivial.add(be + ":" + sw)
            ea = [x for x in re.sub(r";R[-\d,]+$", "", a[2:]).split(";") if x[:1] in ("e", "m")]
            eb = [x for x in re.sub(r";R[-\d,]+$", "", b[2:]).split(";") if x[:1] in ("e", "m")]
            if ea != eb:
                k = next((i for i, (x, y) in enumerate(zip(ea, eb)) if x != y), min(len(ea), len(eb)))
                ctx.S("after an eav_setup for mode 6531 that failed (idnkit: the resolver context could not be created) and a later successful eav_setup for an ASCII mode, "
                      "the object does not behave as a fresh object set up for that mode", op="H " + sw, variant=be, got=ea[k:k + 1], fresh=eb[k:k + 1])
            mres = re.search(r";R(\d+),(\d+),(-?\d+),(\d+)$", a)
            if mres and (int(mres.group(3)) != 0 or int(mres.group(4)) != 0 or mres.group(1) != mres.group(2)):
                ctx.S("idnkit: idn_resconf contexts created %s, destroyed %s, live %s, bad destroys %s after a history with a failed context creation" % mres.groups(), op="H " + sw, variant=be, impl=a)
RULES["C18"] = "distinct (back end, op) pairs; partial/idn2, partial/idn and partial/idnkit compiled against shim headers onto one converter; address corpus of C15/C16 in four modes and tld on/off, call histories (with injected IDN failures); idnkit create/destroy counters"
VARIANTS_OF["C18"] = {"quick": ["be:idn2", "be:idn", "be:idnkit", "be:idn2+extra", "be:idnkit+extra"], "thorough": ["be:idn2", "be:idn", "be:idnkit", "be:idn2+extra", "be:idn+extra", "be:idnkit+extra"]}
TRUSTED_EXTRA["C18"] = ["shims/idna.h, shims/idn/api.h, shims/shim_impl.c: stand-ins for GNU libidn and idnkit (neither is installed), forwarding to libidn2"]


# ===================================================================== C10
def idn_domains(ctx):
    rng = ctx.rng
    scripts = {
        "cyr": "абвгдежзиклмнопрстуфхцчшщыэюя", "grk": "αβγδεζηθικλμνξοπρστυφχψω", "han": "中文网络在线微博商标时尚",
        "hng": "삼성한국테스트", "ara": "ابتثجحخدذرزسشصضطظعغفقكلمنهوي", "heb": "אבגדהוזחטיכלמנסעפצקרשת", "dev": "कखगघचछजझटठडढणतथदधनपफबभमयरलवशषसह",
        "lat": "àáâãäåæçèéêëìíîïñòóôõöøùúûüýÿ", "asc": "abcxyz0189",
    }
    tbl = table_names(ctx)
    out = []
    for u in gen.IDN_SAMPLES:
        out.append(u.encode())
    # every IDN TLD of the table, via its U-label (decoded from the A-label by python's punycode)
    for name, _, _ in tbl:
        if name.startswith(b"xn--"):
            try:
                u = name[4:].decode("ascii").encode("ascii").decode("punycode")
            except Exception:
                continue
            out.append(("пример." + u).encode())
            out.append(("example." + u).encode())
            out.append((u + "." + u).encode())
    n = 300 if ctx.tier == "quick" else 5000
    keys = sorted(scripts)
    for _ in range(n):
        labs = []
        for _ in range(rng.randint(1, 4)):
            sc = scripts[rng.choice(keys)]
            lab = "".join(rng.choice(sc) for _ in range(rng.randint(1, 12)))
            if rng.random() < 0.2:
                lab += rng.choice(["-", "1", "a", "-x"])
            labs.append(lab)
        out.append(".".join(labs).encode())
    # labels that IDNA2008 allows only thanks to CONTEXTJ (ZWJ after a virama, ZWNJ between joining letters), and hyphens in positions 3-4
    out += [x.encode() for x in ("क्\u200dष.com", "नमस्\u200cते.भारत", "می\u200cخواهم.com", "a\u200db.com", "ab--cd.com", "r3--example.org", "mail.ab--cd.de", "xn--abc.com", "xn--0.com", "mail.xn--bcher.example")]
    # U-labels in front of reserved names and of ordinary TLDs of every class
    for u in ("почта", "例え", "ελ", "münchen"):
        for r in ("localhost", "test", "example", "invalid", "onion", "example.com", "example.net", "example.org", "EXAMPLE.COM", "com", "ru", "museum", "arpa", "zz"):
            out += [(u + "." + r).encode(), ("a." + u + "." + r).encode(), (u + "." + u + "." + r).encode()]
    # long in UTF-8, short as A-labels: labels of one repeated character (the limits 63 / 253 apply to the A-form)
    for a_, b_ in (("中", "国"), ("ж", "я"), ("한", "국"), ("α", "ω"), ("é", "ü")):
        for n1 in (20, 40, 50):
            for tld_ in ("com", "рф", "中国", "xn--p1ai"):
                out.append((a_ * n1 + "." + b_ * n1 + "." + tld_).encode())
                out.append((a_ * n1 + "." + b_ * n1 + "." + a_ * n1 + b_ + "." + tld_).encode())
    # malformed: invalid UTF-8, disallowed code points, hyphen rules, long labels
    out += [b"\xff.com", b"a\xc3.com", "a‍.com".encode(), "☃☃.com".encode(), "I♥NY.de".encode(), "xn--a-.com".encode(), b"ab--cd.com", b"-a.com", b"a-.com",
            ("ж" * 64 + ".рф").encode(), ("é" * 59 + ".com").encode(), ("é" * 62 + ".com").encode(), "á.com".encode(), "ǅ.com".encode(), "Ａ.com".encode()]
    # domains made ONLY of code points the IDNA mapping removes (the conversion succeeds with an empty name), alone and as a label
    ign = ["\u00ad", "\u200b", "\ufe0f", "\u00ad\u200b\ufe0f", "\u2060", "\u034f", "\u180b"]
    out += [x.encode() for x in ign] + [(x + ".com").encode() for x in ign] + [("a." + x).encode() for x in ign] + [(x + "." + x).encode() for x in ign]
    # many four-octet characters: 700-1100 octets of UTF-8 that are at most 255 characters and 200-250 octets of A-labels
    for ch, n in (("\U00010330", 50), ("\U00010330", 40), ("\U0001d7d8", 60), ("\U00020000", 45), ("\U00010400", 50)):
        lab = ch * n
        out += [".".join([lab] * k).encode() + b".com" for k in (1, 3, 4, 5, 6)]
    return list(dict.fromkeys(o for o in out if 0 not in o and b"@" not in o))


def c10(ctx):
    us = idn_domains(ctx)
    # what the converter says about each domain, asked directly (`is_utf8_domain`), not through `is_6531_email`
    direct = {}
    uops = ["U 0 %s" % hx(u) for u in us]
    cu_, lu_ = ctx.run("direct", "default", uops)
    ctx.evals += len(uops)
    direct_fail = {}
    for u, li in zip(us, open(os.path.join(ctx.scr.dir, "direct_default.leanin")).read().split("\n")[1:]):
        m = re.search(r" @ (-?\d+) (\S+)", li)
        if m and m.group(1) == "0" and m.group(2) != "-":
            direct[u] = cvhex(m.group(2))
        elif m and m.group(1) != "0":
            direct_fail[u] = m.group(1)
    for t in (0, 1):
        ops = ["E 6531 %d %s" % (t, hx(b"a@" + u)) for u in us]
        c, l = ctx.run("ulabel", "default", ops)
        ctx.evals += len(ops)
        for op, a, b in zip(ops, c, l):
            if a != b:
                ctx.k_fail.append(dict(stream="ulabel", variant="default", op=op, impl=a, model=b))
            ctx.nontrivial.add(op)
        lean_in = open(os.path.join(ctx.scr.dir, "ulabel_default.leanin")).read().split("\n")[1:]
        pairs = []
        stats = collections.Counter()
        for u, cl, li in zip(us, c, lean_in):
            m = re.search(r" @ (-?\d+) (\S+)", li)
            if u in direct_fail and fields(cl)[1] != "-2":
                ctx.S("the IDN library refuses this domain (code %s when asked directly), yet mode 6531 does not reject the address with the IDN error" % direct_fail[u],
                      op="E 6531 %d %s" % (t, hx(b"a@" + u)), impl=cl)
            if not m:
                stats["no-conversion"] += 1
                # the address was decided without asking the converter; if the converter accepts the domain, its A-label spelling
                # must get the same decision
                if u in direct:
                    pairs.append((u, direct[u], cl))
                continue
            if m.group(1) != "0":
                stats["idn-error"] += 1
                # rejected with the IDN error
                if fields(cl)[1] != "-2":
                    ctx.S("IDN conversion failed but the address was not rejected with the IDN error", op="E 6531 %d %s" % (t, hx(b"a@" + u)), impl=cl)
                continue
            a = cvhex(m.group(2)) if m.group(2) != "-" else b""
            stats["converted"] += 1
            pairs.append((u, a, cl))
        aops = ["E 6531 %d %s" % (t, hx(b"a@" + a)) for _, a, _ in pairs]
        ca = ctx.K("alabel6531", "default", aops, nontrivial=lambda op, ln: True)
        asc = {m: ctx.K("alabel%d" % m, "default", ["E %d %d %s" % (m, t, hx(b"a@" + a)) for _, a, _ in pairs]) for m in (822, 5321, 5322)}
        lean_in2 = open(os.path.join(ctx.scr.dir, "alabel6531_default.leanin")).read().split("\n")[1:]
        for i, (u, a, cu) in enumerate(pairs):
            fu, fa = fields(cu), fields(ca[i])
            m2 = re.search(r" @ (-?\d+) (\S+)", lean_in2[i])
            # hypothesis H_same (validated, not proved): the converter is idempotent on its own output
            if not (m2 and m2.group(1) == "0" and cvhex(m2.group(2)) == a):
                stats["alabel-not-idempotent"] += 1
                continue
            stats["H_same-validated"] += 1
            if fu[1:4] != fa[1:4]:
                ctx.S("mode 6531 treats the U-label and A-label spellings of a domain differently", op="E 6531 %d %s" % (t, hx(b"a@" + u)), ulabel=cu, alabel=ca[i], a=repr(a))
            for m in (822, 5321, 5322):
                fm = fields(asc[m][i])
                if fm[1] != fa[1]:
                    ctx.S("mode %d gives the A-label spelling a different decision/class than mode 6531" % m, op="E %d %d %s" % (m, t, hx(b"a@" + a)), ascii_mode=asc[m][i], m6531=ca[i])
        # the two spellings next to each other, with the TLD check toggled in between: still the same treatment
        sub = [(u, a) for u, a, _ in pairs if u != a][:: (7 if ctx.tier == "quick" else 1)]
        iops = []
        for u, a in sub:
            iops += ["E 6531 %d %s" % (1 - t, hx(b"a@" + u)), "E 6531 %d %s" % (t, hx(b"a@" + u)), "E 6531 %d %s" % (t, hx(b"a@" + a))]
        ci = ctx.K("interleaved", "default", iops, nontrivial=lambda op, ln: True)
        for k, (u, a) in enumerate(sub):
            ru, ra = fields(ci[3 * k + 1]), fields(ci[3 * k + 2])
            if ru[1:4] != ra[1:4]:
                ctx.S("mode 6531 treats the U-label and A-label spellings of a domain differently (right after a call with the other tld_check setting)",
                      op=iops[3 * k + 1], history=iops[3 * k: 3 * k + 3], ulabel=ci[3 * k + 1], alabel=ci[3 * k + 2])
        # labels valid only thanks to CONTEXTJ: the A-label spelling is computed here (RFC 3492 on the NFC lower-case label) and libidn2 is the
        # judge of its validity; when it is accepted, the U-label spelling must be treated the same
        cj = ["क्\u200dष.com", "नमस्\u200cते.भारत", "می\u200cخواهم.com"]
        cja = [".".join(("xn--" + l.encode("punycode").decode()) if any(ord(ch) > 127 for ch in l) else l for l in d.split(".")) for d in cj]
        cops = []
        for u_, a_ in zip(cj, cja):
            cops += ["E 6531 %d %s" % (t, hx(b"a@" + u_.encode())), "E 6531 %d %s" % (t, hx(b"a@" + a_.encode()))]
        cc_, _ = ctx.run("contextj", "default", cops)
        ctx.evals += len(cops)
        for k in range(0, len(cops), 2):
            fu, fa = fields(cc_[k]), fields(cc_[k + 1])
            if int(fa[1]) >= 0 and fu[1:4] != fa[1:4]:
                ctx.S("mode 6531 treats the U-label and A-label spellings of a domain differently (a label that is valid by the CONTEXTJ rules)", op=cops[k], ulabel=cc_[k], alabel=cc_[k + 1])
        # U-label domains the converter REFUSES: their A-label spelling (RFC 3492 applied here to each non-ASCII label as written) names the same
        # domain, so it must not be accepted either - an "xn--" label is not a way around IDNA's rules
        ref = []
        for u in us:
            if u in direct_fail:
                try:
                    labs = u.decode("utf-8").split(".")
                    a_ = ".".join(("xn--" + l.encode("punycode").decode("ascii")) if any(ord(ch) > 127 for ch in l) else l for l in labs)
                except Exception:
                    continue
                if a_.encode() != u and all(len(l) <= 63 for l in a_.split(".")):
                    ref.append((u, a_.encode()))
        for extra_u in ("☃☃.com", "I♥NY.de", "a‍b.com", "ǅ.com", "Ａ.com", "x y.org", "­.com", "á.com", "ß.de", "ς.gr", "a。b.com", "😀.ws", "aـb.com", "͸.com", "ab‌.com"):
            labs = extra_u.split(".")
            ref.append((extra_u.encode(), ".".join(("xn--" + l.encode("punycode").decode("ascii")) if any(ord(ch) > 127 for ch in l) else l for l in labs).encode()))
        ref = list(dict.fromkeys(ref))
        rops = []
        for u, a_ in ref:
            rops += ["E 6531 %d %s" % (t, hx(b"x@" + u)), "E 6531 %d %s" % (t, hx(b"x@" + a_))]
        cr_ = ctx.K("refused-ulabel-as-alabel", "default", rops, nontrivial=lambda op, ln: True)
        for k, (u, a_) in enumerate(ref):
            fu, fa = fields(cr_[2 * k]), fields(cr_[2 * k + 1])
            if "FAULT" in cr_[2 * k] or "FAULT" in cr_[2 * k + 1]:
                continue
            if int(fu[1]) < 0 and int(fa[1]) >= 0:
                ctx.S("mode 6531 refuses a domain written with U-labels but accepts the same domain written with A-labels (the two spellings must be treated identically)",
                      op=rops[2 * k + 1], ulabel_spelling=u.decode(errors="replace"), alabel_spelling=a_.decode(), ulabel=cr_[2 * k], alabel=cr_[2 * k + 1])
        stats["refused-ulabel-respelled"] = len(ref)
        # all-ASCII domains: 6531 accepts only what the ASCII modes accept, same class; otherwise an IDN error
        ascd = [d for d in dict.fromkeys(gen.domain_strings("quick", ctx.rng)[:: (20 if ctx.tier == "quick" else 2)]) if 0 not in d and all(x < 128 for x in d) and b"@" not in d and not d.startswith(b"[")]
        tbl = table_names(ctx)
        ascd += [b"x." + r[0] for r in tbl[:: (10 if ctx.tier == "quick" else 1)]] + [b"X." + r[0].upper() for r in tbl[::50]]
        ascd += [b"x." + r[0] + b"." for r in tbl[::40]] + [b"mail.com.", b"xn--80a1acny.xn--p1ai.", b"iana.org.", b"localhost.", b"x.test.", b"b.com..", b"b.."]
        c6 = ctx.K("ascii6531", "default", ["E 6531 %d %s" % (t, hx(b"a@" + d)) for d in ascd])
        c5 = ctx.K("ascii5321", "default", ["E 5321 %d %s" % (t, hx(b"a@" + d)) for d in ascd])
        for d, a6, a5 in zip(ascd, c6, c5):
            f6, f5 = fields(a6), fields(a5)
            acc6, acc5 = int(f6[1]) >= 0, int(f5[1]) >= 0
            if acc6 and (not acc5 or f6[1] != f5[1]):
                ctx.S("mode 6531 accepts an all-ASCII domain the ASCII modes reject (or with another class)", op="E 6531 %d %s" % (t, hx(b"a@" + d)), m6531=a6, m5321=a5)
            if acc5 and not acc6 and f6[1] != "-2":
                ctx.S("mode 6531 rejects an all-ASCII domain the ASCII modes accept, and not with an IDN error", op="E 6531 %d %s" % (t, hx(b"a@" + d)), m6531=a6, m5321=a5)
        stats["asked-directly-converted"] = len(direct)
        ctx.extra_cov.setdefault("idn_oracle", {}).update({"tld=%d %s" % (t, k): v for k, v in stats.items()})
    # one eav_t set up for 6531, then given an unknown rfc value (setup refused), then set up for 6531 again - and the other orders: the U-label and
    # the A-label spelling of a domain are still treated as a fresh object treats them
    hs = []
    pair = [hx("user@\u043f\u0440\u0438\u043c\u0435\u0440.\u0440\u0444".encode()), hx(b"user@xn--e1afmkfd.xn--p1ai"), hx("user@b\u00fccher.de".encode()), hx(b"user@xn--bcher-kva.de"), hx(b"user@iana.org")]
    ads = ";".join("e" + a_ for a_ in pair)
    for t_ in (0, 1):
        hs += ["i;t%d;r6531;s;%s;r9;s;r6531;s;%s;f" % (t_, ads, ads), "i;t%d;r9;s;r6531;s;%s;f" % (t_, ads), "i;t%d;r6531;s;r9;s;r9;s;r6531;s;%s;r5321;s;r6531;s;%s;f" % (t_, ads, ads),
               "i;t%d;r6531;s;s;s;%s;r6531;s;%s;f" % (t_, ads, ads), "i;t%d;r5321;s;%s;r9;s;r6531;s;%s;f" % (t_, ads, ads)]
    check_histories(ctx, "setup-histories", hs)
RULES["C10"] = "distinct domains: every IDN TLD of the table in U- and A-form, 1-4 labels from eight scripts, malformed UTF-8 / disallowed code points / hyphen violations / long labels, all-ASCII domains of the C04/C07 generators; the A-label is the one libidn2 produced on this run"
TRUSTED_EXTRA["C10"] = ["libidn2's IDNA2008 conformance is an oracle: hypotheses H_same (conversion is idempotent on A-labels) and H_ascii (ASCII domains convert to their lower-case form) are validated on every recorded conversion, not proved"]


# ===================================================================== C11
def c11(ctx):
    # (1) the two generator programs, executed on the shipped CSVs (Text::CSV stand-in), output compared with the shipped files
    d = ctx.scr.copy_repo("gen")
    env = dict(os.environ, TZ="UTC")
    inc = "-I" + os.path.join(VERIF, "shims/perl")
    orig = {f: open(os.path.join(d, f), "rb").read() for f in ("src/auto_tld.c", "include/eav/auto_tld.h", "data/tld-domains.txt")}
    p1 = subprocess.run(["perl", inc, "util/gentld.pl", "include/eav/auto_tld.h", "src/auto_tld.c", "data/punycode.csv"], cwd=d, env=env, stdout=subprocess.PIPE, stderr=subprocess.STDOUT)
    p2 = subprocess.run(["perl", inc, "util/gen_utf8_pass_test.pl", "data/tld-domains.txt", "data/raw.csv"], cwd=d, env=env, stdout=subprocess.PIPE, stderr=subprocess.STDOUT)
    ctx.evals += 2
    if p1.returncode != 0 or p2.returncode != 0:
        ctx.S("a generator program fails on the shipped CSV files", op="perl util/gentld.pl / gen_utf8_pass_test.pl", output=(p1.stdout + p2.stdout).decode(errors="replace")[-800:])
    else:
        for f in orig:
            new = open(os.path.join(d, f), "rb").read().split(b"\n")
            old = orig[f].split(b"\n")
            if f == "src/auto_tld.c":
                new = [x for x in new if not x.startswith(b"/* this file was auto-generated at")]
                old = [x for x in old if not x.startswith(b"/* this file was auto-generated at")]
            ctx.evals += len(old)
            if new != old:
                diffs = [(i, a, b) for i, (a, b) in enumerate(zip(old, new)) if a != b][:3]
                ctx.S("re-running the generators on the shipped CSV files does not reproduce " + f, op="regenerate " + f,
                      first_differences=[(i, a.decode(errors="replace"), b.decode(errors="replace")) for i, a, b in diffs], lines=(len(old), len(new)))
            else:
                ctx.nontrivial.update("%s:%d" % (f, i) for i in range(len(old)))
    # (2) every row looked up in the real library, every domain of tld-domains.txt and raw.csv validated
    tbl = table_names(ctx)
    c = ctx.K("rows", "default", ["T %s" % hx(r[0]) for r in tbl] + ["T %s" % hx(r[0].upper()) for r in tbl], nontrivial=lambda op, ln: True)
    sp = ctx.spec(["sT %s" % hx(r[0]) for r in tbl] * 2)
    for r, cl, sl in zip(tbl + tbl, c, sp):
        if cl.split(" ")[1] != sl.split(" ")[1]:
            ctx.S("a row of data/punycode.csv is not found with the class the generator documents", op="T %s" % hx(r[0]), impl=cl, csv=sl)
    # raw.csv (U-labels) names the same TLD set as punycode.csv (A-labels): row by row through the IDN library, no duplicates
    import csv as _csv
    with open(os.path.join(d, "data/raw.csv"), newline="", encoding="utf-8") as f:
        raw = [r[0].encode() for r in list(_csv.reader(f))[1:]]
    with open(os.path.join(d, "data/punycode.csv"), newline="", encoding="utf-8") as f:
        pun = [r[0].encode() for r in list(_csv.reader(f))[1:]]
    if len(set(raw)) != len(raw):
        dup = sorted({x for x in raw if raw.count(x) > 1})
        ctx.S("data/raw.csv names a TLD twice (so the test list does not name the library's TLD set)", op="raw.csv duplicates", names=[x.decode() for x in dup[:5]])
    uops = ["U 0 %s" % hx(b"x." + r) for r in raw]
    cu, lu = ctx.run("rawcsv", "default", uops)
    ctx.evals += len(uops)
    lean_in = open(os.path.join(ctx.scr.dir, "rawcsv_default.leanin")).read().split("\n")[1:]
    for r, p_, li in zip(raw, pun, lean_in):
        m_ = re.search(r" @ (-?\d+) (\S+)", li)
        a = cvhex(m_.group(2)) if (m_ and m_.group(1) == "0" and m_.group(2) != "-") else None
        if a != b"x." + p_:
            ctx.S("a row of data/raw.csv is not the U-label of the same row of data/punycode.csv", op="U 0 %s" % hx(b"x." + r), raw=r.decode(errors="replace"), punycode=p_.decode(), converted=repr(a))
    # no domain absent from the CSV is found: near misses and byte aliases of every row, straight into is_tld
    # (the names come from the CSV as well as from the compiled table: the CSV is what dictates, whatever shape the table takes)
    labels = [l for l in dict.fromkeys(gen.tld_labels(list(dict.fromkeys([r[0] for r in tbl] + [x.lower() for x in pun])), ctx.tier, ctx.rng)) if l and 0 not in l]
    ct = ctx.K("is_tld", "default", ["T %s" % hx(l) for l in labels], nontrivial=lambda op, ln: True)
    st = ctx.spec(["sT %s" % hx(l) for l in labels])
    for l, cl, sl in zip(labels, ct, st):
        if cl.split(" ")[1] != sl.split(" ")[1]:
            ctx.S("is_tld answers differently from data/punycode.csv (a domain absent from the CSV is found, or a listed one is not)", op="T %s" % hx(l), label=repr(l), impl=cl, csv=sl)
    doms = open(os.path.join(d, "data/tld-domains.txt"), "rb").read().split(b"\n")
    doms = [x for x in doms if x]
    ce = ctx.K("tld-domains.txt", "default", ["E 6531 1 %s" % hx(b"a@" + x) for x in doms], nontrivial=lambda op, ln: True)
    for x, cl in zip(doms, ce):
        rc = int(fields(cl)[1])
        if not (1 <= rc <= 9):
            ctx.S("a domain of data/tld-domains.txt is not classified by the library", op="E 6531 1 %s" % hx(b"a@" + x), impl=cl)
    # every row once more behind a long host name, in table order, with unlisted labels of the same length in between, through
    # the whole validation path of modes 6531 and 5321 (a lookup must not depend on the previous one)
    host = b"a" * 35 + b"." + b"b" * 34
    seq = []
    for r in tbl:
        seq.append(r[0])
        if len(seq) % 3 == 0:
            seq.append((b"q" * len(r[0]))[:len(r[0])] if len(r[0]) > 1 else b"q")
    seq = [x for x in seq]
    spq = ctx.spec(["sT %s" % hx(x) for x in seq])
    for m in (6531, 5321):
        cq = ctx.K("rows-long-host%d" % m, "default", ["E %d 1 %s" % (m, hx(b"a@" + host + b"." + x)) for x in seq], nontrivial=lambda op, ln: True)
        for x, cl, sl in zip(seq, cq, spq):
            f = fields(cl)
            if f[1] == "-2":
                continue
            if f[1] != sl.split(" ")[1]:
                ctx.S("behind a long host name, a TLD is not found with the class data/punycode.csv gives it (or an unlisted one is found)",
                      op="E %d 1 %s" % (m, hx(b"a@" + host + b"." + x)), label=repr(x), impl=cl, csv=sl)
RULES["C11"] = "lines of the three regenerated files compared with the shipped ones, all 1591 rows looked up in lower and upper case, every domain of tld-domains.txt validated in mode 6531"
TRUSTED_EXTRA["C11"] = ["the Perl interpreter and shims/perl/Text/CSV.pm (40-line stand-in for Text::CSV, which is not installed) for the run of the two generator programs; that run is a test of the generators, the theorems are about their artefacts"]


# ===================================================================== C14
def c14(ctx):
    addrs = [s for s in diag_corpus(ctx)[:: (40 if ctx.tier == "quick" else 8)] if 0 not in s]
    fn = os.path.join(ctx.scr.dir, "mt_addrs.txt")
    with open(fn, "w") as f:
        f.write("\n".join(hx(a) for a in addrs) + "\n")
    env = dict(os.environ, LC_ALL="C", TSAN_OPTIONS="halt_on_error=0:exitcode=66:report_signal_unsafe=0")
    runs = [(2, 3), (4, 2), (16, 1)] if ctx.tier == "quick" else [(2, 10), (3, 6), (4, 6), (8, 4), (16, 3)]
    plan = [("x:tsan", nth, rounds) for nth, rounds in runs]
    # the back ends that keep state in eav_setup / eav_free: fewer calls, many setup/free cycles (each round re-initialises)
    for v in ctx.drives:
        if v.startswith("x:tsan-"):
            plan += [(v, 8, 2), (v, 3, 4)] if ctx.tier == "quick" else [(v, 8, 6), (v, 3, 12), (v, 16, 3)]
    plan = [(v, nth, rounds, None) for v, nth, rounds in plan]
    for loc in ctx.locales():
        plan += [("x:tsan", 8, 1, loc), ("x:tsan", 3, 2, loc)]
    for v, nth, rounds, loc in plan:
        p = vlib.run_timed([ctx.drive(v), fn, str(nth), str(rounds)], 400 if ctx.tier == "quick" else 3600, env=dict(env, **(loc or {})))
        out = p.stdout.decode(errors="replace")
        if p.timed_out:
            err = p.stderr.decode(errors="replace")
            ctx.S("the threaded run does not terminate (threads using their own eav_t each; killed after %d s)" % (400 if ctx.tier == "quick" else 3600),
                  op="mt[%s%s] %d threads x %d rounds over %d addresses" % (v[2:], ("," + loc["VERIF_LOCALE"]) if loc else "", nth, rounds, len(addrs)),
                  report=err[:1500], frames=re.findall(r"#0 (\S+) (\S+)", err)[:4])
            continue
        m = re.search(r"calls=(\d+) mismatches=(\d+)", out)
        calls = int(m.group(1)) if m else 0
        ctx.evals += calls
        ctx.nontrivial.update("thr%d:%s" % (nth, hx(a)) for a in addrs)
        ctx.streams["%s %d threads x %d rounds%s" % (v[2:], nth, rounds, (" locale " + loc["VERIF_LOCALE"]) if loc else "")] = dict(ops=calls, k_mismatch=0)
        if len(ctx.samples) < 6:
            ctx.samples.append(dict(threads=nth, rounds=rounds, output=out.strip(), address=repr(ctx.rng.choice(addrs))))
        err = p.stderr.decode(errors="replace")
        if "ThreadSanitizer: data race" in err or p.returncode == 66:
            frames_ = re.findall(r"#0 (\S+) (\S+)", err)[:4]
            ctx.S("unsynchronised access to shared mutable memory (ThreadSanitizer data race)", op="mt[%s%s] %d threads x %d rounds over %d addresses" % (v[2:], ("," + loc["VERIF_LOCALE"]) if loc else "", nth, rounds, len(addrs)),
                  report=err[:1500], frames=frames_)
        elif m and int(m.group(2)) != 0:
            ctx.S("a thread obtained an outcome different from the sequential run", op="mt %d threads x %d rounds" % (nth, rounds), output=out)
        elif p.returncode != 0:
            ctx.S("threaded run failed", op="mt %d threads" % nth, rc=p.returncode, stderr=err[-800:])
RULES["C14"] = "validation calls executed by 2-16 concurrent threads (own eav_t each, shared read-only strings, all modes, tld on/off) under ThreadSanitizer, each compared with the single-threaded outcome; distinct = (thread count, address)"
VARIANTS_OF["C14"] = {"quick": ["x:tsan", "x:tsan-idnkit", "x:tsan-extra"], "thorough": ["x:tsan", "x:tsan-idnkit", "x:tsan-idn", "x:tsan-extra"]}
TRUSTED_EXTRA["C14"] = ["data races in the compiled code are a runtime fact: ThreadSanitizer (happens-before detector, any conflicting pair it observes, whatever the schedule) covers them; what is proved is schedule-independence of the model whose shared state is read from the object files (objdump: no object in a writable section)"]
ASSUME["C14"] = ["libidn2 itself is thread-safe (not instrumented)"]


# ===================================================================== C06
def c06(ctx):
    rng = ctx.rng
    run_giant(ctx, ["local-ascii", "local-6531", "domain", "special"])
    # (1) every stream under ASan+UBSan, inputs in exact-size heap blocks, eav_t in 0xA5-filled heap memory
    loc = gen.local_strings("quick", rng, utf8=True)[:: (5 if ctx.tier == "quick" else 1)]
    dom = gen.domain_strings("quick", rng)[:: (6 if ctx.tier == "quick" else 1)]
    lit = gen.literal_domains("quick", rng)[:: (3 if ctx.tier == "quick" else 1)]
    mails = diag_corpus(ctx)[:: (2 if ctx.tier == "quick" else 1)]
    big = []
    for n in (1024, 65536):
        for unit in (b"a", b".", b"a.", b'"', b'\\', b'"a"', b"\xc3\xa9", b"\xff", b" ", b"@", b"[", b"]", b":", b"1.", b"1:", b"-", b"a-", b"\r\n "):
            u = (unit * (n // len(unit) + 1))[:n]
            big += [u, u + b"@b.com", b"a@" + u, b"a@" + u + b".com", b"a@[" + u + b"]", b'"' + u + b'"@b.com', b"a@[IPv6:" + u + b"]"]
    edge = [b"", b"@", b"a@", b"@a", b"a@[", b"a@[]", b"a@]", b'"', b'"@"', b"\\", b".", b"a@.", b"a@-", b"a@a-", b"a@[1", b"a@[1]", b"a@[::]", b"a@[IPv6:]", b"a@[IPv6::]", b"a@[IPv6:::]"]
    for b0 in range(1, 256):
        edge += [bytes([b0]), bytes([b0]) + b"@b.com", b"a@" + bytes([b0]), b"a@b" + bytes([b0]), b"a" + bytes([b0]) + b"@b.com", b"a@[" + bytes([b0]) * 8 + b"]", b"a@b." + bytes([b0]) + b"c",
                 b'"' + bytes([b0]) + b'"@b.com', b"a@[1.2.3.4" + bytes([b0]), b"a@[IPv6:1::" + bytes([b0]) + b"]"]
    # every kind of character at the very start and inside the local part, through the API in mode 6531 (a scanner that answers with an unexpected
    # code makes eav_is_email abort); the converter corpus (names the mapping empties, refusals, long names) through the API as well
    firstpos = []
    for x in ("\ufeff", "\u00e9", "\u0800", "\uffff", "\U00010000", "\U0010ffff", "\u200b", "\u00ad", "\u2028", "\u0080", "\u07ff", "\ud7ff", "\ue000", "\ufffe", "\u202e"):
        e_ = x.encode()
        firstpos += [e_ + b"john.doe@example.org", b"jo" + e_ + b"hn@example.org", b"john" + e_ + b"@example.org", b'"' + e_ + b'"@example.org', e_ + b"@example.org", e_ + b"." + e_ + b"@b.com"]
    edge += firstpos + [b"u@" + d for d in idn_domains(ctx)[:: (3 if ctx.tier == "quick" else 1)] if 0 not in d]
    cov_ops = []
    origK = ctx.K
    def K(name, variant, ops, **kw):
        if variant == "default":
            cov_ops.extend(ops)
        return origK(name, variant, ops, **kw)
    ctx.K = K
    for v in ctx.drives:
        if v.startswith("x:"):
            continue
        for m in MODES:
            ctx.K("local%d" % m, v, ["L %d %s %s" % (m, hx(s), hx(gen.AT)) for s in loc if 0 not in s] + ["L %d %s %s" % (m, hx(s), hx(gen.NUL)) for s in loc[::7] if 0 not in s])
        ctx.K("domain", v, ["D %s 00" % hx(s) for s in dom if 0 not in s])
        ctx.K("special", v, ["S %s" % hx(s) for s in dom[::2] if 0 not in s])
        ctx.K("tld", v, ["T %s" % hx(s) for s in dom[::5] if 0 not in s] + ["T %s" % hx(bytes([b0]) + t) for b0 in range(1, 256) for t in (b"", b"om", b"\xff")])
        # the two address parsers themselves: octet values that wrap in 32/64-bit arithmetic, long digit runs, every IPv6 shape
        ctx.K("ipv4", v, ["4 %s %s" % (hx(a), hx(b"]\0")) for a in gen.ipv4_strings("quick", rng)[:: (2 if ctx.tier == "quick" else 1)] if 0 not in a])
        ctx.K("ipv6", v, ["6 %s %s" % (hx(a), hx(b"]\0")) for a in gen.ipv6_shapes("quick", rng)[:: (4 if ctx.tier == "quick" else 1)] if 0 not in a])
        # reserved-name shapes: labels of every length 1..12 and 62/63 in the last two positions (the label copies of is_special_domain)
        spd = [s for s in gen.special_domains("quick", rng)[:: (3 if ctx.tier == "quick" else 1)] if 0 not in s]
        ctx.K("special-shapes", v, ["S %s" % hx(s) for s in spd])
        ctx.K("special-api", v, ["E 5321 1 %s" % hx(b"a@" + s) for s in spd[::2]], nontrivial=lambda op, ln: True)
        for m in MODES:
            for t in (0, 1):
                ctx.K("api%d" % m, v, ["P %d %d %d %s" % (m, t, 760, hx(s)) for s in mails + edge + [b"a@" + d for d in lit] if 0 not in s], nontrivial=lambda op, ln: fields(ln)[2] not in ("3", "16"))
                ctx.K("big%d" % m, v, ["P %d %d %d %s" % (m, t, 760, hx(s)) for s in big], nontrivial=lambda op, ln: True)
    # the caller's string is the caller's: inputs in read-only pages directly in front of an inaccessible page
    ro = [s for s in (mails[::3] + edge[::5] + [b"a@" + d for d in lit[::4]] + ["ж@почта.рф".encode(), "a@例え.テスト".encode(), b"user@example.org", b"a@[IPv6:2001:db8::1]", b"a@[::1]"]) if 0 not in s]
    for m in MODES:
        for t in (0, 1):
            ctx.K("readonly-input%d" % m, "default", ["P %d %d %d %s" % (m, t, 760, hx(s)) for s in ro], nontrivial=lambda op, ln: True, env={"VERIF_ROMEM": "1"})
    ctx.K("readonly-parts", "default", ["L %d %s %s" % (m, hx(s), hx(gen.AT)) for m in MODES for s in loc[::9] if 0 not in s] + ["D %s 00" % hx(s) for s in dom[::9] if 0 not in s] +
          ["U 1 %s" % hx(d) for d in idn_domains(ctx)[::9] if 0 not in d], env={"VERIF_ROMEM": "1"})
    # the EAV_EXTRA record of the idnkit source set (allocated by other code): accepted and rejected addresses in turn, every mode
    for v in [x for x in ctx.drives if x.startswith("be:") and x.endswith("+extra")]:
        rej = [b"no-at-sign", b"a..b@x", b"", b"a@[1.2.3", b"a@b.com", b"bad@", b"a@[1.2.3.4]", "ж@почта.рф".encode(), b'"a b"@b.ru', b"a@-b.com"]
        ctx.K("extra-record", v, ["P %d %d %d %s" % (m, t, 760, hx(x)) for m in MODES for t in (0, 1) for x in rej + mails[::40]], nontrivial=lambda op, ln: True)
    hg = HistGen(rng)
    scripts = [hg.random_history(n, H_ADDRS + [b"a@" + d for d in lit[:40]], inject=True) for n in (5, 20, 100) for _ in range(30 if ctx.tier == "quick" else 300)]
    ctx.K("history", "default", ["H " + sc for sc in scripts], nontrivial=lambda op, ln: True)
    ctx.K = origK
    # (1b) how much of the library these streams execute: gcov build (gcc -O0 --coverage) replaying the default-build ops
    # plus the per-part ops of the other properties' generators; reported, not judged
    cov_ops += ["4 %s %s" % (hx(a), hx(b"]\0")) for a in gen.ipv4_strings("quick", rng)[::3] if 0 not in a] + \
               ["6 %s %s" % (hx(a), hx(b"]\0")) for a in gen.ipv6_shapes("quick", rng)[::3] if 0 not in a] + \
               ["A %s %s" % (hx(a), hx(b"\0")) for a in gen.ipv6_shapes("quick", rng)[::9] if 0 not in a] + \
               ["4 %s %s" % (hx(a), hx(b"\0")) for a in gen.ipv4_strings("quick", rng)[::5] if 0 not in a] + \
               ["L 6531 %s %s" % (hx(u), hx(gen.AT)) for u in gen.utf8_in_context(gen.utf8_sequences("quick", rng))[::2]] + \
               ["S %s" % hx(d) for d in gen.special_domains("quick", rng)[::4] if 0 not in d] + \
               ["U %d %s" % (t, hx(d)) for t in (0, 1) for d in idn_domains(ctx)[::4] if 0 not in d] + \
               ["E %d %d %s" % (m, t, hx(s)) for m in MODES for t in (0, 1) for s in mails[::3] if 0 not in s] + \
               ["Y %d %d" % (mask, rc) for mask in (0, 1, 2, 760, 2047) for rc in range(-35, 13)]
    fi = os.path.join(ctx.scr.dir, "gcov.in")
    with open(fi, "w") as f:
        f.write("\n".join(cov_ops) + "\n")
    vlib.run_timed([ctx.drive("x:gcov"), fi, fi + ".out", fi + ".lean"], 1800)
    try:
        ctx.extra_cov["library_coverage_under_these_streams"] = vlib.gcov_report(ctx.drive("x:gcov"))
    except Exception as e:
        ctx.note("gcov report failed: %r" % (e,))
    # model faults are violations too: the model reads what the code reads
    for k in list(ctx.k_fail):
        if "FAULT" in (k.get("model") or "") and "FAULT" not in (k.get("impl") or ""):
            ctx.note("model fault without implementation fault on %s" % k["op"][:80])
    # (2) work grows linearly: instruction counts (callgrind) for n, 2n, 4n per input family; deterministic, no wall-clock
    sizes = [2048, 4096, 8192] if ctx.tier == "quick" else [4096, 8192, 16384, 32768, 65536]
    E = lambda s: ["E %d 1 %s" % (m, hx(s)) for m in MODES]
    Lo = lambda s: ["L %d %s %s" % (m, hx(s), hx(gen.AT)) for m in MODES]
    fams = {"domain-labels": lambda n: E(b"a@" + (b"a" * 60 + b".") * (n // 61) + b"com"), "domain-dots": lambda n: E(b"a@" + b"a." * (n // 2)),
            "local-atom": lambda n: Lo(b"ab." * (n // 3) + b"a"), "local-quoted": lambda n: Lo(b'"' + b"\\a" * (n // 2) + b'"'),
            "local-utf8": lambda n: Lo("é".encode() * (n // 2)), "local-folding": lambda n: Lo(b'"' + b"\r\n " * (n // 3) + b'"'),
            "ipv6-hexrun": lambda n: ["6 %s %s" % (hx(b"1::" + b"f" * n), hx(b"]\0"))], "ipv4-octets": lambda n: E(b"a@[" + b"1." * (n // 2) + b"]"),
            "domain-hyphen": lambda n: E(b"a@" + b"a-" * (n // 2) + b"a.com"), "special-labels": lambda n: E(b"a@" + b".".join([b"x"] * (n // 2)) + b".test"),
            "tld-miss": lambda n: E(b"a@" + b"x." * (n // 2) + b"zzzzzz"),
            # the address parsers called directly on NUL-terminated strings (no ']' to stop a look-ahead early)
            "ipv4-zeros-direct": lambda n: ["4 %s 00" % hx(b"0." * (n // 2) + b"0")], "ipv4-ones-direct": lambda n: ["4 %s 00" % hx(b"1." * (n // 2) + b"1")],
            "ipv4-zerodigits-direct": lambda n: ["4 %s 00" % hx(b"0.0.0." + b"0" * n)], "ipaddr-zeros-direct": lambda n: ["A %s 00" % hx(b"0." * (n // 2) + b"0")],
            "ipv6-zeros-direct": lambda n: ["6 %s 00" % hx(b"::0.0" + b".0" * (n // 2))], "tld-direct": lambda n: ["T %s" % hx(b"c" * n)],
            "special-direct": lambda n: ["S %s" % hx(b"a." * (n // 2) + b"example.com")], "domain-direct": lambda n: ["D %s 00" % hx(b"a-b." * (n // 4) + b"com")],
            # whole is_5321_email calls, measured against the composed counter `emailTicks` (Eav/CostEmail.lean, proved linear in C06CostEmail.lean)
            "email5321-long-domain": lambda n: ["E 5321 1 %s" % hx(b"a@" + b"a-b." * (n // 4) + b"com")], "email5321-many-at": lambda n: ["E 5321 1 %s" % hx(b"a@" * (n // 2) + b"b.com")],
            "email5321-literal6": lambda n: ["E 5321 1 %s" % hx(b"a@[IPv6:1::" + b"0:" * (n // 2) + b"1]")], "email5321-literal4": lambda n: ["E 5321 1 %s" % hx(b"a@[0.0.0" + b".0" * (n // 2) + b"]")],
            "email5321-long-local": lambda n: ["E 5321 1 %s" % hx(b"a" * n + b"@b.com")], "email5321-host253": lambda n: ["E 5321 1 %s" % hx(b"ab@" + b".".join([b"x"] * 126) + b".zz")]}
    toggles = {"ipv4-zeros-direct": "is_ipv4", "ipv4-ones-direct": "is_ipv4", "ipv4-zerodigits-direct": "is_ipv4", "ipaddr-zeros-direct": "is_ipaddr", "ipv6-zeros-direct": "is_ipv6",
               "tld-direct": "is_tld", "special-direct": "is_special_domain", "domain-direct": "is_ascii_domain",
               "email5321-long-domain": "is_5321_email", "email5321-many-at": "is_5321_email", "email5321-literal6": "is_5321_email", "email5321-literal4": "is_5321_email",
               "email5321-long-local": "is_5321_email", "email5321-host253": "is_5321_email"}
    lin = {}
    for fam, mk in fams.items():
        counts = []
        for n in sizes:
            fi = os.path.join(ctx.scr.dir, "cg_%s_%d.in" % (fam, n))
            with open(fi, "w") as f:
                f.write("\n".join(mk(n)) + "\n")
            cgout = fi + ".cg"
            p = vlib.run_timed(["valgrind", "--tool=callgrind", "--callgrind-out-file=" + cgout, "--toggle-collect=" + (toggles.get(fam) or ("is_*_local" if fam.startswith("local") else "is_ipv6" if fam.startswith("ipv6") else "is_*_email")), ctx.drive("x:plain"), fi, fi + ".out", fi + ".lean"], 1800)
            if p.timed_out:
                ctx.S("work is not linear in the input length (the call does not return within 1800 s under callgrind)", op="%s..." % mk(n)[0][:120], family=fam, size=n)
                counts.append(None)
                break
            ir = None
            if os.path.exists(cgout):
                for line in open(cgout):
                    if line.startswith("summary:") or line.startswith("totals:"):
                        ir = int(line.split()[1]); break
            counts.append(ir)
        lin[fam] = counts
        # the model's own byte counts (Eav/Cost.lean, proved linear in C06Cost.lean) against the measurement: the compiled code must not do
        # more work per byte the model says it examines than a generous constant allows
        if fam in toggles and toggles[fam] in ("is_ipv4", "is_ipv6", "is_tld", "is_special_domain", "is_5321_email"):
            cops = ["c" + o for n in sizes for o in mk(n)]
            ticks = [int(x.split(" ")[1]) for x in ctx.spec(cops)]
            ctx.extra_cov.setdefault("model_ticks_per_family", {})[fam] = dict(zip(map(str, sizes), ticks))
            for n, ir, tk in zip(sizes, counts, ticks):
                if ir and ir > 150 * tk + 50000:
                    ctx.S("the compiled %s executes far more instructions than the bytes the model examines can account for (instructions > 150 x ticks + 50000; the model's count is proved linear)" % toggles[fam],
                          op=mk(n)[0][:200] + "...", family=fam, size=n, instructions=ir, model_ticks=tk)
                    break
        ctx.evals += len(sizes) * len(mk(8))
        for a, b, n in zip(counts, counts[1:], sizes[1:]):
            if a and b and b > 2.3 * a + 20000:
                ctx.S("work is not linear in the input length (instructions more than double when the length doubles)", op="E * 1 %s..." % fam, family=fam, sizes=sizes, instructions=counts)
                break
    ctx.extra_cov["instructions_per_family"] = {k: dict(zip(map(str, sizes), v)) for k, v in lin.items()}
    # (3) memcheck on a slice: uninitialised reads, leaks, also through libidn2 (thorough)
    if ctx.tier != "quick":
        ops = ["P %d %d %d %s" % (m, t, 760, hx(s)) for m in MODES for t in (0, 1) for s in (mails[::25] + edge[::40])] + ["H " + sc for sc in scripts[::10]]
        fi = os.path.join(ctx.scr.dir, "mc.in")
        open(fi, "w").write("\n".join(ops) + "\n")
        p = vlib.run_timed(["valgrind", "--error-exitcode=77", "--leak-check=full", "--track-origins=yes", "-q", ctx.drive("x:plain"), fi, fi + ".out", fi + ".lean"], 7200)
        ctx.evals += len(ops)
        if p.returncode == 77:
            ctx.S("valgrind memcheck reports an error (uninitialised read, invalid access or leak)", op="memcheck slice of %d ops" % len(ops), report=p.stderr.decode(errors="replace")[:2000])
RULES["C06"] = "distinct ops executed under ASan+UBSan+LSan with exact-size heap inputs and a poisoned heap eav_t: every byte value at every structural position, 1 KiB and 64 KiB inputs of 18 shapes x 7 placements, corpora of the other properties, call histories with injected IDN faults; callgrind instruction counts for doubling lengths"
VARIANTS_OF["C06"] = {"quick": ["default", "extra", "uchar", "be:idnkit+extra", "x:plain", "x:gcov"], "thorough": ["default", "extra", "all3", "uchar", "be:idnkit+extra", "be:idn+extra", "x:plain", "x:gcov"]}
TRUSTED_EXTRA["C06"] = ["what the compiled C actually reads and writes is a runtime fact: ASan/UBSan/LSan on every correspondence stream, valgrind memcheck and callgrind carry that half; the model-level no-fault statements are about the model"]


# ===================================================================== C20
def errors_table():
    txt = open(os.path.join(LEAN, "Eav/Gen/Enums.lean"), encoding="utf-8").read()
    m = re.search(r"def errorsRuntime : List String := \[(.*?)\]\n", txt, flags=re.S)
    return re.findall(r'"((?:[^"\\]|\\.)*)"', m.group(1))


def idn2_strerror(rc):
    import ctypes, ctypes.util
    lib = ctypes.CDLL(ctypes.util.find_library("idn2") or "libidn2.so.0")
    lib.idn2_strerror.restype = ctypes.c_char_p
    return lib.idn2_strerror(int(rc)).decode()


def spec_trim(rec):
    """the property's description of the tool's trimming: line terminator, one leading space, one trailing blank"""
    if rec.endswith(b"\r\n"): rec = rec[:-2]
    elif rec.endswith(b"\n"): rec = rec[:-1]
    if rec.startswith(b"#"): return None
    if rec.startswith(b" "): rec = rec[1:]
    if rec.endswith(b" ") or rec.endswith(b"\t"): rec = rec[:-1]
    return rec


def recorded_convs(ctx, name, variant, ops):
    """what the IDN library answered during each op of the stream just run: the ` @ rc out` records the harness appended to the op lines it
    handed to the model (file <tag>.leanin, one line per op after the header)"""
    tag = name.replace("/", "_").replace(":", "_") + "_" + variant.replace("+", "_").replace(":", "_")
    fn = os.path.join(ctx.scr.dir, tag + ".leanin")
    if not os.path.exists(fn):
        return None
    lines = open(fn).read().split("\n")[1:]
    if len(lines) < len(ops):
        return None
    out = []
    for op, ln in zip(ops, lines):
        if not ln.startswith(op):
            return None
        toks = ln[len(op):].split()
        out.append((toks[1], toks[2]) if len(toks) >= 3 and toks[0] == "@" else None)
    return out


def cli_main_compare(ctx, exe, env, runs):
    """the whole tool against Eav/CliMain.lean: exit code, every byte of stdout and the pass/fail counters on stderr of the real binary run
    on each argument list of `runs` (bytes, or None for a path that does not exist) = the model's, given what the IDN library answers for
    each validated line"""
    done = []
    for ri, files in enumerate(runs):
        paths = []
        for k, f in enumerate(files):
            fn = os.path.join(ctx.scr.dir, "clim_%d.txt" % k)
            if f is None:
                fn += ".missing"
                if os.path.exists(fn): os.remove(fn)
            else:
                open(fn, "wb").write(f)
            paths.append(fn)
        p = vlib.run_timed([exe] + paths, 180, env=env)
        op = "cli-main " + " ".join("~" if f is None else (hx(f) if len(f) < 300 else hx(f[:150]) + "...(%d bytes)" % len(f)) for f in files)
        ctx.evals += 1
        if p.timed_out or p.returncode != 0:
            ctx.S("the eav tool does not terminate normally (%s)" % ("killed after 180 s" if p.timed_out else "exit %d" % p.returncode), op=op,
                  stderr=(p.stderr or b"").decode(errors="replace")[-700:])
            continue
        done.append((files, op, p.stdout, p.stderr))
    # the lines the model validates, and what the IDN library answers for each of them (one stream for all runs)
    allfiles = list(dict.fromkeys(f for files, _, _, _ in done for f in files if f is not None))
    trims = dict(zip(allfiles, ctx.spec(["Ft %s" % hx(f) for f in allfiles])))
    lines_of = {f: ([bytes.fromhex(x) if x != "-" else b"" for x in tl.split(" ")[1:]] if tl.strip() != "Ft" else []) for f, tl in trims.items()}
    lines = list(dict.fromkeys(l for f in allfiles for l in lines_of[f]))
    vops = ["P 6531 1 760 %s" % hx(l) for l in lines]
    if vops:
        ctx.K("cli-conv", "default", vops, nontrivial=lambda op, ln: False)
    convs = recorded_convs(ctx, "cli-conv", "default", vops) if vops else []
    if convs is None:
        return                                   # the library faulted on one of the lines: reported by the stream itself
    conv_of = dict(zip(lines, convs))
    fms = []
    for files, op, so, se in done:
        ls = list(dict.fromkeys(l for f in files if f is not None for l in lines_of[f]))
        fms.append("Fm " + " ".join("~" if f is None else hx(f) for f in files) + "".join(" | %s %s %s" % (hx(l), conv_of[l][0], conv_of[l][1]) for l in ls if conv_of.get(l)))
    results = ctx.spec(fms)
    st = ctx.streams.setdefault("cli-main@x:cli", dict(ops=0, k_mismatch=0))
    for (files, op, so, se), res in zip(done, results):
        st["ops"] += 1
        def mismatch(impl, model):
            st["k_mismatch"] += 1
            if len(ctx.k_fail) < 20:
                ctx.k_fail.append(dict(stream="cli-main", variant="x:cli", op=op, impl=impl[:400], model=model[:400]))
        parts = res.split(" ; ")
        head = parts[0].split(" ")
        if len(head) < 3 or head[1] != "0" or head[2] != "1":
            mismatch("exit 0", res[:200]); continue
        model_out = b""
        model_counts = []
        for blk in parts[1:]:
            h, np_, nf = blk.split(" ")
            model_out += bytes.fromhex(h) if h != "-" else b""
            model_counts.append((int(np_), int(nf)))
        model_out = re.sub(rb"<<idn:(-?\d+)>>", lambda m: idn2_strerror(int(m.group(1))).encode(), model_out)
        heads = lambda out_: [ln[:6] for ln in out_.split(b"\n") if ln[:6] in (b"PASS: ", b"FAIL: ")]
        if heads(model_out) != heads(so):
            hm, hs_ = heads(model_out), heads(so)
            k = next((i for i, (a_, b_) in enumerate(zip(hm, hs_)) if a_ != b_), min(len(hm), len(hs_)))
            ctx.S("verdict %d printed by the tool is not the library's decision for that line alone (fresh object, default settings), or the number of verdicts differs" % (k + 1),
                  op=op, printed=repr(hs_[k:k + 1]), library=repr(hm[k:k + 1]), verdicts_printed=len(hs_), lines_validated=len(hm))
            continue
        if model_out != so:
            k = next((i for i, (a_, b_) in enumerate(zip(model_out, so)) if a_ != b_), min(len(model_out), len(so)))
            mismatch("stdout differs at byte %d: %r" % (k, so[max(0, k - 40):k + 60]), "%r" % model_out[max(0, k - 40):k + 60]); continue
        # stderr: one `<path>: pass = P fail = F` per readable file, last argument first
        got = [(int(a_), int(b_)) for a_, b_ in re.findall(rb": pass = (\d+) fail = (\d+)", se)]
        want = [c for c, f in zip(model_counts, reversed(files)) if f is not None]
        if got != want:
            mismatch("counters %r" % (got,), "counters %r" % (want,)); continue
        ctx.nontrivial.add("main:" + hashlib.sha1(b"\0".join(f if f is not None else b"~" for f in files)).hexdigest()[:16])


def c20(ctx):
    rng = ctx.rng
    errs = errors_table()
    corpus = [s for s in diag_corpus(ctx) if 0 not in s and b"\n" not in s]
    shapes = [b'"john"smith@gmail.com', b'john."q"x@gmail.com', b'"a"b@b.com', b'"a".b@b.com', b'a."b"@b.com', b'"a" b@b.com', b'"a"\xc3\xa9@b.com', b'"a\\"b"@b.com',
              "\ufeffuser@example.com".encode(), "\ufeff@example.com".encode(), "\ufeff# not a comment".encode(), "\ufeff".encode(), "\ufeff \ufeffa@b.com".encode(),
              b'"a"."b"@example.com', '"\u00e4"..b@example.com'.encode(), b'"q".@example.com', b'"a"."b".c@example.com', b'a."b"."c"@example.com', '"\u00e4"."\u00f6"@example.com'.encode(),
              b"", b" ", b"  ", b"\t", b"#comment", b"# a@b.com", b" #notcomment@b.com", b"a@b.com", b" a@b.com", b"a@b.com ", b"a@b.com\t", b" a@b.com \t", b"a@b.com  ",
              b"\xff", b"a\xff@b.com", b"\xc3", b"\xe2\x82", b"a@b.com\r", b"a\rb@c.com", b"\r", b"a@\x01.com", b"\x7f@b.com", "ж@почта.рф".encode(), "пример@почта.рф ".encode(),
              "😀@b.com".encode(), "a😀b@x.org".encode(), "\U00010000@b.com".encode(), "x\U000fffff@b.com".encode(), "\U00100000y@b.com".encode(),
              "\U0010ffff@b.com".encode(), "\uffff\U00010000\u0800\u07ff\u0080@b.com".encode(), "ab\U0001f600".encode(), "\U0001f600".encode() * 3,
              b"a" * 3000 + b"@b.com", "ж".encode() * 2000 + b"@b.com", b"\x01" * 700, b"x" * 8192, b"a@" + b"b." * 4000 + b"com", b"\xff" * 2100, b"a@b.com" + b" " * 3000]
    files = []
    terms = [b"\n", b"\r\n"]
    for sh in shapes:
        for term in terms:
            for final in (True, False):
                files.append(sh + (term if final else b""))
                files.append(b"first@ok.com" + term + sh + (term if final else b""))
    # line lengths around the powers of two, as the LAST line with and without a terminator, after nothing, after a short line and after a
    # long one (a reader that grows a buffer by doubling has its seams exactly there)
    for L in (62, 63, 64, 126, 127, 128, 254, 255, 256, 257, 510, 511, 512, 1022, 1023, 1024, 2046, 2047, 2048, 4095, 4096, 8191, 8192, 16383):
        dom = gen.long_host(min(L - 2, 200)) if L > 12 else b"b.com"
        line = (b"a@" + dom + b"x" * L)[:L]
        valid = b"a" * min(60, max(1, L - 2 - len(dom))) + b"@" + dom
        for body in (line, (valid + b" " * L)[:L]):
            for pre in (b"", b"first@ok.com\n", b"a@" + b"b" * 300 + b".com\n", b"x" * 5000 + b"\n"):
                for term in (b"", b"\n", b"\r\n"):
                    files.append(pre + body + term)
    n = 60 if ctx.tier == "quick" else 600
    for _ in range(n):
        lines = []
        for _ in range(rng.randint(0, 12)):
            r = rng.random()
            if r < 0.5: ln = rng.choice(corpus)
            elif r < 0.8: ln = rng.choice(shapes)
            else: ln = bytes(rng.randint(1, 255) for _ in range(rng.randint(0, 40))).replace(b"\n", b"")
            lines.append(ln + rng.choice(terms))
        f = b"".join(lines)
        if rng.random() < 0.3 and f:
            f = f[:-1] if f.endswith(b"\n") else f
        files.append(f)
    files = list(dict.fromkeys(files))
    exe = ctx.drive("x:cli")
    env = dict(os.environ, LC_ALL="C", ASAN_OPTIONS="detect_leaks=1:exitcode=99", UBSAN_OPTIONS="halt_on_error=1",
               LD_LIBRARY_PATH=os.path.dirname(os.path.dirname(exe)))
    trims = ctx.spec(["Ft %s" % hx(f) for f in files])
    for idx, (f, tl) in enumerate(zip(files, trims)):
        model_lines = [bytes.fromhex(x) if x != "-" else b"" for x in tl.split(" ")[1:]] if tl.strip() != "Ft" else []
        fn = os.path.join(ctx.scr.dir, "cli_%d.txt" % idx)
        open(fn, "wb").write(f)
        p = vlib.run_timed([exe, fn], 120, env=env)
        ctx.evals += 1
        ctx.nontrivial.add(hx(f[:200]) + ":%d" % len(f))
        op = "cli " + (hx(f) if len(f) < 400 else hx(f[:200]) + "...(%d bytes)" % len(f))
        if p.timed_out:
            ctx.S("the eav tool does not terminate (killed after 120 s)", op=op)
            continue
        if p.returncode != 0:
            ctx.S("the eav tool does not terminate normally (exit %d)" % p.returncode, op=op, stderr=p.stderr.decode(errors="replace")[-700:])
            continue
        # spec trimming (no NUL in these files) versus the model of the tool
        recs = [r for r in re.findall(rb"[^\n]*\n|[^\n]+$", f)]
        want_lines = [t for t in (spec_trim(r) for r in recs) if t is not None]
        if want_lines != model_lines:
            ctx.k_fail.append(dict(stream="cli-trim", variant="x:cli", op=op, impl=repr(want_lines)[:300], model=repr(model_lines)[:300]))
            continue
        # library verdicts for the trimmed lines (default settings), and the model's rendering of each line
        vops = ["P 6531 1 760 %s" % hx(l) for l in want_lines]
        verd = ctx.K("cli-verdict", "default", vops, nontrivial=lambda op, ln: False) if vops else []
        echo = ctx.spec(["Fs %s" % hx(l) for l in want_lines])
        out = p.stdout.split(b"\n")
        k = 0
        ok = True
        for l, v, e in zip(want_lines, verd, echo):
            fv = fields(v)
            ehex = e.split(" ")[1]
            etxt = bytes.fromhex(ehex) if ehex != "-" else b""
            head = (b"PASS: " if fv[1] == "1" else b"FAIL: ")
            if k >= len(out) or not out[k].startswith(head):
                ctx.S("verdict printed by the tool differs from the library's decision for the trimmed line", op=op, line=repr(l[:100]), library=v, printed=repr(out[k][:120]) if k < len(out) else None)
                ok = False; break
            printed = out[k][6:]
            clean = True
            try:
                txt = l.decode("utf-8")
                clean = not any(ord(ch) < 32 or ord(ch) == 127 for ch in txt)
            except UnicodeDecodeError:
                clean = False
            if clean and printed != l:
                ctx.S("a well-formed UTF-8 line without control characters is not echoed unchanged", op=op, line=repr(l[:100]), printed=repr(printed[:120]))
                ok = False; break
            if printed != etxt:
                ctx.k_fail.append(dict(stream="cli-echo", variant="x:cli", op=op, impl=repr(printed[:200]), model=repr(etxt[:200])))
                ok = False; break
            k += 1
            if fv[1] != "1":
                msg = fv[3]
                want = errs[int(msg[1:])] if msg.startswith("m") else idn2_strerror(msg[5:]) if msg.startswith("idn:#") else None
                if k >= len(out) or out[k] != b"      " + (want or "").encode():
                    ctx.S("FAIL is not followed by the library's error message", op=op, line=repr(l[:100]), expected=want, printed=repr(out[k][:120]) if k < len(out) else None)
                    ok = False; break
                k += 1
        if ok and [x for x in out[k:] if x != b""]:
            ctx.S("the tool prints more than one verdict per non-comment line", op=op, extra=repr(out[k:k + 3]))
        if len(ctx.samples) < 10 and rng.random() < 0.05:
            ctx.samples.append(dict(file=repr(f[:120]), stdout=repr(p.stdout[:200])))
    # the whole tool against its model (main + parse_file on top of the API model): every file alone, files with NUL bytes, several files in one
    # run (processed from the last argument to the first, one eav_t for all of them), unreadable paths in between
    nul_files = [b"a@b.com\x00junk\n", b"\x00\n", b"#\x00\nx@y.org\n", b"a\x00@b.com\r\n", b" \x00a@b.com\n", b"a@b.com \x00 \n", b"\x00", b"a@b.com\n\x00#c\n", b"\r\x00\r\n"]
    small = [f for f in files if len(f) < 3000]
    step = 3 if ctx.tier == "quick" else 1
    runs = [[f] for f in small[::step]] + [[f] for f in nul_files] + [[f] for f in files if len(f) >= 3000][:: (4 if ctx.tier == "quick" else 1)]
    for _ in range(25 if ctx.tier == "quick" else 150):
        k = rng.randint(2, 4)
        runs.append([None if rng.random() < 0.15 else rng.choice(small + nul_files) for _ in range(k)])
    runs += [[None], [None, b"a@b.com\n"], [b"a@b.com\n", None], [b"", b""], [b"x@y.org", b"a@b.com\n", b"x@y.org"]]
    # lines whose domains exercise different corners of the IDN library (bogus A-labels, joiners, hyphens 3-4, mapped-away characters, refusals), two
    # and three to a file in every order: a line is judged as it would be alone
    il = [b"user@xn--a.com", "user@b\u200d.com".encode(), "user@\u0915\u094d\u200d\u0937.com".encode(), b"user@ab--cd.com", "user@\u00ad.com".encode(), "user@stra\u00dfe.de".encode(),
          b"user@xn--strae-oqa.de", "user@\u2665.de".encode(), "user@\u043f\u043e\u0447\u0442\u0430.\u0440\u0444".encode(), b"user@example.com", b"user@xn--.com", "user@a\u200cb.com".encode()]
    pairs = [[a_ + b"\n" + b_ + b"\n"] for a_ in il for b_ in il if a_ != b_]
    if ctx.tier == "quick":
        pairs = pairs[::2] + [[a_ + b"\n" + b_ + b"\n"] for a_ in il[:2] for b_ in il[:4] if a_ != b_]
    runs += pairs + [[b"\n".join(il) + b"\n"], [b"\n".join(reversed(il)) + b"\n"]]
    cli_main_compare(ctx, exe, env, runs)
    # the same bytes through a pipe (`eav /dev/stdin`) and through a FIFO: a file is what `fopen` and `getline` deliver, whatever `stat` says about it
    pipe_files = [b"a@b.com\nbad\n#c\n\nuser@example.org\r\n", b"x@y.org", b"", b"\n", b"first@ok.com\n" + b"a" * 5000 + b"@b.com\nlast@ok.com"]
    for k_, f_ in enumerate(pipe_files):
        fn = os.path.join(ctx.scr.dir, "cli_pipe.txt")
        open(fn, "wb").write(f_)
        ref = vlib.run_timed([exe, fn], 120, env=env)
        via = vlib.run_timed([exe, "/dev/stdin"], 120, env=env, input=f_)
        ctx.evals += 2
        ctx.nontrivial.add("pipe:%d" % k_)
        if via.timed_out or via.returncode != ref.returncode or via.stdout != ref.stdout:
            ctx.S("the tool prints something else for the same bytes read through a pipe (eav /dev/stdin) than read from a regular file", op="cli " + hx(f_)[:600],
                  regular=repr((ref.stdout or b"")[:200]), pipe=repr((via.stdout or b"")[:200]), exit_regular=ref.returncode, exit_pipe=via.returncode)
        fifo = os.path.join(ctx.scr.dir, "cli_fifo")
        if os.path.exists(fifo): os.remove(fifo)
        os.mkfifo(fifo)
        import threading
        def feed(path=fifo, data=f_):
            try:
                with open(path, "wb") as w: w.write(data)
            except OSError:
                pass
        th = threading.Thread(target=feed, daemon=True); th.start()
        viaf = vlib.run_timed([exe, fifo], 120, env=env)
        th.join(5)
        os.remove(fifo)
        ctx.evals += 1
        if viaf.timed_out or viaf.returncode != ref.returncode or viaf.stdout != ref.stdout:
            ctx.S("the tool prints something else for the same bytes read through a FIFO than read from a regular file", op="cli " + hx(f_)[:600],
                  regular=repr((ref.stdout or b"")[:200]), fifo=repr((viaf.stdout or b"")[:200]), exit_regular=ref.returncode, exit_fifo=viaf.returncode)
    # one line of several megabytes between two ordinary ones (with the default 8 MiB stack): three verdicts, normal exit
    for mb in ((3,) if ctx.tier == "quick" else (3, 9)):
        fn = os.path.join(ctx.scr.dir, "cli_huge.txt")
        open(fn, "wb").write(b"first@ok.com\n" + b"a" * (mb << 20) + b"@example.com\nlast@ok.com\n")
        p = vlib.run_timed([exe, fn], 600, env=env)
        ctx.evals += 1
        ctx.nontrivial.add("huge-line:%d" % mb)
        op = "cli %s...(one line of %d MiB)...%s" % (hx(b"first@ok.com\n"), mb, hx(b"@example.com\nlast@ok.com\n"))
        heads = [ln[:6] for ln in p.stdout.split(b"\n") if ln[:6] in (b"PASS: ", b"FAIL: ")] if p.stdout else []
        os.remove(fn)
        if p.timed_out or p.returncode != 0:
            ctx.S("the eav tool does not terminate normally on a file with a line of %d MiB (%s)" % (mb, "killed after 600 s" if p.timed_out else "exit %d" % p.returncode), op=op,
                  stderr=(p.stderr or b"").decode(errors="replace")[-600:])
        elif heads != [b"PASS: ", b"FAIL: ", b"PASS: "]:
            ctx.S("a file with a line of %d MiB between two valid addresses does not get the verdicts PASS, FAIL, PASS" % mb, op=op, printed=repr(heads))
    # one verdict per line means the line's OWN verdict: the same line alone in a file gets the same PASS/FAIL as after any other line
    groups = [[b"a@x.com", b"a@x.co", b"a@x.c", b"a@x.comm"], [b"a@x.museum", b"a@x.muse", b"a@x.m"], [b"a@x.info", b"a@x.inf", b"a@x.i"], [b"a@b.org", b"a@b.or", b"a@b.o"],
              ["ж@почта.рф".encode(), "ж@почта.р".encode()], [b"a@x.xn--p1ai", b"a@x.xn--p1a", b"a@x.xn"], [b"a@x.active", b"a@x.ac", b"a@x.act", b"a@x.a"],
              [b'"a b"@b.ru', b"a b@b.ru", b"a@b.r"], [b"a@example.com", b"a@example.co", b"a@xample.com"], [b"a@[1.2.3.4]", b"a@1.2.3.4", b"a@[1.2.3]"]]
    nbl = [a for a in tld_neighbours(ctx, 400 if ctx.tier == "quick" else 40)]
    groups.append(nbl)
    def verdict_heads(stdout):
        return [ln[:4] for ln in stdout.split(b"\n") if ln.startswith(b"PASS: ") or ln.startswith(b"FAIL: ")]
    alone = {}
    for gi, g in enumerate(groups):
        for ln in dict.fromkeys(g):
            if ln in alone:
                continue
            fn = os.path.join(ctx.scr.dir, "cli_alone.txt")
            open(fn, "wb").write(ln + b"\n")
            p = vlib.run_timed([exe, fn], 120, env=env)
            alone[ln] = verdict_heads(p.stdout)
            ctx.evals += 1
        for order in (g, list(reversed(g))):
            fn = os.path.join(ctx.scr.dir, "cli_group.txt")
            open(fn, "wb").write(b"\n".join(order) + b"\n")
            p = vlib.run_timed([exe, fn], 300, env=env)
            ctx.evals += 1
            heads = verdict_heads(p.stdout)
            ctx.nontrivial.add("group%d:%d" % (gi, len(order)))
            want = [h for ln in order for h in alone[ln]]
            if heads != want:
                k = next((i for i, (a_, b_) in enumerate(zip(heads, want)) if a_ != b_), min(len(heads), len(want)))
                ctx.S("the verdict the tool prints for a line depends on the lines before it (the same line alone in a file gets another verdict)",
                      op="cli " + hx(b"\n".join(order[:k + 1]) + b"\n")[:800], line=repr(order[k]) if k < len(order) else None, after=repr(order[k - 1]) if 0 < k <= len(order) else None,
                      printed=repr(heads[k:k + 1]), alone=repr(want[k:k + 1]))
    # the tool as built for the idnkit back end (library and tool by the repository's Makefiles, FORCE_IDN=idnkit): same verdict per line as the
    # libidn2 build prints for the same file, and a normal exit
    if "x:cli-idnkit" in ctx.drives:
        exk = ctx.drive("x:cli-idnkit")
        envk = dict(env, LD_LIBRARY_PATH=os.path.dirname(os.path.dirname(exk)) + ":" + os.path.join(os.path.dirname(os.path.dirname(exk)), "_idnkit/lib"))
        pick = [f for f in files if len(f) < 600][:: (4 if ctx.tier == "quick" else 1)] + [b"a@b.com\n", "ж@почта.рф\n".encode(), b"a@b.com\n" * 50, b"bad\n\xff@x\n"]
        for idx, f in enumerate(pick):
            fn = os.path.join(ctx.scr.dir, "clik.txt")
            open(fn, "wb").write(f)
            p2 = vlib.run_timed([exk, fn], 120, env=envk)
            p1 = vlib.run_timed([exe, fn], 120, env=env)
            if p2.timed_out:
                ctx.S("the eav tool built for the idnkit back end does not terminate (killed after 120 s)", op="cli[idnkit] " + hx(f)[:800], variant="x:cli-idnkit")
                break
            ctx.evals += 1
            ctx.nontrivial.add("idnkit:" + hx(f[:200]))
            op = "cli[idnkit] " + hx(f)[:800]
            if p2.returncode != 0:
                ctx.S("the eav tool built for the idnkit back end does not terminate normally (exit %d)" % p2.returncode, op=op, variant="x:cli-idnkit", stderr=p2.stderr.decode(errors="replace")[-900:])
                break
            h1 = [ln[:6] + ln[6:] for ln in p1.stdout.split(b"\n") if ln[:6] in (b"PASS: ", b"FAIL: ")]
            h2 = [ln[:6] + ln[6:] for ln in p2.stdout.split(b"\n") if ln[:6] in (b"PASS: ", b"FAIL: ")]
            if [x[6:] for x in h1] != [x[6:] for x in h2]:
                ctx.S("the tool built for the idnkit back end does not print one verdict line per non-comment line with the same echo as the libidn2 build", op=op, variant="x:cli-idnkit",
                      idn2=repr(h1[:4]), idnkit=repr(h2[:4]))
            elif [x[:4] for x in h1] != [x[:4] for x in h2]:
                # the converters are one and the same library here (the stand-in forwards to libidn2), so PASS/FAIL must agree
                k = next(i for i, (a_, b_) in enumerate(zip(h1, h2)) if a_[:4] != b_[:4])
                ctx.S("the tool built for the idnkit back end prints another verdict than the library's decision", op=op, variant="x:cli-idnkit", idn2=repr(h1[k]), idnkit=repr(h2[k]))
RULES["C20"] = "distinct input files: 31 line shapes (empty, blanks, comments, trimming cases, invalid UTF-8, embedded CR, 2-8 KiB lines) x LF/CRLF x final newline x position, random files of 0-12 lines from the address corpora and random bytes; the real binary under ASan+UBSan+LSan"
VARIANTS_OF["C20"] = {"quick": ["default", "x:cli", "x:cli-idnkit"], "thorough": ["default", "x:cli", "x:cli-idnkit"]}
TRUSTED_EXTRA["C20"] = ["stdio, getline's reallocation and process exit are runtime behaviour observed on the real binary; the trimming and the rendering of a line are modelled (Eav/Cli.lean) and compared with the binary's output"]

PROPS = collections.OrderedDict()
PROPS["C01"] = c01
PROPS["C02"] = c02
PROPS["C03"] = c03
PROPS["C04"] = c04
PROPS["C05"] = c05
PROPS["C06"] = c06
PROPS["C07"] = c07
PROPS["C08"] = c08
PROPS["C09"] = c09
PROPS["C10"] = c10
PROPS["C11"] = c11
PROPS["C12"] = c12
PROPS["C13"] = c13
PROPS["C14"] = c14
PROPS["C15"] = c15
PROPS["C16"] = c16
PROPS["C17"] = c17
PROPS["C18"] = c18
PROPS["C19"] = c19
PROPS["C20"] = c20


def replay(ctx, path):
    ctx.replaying = True
    obj = json.load(open(path))
    w = obj.get("witness", {})
    op = w.get("op")
    if not op:
        print("replay names no input:", json.dumps(obj.get("no_longer_checks")))
        ctx.broken("replay", "no concrete input in replay file")
        return
    v = w.get("variant") or "default"
    ctx.prepare([v])
    c, l = ctx.run("replay", v, [op])
    print("op:", op)
    print("implementation:", c[0])
    print("model:         ", l[0])
    print("recorded:      ", {k: w[k] for k in w if k not in ("op",)})
    ctx.evals += 1
    # reproduced = the implementation answers today what it answered when the violation was recorded (or faults again)
    rec = w.get("impl") or w.get("option") or w.get("ulabel") or w.get("got")
    if (rec is not None and c[0] == rec) or "FAULT" in (c[0] or "") or (rec is None and c[0] != l[0]):
        ctx.S("replayed " + obj.get("what", ""), op=op, impl=c[0])
    else:
        print("not reproduced on this tree: the implementation now answers %r (recorded: %r)" % (c[0], rec))
