#!/usr/bin/env python3
"""writes /verif/MANIFEST.json from the table below (kept in one place so that notes stay current)"""
import json, os
V = os.path.dirname(os.path.dirname(os.path.abspath(__file__)))
COMMON = ("Trusted base: Lean 4.33 kernel with axioms propext/Classical.choice/Quot.sound only (audited by `#print axioms` on every run; no sorry, native_decide, "
          "bv_decide or own axioms - grepped on every run); tools/extract.py + harness/dump.c (generated Lean data equals the tree's tables, enums, case lists, "
          "eav_init/eav_setup behaviour, Makefile defaults, symbol tables); the hand-written model of the control flow is tied to the C code by the correspondence "
          "check only (harness/drive.c under ASan+UBSan vs the compiled Lean driver, on the generated inputs); contract: NUL-free input stored NUL-terminated, "
          "length == strlen, \"C\" locale, malloc does not fail; libidn2 2.3.3 is the recorded IDN oracle.")
P = {
 "C01": ("proof", "Proved for all byte strings (email_iff): accepted <=> L@D with the split at the LAST '@', 1 <= |L| <= 64, L valid for the mode, D valid for the mode; always_rejected, rc_nonpos_off, setup_selects_mode, eavIsEmail_spec; translator tie (error enum, EAV_RFC enum, eav_setup table, limits). K compares model and library on every observable; S compares the high-level call with the composition of the public per-part validators written from the property text, the API path after eav_setup(mode), and the always-rejected shapes.",
         "Lean 4 proof (induction; translator-tie theorems by kernel evaluation) + differential correspondence model/library + composition oracle", "7 C01"),
 "C02": ("proof", "Proved for all byte strings in three modes: C-shaped scanner <=> recogniser <=> declarative grammar word *(\".\" word) with quoted items, folding (822) and the RFC 5322 blank rule (specLocal_iff, is5321/822/5322Local_iff, local_iff_*, no_high_byte, no_leading_dot); specials case lists tied to the source. K: scanners vs model; S: library decision vs the grammar recogniser on every generated string, and through one eav_t switched across modes.",
         "Lean 4 proof (simulation scanner/recogniser, grammar equivalence) + differential correspondence + grammar recogniser as oracle", "7 C02"),
 "C03": ("proof", "Proved for all byte strings: decoder <=> strict UTF-8 as 'encoding of scalar values' (decodeNext_sound/complete, decAll_iff), 6531 scanner <=> (decode ; collapse non-ASCII ; 5321 grammar) (local6531_iff), invalid_utf8_rejected, ascii_agrees_5321, nonascii_between_dots. K/S incl. all 1-2-byte sequences, 3/4-byte covers, bytes at *end.",
         "Lean 4 proof (well-founded induction on the decoder, simulation) + differential correspondence + spec decoder/grammar as oracle", "7 C03"),
 "C04": ("proof", "Proved for all NUL-free strings, with and without LABELS_ALLOW_UNDERSCORE: is_ascii_domain accepts <=> HostOk (labels of letters/digits/inner hyphens, 1-63, total <= 253, optional root dot, not all-numeric) (domLoop_ok loop invariant, host_iff, host6531_sound). K incl. the byte at *end; S vs specHost for default and underscore builds, 6531 acceptances checked on the A-label libidn2 produced.",
         "Lean 4 proof (loop invariant) + differential correspondence + host-name spec as oracle", "7 C04"),
 "C05": ("proof", "Proved for all NUL-free strings: inside a literal is_ipv4 = exactly four decimal octets 0-255 with single dots and non-zero first octet (isIpv4_literal, loop invariant ipv4Loop_eq); is_ipv6 accepts only RFC 4291 textual addresses (isIpv6_upper) and accepts every RFC 5321 4.1.3 address (isIpv6_lower); check_ip accepts only '[' addr ']' with nothing after the bracket and no tag other than IPv6: (literal_upper), accepts the promised set (literal_lower), reports the family present (literal_family), identically in the four modes (literal_every_mode). The executable forms of the two grammars that the S stream evaluates are proved equal to the inductive grammars the theorems are stated against (v6_4291_iff, v6_5321_iff, literalUpper_iff, literalLower_iff, literal_sandwich). K: is_ipv4/is_ipv6/is_ipaddr and whole addresses vs model; S: accept => upper, lower => accept, flag = family.",
         "Lean 4 proof (loop invariants for the two Postfix scanners against inductive grammars) + differential correspondence + sandwich spec as oracle", "7 C05"),
 "C06": ("proof", "Proved at model level for every NUL-free input and every legal call sequence: no modelled function reads past the terminator, label copies stay inside label[64], no NULL callback is called, abort() is unreachable, no dead block is freed, every is_*_email returns a record (isAsciiDomain_ok ... isEmail_ok, step_isEmail_ok, copyLabel_take, errcode_lt_max, C13 ledger); termination is checked by Lean (structural / well-founded recursion, <= n steps). Partial: what the compiled C reads/writes is runtime - all correspondence streams run under ASan+UBSan+LSan with exact-size heap inputs and a 0xA5-poisoned heap eav_t, 64 KiB inputs, valgrind memcheck (thorough), callgrind instruction counts for doubling lengths (linear work).",
         "Lean 4 proof (no-fault theorems over the fault-aware model) + sanitizer-instrumented differential runs + callgrind linearity", "7 C06"),
 "C07": ("proof", "Proved for all labels: isTld = first row of the compiled table whose name equals the lower-cased label (whole label, never prefix/suffix: the length field is strlen+1 for all 1591 rows), = the class data/punycode.csv dictates (isTld_eq_csv); table regenerated from the tree every run. K/S: all rows x case variants, prefixes, extensions, substitutions, unlisted labels, four modes, single-label non-FQDN.",
         "Lean 4 proof (induction + kernel evaluation over the regenerated table) + differential correspondence", "7 C07"),
 "C08": ("proof", "Proved: accept <=> bit class+1 of the mask for any mask (policy_iff), own_bit_only, negative_rc_any_mask, mask_irrelevant_unless_class, abort_only_outside_classes, init_defaults (translator tie). The library is compared over the complete finite domain every run: all 2^11 masks x every result code -35..12 through a caller-installed callback, plus real addresses x masks x modes x tld on/off.",
         "Lean 4 proof + exhaustive enumeration of the finite policy domain against the library", "7 C08"),
 "C09": ("proof", "Proved for every domain with non-empty labels: is_special_domain <=> Spec.reserved (whole labels: test, example, invalid, localhost, onion as last label, example.{com,net,org} as last two) (special_iff, special_iff_host), copies stay inside label[64] (copyLabel_take); reserved[]/example[]/length filters tied by theorem to the source. K: is_special_domain vs model; S: every reserved suffix, one-edit neighbours, case patterns, 0-3 preceding labels of all lengths.",
         "Lean 4 proof (walker lemmas, table evaluation) + differential correspondence + reserved-domain spec as oracle", "7 C09"),
 "C10": ("proof", "Conditional theorems, the IDNA2008 conversion being an oracle (partial): the verdict depends on the domain only through the conversion (same_conversion_same_outcome); host-name and TLD tests are case-insensitive (isAsciiDomain_lower, checkTld_lower); under H_ascii mode 6531 and the ASCII modes give the same code and, when accepted, the same record (utf8_as_ascii, ascii_modes_agree); a refusal is the IDN error (refusal_is_idn_error). S: for every domain libidn2 converts on this run, U-label and A-label spellings get the same decision/class/flags, conversion errors reject; H_same/H_ascii validated per recorded conversion.",
         "Lean 4 proof with the IDN conversion as a parameter + differential correspondence with recorded conversions", "7 C10"),
 "C11": ("proof", "Proved by kernel evaluation on data regenerated every run: csv.map genRow = compiled table (1591 rows), names strictly sorted hence distinct, lower-case LDH, length = strlen+1, classes in 1..9, raw.csv/punycode.csv same rows, tld-domains.txt = name.name; with C07.isTld_eq_csv every row is found with its documented class and nothing else is found. Generators executed on the shipped CSVs and compared byte for byte (a test, Text::CSV stand-in).",
         "Lean 4 proof by kernel evaluation over regenerated tables + execution of the generator programs", "7 C11"),
 "C12": ("proof", "Proved: quote-free pure-ASCII local parts get the same code in all four modes (unquoted_same), 5321 included in 822 (incl_5321_822, isLocal_mono), the ASCII modes share the domain verdict/class/flags (hostPart_shared, domain_verdict_shared). K per mode; S: pairwise comparison of the four modes.",
         "Lean 4 proof + differential correspondence + cross-mode comparison", "7 C12"),
 "C13": ("proof", "State-machine model of eav_t with heap ledger (Eav/Api.lean). Proved by induction over call histories: ledger invariant for every reachable state (inv_init, inv_setup, inv_settings, run_inv), every outcome is a function of (confirmed mode, tld_check, allow_tld, address, IDN answer) (isEmail_outcome), errstr_latest, failed_setup_keeps_mode, free_releases, reinit_ok, lifecycle_releases. K: whole call histories model vs library; S: outcomes compared with a fresh object, LeakSanitizer at exit.",
         "Lean 4 proof (invariant by induction over operations) + differential correspondence on call histories", "7 C13"),
 "C14": ("proof", "partial: proved - no object with static storage in a writable section (objdump of the tree's objects, regenerated every run), external symbols within a reentrant whitelist, and sched_indep: in the model every interleaving gives each thread the observations of its own sequential run. Runtime half: ThreadSanitizer build, 2-16 threads, outcomes compared with the sequential run.",
         "Lean 4 proof (schedule independence over a model whose shared state is read from the object files) + ThreadSanitizer", "7 C14"),
 "C15": ("proof", "Proved: verdict_shape, code_origin, lpart_code_sound (a local-part code only for a local part invalid for the mode), too_many_dots_sound, domain_code_sound, rc_lower, errcode_lt_max; errors[] tags/order/non-emptiness/distinctness and the eav_setup table are theorems over regenerated data. S: every produced (code, message) checked against the code's predicate on the input (35 codes), ret=1 iff no error, IDN message for IDN code, invalid-RFC path.",
         "Lean 4 proof (per-code soundness; errors table by kernel evaluation) + differential correspondence + per-code predicates", "7 C15"),
 "C16": ("proof", "Proved: rc_shape, flags (at most one, matches the form of the domain, none when invalid), extra_strings, checkIp_flags, no_abort; with C05 literal_family the IP flag is the family of the address present. K on every result field incl. EAV_EXTRA strings over two builds.",
         "Lean 4 proof + differential correspondence over two builds", "7 C16"),
 "C17": ("proof", "Proved: each option leaves every other decision unchanged (ascii_locals_ignore_options, locals_ignore_underscore, domain_ignores_local_options), underscore_iff / underscore_monotone, rfc5322_ascii, utf8_necessary_all_builds, rfc20_no_effect, rfc20_exact (with the option a local part is accepted in mode 6531 iff it is accepted without it and none of the seven characters occurs outside quotes), defaults_off; Makefile defaults and the ON->-D mapping and the per-option case lists are theorems over regenerated data. Every option build (4 quick / all 8 thorough) is built with the repository Makefile and compared with the default build and with the model carrying the same options.",
         "Lean 4 proof (option orthogonality, build-option tie) + differential correspondence over all option builds", "7 C17"),
 "C18": ("proof", "Proved: the back end is unobservable (setupAscii_agree, setup6531_agree, eavSetup_agree, backends_agree by simulation), with C13's ledger for idnkit's resconf. The three partial/<backend> source sets are compiled against shim headers onto one converter; S: identical outcomes on addresses and call histories, idnkit context create/destroy counters balanced.",
         "Lean 4 proof (simulation across the Backend parameter) + differential correspondence across three back-end builds", "7 C18"),
 "C19": ("proof", "Proved for any error code, with or without output buffer: idn_failure_rejected, idn_failure_verdict, idn_failure_contained (next call unaffected). The model takes the conversion result as a parameter of each call; K/S: every libidn2 error code x with/without output buffer x position, random multi-fault histories, LSan.",
         "Lean 4 proof with per-call IDN oracle + fault injection via --wrap + differential correspondence", "7 C19"),
 "C20": ("proof", "Proved: the getline records partition the file (getlines_flatten, getlinesAux_records) so there is at most one verdict per line in input order (verdicts_le_lines); well-formed UTF-8 without control characters is echoed unchanged and rendering is total on arbitrary bytes (sanitize_clean, echo_unchanged); a plain line is handed to the validator as written for LF/CRLF/no final newline (trim_plain). Partial: stdio/getline/process exit are runtime - trimming and rendering (Eav/Cli.lean) are compared with the real binary (ASan+UBSan+LSan) on line shapes x terminators x final newline and random files; verdicts compared with the library.",
         "Lean 4 proof over the model of the tool + differential correspondence against the real binary", "7 C20"),
}
checks = []
for pid in sorted(P):
    lvl, text, tech, ref = P[pid]
    checks.append({
        "property_id": pid,
        "quick_cmd": "./check %s --tier quick" % pid,
        "thorough_cmd": "./check %s --tier thorough" % pid,
        "evidence_file": "evidence/%s.json" % pid,
        "replay_cmd_template": "./check %s --replay {path}" % pid,
        "engine": "lean4+correspondence",
        "level_claimed": {"category": lvl, "text": text, "design_ref": "DESIGN.md section " + ref},
        "level_note": COMMON,
        "technique": tech,
    })
m = {
 "version": 1,
 "setup_cmd": "cd lean && lake build eavdrv Eav",
 "hooks": {"guard": "LIBEAV_VERIF", "enable": "no hooks are needed: the harness links the unmodified library, IDN calls are intercepted at link time (--wrap)",
           "baseline_off_cmd": "python3 tools/baseline.py", "source_commits": [], "add_only": True},
 "engines": [{"name": "lean4+correspondence", "path": "lean/ tools/ harness/", "serves_properties": sorted(P),
              "kind_free_text": "Lean 4 model + theorems; translator regenerating Lean data from the tree; differential correspondence C harness vs compiled Lean driver"}],
 "checks": checks,
 "notes": "Every check rebuilds the library from /repo's working tree in a scratch directory, regenerates lean/Eav/Gen/*.lean from the tree, rebuilds the Lean library, audits axioms, and runs the correspondence streams. known_findings.json lists repaired defects (fix: commits in /repo).",
 "not_applicable": [],
}
json.dump(m, open(os.path.join(V, "MANIFEST.json"), "w"), indent=1)
print("MANIFEST.json written:", len(checks), "checks")
