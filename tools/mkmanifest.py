#!/usr/bin/env python3
"""writes /verif/MANIFEST.json from the table below (kept in one place so that notes stay current)"""
import json, os
V = os.path.dirname(os.path.dirname(os.path.abspath(__file__)))
COMMON = ("Trusted base: Lean 4.33 kernel with axioms propext/Classical.choice/Quot.sound only (audited by `#print axioms` on every run; no sorry, native_decide, "
          "bv_decide or own axioms - grepped on every run); tools/extract.py + harness/dump.c (generated Lean data equals the tree's tables, enums, case lists, "
          "eav_init/eav_setup behaviour, Makefile defaults, symbol tables); the hand-written model of the control flow is tied to the C code by the correspondence "
          "check only (harness/drive.c under ASan+UBSan vs the compiled Lean driver, on the generated inputs); contract: NUL-free input stored NUL-terminated, "
          "length == strlen, \"C\" locale, malloc does not fail; libidn2 2.3.3 is the recorded IDN oracle.")
P = {
 "C01": ("proof", "Theorems: translator tie (error enum, EAV_RFC enum, eav_setup table, limits). Model isEmail mirrors basic_email_check/check_tld/check_ip; K compares model and library on every observable; S compares the high-level call with the composition of the public per-part validators written from the property text, the API path after eav_setup(mode), and the four always-rejected shapes. The unbounded composition theorem (email_iff) is not finished: partial.",
         "Lean 4 proof (translator-tie theorems by kernel evaluation) + differential correspondence model/library + composition oracle", "7 C01"),
 "C02": ("proof", "Declarative grammar word *(\".\" word) (Spec/Local.lean) with an executable recogniser; K: scanners vs model in three modes; S: library decision vs the grammar recogniser on every generated string. Theorems so far: translator tie (specials case lists, codes). scanner = recogniser = grammar for all strings: in progress (partial).",
         "Lean 4 proof + differential correspondence + grammar recogniser as oracle", "7 C02"),
 "C03": ("proof", "Strict UTF-8 specified as 'encoding of scalar values' (Spec/Utf8.lean), decoder model + 6531 scanner model; S: library vs (spec decoder ; collapse ; 5321 grammar with non-ASCII symbols), pure-ASCII agreement with mode 5321, a.X.b for non-ASCII X. Unbounded theorems in progress (partial).",
         "Lean 4 proof + differential correspondence + spec decoder/grammar as oracle", "7 C03"),
 "C04": ("proof", "HostOk (labels, 63/253, root dot, not all-numeric) with executable form; K: is_ascii_domain vs model incl. the byte at *end; S: library vs specHost for default and underscore builds, and mode 6531 acceptances checked on the A-label libidn2 produced. host_iff theorem: in progress (partial).",
         "Lean 4 proof + differential correspondence + host-name spec as oracle", "7 C04"),
 "C05": ("proof", "Sandwich specification: upper bound (RFC 4291 / four octets, optional IPv6: tag, nothing after the bracket), lower bound (RFC 5321 4.1.3 productions, 1-3 digit octets, non-zero first octet), family; K: is_ipv4/is_ipv6/is_ipaddr and whole addresses vs model; S: accept => upper, lower => accept, flag = family, four modes. Unbounded theorems in progress (partial).",
         "Lean 4 proof + differential correspondence + sandwich spec as oracle", "7 C05"),
 "C06": ("proof", "partial: model-level facts (every eav_t field written by eav_init, label copies bounded by the generated LABEL_SIZE and length filters, loops are structural recursions hence terminate in <= n steps) are theorems; what the compiled C reads/writes is runtime: all correspondence streams run under ASan+UBSan+LSan with exact-size heap inputs and a 0xA5-poisoned heap eav_t, 64 KiB inputs, valgrind memcheck (thorough), callgrind instruction counts for doubling lengths (linear work).",
         "Lean 4 proof (init/limits tie) + sanitizer-instrumented differential runs + callgrind linearity", "7 C06"),
 "C07": ("proof", "Proved for all labels: isTld = first row of the compiled table whose name equals the lower-cased label (whole label, never prefix/suffix: the length field is strlen+1 for all 1591 rows), = the class data/punycode.csv dictates (isTld_eq_csv); table regenerated from the tree every run. K/S: all rows x case variants, prefixes, extensions, substitutions, unlisted labels, four modes, single-label non-FQDN.",
         "Lean 4 proof (induction + kernel evaluation over the regenerated table) + differential correspondence", "7 C07"),
 "C08": ("proof", "Policy arms modelled (policyArm) and compared with the library over the complete finite domain every run: all 2^11 masks x every result code -35..12 through a caller-installed callback, plus real addresses x masks x modes x tld on/off; eav_init defaults by translator-tie theorem init_values. Kernel-level policy_iff theorem in progress.",
         "Lean 4 proof (translator tie) + exhaustive enumeration of the finite policy domain against the library", "7 C08"),
 "C09": ("proof", "Reserved (RFC 2606/6761/7686) specified on whole labels; reserved[]/example[]/length filters tied by theorem to the source; K: is_special_domain vs model; S: library vs spec on every reserved suffix, one-edit neighbours, case patterns, 0-3 preceding labels of all lengths. special_iff theorem in progress (partial).",
         "Lean 4 proof (translator tie) + differential correspondence + reserved-domain spec as oracle", "7 C09"),
 "C10": ("proof", "partial: the IDNA2008 half is an oracle. The libeav half is the model with the conversion as a parameter; S: for every domain libidn2 converts on this run, the U-label and A-label spellings get the same decision/class/flags in mode 6531 and the ASCII modes agree on the A-label; conversion errors reject; all-ASCII domains: 6531 accepts only what ASCII modes accept. Hypotheses H_same/H_ascii validated per recorded conversion.",
         "Lean 4 model with IDN oracle parameter + differential correspondence; conditional theorems in progress", "7 C10"),
 "C11": ("proof", "Proved by kernel evaluation on data regenerated every run: csv.map genRow = compiled table (1591 rows), names strictly sorted hence distinct, lower-case LDH, length = strlen+1, classes in 1..9, raw.csv/punycode.csv same rows, tld-domains.txt = name.name; with C07.isTld_eq_csv every row is found with its documented class and nothing else is found. Generators executed on the shipped CSVs and compared byte for byte (a test, Text::CSV stand-in).",
         "Lean 4 proof by kernel evaluation over regenerated tables + execution of the generator programs", "7 C11"),
 "C12": ("proof", "K per mode; S: pairwise comparison of the four modes on quote-free pure-ASCII addresses (decision and code, IDN error excepted), inclusion 5321 in 822, shared domain verdict/class/flags of the ASCII modes. Theorems (unquoted_same, incl_5321_822) in progress (partial).",
         "Lean 4 proof (translator tie) + differential correspondence + cross-mode comparison", "7 C12"),
 "C13": ("proof", "State-machine model of eav_t with heap ledger (Eav/Api.lean); K: whole call histories model vs library; S: every eav_is_email outcome compared with a fresh object given (confirmed mode, tld_check, allow_tld, address), errstr describes the latest call, LeakSanitizer at exit. History-induction theorems in progress (partial).",
         "Lean 4 proof (translator tie for init/setup) + differential correspondence on call histories", "7 C13"),
 "C14": ("proof", "partial: proved - no object with static storage in a writable section (objdump of the tree's objects, regenerated every run), external symbols within a reentrant whitelist, and sched_indep: in the model every interleaving gives each thread the observations of its own sequential run. Runtime half: ThreadSanitizer build, 2-16 threads, outcomes compared with the sequential run.",
         "Lean 4 proof (schedule independence over a model whose shared state is read from the object files) + ThreadSanitizer", "7 C14"),
 "C15": ("proof", "errors[] tags/order/non-emptiness/distinctness and eav_setup table are theorems over regenerated data; S: every produced (code, message) checked against the code's predicate on the input (35 codes), ret=1 iff no error, IDN message for IDN code, invalid-RFC path. Per-code soundness theorems in progress (partial).",
         "Lean 4 proof (errors table, setup table) + differential correspondence + per-code predicates", "7 C15"),
 "C16": ("proof", "K on every result field incl. EAV_EXTRA strings; S: at most one flag, flag matches the form of the domain, none when syntactically invalid, rc shape, lpart/domain byte for byte. Record lemmas in progress (partial).",
         "Lean 4 proof (translator tie) + differential correspondence over two builds", "7 C16"),
 "C17": ("proof", "Makefile defaults OFF and the ON->-D mapping, and the per-option case lists, are theorems over regenerated data; every option build (4 quick / all 8 thorough) is built with the repository Makefile and compared with the default build and with the model carrying the same options. rfc20_iff / underscore_iff theorems in progress (partial).",
         "Lean 4 proof (build-option tie) + differential correspondence over all option builds", "7 C17"),
 "C18": ("proof", "The three partial/<backend> source sets are compiled against shim headers onto one converter; S: identical outcomes on addresses and call histories, idnkit context create/destroy counters balanced; model ledger for resconf compared. backends_agree theorem in progress (partial).",
         "Lean 4 model with Backend parameter + differential correspondence across three back-end builds", "7 C18"),
 "C19": ("proof", "Model takes the conversion result as a parameter of each call; K/S: every libidn2 error code x with/without output buffer x position, random multi-fault histories; rejected with IDN code and that library's message, no flag, next call unaffected, LSan. Containment theorems in progress (partial).",
         "Lean 4 model with per-call IDN oracle + fault injection via --wrap + differential correspondence", "7 C19"),
 "C20": ("proof", "partial: trimming and rendering modelled (Eav/Cli.lean) and compared with the real binary (ASan+UBSan+LSan) on line shapes x terminators x final newline and random files; verdicts compared with the library. stdio/getline/process exit are runtime.",
         "Lean 4 model of the tool + differential correspondence against the real binary", "7 C20"),
}
checks = []
for pid in sorted(P):
    lvl, text, tech, ref = P[pid]
    checks.append({
        "property_id": pid,
        "quick_cmd": "./check %s --tier quick" % pid,
        "thorough_cmd": "./check %s --tier thorough" % pid,
        "evidence_file": "evidence/%s.json" % pid,
        "replay_cmd_template": "./check %s --replay {path}" % pid,
        "engine": "lean4+correspondence",
        "level_claimed": {"category": lvl, "text": text, "design_ref": "DESIGN.md section " + ref},
        "level_note": COMMON,
        "technique": tech,
    })
m = {
 "version": 1,
 "setup_cmd": "cd lean && lake build eavdrv Eav",
 "hooks": {"guard": "LIBEAV_VERIF", "enable": "no hooks are needed: the harness links the unmodified library, IDN calls are intercepted at link time (--wrap)",
           "baseline_off_cmd": "python3 tools/baseline.py", "source_commits": [], "add_only": True},
 "engines": [{"name": "lean4+correspondence", "path": "lean/ tools/ harness/", "serves_properties": sorted(P),
              "kind_free_text": "Lean 4 model + theorems; translator regenerating Lean data from the tree; differential correspondence C harness vs compiled Lean driver"}],
 "checks": checks,
 "notes": "Every check rebuilds the library from /repo's working tree in a scratch directory, regenerates lean/Eav/Gen/*.lean from the tree, rebuilds the Lean library, audits axioms, and runs the correspondence streams. known_findings.json lists repaired defects (fix: commits in /repo).",
 "not_applicable": [],
}
json.dump(m, open(os.path.join(V, "MANIFEST.json"), "w"), indent=1)
print("MANIFEST.json written:", len(checks), "checks")
