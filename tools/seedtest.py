#!/usr/bin/env python3
"""seedtest.py <worktree> <seed-dir> [--checks C04,C13] : confirm a seeded change in its scratch worktree
(applies, builds, suite passes, demo fails with / passes without), then run checks against /repo with the
patch applied and undo it.  Prints a JSON summary."""
import json, os, subprocess, sys, re, shutil, time
wt, sd = sys.argv[1], sys.argv[2]
checks = []
if "--checks" in sys.argv:
    checks = sys.argv[sys.argv.index("--checks") + 1].split(",")
patch = os.path.join(sd, "patch.diff")
res = {"seed": sd}
def sh(cmd, cwd=None, timeout=1800):
    p = subprocess.run(cmd, shell=True, cwd=cwd, stdout=subprocess.PIPE, stderr=subprocess.STDOUT, timeout=timeout)
    return p.returncode, p.stdout.decode(errors="replace")
def build_and_demo(tag):
    sh("make clean", wt)
    rc, out = sh("make -j8", wt)
    res[tag + "_build"] = rc
    demo_c = os.path.join(sd, "demo.c")
    if os.path.exists(os.path.join(sd, "demo.sh")):
        rc, out = sh("sh %s" % os.path.join(sd, "demo.sh"), wt)
    elif os.path.exists(demo_c):
        rc, out = sh("cc -Wall -Iinclude -I. -D_DEFAULT_SOURCE -o %s/_demo_bin %s libeav.a -lidn2 && %s/_demo_bin" % (sd, demo_c, sd), wt)
    else:
        rc, out = -1, "no demo"
    res[tag + "_demo_rc"] = rc
    res[tag + "_demo_out"] = out[-300:]
sh("git checkout -- . && git clean -fdq -e _seed", wt)
rc, out = sh("git apply --check %s" % patch, wt)
res["applies"] = rc == 0
if rc == 0:
    sh("git apply %s" % patch, wt)
    build_and_demo("with")
    rc, out = sh("make -k -j8 check VERBOSE=1", wt)
    fails = re.findall(r"^\./t-[\w.-]+\.bin: FAIL", out, flags=re.M)
    res["suite_rc"], res["suite_fail_bins"] = rc, fails
    sh("git checkout -- . && git clean -fdq -e _seed", wt)
    build_and_demo("without")
    sh("make clean", wt)
    res["confirmed"] = (res["with_build"] == 0 and res["suite_rc"] == 0 and not fails and res["with_demo_rc"] != 0 and res["without_demo_rc"] == 0)
if checks and res.get("confirmed"):
    rc, out = sh("git -C /repo status --short")
    assert out.strip() == "", "/repo not clean"
    rc, out = sh("git -C /repo apply %s" % patch)
    res["check_results"] = {}
    try:
        for c in checks:
            t = time.time()
            rc, out = sh("./check %s --tier quick" % c, "/verif")
            v = [l for l in out.splitlines() if l.startswith("VIOLATION") or l.startswith("KNOWN")]
            res["check_results"][c] = dict(rc=rc, lines=v[:4], secs=round(time.time() - t))
    finally:
        sh("git -C /repo checkout -- .")
print(json.dumps(res, indent=1, ensure_ascii=False))
