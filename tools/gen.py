"""Input generators for the correspondence check (K) and the spec-vs-implementation search (S).
Every random choice derives from one `random.Random(seed)`; exhaustive families do not depend on it.
Each generator returns a list of byte strings (or op lines); `stats` collects the distribution."""
import itertools, random

AT = b"@x\0"      # what follows a local part inside an address
NUL = b"\0"


def hx(b):
    return b.hex() if len(b) else "-"


def words(alphabet, maxlen, minlen=0):
    for n in range(minlen, maxlen + 1):
        for t in itertools.product(alphabet, repeat=n):
            yield b"".join(t)


# --------------------------------------------------------------------------- local parts

L_ALPHA = [b"a", b"1", b".", b'"', b"\\", b" ", b"\t", b"\r", b"\n", b"\x01", b"\x7f", b"(", b"#", b"\x80"]
L_ALPHA_6531 = L_ALPHA + [b"\xc3\xa9", b"\xff", b"\xe2\x84\x96"]
L_SMALL = [b"a", b".", b'"', b"\\", b" ", b"\r", b"\n", b"\xc3\xa9"]


def local_strings(tier, rng, utf8=False):
    out = []
    alpha = L_ALPHA_6531 if utf8 else L_ALPHA
    out += list(words(alpha, 4 if tier == "quick" else 5, 0))
    # deeper over the structure characters only
    out += list(words(L_SMALL if utf8 else L_SMALL[:-1], 6 if tier == "quick" else 7, 5))
    # every byte value in every scanner context
    pres = [b"", b"a", b"a.", b'"', b'"a', b'"\\', b'"a"', b'"a".', b'" ', b'"\r\n', b'"\r', b'"a\\a', b"a.b"]
    sufs = [b"", b"a", b".a", b'"', b'a"', b'"a', b' "', b'".a', b'\\"', b'a".b']
    if utf8:
        pres += [b"\xc3\xa9", b"\xc3\xa9.", b'"\xc3\xa9', b'"\xc3\xa9 ', b"\xe2\x84\x96"]
        sufs += [b"\xc3\xa9", b'\xc3\xa9"', b".\xc3\xa9"]
    for p in pres:
        for s in sufs:
            for b in range(1, 256):
                out.append(p + bytes([b]) + s)
    # every byte pair in a few contexts
    for p, s in [(b"", b""), (b'"', b'"'), (b"a", b"a"), (b'"a', b'a"')] if tier == "quick" else \
            [(b"", b""), (b'"', b'"'), (b"a", b"a"), (b'"a', b'a"'), (b'"\\', b'"'), (b"a.", b".a"), (b'" ', b' "')]:
        for b1 in range(1, 256, 1 if tier != "quick" else 3):
            for b2 in range(1, 256, 1 if tier != "quick" else 3):
                out.append(p + bytes([b1, b2]) + s)
    # folding (822) and blank rules (5322) around every position of a quoted string
    ws = [b" ", b"\t", b"\r", b"\n", b"\r\n", b"\r\n ", b"\r\n\t", b"\r\n\r\n ", b"\n\r"]
    for a in ws:
        for b in ws + [b""]:
            for body in [b"x", b"", b"x" + a + b"y", b"\\" + a[:1]]:
                out.append(b'"' + a + body + b + b'"')
                out.append(b'"' + body + a + b + b'"')
                out.append(b'"' + body + a + b)
                out.append(b"w." + b'"' + a + body + b + b'".z')
    # grammar-directed, mostly valid, long
    n = 2000 if tier == "quick" else 20000
    for _ in range(n):
        out.append(random_local(rng, utf8))
    return out


ATEXT = b"abcxyzABC0189!#$%&'*+-/=?^_`{|}~"
NONASCII = ["é", "Ж", "№", "ファ", "😀", "ü", "中"]


def random_local(rng, utf8, maxwords=6):
    ws = []
    for _ in range(rng.randint(1, maxwords)):
        if rng.random() < 0.6:
            w = bytes(rng.choice(ATEXT) for _ in range(rng.randint(1, 12)))
            if utf8 and rng.random() < 0.4:
                k = rng.randint(0, len(w))
                w = w[:k] + rng.choice(NONASCII).encode() + w[k:]
        else:
            items = []
            for _ in range(rng.randint(0, 8)):
                r = rng.random()
                if r < 0.5:
                    items.append(bytes([rng.choice(b"abc xyz!@.,;:<>[]()")]))
                elif r < 0.65:
                    items.append(b"\\" + bytes([rng.choice(b'"\\ aZ~')]))
                elif r < 0.75:
                    items.append(rng.choice([b" ", b"\t", b"\r\n ", b"\r\n\t", b"  "]))
                elif r < 0.8:
                    items.append(bytes([rng.choice(b"\x01\x08\x0b\x1f\x7f")]))
                elif utf8 and r < 0.95:
                    items.append(rng.choice(NONASCII).encode())
                else:
                    items.append(b"q")
            w = b'"' + b"".join(items) + b'"'
        ws.append(w)
    s = b".".join(ws)
    # 0-2 mutations
    for _ in range(rng.choice([0, 0, 0, 1, 1, 2])):
        if not s:
            break
        k = rng.randrange(len(s))
        r = rng.random()
        if r < 0.3:
            s = s[:k] + s[k + 1:]
        elif r < 0.6:
            s = s[:k] + bytes([rng.choice(b'".\\ @\x80\xff\xc3\r\n')]) + s[k:]
        else:
            s = s[:k] + bytes([rng.randint(1, 255)]) + s[k + 1:]
    return s


def utf8_sequences(tier, rng):
    """candidates for the strict decoder: all 1-2 byte sequences, all 3-byte sequences (thorough) or a
    structured sample (quick), a structured cover of 4-byte sequences"""
    out = []
    for a in range(0x80, 0x100):
        out.append(bytes([a]))
        for b in range(0x00, 0x100):
            if b == 0:
                continue
            out.append(bytes([a, b]))
    edge = [0x01, 0x7f, 0x80, 0x81, 0x8f, 0x90, 0x9f, 0xa0, 0xbf, 0xc0, 0xff]
    if tier == "quick":
        for a in range(0xe0, 0xf0):
            for b in edge:
                for c in edge:
                    out.append(bytes([a, b, c]))
        for a in [0xe0, 0xed, 0xef]:
            for b in range(0x80, 0xc0):
                out.append(bytes([a, b, 0x80]))
                out.append(bytes([a, b, 0xbf]))
    else:
        for a in range(0xe0, 0xf0):
            for b in range(0x70, 0xd0):
                for c in range(0x70, 0xd0):
                    out.append(bytes([a, b, c]))
    for a in range(0xf0, 0x100):
        for b in edge:
            for c in [0x7f, 0x80, 0xbf, 0xc0]:
                for d in [0x7f, 0x80, 0xbf, 0xc0]:
                    out.append(bytes([a, b, c, d]))
    for a in [0xf0, 0xf4]:
        for b in range(0x80, 0xc0):
            out.append(bytes([a, b, 0x80, 0x80]))
            out.append(bytes([a, b, 0xbf, 0xbf]))
    # every plane with the low sixteen bits at the seams of the BMP (a surrogate test must look at the whole value), and the characters that
    # look like, or are mapped to, a full stop elsewhere: in a local part they are ordinary characters
    for plane in range(1, 17):
        for low in (0x0000, 0x0001, 0x07ff, 0x0800, 0xd7ff, 0xd800, 0xdbff, 0xdc00, 0xdfff, 0xe000, 0xfffd, 0xfffe, 0xffff):
            out.append(chr((plane << 16) | low).encode("utf-8", "surrogatepass"))
    for cp in (0x3002, 0xff0e, 0xff61, 0x2024, 0xfe52, 0x00b7, 0x0701, 0x06d4, 0x2e2c, 0xff20, 0xfe6b, 0x201c, 0xff02, 0xff3c, 0xfeff, 0x200b, 0x00a0, 0x3000):
        out.append(chr(cp).encode())
    return out


def utf8_in_context(seqs):
    """each candidate in atom, quoted and escaped position"""
    out = []
    for q in seqs:
        out.append(q)
        out.append(b"a" + q + b"b")
        out.append(b'"' + q + b'"')
        out.append(b'"\\' + q + b'"')
        out.append(b"a." + q + b".b")
        # at the very start (followed by a dot / an opening quote) and at the very end
        out.append(q + b".a")
        out.append(q + b'"a"')
        out.append(b"a." + q)
        out.append(b'"a"' + q)
    return out


# --------------------------------------------------------------------------- host names

D_ALPHA = [b"a", b"1", b"-", b".", b"_", b"!"]


def domain_strings(tier, rng):
    out = list(words(D_ALPHA, 7 if tier == "quick" else 8, 0))
    lab = lambda n: b"a" * n
    for n in range(0, 71):
        for fmt in (b"%s", b"%s.com", b"x.%s.com", b"x.%s", b"%s.", b"x.%s.", b"-%s", b"%s-"):
            out.append(fmt % lab(n))
        # hyphens and digits inside long labels: the length test is made on alphanumerics only
        if n >= 2:
            out.append(b"a" + b"-" * (n - 2) + b"a" + b".com")
            out.append(b"a" * (n - 1) + b"-b.com")
            out.append(b"1" * n + b".com")
    # as many labels as a name can have: 127 one-octet labels are 253 octets; 126, 127, 128 labels, with and without root dot, digits too
    for nl in (63, 64, 65, 125, 126, 127, 128, 129):
        for lab in (b"x", b"7", b"a-b"[:1]):
            name = b".".join([lab] * nl)
            out += [name, name + b".", b"ab." + b".".join([lab] * (nl - 1)), name[:-1] + b"com"]
    out += [b".".join([b"xy"] * 84) + b".a", b".".join([b"xy"] * 85), b".".join([b"x", b"yz"] * 50) + b".abc"]
    for total in range(236, 264):
        for root in (b"", b".", b".."):
            # labels of 50 + a last label that brings the total to `total`
            s = b""
            while len(s) + 51 < total:
                s += b"b" * 50 + b"."
            rest = total - len(s)
            if rest <= 0:
                continue
            s += b"c" * min(rest, 63)
            if len(s) < total:
                s += b"." + b"d" * (total - len(s) - 1)
            out.append(s[:total] + root)
            out.append((b"9" * 60 + b".") * 4 + b"9" * max(0, total - 244) + root)
    for ctx_pre, ctx_suf in [(b"", b""), (b"a", b"a"), (b"a.", b".a"), (b"a-", b"-a"), (b"", b".com"), (b"x.", b"")]:
        for b in range(1, 256):
            out.append(ctx_pre + bytes([b]) + ctx_suf)
    for _ in range(1000 if tier == "quick" else 20000):
        labs = []
        for _ in range(rng.randint(1, 5)):
            n = rng.choice([1, 2, 3, 5, 10, 62, 63, 64])
            labs.append(bytes(rng.choice(b"abcXYZ0123456789--_") for _ in range(n)))
        out.append(b".".join(labs) + rng.choice([b"", b"", b".", b".."]))
    return out


# --------------------------------------------------------------------------- address literals

def octets():
    vals = list(range(0, 301)) + [1000, 2559, 2560, 99999]
    # values that wrap to something <= 255 in 32- or 64-bit arithmetic, and very long digit strings
    vals += [2**31 - 1, 2**31, 2**31 + 5, 3000000000, 2**32 - 1, 2**32, 2**32 + 1, 2**32 + 255, 2**32 + 256, 10**10, 2**63, 2**64, 2**64 + 1, 2**64 + 200, 10**30]
    strs = [str(v).encode() for v in vals] + [b"00", b"01", b"001", b"0001", b"000", b"0255", b"0256", b"", b"0" * 18 + b"1", b"0" * 40 + b"255", b"0" * 40 + b"256"]
    return strs


def ipv4_strings(tier, rng):
    out = []
    for o in octets():
        for pos in range(4):
            q = [b"1", b"2", b"3", b"4"]
            q[pos] = o
            out.append(b".".join(q))
    out += list(words([b"1", b"0", b".", b"a", b":"], 7 if tier == "quick" else 8, 0))
    for n in (8, 9, 16, 255, 256, 257, 259, 260, 261, 512, 516):          # octet counts that wrap an 8-bit counter back to four
        out.append(b".".join([b"1", b"2"] * (n // 2) + [b"1"] * (n % 2)))
    for n in range(0, 7):
        out.append(b".".join([b"1"] * n))
        out.append(b".".join([b"1"] * n) + b".")
        out.append(b"." + b".".join([b"1"] * n))
    return out


def ipv6_shapes(tier, rng):
    out = []
    g = lambda w, i: (b"%x" % (0xabc0 + i))[:w] if w else b""
    widths = [1, 4] if tier == "quick" else [1, 2, 3, 4]
    tails = [b"", b"1.2.3.4", b"0.1.2.3", b"255.255.255.255", b"256.1.1.1", b"1.2.3", b"1.2.3.4."]
    for left in range(0, 9):
        for right in range(0, 9):
            if left + right > 10:
                continue
            for w in widths:
                L = b":".join(g(w, i) for i in range(left))
                R = b":".join(g(w, i) for i in range(right))
                for tail in tails:
                    Rt = (R + b":" + tail) if (R and tail) else (tail if tail else R)
                    out.append(L + b"::" + Rt)
                    if left and (right or tail):
                        out.append(L + b":" + Rt)          # no "::"
                    # an empty FIRST group (one leading colon that is not half of a "::"), with and without "::" further right, and an empty last one
                    if left and w == widths[0]:
                        out.append(b":" + L + b"::" + Rt)
                        if right or tail:
                            out.append(b":" + L + b":" + Rt)
                        if not tail:
                            out.append(L + b"::" + Rt + b":")
    # group widths 0-5 in each position of a full address
    for pos in range(8):
        for w in range(0, 6):
            gs = [b"1"] * 8
            gs[pos] = b"f" * w
            out.append(b":".join(gs))
    # exhaustive over a small alphabet
    out += list(words([b"1", b"a", b"g", b":", b"."], 6 if tier == "quick" else 7, 0))
    out += [b":", b"::", b":::", b"::::", b"1::", b"::1", b":1", b"1:", b"1::2::3", b"12345::", b"::12345", b"::g", b"1:2:3:4:5:6:7:8:9",
            b"::ffff:1.2.3.4", b"1:2:3:4:5:6:1.2.3.4", b"1:2:3:4:5:1.2.3.4", b"1:2:3:4:5:6:7:1.2.3.4", b"::1.2.3.4", b"1.2.3.4::", b"::1.2.3.4:5"]
    return out


def literal_domains(tier, rng):
    """whole bracketed domain parts, including malformed brackets, tags and trailers"""
    out = []
    addrs4 = [b"1.2.3.4", b"0.1.2.3", b"0.0.0.0", b"255.255.255.255", b"256.1.1.1", b"1.2.3", b"1.2.3.4.", b"1.2.3.4.5", b"01.002.3.4", b"0001.2.3.4", b"1..2.3", b""]
    addrs6 = [b"1:2:3:4:5:6:7:8", b"::1", b"::", b"1::", b"1:2", b"1:2:3:4:5:6:7:", b"::ffff:1.2.3.4", b"1:2:3:4:5:6:1.2.3.4", b"1:2:1.2.3.4",
              b"2001:db8::1:1:1:1:1", b"1:2:3:4:5:6:7::", b"::2:3:4:5:6:7:8", b"1::3:4:5:6:7:8", b"abcd:ef01:2345:6789:abcd:ef01:2345:6789",
              b"1:2:3:4:5:6:7:8:9", b"12345::", b"g::", b":::", b"1:::2", b"1::2::3", b"::0.1.2.3", b"1:2:3:4:5:6:7:1.2.3.4",
              b"::ffff:10.10.10.4294967297", b"::10.10.10.3000000000", b"1:2:3:4:5:6:10.4294967306.1.1", b"::ffff:10.10.10.18446744073709551617"]
    tags = [b"", b"IPv6:", b"ipv6:", b"IPV6:", b"IPv4:", b"IPv6", b"x:", b"foo:", b"IPv6::", b"IPv6: ", b":",
            # a tag is written once: repeated and nested tags in every letter case
            b"IPv6:IPv6:", b"ipv6:IPV6:", b"IPv6:ipv6:", b"IPv6:IPv4:", b"IPv4:IPv6:", b"IPv6:IPv6:IPv6:"]
    trailers = [b"", b"x", b"]", b" ", b":", b".com", b"]x"]
    for tag in tags:
        for a in addrs4 + addrs6:
            for tr in trailers:
                out.append(b"[" + tag + a + b"]" + tr)
            out.append(b"[" + tag + a)
            out.append(b"[" + tag + a + b" ]")
            out.append(b"[ " + tag + a + b"]")
    for a in ipv4_strings("quick", rng)[:1400]:
        out.append(b"[" + a + b"]")
    for a in ipv6_shapes(tier, rng):
        out.append(b"[IPv6:" + a + b"]")
        if tier != "quick":
            out.append(b"[" + a + b"]")
    out += [b"[", b"[]", b"[[]]", b"[1.2.3.4]]", b"[[1.2.3.4]", b"[1.2.3.4][", b"[]1.2.3.4]"]
    # the longest textual forms (45 octets and more) with something after them
    full = [b"1111:2222:3333:4444:5555:6666:255.255.255.255", b"1111:2222:3333:4444:5555:6666:7777:8888", b"::1.2.3." + b"0" * 40 + b"4"]
    for a in full:
        for junk in (b"", b"x", b"%eth0", b"]", b".1", b"9", b"/64", b":1"):
            out += [b"[IPv6:" + a + junk + b"]", b"[" + a + junk + b"]"]
    for n in (255, 256, 259, 260, 261, 516):
        q = b".".join([b"1", b"2"] * (n // 2) + [b"1"] * (n % 2))
        out += [b"[" + q + b"]", b"[IPv6:::ffff:" + q + b"]"]
    # every byte value at every position of the tag (a hand-written case fold maps control bytes onto '6' and ':')
    tag = b"IPv6:"
    for pos in range(5):
        for b in range(1, 256):
            if bytes([b]).lower() == tag[pos:pos + 1].lower():
                continue
            t = tag[:pos] + bytes([b]) + tag[pos + 1:]
            out.append(b"[" + t + b"::1]")
            if tier != "quick" or b < 64:
                out.append(b"[" + t + b"1:2:3:4:5:6:7:8]")
    return out


# --------------------------------------------------------------------------- reserved / TLD

RESERVED = [b"test", b"example", b"invalid", b"localhost", b"onion", b"example.com", b"example.net", b"example.org"]


def one_edits(s, alphabet=b"aex.o"):
    out = set()
    for i in range(len(s) + 1):
        for c in alphabet:
            out.add(s[:i] + bytes([c]) + s[i:])
    for i in range(len(s)):
        out.add(s[:i] + s[i + 1:])
        for c in alphabet:
            out.add(s[:i] + bytes([c]) + s[i + 1:])
    out.discard(s)
    return sorted(out)


def case_patterns(s, rng):
    return [s, s.upper(), bytes(c ^ 0x20 if (chr(c).isalpha() and i % 2 == 0) else c for i, c in enumerate(s)),
            bytes(c ^ 0x20 if (chr(c).isalpha() and rng.random() < 0.5) else c for c in s)]


def special_domains(tier, rng):
    out = []
    lens = list(range(1, 12)) + [62, 63] if tier == "quick" else list(range(1, 64))
    sufs = list(RESERVED)
    for r in RESERVED:
        sufs += one_edits(r)
    sufs += [b"examplea", b"xexample.com", b"example.comm", b"foo.tests", b"example.co", b"example.example", b"example.test",
             b"test.example", b"example.com.com", b"com.example", b"example.co.uk", b"localhost.localdomain", b"a.onion.to"]
    # a reserved name glued to a neighbour by a character that is legal INSIDE a label: never a whole label
    for r in RESERVED:
        for j in (b"-", b"_", b"0"):
            sufs += [b"my" + j + r, b"x" + j + r, r.replace(b".", j + b"x.", 1) if b"." in r else r + j + b"x",
                     b"www.my" + j + r, b"a.b.c.counter" + j + r]
            if b"." in r:
                a, b = r.split(b".", 1)
                sufs += [a + b"." + b"x" + j + b, a + b"." + b + j + b"x", a + j + b]
    sufs = sorted(set(sufs))
    for suf in sufs:
        for cp in case_patterns(suf, rng)[:2 if tier == "quick" else 4]:
            out.append(cp)
            for n in lens:
                out.append(b"a" * n + b"." + cp)
            for n in ([1, 7] if tier == "quick" else [1, 3, 7, 8, 63]):
                for k in ([1, 7] if tier == "quick" else [1, 6, 7, 8]):
                    out.append(b"b" * k + b"." + b"a" * n + b"." + cp)
                    out.append(b"c." + b"b" * k + b"." + b"a" * n + b"." + cp)
            out.append(b"example." + cp)
            # labels with '_' further left (host names only in a LABELS_ALLOW_UNDERSCORE build; the reserved suffix is what counts)
            out += [b"old_days." + cp, b"_dmarc.mail." + cp, b"x_y." + cp, b"a.b_." + cp]
            out.append(b"1234567." + cp)
            out.append(b"a-b-c-d." + cp)
    return out


def tld_labels(table, tier, rng):
    """table: list of tld names (bytes).  Every entry in case variants, every proper prefix, one-character
    extensions, single substitutions, random unlisted labels."""
    out = []
    names = set(table)
    step = 1 if tier != "quick" else 1
    for t in table[::step]:
        out += case_patterns(t, rng)[:3]
        for i in range(1, len(t)):
            out.append(t[:i])
        out.append(t + b"a")
        out.append(t + b"-")
        out.append(b"a" + t)
        k = rng.randrange(len(t))
        out.append(t[:k] + (b"q" if t[k:k + 1] != b"q" else b"z") + t[k + 1:])
        if tier != "quick":
            for k in range(len(t)):
                out.append(t[:k] + (b"q" if t[k:k + 1] != b"q" else b"z") + t[k + 1:])
    # an A-label is its whole spelling: the same tail behind another prefix is another (unlisted) label; so is the tail alone
    for t in table:
        if t.startswith(b"xn--"):
            out += [b"ab--" + t[4:], b"zz--" + t[4:], b"XN-" + t[4:], t[4:], b"x--" + t[4:], b"xn-" + t[4:], b"xxn--" + t[4:]]
    for _ in range(500 if tier == "quick" else 5000):
        out.append(bytes(rng.choice(b"abcdefghijklmnopqrstuvwxyz") for _ in range(rng.randint(2, 8))))
    # bytes that a sloppy case fold (c | 0x20, c ^ 0x20, c & 0x5f) would alias to a listed name
    for t in table:
        if any(not (97 <= c <= 122) for c in t):
            for k, c in enumerate(t):
                if not (97 <= c <= 122):
                    for alias in (c & ~0x20, c | 0x80, c ^ 0x20):
                        if alias not in (0, c):
                            out.append(t[:k] + bytes([alias & 0xff]) + t[k + 1:])
            out.append(bytes((c & ~0x20) if not (97 <= c <= 122) else c for c in t))
            out.append(bytes((c & ~0x20) for c in t))
    for t in table[::25]:
        for k in range(len(t)):
            for alias in (t[k] & 0x1f, t[k] | 0x80, (t[k] & 0x5f) | 0x80):
                if alias:
                    out.append(t[:k] + bytes([alias]) + t[k + 1:])
    return out


# --------------------------------------------------------------------------- whole addresses

E_ALPHA = [b"a", b".", b"@", b"[", b"]", b'"', b"\\", b" ", b"1", b":", b"\x01", b"\x80"]


def long_host(n, tld=b"com", ch=b"a"):
    """a valid host name of exactly n octets (labels of at most 63 letters) ending in .<tld>"""
    rest = n - len(tld) - 1
    labs = []
    while rest > 63:
        k = min(63, rest - 2)            # leave room for a dot and at least one letter
        labs.append(ch * k)
        rest -= k + 1
    labs.append(ch * max(rest, 1))
    return b".".join(labs) + b"." + tld


def email_strings(tier, rng):
    out = list(words(E_ALPHA, 4 if tier == "quick" else 5, 0))
    locs = [b"a", b"a.b", b'"a b"', b'"a@b"', b"a..b", b".a", b'"a', b"a b", b"\xc3\xa9", b'"\\\xc3\xa9"', b"a\x01", b"\xff", b"a" * 64, b"a" * 65, b"", b'"a"b', b'"a".b', b"#a"]
    doms = [b"b.com", b"b", b"b.", b"b..", b"-b.com", b"b_c.com", b"1.2", b"example.com", b"x.test", b"abcdefg.test", b"b.zz", b"b.xn--p1ai",
            "почта.рф".encode(), b"\xff.com", b"[1.2.3.4]", b"[1.2.3.4]x", b"[IPv6:::1]", b"[1:2:3:4:5:6:7:8]", b"[IPv6:1:2]", b"[0.1.2.3]", b"[",
            b"[]", b"", b"b@c.com", b"[1.2.3.4", b"a" * 64 + b".com", b"b.com.", b"B.COM", b"b.co m"]
    for l in locs:
        for d in doms:
            out.append(l + b"@" + d)
    for n in range(60, 70):
        for k in range(0, 4):
            out.append(b"a" * n + b"@" * k + b"b.com")
            out.append(b'"' + b"a" * (n - 2) + b'"' + b"@b.com")
    out += [b"a" * 70, b"@", b"@@", b"a@", b"@b.com", b"a@b@c@d.com"]
    # the 64-OCTET limit with multi-byte characters (fewer than 64 characters, more than 64 octets)
    for ch in ("я", "№", "😀", "é"):
        e = ch.encode()
        for octets in range(60, 70):
            n, r = divmod(octets, len(e))
            l = e * n + b"a" * r
            out += [l + b"@b.com", l + "@почта.рф".encode(), b'"' + l[:-2] + b'"@b.com']
        out.append(e * 64 + b"@b.com")
    # local parts whose length is small only modulo 256 / 65536, and very long local parts in front of a short domain
    for ll in (255, 256, 257, 300, 310, 320, 321, 400, 512, 576, 65536 + 10):
        out += [b"a" * ll + b"@example.com", b"a" * ll + b"@[192.0.2.1]"]
    # a maximum-length local part whose only defect is its LAST octet, and maximum-length quoted strings (a 64-byte copy buffer loses one)
    for bad in (b".", b" ", b"(", b"\x01", b"\xe9", b"\\", b'"', b"@"):
        out += [b"a" * 63 + bad + b"@b.com", b"a." * 31 + b"a" + bad + b"@b.com"]
    out += [b'"' + b"a" * 62 + b'"@b.com', b'"' + b"a" * 61 + b'"@b.com', b'"' + b"a" * 63 + b'"@b.com', b"a" * 62 + b".b@b.com"]
    # domains far beyond every limit whose beginning is a perfectly good name (a bounded copy must not make them valid)
    sh = "\u00ad".encode()
    out += [b"u@abc.com" + sh * 508 + b"!!!", b"u@abc.com" + sh * 600, b"u@" + long_host(253) + b"." + b"x" * 800, b"u@" + long_host(200) + b"!" * 900, b"u@b.com" + b"." + b"a" * 1100]
    # both halves long at once: every limit is per half, there is no limit on the sum
    for ll in (1, 10, 32, 63, 64, 65):
        for dl in (150, 190, 191, 192, 193, 200, 245, 246, 247, 252, 253, 254, 255, 256):
            out.append(b"a" * ll + b"@" + long_host(dl))
        out.append(b'"' + b"a" * (ll - 2) + b'"@' + long_host(253) if ll > 2 else b"a@" + long_host(253))
    for _ in range(500 if tier == "quick" else 10000):
        l = random_local(rng, True, 3)
        d = rng.choice(doms + [b"sub." + x for x in doms[:8]])
        out.append(l + b"@" + d)
    return out


IDN_SAMPLES = ["почта.рф", "ПоЧтА.РФ", "ею.ею", "微博.微博", "在线.在线", "삼성.삼성", "δοκιμή.δοκιμή", "آزمایشی.آزمایشی", "טעסט.טעסט",
               "परीक्षा.परीक्षा", "bücher.de", "straße.de", "I♥NY.de", "☕.de", "a‍b.com", "xn--p1ai.xn--p1ai", "xn--.com",
               "xn--a.com", "ab--c.com", "-a.com", "a-.com", "é" * 60 + ".com", "ж" * 57 + ".рф", "ж" * 70 + ".рф", "a.b.c.d.рф"]
