#!/usr/bin/env python3
"""Run the repository's own test suite (guard off: there are no hooks to switch off) on a scratch
copy of /repo's working tree and compare with the pinned baseline ids in /root/.vp/BASELINE.json.
usage: baseline.py [MAKEVAR=VALUE ...]   (extra make variables, e.g. RFC6531_FOLLOW_RFC5322=ON)"""
import json, os, re, shutil, subprocess, sys, tempfile
REPO = os.environ.get("VERIF_REPO", "/repo")
def main():
    extra = sys.argv[1:]
    tmp = tempfile.mkdtemp(prefix="eav-baseline-")
    try:
        dst = os.path.join(tmp, "repo")
        subprocess.check_call(["rsync", "-a", "--exclude", ".git", REPO + "/", dst + "/"])
        subprocess.call(["make", "-C", dst, "clean"] + extra, stdout=subprocess.DEVNULL, stderr=subprocess.DEVNULL)
        p = subprocess.run(["make", "-C", dst, "-k", "-j8", "check", "VERBOSE=1"] + extra,
                           stdout=subprocess.PIPE, stderr=subprocess.STDOUT)
        out = p.stdout.decode("utf-8", "replace")
        passed = set()
        failed_bins = set()
        for line in out.splitlines():
            m = re.match(r"^PASS: (.*)$", line)
            if m: passed.add(m.group(1))
            m = re.match(r"^(\./t-[\w.-]+\.bin): (PASS|FAIL)", line)
            if m:
                (passed if m.group(2) == "PASS" else failed_bins).add(m.group(1))
        ok = p.returncode == 0 and not failed_bins
        missing = []
        if not extra and os.path.exists("/root/.vp/BASELINE.json"):
            base = json.load(open("/root/.vp/BASELINE.json"))["stable_pass"]
            missing = [b for b in base if b not in passed]
            print(f"baseline ids: {len(base)}  found passing: {len(base) - len(missing)}")
        print(f"make exit={p.returncode} failed test binaries={sorted(failed_bins)} missing={missing[:10]}")
        if not ok or missing:
            sys.stdout.write(out[-3000:])
            return 1
        print("BASELINE OK")
        return 0
    finally:
        shutil.rmtree(tmp, ignore_errors=True)
if __name__ == "__main__":
    sys.exit(main())
