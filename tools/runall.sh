#!/bin/sh
# run every check (quick by default) on the current tree, 4 at a time; summary on stdout
cd "$(dirname "$0")/.." || exit 2
TIER=${1:-quick}
LOGS=$(mktemp -d "${TMPDIR:-/tmp}/eav-runall.XXXXXX") || exit 2
ls evidence >/dev/null 2>&1 || mkdir evidence
for p in C01 C02 C03 C04 C05 C06 C07 C08 C09 C10 C11 C12 C13 C14 C15 C16 C17 C18 C19 C20; do echo $p; done | \
  xargs -P 4 -I{} sh -c "./check {} --tier $TIER > $LOGS/{}.log 2>&1; echo {} exit=\$? \$(grep -c VIOLATION $LOGS/{}.log) violations \$(tail -1 $LOGS/{}.log | sed 's/^.*: //')"
if [ -n "$KEEP_LOGS" ]; then echo "logs in $LOGS"; else rm -rf "$LOGS"; fi
