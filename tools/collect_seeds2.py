#!/usr/bin/env python3
"""collect_seeds2.py [--round N] Cxx ...: confirm the round-N seeds of /tmp/mutN_Cxx/_seed/{1,2} (tools/seedtest.py) and copy the confirmed
ones to /verif/seeded/Cxx-{4,5} (round 2) / Cxx-{6,7} (round 3) with a meta.json"""
import json, os, re, shutil, subprocess, sys
HERE = os.path.dirname(os.path.abspath(__file__)); VERIF = os.path.dirname(HERE)
ROUND = 2
args = sys.argv[1:]
if args and args[0] == "--round":
    ROUND = int(args[1]); args = args[2:]
OFFSET = {2: 3, 3: 5, 4: 7, 5: 9, 6: 11, 7: 13}[ROUND]
for prop in args:
    wt = "/tmp/mut%d_%s" % (ROUND, prop)
    for n in (1, 2):
        sd = os.path.join(wt, "_seed", str(n))
        if not os.path.exists(os.path.join(sd, "patch.diff")):
            print(prop, n, "no patch"); continue
        p = subprocess.run([sys.executable, os.path.join(HERE, "seedtest.py"), wt, sd], stdout=subprocess.PIPE, stderr=subprocess.STDOUT)
        out = p.stdout.decode(errors="replace")
        try:
            conf = json.loads(out[out.index("{"):])
        except Exception:
            conf = {"confirmed": False, "raw": out[-500:]}
        print(prop, n, "confirmed" if conf.get("confirmed") else "NOT CONFIRMED", {k: conf.get(k) for k in ("applies", "with_build", "suite_rc", "suite_fail_bins", "with_demo_rc", "without_demo_rc")}, flush=True)
        if not conf.get("confirmed"):
            continue
        sid = "%s-%d" % (prop, n + OFFSET)
        dst = os.path.join(VERIF, "seeded", sid)
        os.makedirs(dst, exist_ok=True)
        for f in os.listdir(sd):
            pth = os.path.join(sd, f)
            if os.path.isfile(pth) and os.path.getsize(pth) < 200000 and not f.startswith("_demo") and (not os.access(pth, os.X_OK) or f.endswith(".sh")):
                shutil.copy2(pth, os.path.join(dst, f))
            elif os.path.isdir(pth) and os.path.getsize(pth) < 10**6 and sum(len(fs) for _, _, fs in os.walk(pth)) < 40:
                shutil.copytree(pth, os.path.join(dst, f), dirs_exist_ok=True)
        patch = open(os.path.join(sd, "patch.diff")).read()
        notes = open(os.path.join(sd, "notes.md")).read() if os.path.exists(os.path.join(sd, "notes.md")) else ""
        meta = dict(id=sid, property=prop, round=ROUND, files_touched=re.findall(r"^diff --git a/(\S+)", patch, flags=re.M),
                    title=(notes.strip().splitlines()[0].lstrip("# ").strip() if notes.strip() else ""),
                    confirmation={k: conf.get(k) for k in ("applies", "with_build", "suite_rc", "suite_fail_bins", "with_demo_rc", "without_demo_rc", "confirmed")},
                    detected_by={})
        json.dump(meta, open(os.path.join(dst, "meta.json"), "w"), indent=1, ensure_ascii=False)
